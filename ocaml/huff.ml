(* C18 driver: runs the extracted model (Huffman.v) on the case lines of harness/src/huff.rs, and the extracted
   specification (HuffmanSpec.v) for the oracle (`huffspec`). *)

let split_on c s = if s = "-" then [] else String.split_on_char c s

let lens_of s = List.map cn_of_string (split_on ',' s)
let bits_of s = if s = "-" then [] else List.init (String.length s) (fun i -> s.[i] = '1')
let syms_of s =
  List.map (fun e ->
      match String.index_opt e ':' with
      | Some i ->
        let sym = String.sub e 0 i and code = String.sub e (i + 1) (String.length e - i - 1) in
        (cn_of_string sym, List.init (String.length code) (fun j -> code.[j] = '1'))
      | None -> failwith "bad sym") (split_on ';' s)

let fmt_syms ss = if ss = [] then "-" else String.concat "," (List.map string_of_cn ss)

let observe (r : Model.htree Model.res) bits n =
  match r with
  | Ok t ->
    let (ss, rest) = Model.decode_many (nat_of_int n) t.ht_tree bits in
    Printf.sprintf "ok %s %s %d" (string_of_cn t.ht_longest) (fmt_syms ss) (List.length bits - List.length rest)
  | EParse InvalidVp8lPrefixCode -> "err parse InvalidVp8lPrefixCode"
  | EParse _ -> "err parse other"
  | EIo _ -> "err io"
  | Panic _ -> "panic"
  | OutOfFuel -> "out-of-fuel"

let run_huff = function
  | [lens; bits; n] -> observe (Model.new_vec (lens_of lens)) (bits_of bits) (int_of_string n)
  | _ -> "bad-args"

(* huffl <sym:len,...> <bits> <n>: Huffman.new on the pairs in the order listed *)
let run_huffl = function
  | [pairs; bits; n] ->
    let ps = if pairs = "-" then [] else
        List.map (fun p -> match String.split_on_char ':' p with
            | [s; l] -> (cn_of_string s, cn_of_string l) | _ -> failwith "bad pair") (String.split_on_char ',' pairs) in
    observe (Model.new0 ps) (bits_of bits) (int_of_string n)
  | _ -> "bad-args"

let run_huffsym = function
  | [syms; bits; n] -> observe (Model.from_symbols (syms_of syms)) (bits_of bits) (int_of_string n)
  | _ -> "bad-args"

let run_hufftree = function
  | [syms; bits; n] ->
    (match Model.compile (syms_of syms) with
     | Inr InvalidBit -> "err tree InvalidBit"
     | Inr MissingLeaf -> "err tree MissingLeaf"
     | Inr DuplicateLeaf -> "err tree DuplicateLeaf"
     | Inr OrphanedLeaf -> "err tree OrphanedLeaf"
     | Inl f ->
       let b = bits_of bits in
       let (ss, rest) = Model.decode_many (nat_of_int (int_of_string n)) f b in
       Printf.sprintf "ok - %s %d" (fmt_syms ss) (List.length b - List.length rest))
  | _ -> "bad-args"

(* specification side: what the property demands for this code-length vector and bit string *)
let run_spec = function
  | [lens; bits; n] ->
    (match Model.spec_observation (lens_of lens) (nat_of_int (int_of_string n)) (bits_of bits) with
     | None -> "reject"
     | Some ((longest, ss), consumed) ->
       Printf.sprintf "ok %s %s %s" (string_of_cn longest) (fmt_syms ss) (string_of_cn consumed))
  | _ -> "bad-args"

(* tables bitstream-io compiles from the tree (Huffman.total_tables), for C10's heap bound *)
let rec int_of_nat = function Model.O -> 0 | Model.S n -> 1 + int_of_nat n
let run_tabmem = function
  | [lens] ->
    (match Model.new_vec (lens_of lens) with
     | Ok t -> Printf.sprintf "tables=%d rem=0" (int_of_nat (Model.total_tables t.ht_tree))
     | EParse _ -> "reject"
     | _ -> "other")
  | _ -> "bad-args"

let dispatch kind args =
  match kind with
  | "tabmem" -> run_tabmem args
  | "huff" -> run_huff args
  | "huffl" -> run_huffl args
  | "huffc" -> (match args with _cap :: rest -> run_huff rest | [] -> "bad-args")   (* the capacity does not exist in the model *)
  | "huffsym" -> run_huffsym args
  | "hufftree" -> run_hufftree args
  | "huffspec" -> run_spec args
  | _ -> "unknown-kind " ^ kind

let () = main_loop dispatch
