(* vp8l driver (C07, C08): runs the extracted model Vp8l.lossless_read and the extracted specification on the case
   lines of harness/src/vp8l.rs.  The glue only converts text <-> extracted numbers / bytes and prints. *)

let cn_of_int i = cn_of_z (BZ.of_int i)
let byte_tab = Array.init 256 (fun i -> Model.n2b (cn_of_int i))
let unhex s =
  if s = "-" then [] else
  List.init (String.length s / 2) (fun i -> byte_tab.(int_of_string ("0x" ^ String.sub s (2 * i) 2)))

let perr_name (e : Model.perr) = match e with
  | TruncatedChunk -> "TruncatedChunk" | WInvalidInput -> "InvalidInput"
  | InvalidVp8lPrefixCode -> "InvalidVp8lPrefixCode" | InvalidChunkLayout -> "InvalidChunkLayout"
  | _ -> "other"

let show_res (r : unit Model.res) = match r with
  | Ok _ -> "ok"
  | EParse e -> "err:" ^ perr_name e
  | EIo _ -> "err:io"
  | Panic _ -> "panic"
  | OutOfFuel -> "out-of-fuel"

let rule_name (r : Model.rule) = match r with
  | RTruncated -> "truncated" | RDuplicateTransform -> "duplicate-transform" | RCacheBits -> "cache-bits"
  | RSymbolCount -> "symbol-count" | RRepeatOverrun -> "repeat-overrun" | RCodeEmpty -> "code-empty"
  | RCodeIncomplete -> "code-incomplete" | RCodeOverSubscribed -> "code-over-subscribed"
  | RSymbolOutsideAlphabet -> "symbol-outside-alphabet" | RBackrefBeforeStart -> "backref-before-start"
  | RBackrefPastEnd -> "backref-past-end" | RStrictPredictor -> "strict-predictor"
  | RStrictSingleSymbol -> "strict-single-symbol"

let show_why (o : Model.rule option) = match o with None -> "accept" | Some r -> "reject:" ^ rule_name r

(* the specification materialises every sub-image; a sub-image has at most ceil(w/4)*ceil(h/4) pixels *)
let spec_limit = 1 lsl 20

let vp8l_case args =
  match args with
  | [w; h; hex] ->
    let wn = cn_of_string w and hn = cn_of_string h in
    let body = unhex hex in
    let m = show_res (Model.lossless_read wn hn body) in
    let small = int_of_string w <= 16384 && int_of_string h <= 16384 in
    let wi = int_of_string w and hi = int_of_string h in
    if ((wi + 3) / 4) * ((hi + 3) / 4) > spec_limit then
      Printf.sprintf "impl=%s san=%s ref=skip strict=skip" m (if small then m else "na")
    else
      Printf.sprintf "impl=%s san=%s ref=%s strict=%s" m (if small then m else "na")
        (show_why (Model.vp8l_spec_why false wn hn body)) (show_why (Model.vp8l_spec_why true wn hn body))
  | _ -> "bad-args"

(* alphfile <file> <payload>: the harness replaces the ALPH body of a VP8X+ALPH+VP8 file written by libwebp's encoder by
   0x01 ++ payload and sanitizes it; everything else in the file is valid by construction, so the verdict is the model's
   verdict on the payload with the CANVAS dimensions (VP8X is the first chunk: width-1 at byte 24, height-1 at byte 27) *)
let alphfile_case args =
  match args with
  | [file; payload] ->
    let byte i = int_of_string ("0x" ^ String.sub file (2 * i) 2) in
    let le24 i = byte i + 256 * byte (i + 1) + 65536 * byte (i + 2) in
    if String.length file < 60 || String.sub file 24 8 <> "56503858" then "san=not-vp8x"
    else
      let w = le24 24 + 1 and h = le24 27 + 1 in
      Printf.sprintf "san=%s" (show_res (Model.lossless_read (cn_of_int w) (cn_of_int h) (unhex payload)))
  | _ -> "bad-args"

let dispatch kind args =
  match kind with
  | "vp8l" -> vp8l_case args
  | "alphfile" -> alphfile_case args
  | "sanitize" | "enc" | "anim" | "mux" | "muxanim" -> "unmodelled"
  | _ -> "unknown-kind " ^ kind

let () = main_loop dispatch
