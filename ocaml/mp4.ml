(* mp4 area driver: runs the extracted sanitizer model on case lines
   mp4 <reader> <max> <cum|-> <len> <off:hex,off:hex,...|->   *)
let byte_of_int (i : int) : byte = n2b (cn_of_z (BZ.of_int i))
let int_of_byte (b : byte) : int = BZ.to_int (z_of_cn (b2n b))
let byte_tab = Array.init 256 byte_of_int
let bytes_of_hex (s : string) : byte list =
  if s = "-" then [] else
  List.init (String.length s / 2) (fun i -> byte_tab.(int_of_string ("0x" ^ String.sub s (2 * i) 2)))
let hex_of_bytes (l : byte list) : string =
  let b = Buffer.create 64 in
  List.iter (fun x -> Buffer.add_string b (Printf.sprintf "%02x" (int_of_byte x))) l; Buffer.contents b

let show_type t = hex_of_bytes t
let show_perr (e : perr) = match e with
  | InvalidBoxLayout -> "InvalidBoxLayout" | InvalidInput -> "InvalidInput"
  | MissingRequiredBox t -> "MissingRequiredBox:" ^ show_type t | TruncatedBox -> "TruncatedBox"
  | UnsupportedBox t -> "UnsupportedBox:" ^ show_type t | UnsupportedBoxLayout -> "UnsupportedBoxLayout"
  | UnsupportedFormat t -> "UnsupportedFormat:" ^ show_type t
  | InvalidChunkLayout -> "InvalidChunkLayout" | MissingRequiredChunk t -> "MissingRequiredChunk:" ^ show_type t
  | TruncatedChunk -> "TruncatedChunk" | UnsupportedChunk t -> "UnsupportedChunk:" ^ show_type t
  | InvalidVp8lPrefixCode -> "InvalidVp8lPrefixCode" | UnsupportedVp8lVersion _ -> "UnsupportedVp8lVersion"
  | WInvalidInput -> "InvalidInput"
let show_ioerr (e : ioerr) = match e with
  | EOther -> "Other" | EPermissionDenied -> "PermissionDenied" | ETimedOut -> "TimedOut" | EWouldBlock -> "WouldBlock"
  | EInvalidData -> "InvalidData" | EUnexpectedEof -> "UnexpectedEof" | EInvalidInput -> "InvalidInput"
  | EInterrupted -> "Interrupted"

(* canonical metadata text: hex of the prefix up to the last non-zero byte, 'z', number of trailing zeros *)
let show_md (l : byte list) (pad : BZ.t) : string =
  let a = Array.of_list (List.map int_of_byte l) in
  let n = ref (Array.length a) in
  if BZ.sign pad >= 0 then begin
    while !n > 0 && a.(!n - 1) = 0 do decr n done
  end;
  let b = Buffer.create (2 * !n + 16) in
  for i = 0 to !n - 1 do Buffer.add_string b (Printf.sprintf "%02x" a.(i)) done;
  Buffer.add_char b 'z';
  Buffer.add_string b (BZ.to_string (BZ.add pad (BZ.of_int (Array.length a - !n))));
  Buffer.contents b

let show_out (r : out res) : string = match r with
  | Ok o ->
    let sp = o.o_data in
    let tail = " " ^ string_of_cn sp.s_off ^ " " ^ string_of_cn sp.s_len in
    (match o.o_metadata with
     | None -> "ok none" ^ tail
     | Some (md, pad) -> "ok some " ^ show_md md (z_of_cn pad) ^ tail)
  | EParse e -> "err parse " ^ show_perr e
  | EIo e -> "err io " ^ show_ioerr e
  | Panic s -> "panic"
  | OutOfFuel -> "out-of-fuel"

let parse_exts (s : string) : (n * byte list) list =
  if s = "-" then [] else
  List.map (fun e -> match String.split_on_char ':' e with
      | [o; h] -> (cn_of_string o, bytes_of_hex h) | _ -> failwith "ext") (String.split_on_char ',' s)

(* array-backed equivalent of Base.Prog.input_of_exts, used only when the dense extents are large: the extracted definition looks a
   byte up with List.nth, which makes reading a dense extent of n bytes cost n^2 (44 s for 70 KB).  Same first-match semantics
   (extents in order, zero background).  Small inputs keep the extracted definition, so both are exercised by every run. *)
let fast_input_of_exts (len : n) (exts : (n * byte list) list) : input =
  let dense = List.fold_left (fun a (_, l) -> a + List.length l) 0 exts in
  if dense <= 8192 then input_of_exts len exts else
  let es = List.map (fun (o, l) -> let a = Array.of_list l in let zo = z_of_cn o in
                      (zo, BZ.add zo (BZ.of_int (Array.length a)), a)) exts in
  { ilen = len;
    iget = (fun off -> let z = z_of_cn off in
             let rec go = function
               | [] -> byte_tab.(0)
               | (o, e, a) :: r -> if BZ.leq o z && BZ.lt z e then a.(BZ.to_int (BZ.sub z o)) else go r in
             go es) }

let parse_cfg mx cum =
  { max_metadata_size = cn_of_string mx;
    cumulative_mdat_box_size = (if cum = "-" then None else Some (cn_of_string cum)) }

let reader_params rd =
  let u64 = cn_of_string "18446744073709551615" and i64 = cn_of_string "9223372036854775807" in
  match rd with
  | "strict" -> (false, u64)
  | "file" -> (true, i64)
  | _ -> (true, u64)

let run_mp4 args = match args with
  | [rd; mx; cum; len; exts] ->
    let exts = parse_exts exts in
    let total = List.fold_left (fun a (_, l) -> a + List.length l) 0 exts in
    let inp = fast_input_of_exts (cn_of_string len) exts in
    let (lenient, maxseek) = reader_params rd in
    show_out (mp4_sanitize (parse_cfg mx cum) lenient maxseek inp (nat_of_int (total / 8 + 4)))
  | _ -> "bad-args"

(* ---- specification side (Mp4/Spec.v), evaluated on the same inputs; used by the oracles ---- *)
let show_plan = function
  | None -> "none" | Some NoRewrite -> "norewrite" | Some (Pad n) -> "pad:" ^ string_of_cn n
  | Some (Shift d) -> "shift:" ^ string_of_cz d | Some Refuse -> "refuse"
let show_tables = function
  | None -> "none"
  | Some ts -> if ts = [] then "-" else String.concat ";" (List.map (fun (w, es) ->
      string_of_cn w ^ ":" ^ String.concat "," (List.map string_of_cn es)) ts)

(* spec <reader> <max> <cum|-> <len> <exts>  ->  tiling/acceptance/plan/media run as the specification sees them *)
let run_spec args = match args with
  | [_rd; mx; cum; len; exts] ->
    let exts = parse_exts exts in
    let total = List.fold_left (fun a (_, l) -> a + List.length l) 0 exts in
    let inp = fast_input_of_exts (cn_of_string len) exts in
    let cumo = (if cum = "-" then None else Some (cn_of_string cum)) in
    let cfg = { c_max = cn_of_string mx; c_cum = cumo } in
    (match tile (nat_of_int (total / 8 + 4)) cumo inp N0 with
     | None -> "tiling=none"
     | Some bs ->
       let acc = accept_boxes cfg inp bs in
       let run = (match media_run bs with None -> "none" | Some (o, l) -> string_of_cn o ^ "," ^ string_of_cn l) in
       let mdat_inside = (match media_run bs with None -> true | Some sp ->
           List.for_all (fun b -> if is mDAT b then inside sp b else true) bs) in
       let tabs = (if acc then (match last_moov bs with Some m -> show_tables (co_tables (tb_payload inp m)) | None -> "none") else "na") in
       let fp = (if acc then (match the_ftyp bs with Some f -> hex_of_bytes (tb_payload inp f) | None -> "none") else "na") in
       let mp = (if acc then (match last_moov bs with Some m -> hex_of_bytes (tb_payload inp m) | None -> "none") else "na") in
       Printf.sprintf "tiling=%d accept=%b overflow=%b plan=%s run=%s mdat_inside=%b tables=%s ftyp=%s moov=%s"
         (List.length bs) acc (if acc then overflow_case inp bs else false)
         (if acc then show_plan (plan_of inp bs) else "na") run mdat_inside tabs fp mp)
  | _ -> "bad-args"

(* specmd <hex>z<n> : shape of returned metadata *)
let run_specmd args = match args with
  | [md] ->
    (match String.split_on_char 'z' md with
     | [h; z] ->
       let bytes = bytes_of_hex (if h = "" then "-" else h) in
       (* Spec.md_input md z = input_of_exts (|md| + z) [(0, md)] by definition *)
       let inp = (if List.length bytes <= 8192 then md_input bytes (cn_of_string z)
                  else fast_input_of_exts (cn_of_z (BZ.add (BZ.of_int (List.length bytes)) (z_of_cn (cn_of_string z)))) [(cn_of_string "0", bytes)]) in
       (match metadata_shape inp with
        | None -> "shape=none"
        | Some ((fp, mp), pad) ->
          Printf.sprintf "shape=ok explicit=%b pad=%s ftyp=%s moov=%s tables=%s" (explicit_sizes inp) (string_of_cn pad)
            (hex_of_bytes fp) (hex_of_bytes mp) (show_tables (co_tables mp)))
     | _ -> "bad-md")
  | _ -> "bad-args"

let dispatch kind args = match kind with
  | "mp4" -> run_mp4 args
  | "spec" -> run_spec args
  | "specmd" -> run_specmd args
  | _ -> "unknown-kind " ^ kind
let () = main_loop dispatch
