(* prelude, textually prepended to every <area>.ml. verif driver: runs the EXTRACTED Coq model / specification oracles on the same case lines
   as the Rust harness.  stdin: `<id> <kind> <args...>`; stdout: `<id> <canonical observation>`.
   zarith is used only to convert decimal text <-> the extracted inductive Z/N/positive. *)
module BZ = Z
open Model

(* ---- conversions between text and extracted numbers ---- *)
let rec pos_of_z (z : BZ.t) : positive =
  if BZ.equal z BZ.one then XH
  else if BZ.testbit z 0 then XI (pos_of_z (BZ.shift_right z 1))
  else XO (pos_of_z (BZ.shift_right z 1))
let rec z_of_pos (p : positive) : BZ.t =
  match p with XH -> BZ.one | XO q -> BZ.shift_left (z_of_pos q) 1
  | XI q -> BZ.succ (BZ.shift_left (z_of_pos q) 1)
let cz_of_z (z : BZ.t) : Model.z =
  if BZ.sign z = 0 then Z0 else if BZ.sign z > 0 then Zpos (pos_of_z z) else Zneg (pos_of_z (BZ.neg z))
let z_of_cz (c : Model.z) : BZ.t =
  match c with Z0 -> BZ.zero | Zpos p -> z_of_pos p | Zneg p -> BZ.neg (z_of_pos p)
let cz_of_string s = cz_of_z (BZ.of_string s)
let string_of_cz c = BZ.to_string (z_of_cz c)
let cn_of_z (z : BZ.t) : Model.n = if BZ.sign z = 0 then N0 else Npos (pos_of_z z)
let z_of_cn (c : Model.n) : BZ.t = match c with N0 -> BZ.zero | Npos p -> z_of_pos p
let cn_of_string s = cn_of_z (BZ.of_string s)
let string_of_cn c = BZ.to_string (z_of_cn c)
let rec nat_of_int i = if i <= 0 then O else S (nat_of_int (i - 1))

let main_loop dispatch =
  try
    while true do
      let line = input_line stdin in
      match String.split_on_char ' ' (String.trim line) |> List.filter (fun s -> s <> "") with
      | id :: kind :: args ->
        let r = try dispatch kind args with
          | Stack_overflow -> "model-stack-overflow"
          | e -> "model-exception " ^ Printexc.to_string e in
        print_string id; print_char ' '; print_endline r
      | _ -> ()
    done
  with End_of_file -> ()
