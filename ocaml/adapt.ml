(* area "adapt" (C15, C12): runs the extracted adapter models on the harness' case lines *)

(* ---- bytes / hex ---- *)
let byte_of_int i : Model.byte = Model.n2b (cn_of_z (BZ.of_int i))
let int_of_byte (b : Model.byte) : int = BZ.to_int (z_of_cn (Model.b2n b))
let unhex s =
  if s = "-" then [] else
  List.init (String.length s / 2) (fun i -> byte_of_int (int_of_string ("0x" ^ String.sub s (2 * i) 2)))
let hex (l : Model.byte list) = String.concat "" (List.map (fun b -> Printf.sprintf "%02x" (int_of_byte b)) l)
let int_of_cn c = BZ.to_int (z_of_cn c)
let cn_of_int i = cn_of_z (BZ.of_int i)

let u64max = cn_of_string "18446744073709551615"

(* ---- observations ---- *)
exception Model_panic
exception Model_fuel
let ioerr_name (e : Model.ioerr) = match e with
  | EUnexpectedEof -> "UnexpectedEof" | EInvalidInput -> "InvalidInput" | EInvalidData -> "InvalidData"
  | EInterrupted -> "Interrupted" | EWouldBlock -> "WouldBlock" | ETimedOut -> "TimedOut"
  | EPermissionDenied -> "PermissionDenied" | EOther -> "Other"
let fmt_obs (r : Model.obs) = match r with
  | Ok (VBytes []) -> "b:-"
  | Ok (VBytes l) -> "b:" ^ hex l
  | Ok VUnit -> "u"
  | Ok (VNum n) -> "n:" ^ string_of_cn n
  | EIo e -> "e:" ^ ioerr_name e
  | EParse _ -> "e:parse"
  | Panic _ -> raise Model_panic
  | OutOfFuel -> raise Model_fuel

let parse_op s : Model.op =
  let arg () = cn_of_string (String.sub s 1 (String.length s - 1)) in
  match s.[0] with
  | 'r' -> ORead (arg ()) | 'x' -> OReadExact (arg ()) | 's' -> OSkip (arg ())
  | 'p' -> OPos | 'l' -> OLen | _ -> failwith "bad op"
let parse_ops s = if s = "-" then [] else List.filter (fun x -> x <> "") (String.split_on_char ';' s) |> List.map parse_op
let parse_caps s = if s = "-" then [] else List.map cn_of_string (String.split_on_char ',' s)

(* ---- stacks ----  L(X) with L in buf fbuf box mut pin pinmut dynbox seek ain; bases cursor fcursor pc native *)
type stk = Base of string | Layer of string * stk
let parse_stack (s : string) : stk =
  let rec go s =
    match String.index_opt s '(' with
    | None -> Base s
    | Some i -> Layer (String.sub s 0 i, go (String.sub s (i + 1) (String.length s - i - 2)))
  in go s

let cursor_state data pos : Obj.t = Obj.repr { Model.cdata = data; Model.cpos = pos }

(* sparse virtual stream: V<len>@<off>:<hex>@<off>:<hex>... *)
let vspec : (Model.n * (Model.n * Model.byte list) list) option ref = ref None
let parse_vspec (s : string) =
  match String.split_on_char '@' (String.sub s 1 (String.length s - 1)) with
  | len :: exts ->
    (cn_of_string len, List.map (fun e -> match String.split_on_char ':' e with
         | [o; h] -> (cn_of_string o, unhex h) | _ -> failwith "bad-vspec") exts)
  | [] -> failwith "bad-vspec"
let vcur_state () : Obj.t =
  match !vspec with
  | Some (len, exts) -> Obj.repr { Model.v_len = len; Model.v_exts = exts; Model.v_pos = N0 }
  | None -> failwith "bad-vspec"

(* synchronous view of a stack: (reader, initial state); capacities are consumed outermost first *)
let build_sync (st : stk) (caps : Model.n list) data pos : Model.reader * Obj.t =
  let caps = ref caps in
  let next () = match !caps with c :: r -> caps := r; c | [] -> failwith "missing capacity" in
  let rec go st : Model.reader * Obj.t =
    match st with
    | Base "cursor" -> (Model.cursor_reader u64max, cursor_state data pos)
    | Base "fcursor" -> (Model.fut_view (Model.cursor_reader u64max), cursor_state data pos)
    | Base "native" -> (Model.fut_view (Model.cursor_reader u64max), cursor_state data pos)
    | Base "vcur" -> (Model.seekable_reader (Model.vcursor_seeker u64max), vcur_state ())
    | Layer ("seek", Base ("vcur" | "avcur")) -> (Model.seek_adapter (Model.vcursor_seeker u64max), vcur_state ())
    | Layer ("seek", inner) ->
      (* SeekSkipAdapter over a Read + Seek: cursor, &mut cursor, Box<cursor>, futures cursor, PendingCursor *)
      let rec is_cursor = function
        | Base ("cursor" | "fcursor" | "pc") -> true
        | Layer (("mut" | "box"), i) -> is_cursor i
        | _ -> false in
      if not (is_cursor inner) then failwith "unknown-stack";
      (Model.seek_adapter (Model.std_cursor u64max), cursor_state data pos)
    | Layer (("buf" | "fbuf") as l, inner) ->
      let c = next () in
      let (r, s) = go inner in
      ((if l = "buf" then Model.std_buf c r else Model.fut_buf c r), Obj.repr (Model.buf_init r s))
    | Layer (("box" | "mut" | "pin" | "pinmut" | "dynbox"), inner) -> let (r, s) = go inner in (Model.fwd r, s)
    | Layer ("ain", inner) -> let (r, s) = go inner in (Model.async_input r, s)
    | _ -> failwith "unknown-stack"
  in go st

let rec is_async = function
  | Base ("fcursor" | "pc" | "native" | "avcur") -> true
  | Base _ -> false
  | Layer ("ain", _) -> true
  | Layer (_, i) -> is_async i

let run_hist args =
  match args with
  | [stack; caps; data; ops] ->
    let st = parse_stack stack in
    let data = if String.length data > 0 && data.[0] = 'V' then (vspec := Some (parse_vspec data); "-") else data in
    let (r, s) = build_sync st (parse_caps caps) (unhex data) N0 in
    (* on the async side read_exact is always futures' ReadExact over the outermost poll_read *)
    let r = if is_async st then Model.fut_view r else r in
    let (obs, _) = Model.run_ops r (parse_ops ops) s in
    String.concat ";" (List.map fmt_obs obs)
  | _ -> "bad-args"

(* ---- webpsan's ChunkDataReader, driven directly: cdr <depth> <stack> <caps> <data> <ops> ----
   ChunkReader::new wraps the stack in a std BufReader(8); read_any_header = fill_buf (has_remaining), read_exact(8),
   stream_position; the data reader's state is ReadingBody{len} (or no body when len = 0). *)
exception Hdr_err
let le32 (l : Model.byte list) = List.fold_right (fun b acc -> acc * 256 + int_of_byte b) l 0
let chunk_level (r : Model.reader) (s : Obj.t) : Model.reader * Obj.t =
  let cap = cn_of_int 8 in
  let rb = Model.std_buf cap r in
  let sb = Obj.repr (Model.buf_init r s) in
  let sb = (match Model.buf_fill cap r (Obj.obj sb) with (Ok _, s') -> Obj.repr s' | _ -> raise Hdr_err) in
  (match sb |> fun x -> ((Obj.obj x : Obj.t Model.bst).Model.bbuf) with [] -> raise Hdr_err | _ -> ());
  let (hdr, sb) = (match rb.Model.rread_exact cap sb with (Ok h, s') -> (h, s') | _ -> raise Hdr_err) in
  let sb = (match rb.Model.rpos sb with (Ok _, s') -> s' | _ -> raise Hdr_err) in
  let len = le32 (List.filteri (fun i _ -> i >= 4) hdr) in
  let cs = if len = 0 then Model.CNoBody else Model.CBody (cn_of_int len) in
  (Model.chunk_data rb, Obj.repr { Model.cstate_of = cs; Model.cinner = sb })

let run_cdr args =
  match args with
  | [depth; stack; caps; data; ops] ->
    (try
       let (r, s) = build_sync (parse_stack stack) (parse_caps caps) (unhex data) N0 in
       let (r, s) = chunk_level r s in
       let (r, s) = if int_of_string depth >= 2 then chunk_level r s else (r, s) in
       let (obs, _) = Model.run_ops r (parse_ops ops) s in
       String.concat ";" (List.map fmt_obs obs)
     with Hdr_err -> "hdr-err")
  | _ -> "bad-args"

(* ---- poll-level ---- *)
let parse_bits s : bool list =
  if s = "-" then []
  else if s.[0] = '@' then begin
    let idx = String.split_on_char ',' (String.sub s 1 (String.length s - 1)) |> List.filter (fun x -> x <> "")
              |> List.map int_of_string in
    let n = List.fold_left max (-1) idx + 1 in
    List.init n (fun i -> List.mem i idx)
  end else List.init (String.length s) (fun i -> s.[i] = '1')

(* async stack: (areader, initial state, projection to the underlying cursor) *)
let build_async (st : stk) (caps : Model.n list) data pos : Model.areader * Obj.t * (Obj.t -> Model.cur) =
  let caps = ref caps in
  let next () = match !caps with c :: r -> caps := r; c | [] -> failwith "missing capacity" in
  let rec go st =
    match st with
    | Base "native" ->
      (Model.pending_reader (Model.cursor_reader u64max), cursor_state data pos, (fun (o : Obj.t) -> (Obj.obj o : Model.cur)))
    | Layer ("seek", Base "pc") ->
      (Model.aseek_adapter (Model.pending_seeker (Model.std_cursor u64max)), cursor_state data pos,
       (fun (o : Obj.t) -> (Obj.obj o : Model.cur)))
    | Layer ("fbuf", inner) ->
      let c = next () in
      let (a, s, proj) = go inner in
      (Model.afut_buf c a, Obj.repr (Model.buf_init a.Model.ard s),
       (fun (o : Obj.t) -> proj ((Obj.obj o : Obj.t Model.bst).Model.binner)))
    | Layer (("box" | "mut" | "pin" | "pinmut" | "dynbox"), inner) ->
      let (a, s, proj) = go inner in (Model.afwd a, s, proj)
    | _ -> failwith "unknown-stack"
  in go st

let pattern len = List.init len (fun i -> byte_of_int (i mod 251))

let run_sched args =
  match args with
  | stack :: op :: amount :: pos :: len :: bits :: rest ->
    let caps = match rest with c :: _ -> parse_caps c | [] -> [] in
    let prefill = match rest with _ :: p :: _ -> int_of_string p | _ -> 0 in
    let o = match op with "p" | "l" -> parse_op op | _ -> parse_op (op ^ amount) in
    let (a, s0, proj) = build_async (parse_stack stack) caps (pattern (int_of_string len)) (cn_of_string pos) in
    let quiet = { Model.bits = []; Model.npolls = N0 } in
    let s1 =
      if prefill > 0 then
        (match Model.astep a (ORead (cn_of_int prefill)) s0 quiet with
         | Some ((_, s), _) -> s | None -> failwith "drive")
      else s0 in
    (match Model.astep a o s1 { Model.bits = parse_bits bits; Model.npolls = N0 } with
     | None -> "model-drive-out-of-fuel"
     | Some ((v, s2), sc) ->
       (match Model.astep a OPos s2 quiet with
        | None -> "model-drive-out-of-fuel"
        | Some ((sp, s3), _) ->
          Printf.sprintf "%s pos=%s sp=%s polls=%s" (fmt_obs v) (string_of_cn (proj s3).Model.cpos) (fmt_obs sp)
            (string_of_cn sc.Model.npolls)))
  | _ -> "bad-args"

(* ---- sanitizer level: Mp4/San.v's programme over BufReader(32)<base> under a schedule (Base/AsyncSan.v) ---- *)
let show_perr (e : Model.perr) = match e with
  | InvalidBoxLayout -> "InvalidBoxLayout" | InvalidInput -> "InvalidInput"
  | MissingRequiredBox _ -> "MissingRequiredBox" | TruncatedBox -> "TruncatedBox"
  | UnsupportedBox _ -> "UnsupportedBox" | UnsupportedBoxLayout -> "UnsupportedBoxLayout"
  | UnsupportedFormat _ -> "UnsupportedFormat"
  | _ -> "webp-error"
let show_san (r : Model.out Model.res) : string = match r with
  | Ok o ->
    let sp = o.Model.o_data in
    let tail = " " ^ string_of_cn sp.Model.s_off ^ " " ^ string_of_cn sp.Model.s_len in
    (match o.Model.o_metadata with
     | None -> "ok none" ^ tail
     | Some (md, pad) -> "ok some " ^ hex md ^ String.make (2 * int_of_cn pad) '0' ^ tail)
  | EParse e -> "err parse " ^ show_perr e
  | EIo e -> "err io " ^ ioerr_name e
  | Panic _ -> "panic"
  | OutOfFuel -> "model-out-of-fuel"

let run_sanasync args =
  match args with
  | [base; data; bits] ->
    let data = unhex data in
    let (a, s0, _) = build_async (parse_stack base) [] data N0 in
    let cfg = { Model.max_metadata_size = Model.dEFAULT_MAX_METADATA_SIZE; Model.cumulative_mdat_box_size = None } in
    let prog = Model.sanitize_prog cfg (nat_of_int (List.length data / 8 + 4)) in
    let st = Model.buf_init a.Model.ard s0 in
    let (sr, _) = Model.run_san_sync Model.bOXHEADER_MAX_SIZE a prog st in
    (match Model.run_san_sched Model.bOXHEADER_MAX_SIZE a prog st { Model.bits = parse_bits bits; Model.npolls = N0 } with
     | None -> "model-drive-out-of-fuel"
     | Some ((r, _), sc) ->
       Printf.sprintf "sync=[%s] async=[%s] polls=%s" (show_san sr) (show_san r) (string_of_cn sc.Model.npolls))
  | _ -> "bad-args"

let dispatch kind args =
  try
    match kind with
    | "hist" -> run_hist args
    | "sched" -> run_sched args
    | "cdr" -> run_cdr args
    | "sanasync" -> run_sanasync args
    | _ -> "unknown-kind " ^ kind
  with
  | Model_panic -> "panic"
  | Model_fuel -> "model-out-of-fuel"
  | Failure m when m = "unknown-stack" -> "unknown-stack"

let () = main_loop dispatch
