(* webp container area driver.
   webp  <reader> <allow:0|1> <len> <exts> <table>   -> model result (+ " need w,h,hex;..." for lossless queries
                                                        that the table does not answer)
   wspec <reader> <allow> <len> <exts> <table>       -> specification verdict (Webp/Grammar.v)
   table: "-" or "w,h,hex=ok;w,h,hex=TruncatedChunk;..." : verdicts of the lossless validator (parameter of the
   container model and of the grammar), obtained from the implementation's own LosslessImage::read. *)
let byte_of_int (i : int) : byte = x_n2b (cn_of_z (BZ.of_int i))
let int_of_byte (b : byte) : int = BZ.to_int (z_of_cn (x_b2n b))
let byte_tab = Array.init 256 byte_of_int
let bytes_of_hex (s : string) : byte list =
  if s = "-" then [] else
  List.init (String.length s / 2) (fun i -> byte_tab.(int_of_string ("0x" ^ String.sub s (2 * i) 2)))
let hex_of_bytes (l : byte list) : string =
  let b = Buffer.create 64 in
  List.iter (fun x -> Buffer.add_string b (Printf.sprintf "%02x" (int_of_byte x))) l; Buffer.contents b
let show_perr (e : perr) = match e with
  | InvalidBoxLayout -> "InvalidBoxLayout" | InvalidInput -> "InvalidInput"
  | MissingRequiredBox t -> "MissingRequiredBox:" ^ hex_of_bytes t | TruncatedBox -> "TruncatedBox"
  | UnsupportedBox t -> "UnsupportedBox:" ^ hex_of_bytes t | UnsupportedBoxLayout -> "UnsupportedBoxLayout"
  | UnsupportedFormat t -> "UnsupportedFormat:" ^ hex_of_bytes t
  | InvalidChunkLayout -> "InvalidChunkLayout" | MissingRequiredChunk t -> "MissingRequiredChunk:" ^ hex_of_bytes t
  | TruncatedChunk -> "TruncatedChunk" | UnsupportedChunk t -> "UnsupportedChunk:" ^ hex_of_bytes t
  | InvalidVp8lPrefixCode -> "InvalidVp8lPrefixCode" | UnsupportedVp8lVersion _ -> "UnsupportedVp8lVersion"
  | WInvalidInput -> "InvalidInput"
let show_ioerr (e : ioerr) = match e with
  | EOther -> "Other" | EPermissionDenied -> "PermissionDenied" | ETimedOut -> "TimedOut" | EWouldBlock -> "WouldBlock"
  | EInvalidData -> "InvalidData" | EUnexpectedEof -> "UnexpectedEof" | EInvalidInput -> "InvalidInput"
  | EInterrupted -> "Interrupted"
let show_res (r : unit res) = match r with
  | Ok _ -> "ok" | EParse e -> "err parse " ^ show_perr e | EIo e -> "err io " ^ show_ioerr e
  | Panic _ -> "panic" | OutOfFuel -> "out-of-fuel"
let perr_of_string s = match s with
  | "TruncatedChunk" -> TruncatedChunk | "InvalidInput" -> WInvalidInput | "InvalidVp8lPrefixCode" -> InvalidVp8lPrefixCode
  | "InvalidChunkLayout" -> InvalidChunkLayout | _ -> WInvalidInput

let parse_exts (s : string) : (n * byte list) list =
  if s = "-" then [] else
  List.map (fun e -> match String.split_on_char ':' e with
      | [o; h] -> (cn_of_string o, bytes_of_hex h) | _ -> failwith "ext") (String.split_on_char ',' s)
let parse_table (s : string) : (string, string) Hashtbl.t =
  let t = Hashtbl.create 16 in
  if s <> "-" then List.iter (fun kv -> match String.split_on_char '=' kv with
      | [k; v] -> Hashtbl.replace t k v | _ -> ()) (String.split_on_char ';' s);
  t
let reader_params rd =
  let u64 = cn_of_string "18446744073709551615" and i64 = cn_of_string "9223372036854775807" in
  match rd with "strict" -> (false, u64) | "file" -> (true, i64) | _ -> (true, u64)

let key w h body = string_of_cn w ^ "," ^ string_of_cn h ^ "," ^ (let s = hex_of_bytes body in if s = "" then "-" else s)

(* array-backed equivalent of Base.Prog.input_of_exts for large dense extents (see ocaml/mp4.ml) *)
let fast_input_of_exts (len : n) (exts : (n * byte list) list) : input =
  let dense = List.fold_left (fun a (_, l) -> a + List.length l) 0 exts in
  if dense <= 8192 then x_input_of_exts len exts else
  let es = List.map (fun (o, l) -> let a = Array.of_list l in let zo = z_of_cn o in
                      (zo, BZ.add zo (BZ.of_int (Array.length a)), a)) exts in
  { ilen = len;
    iget = (fun off -> let z = z_of_cn off in
             let rec go = function
               | [] -> byte_tab.(0)
               | (o, e, a) :: r -> if BZ.leq o z && BZ.lt z e then a.(BZ.to_int (BZ.sub z o)) else go r in
             go es) }

let run_webp args = match args with
  | [rd; allow; len; exts; table] ->
    let exts = parse_exts exts in
    let total = List.fold_left (fun a (_, l) -> a + List.length l) 0 exts in
    let inp = fast_input_of_exts (cn_of_string len) exts in
    let need = ref [] in
    (* the lossless validator of the model is the extracted Webp/Vp8l.v lossless_read *)
    let lossless w h body = x_lossless_read w h body in
    let (lenient, maxseek) = reader_params rd in
    let r = x_webp_sanitize lossless (allow = "1") lenient maxseek inp (nat_of_int (total / 8 + 4)) in
    show_res r ^ (if !need = [] then "" else " need " ^ String.concat ";" (List.rev !need))
  | _ -> "bad-args"

let run_wspec args = match args with
  | [_rd; allow; len; exts; table] ->
    let exts = parse_exts exts in
    let total = List.fold_left (fun a (_, l) -> a + List.length l) 0 exts in
    let inp = fast_input_of_exts (cn_of_string len) exts in
    let tbl = parse_table table in
    let need = ref [] in
    let lossless_ok w h body =
      let k = key w h body in
      (match Hashtbl.find_opt tbl k with Some "ok" -> true | Some _ -> false | None -> need := k :: !need; true) in
    let v = x_webp_spec_with lossless_ok (allow = "1") inp (nat_of_int (total / 8 + 4)) in
    (match v with Some true -> "true" | Some false -> "false" | None -> "out-of-fuel") ^ (if !need = [] then "" else " need " ^ String.concat ";" (List.rev !need))
  | _ -> "bad-args"

let dispatch kind args = match kind with
  | "webp" -> run_webp args
  | "wspec" -> run_wspec args
  | _ -> "unknown-kind " ^ kind
let () = main_loop dispatch
