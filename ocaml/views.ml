(* views area driver (C11): the extracted MP4 sanitizer programme run through the extracted adapter-stack readers.
   views <mp4|webp> <max|-> <cum|-> <hexdata|-> <view,view,...> [<file max_seek>]      (see harness/src/views.rs) *)
let byte_of_int (i : int) : byte = n2b (cn_of_z (BZ.of_int i))
let int_of_byte (b : byte) : int = BZ.to_int (z_of_cn (b2n b))
let byte_tab = Array.init 256 byte_of_int
let bytes_of_hex (s : string) : byte list =
  if s = "-" then [] else
  List.init (String.length s / 2) (fun i -> byte_tab.(int_of_string ("0x" ^ String.sub s (2 * i) 2)))
let hex_of_bytes (l : byte list) : string =
  let b = Buffer.create 64 in
  List.iter (fun x -> Buffer.add_string b (Printf.sprintf "%02x" (int_of_byte x))) l; Buffer.contents b

let show_perr (e : perr) = match e with
  | InvalidBoxLayout -> "InvalidBoxLayout" | InvalidInput -> "InvalidInput"
  | MissingRequiredBox t -> "MissingRequiredBox:" ^ hex_of_bytes t | TruncatedBox -> "TruncatedBox"
  | UnsupportedBox t -> "UnsupportedBox:" ^ hex_of_bytes t | UnsupportedBoxLayout -> "UnsupportedBoxLayout"
  | UnsupportedFormat t -> "UnsupportedFormat:" ^ hex_of_bytes t
  | _ -> "OtherParseError"
let show_ioerr (e : ioerr) = match e with
  | EOther -> "Other" | EPermissionDenied -> "PermissionDenied" | ETimedOut -> "TimedOut" | EWouldBlock -> "WouldBlock"
  | EInvalidData -> "InvalidData" | EUnexpectedEof -> "UnexpectedEof" | EInvalidInput -> "InvalidInput"
  | EInterrupted -> "Interrupted"

let show_md (l : byte list) (pad : BZ.t) : string =
  let a = Array.of_list (List.map int_of_byte l) in
  let n = ref (Array.length a) in
  while !n > 0 && a.(!n - 1) = 0 do decr n done;
  let b = Buffer.create (2 * !n + 16) in
  for i = 0 to !n - 1 do Buffer.add_string b (Printf.sprintf "%02x" a.(i)) done;
  Buffer.add_char b 'z';
  Buffer.add_string b (BZ.to_string (BZ.add pad (BZ.of_int (Array.length a - !n))));
  Buffer.contents b

let show_out (r : out res) : string = match r with
  | Ok o ->
    let sp = o.o_data in
    let tail = " " ^ string_of_cn sp.s_off ^ " " ^ string_of_cn sp.s_len in
    (match o.o_metadata with
     | None -> "ok none" ^ tail
     | Some (md, pad) -> "ok some " ^ show_md md (z_of_cn pad) ^ tail)
  | EParse e -> "err parse " ^ show_perr e
  | EIo e -> "err io " ^ show_ioerr e
  | Panic _ -> "panic"
  | OutOfFuel -> "out-of-fuel"

let u64max = cn_of_string "18446744073709551615"
let default_max = cn_of_string "1073741824"

let split_on c s = List.filter (fun x -> x <> "") (String.split_on_char c s)

(* "L1(L2(base))" -> (layer names outermost first, base name); longer base names first *)
let parse_stack (s : string) : string list * string =
  let bases = ["seek(mut(cursor))"; "seek(fcursor)"; "seek(achunk)"; "seek(cursor)"; "seek(file)"; "seek(chunk)";
               "fcursor"; "reffile"; "cursor"; "file"; "chunk"] in
  let n = String.length s in
  let count_open str = List.length (String.split_on_char '(' str) - 1 in
  let try_base b =
    let m = String.length b in
    let rec at i =
      if i + m > n then None
      else if String.sub s i m = b then begin
        let prefix = String.sub s 0 i in
        let d = count_open prefix in
        let rest = String.sub s (i + m) (n - i - m) in
        if rest = String.make d ')' && (prefix = "" || prefix.[i - 1] = '(') then Some (prefix, b) else at (i + 1)
      end else at (i + 1) in
    at 0 in
  let rec find = function
    | [] -> failwith "unknown-stack"
    | b :: rest -> (match try_base b with Some r -> r | None -> find rest) in
  let (prefix, base) = find bases in
  (split_on '(' prefix, base)

let build (view : string) (file_ms : n) : bool * bool * n * stk =
  match String.split_on_char '/' view with
  | [entry; stack; caps; chunks] ->
    let caps = ref (if caps = "-" then [] else List.map cn_of_string (String.split_on_char '.' caps)) in
    let sizes = if chunks = "-" then [] else List.map cn_of_string (String.split_on_char '.' chunks) in
    let next () = match !caps with c :: r -> caps := r; (if c = N0 then cn_of_string "8192" else c) | [] -> failwith "missing capacity" in
    let (layers, base) = parse_stack stack in
    let (bottom, ms) = match base with
      | "cursor" | "fcursor" -> (SCursor [], u64max)
      | "chunk" -> (SCursor sizes, u64max)
      | "file" | "reffile" -> (SCursor [], file_ms)
      | "seek(cursor)" | "seek(mut(cursor))" | "seek(fcursor)" -> (SSeek [], u64max)
      | "seek(chunk)" | "seek(achunk)" -> (SSeek sizes, u64max)
      | "seek(file)" -> (SSeek [], file_ms)
      | _ -> failwith "unknown-stack" in
    (* capacities are listed outermost first *)
    let rec wrap = function
      | [] -> bottom
      | l :: rest ->
        (match l with
         | "buf" -> let c = next () in SBuf (c, wrap rest)
         | "fbuf" -> let c = next () in SFBuf (c, wrap rest)
         | "box" | "mut" | "pin" | "dynbox" | "dyn" -> SFwd (wrap rest)
         | _ -> failwith "unknown-stack") in
    let st = wrap layers in
    let sync_entry = (entry = "s" || entry = "sc") in
    let with_config = (entry = "sc" || entry = "ac") in
    (sync_entry, with_config, ms, st)
  | _ -> failwith "bad-view"

let run_views_at (k : n) args = match args with
  | kind :: mx :: cum :: data :: views :: rest ->
    if kind <> "mp4" then "-" else
    let file_ms = (match rest with m :: _ -> cn_of_string m | [] -> cn_of_string "9223372036854775807") in
    let data = bytes_of_hex data in
    let cfg_line = { max_metadata_size = (if mx = "-" then default_max else cn_of_string mx);
                     cumulative_mdat_box_size = (if cum = "-" then None else Some (cn_of_string cum)) } in
    let cfg_default = { max_metadata_size = default_max; cumulative_mdat_box_size = None } in
    let fuel = nat_of_int (List.length data / 8 + 4) in
    let vs = String.split_on_char ',' views in
    let results = List.map (fun v ->
        try
          let (sync_entry, with_config, ms, st) = build v file_ms in
          let cfg = if with_config then cfg_line else cfg_default in
          let rd = mp4_view sync_entry ms st in
          let (r, _) = run rd (sanitize_prog cfg fuel) (Obj.magic (mp4_view_init_at k sync_entry ms st data)) in
          show_out r
        with Failure m -> m) vs in
    let first = List.hd results in
    let diffs = List.filter (fun (_, r) -> r <> first) (List.combine vs results) in
    if diffs = [] then Printf.sprintf "all=%d %s" (List.length results) first
    else "diff " ^ first ^ " ## " ^ String.concat " ## " (List.map (fun (v, r) -> v ^ " => " ^ r) diffs)
  | _ -> "bad-args"

let run_views args = run_views_at N0 args

let dispatch kind args = match kind with
  | "views" -> run_views args
  | "viewsat" -> (match args with k :: rest -> run_views_at (cn_of_string k) rest | [] -> "bad-args")
  | "fsmax" -> "-"
  | _ -> "unknown-kind " ^ kind
let () = main_loop dispatch
