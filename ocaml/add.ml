(* C20 driver *)

let run_add args =
  match args with
  | [w; x; y] ->
    let wz = if w = "size" then "64" else w in
    (match Model.checked_add_signed (cz_of_string wz) (cz_of_string x) (cz_of_string y) with
     | Some v -> "some " ^ string_of_cz v
     | None -> "none")
  | _ -> "bad-args"

let dispatch kind args =
  match kind with
  | "add" -> run_add args
  | _ -> "unknown-kind " ^ kind

let () = main_loop dispatch
