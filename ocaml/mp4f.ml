(* mp4f area driver (C13 fault injection, C10 metering): runs the extracted MP4 sanitizer model over the Level-B reader
   (futures BufReader(32) over the input, Base/BufLevel.v) on case lines
     fault <sync|async> <k|-> <Kind> <reader> <max> <cum|-> <len> <off:hex,...|->   -> result
     count <reader> <max> <cum|-> <len> <exts>                                       -> n=<inner ops> <result>
     meter <reader> <max> <cum|-> <len> <exts>                                       -> <result> | <inner trace> | allocs=.. ab=..
     tiles <reader> <max> <cum|-> <len> <exts>                                       -> specification-side tiling *)
let byte_of_int (i : int) : byte = n2b (cn_of_z (BZ.of_int i))
let int_of_byte (b : byte) : int = BZ.to_int (z_of_cn (b2n b))
let byte_tab = Array.init 256 byte_of_int
let bytes_of_hex (s : string) : byte list =
  if s = "-" then [] else
  List.init (String.length s / 2) (fun i -> byte_tab.(int_of_string ("0x" ^ String.sub s (2 * i) 2)))
let hex_of_bytes (l : byte list) : string =
  let b = Buffer.create 64 in
  List.iter (fun x -> Buffer.add_string b (Printf.sprintf "%02x" (int_of_byte x))) l; Buffer.contents b

let show_type t = hex_of_bytes t
let show_perr (e : perr) = match e with
  | InvalidBoxLayout -> "InvalidBoxLayout" | InvalidInput -> "InvalidInput"
  | MissingRequiredBox t -> "MissingRequiredBox:" ^ show_type t | TruncatedBox -> "TruncatedBox"
  | UnsupportedBox t -> "UnsupportedBox:" ^ show_type t | UnsupportedBoxLayout -> "UnsupportedBoxLayout"
  | UnsupportedFormat t -> "UnsupportedFormat:" ^ show_type t
  | InvalidChunkLayout -> "InvalidChunkLayout" | MissingRequiredChunk t -> "MissingRequiredChunk:" ^ show_type t
  | TruncatedChunk -> "TruncatedChunk" | UnsupportedChunk t -> "UnsupportedChunk:" ^ show_type t
  | InvalidVp8lPrefixCode -> "InvalidVp8lPrefixCode" | UnsupportedVp8lVersion _ -> "UnsupportedVp8lVersion"
  | WInvalidInput -> "InvalidInput"
let show_ioerr (e : ioerr) = match e with
  | EOther -> "Other" | EPermissionDenied -> "PermissionDenied" | ETimedOut -> "TimedOut" | EWouldBlock -> "WouldBlock"
  | EInvalidData -> "InvalidData" | EUnexpectedEof -> "UnexpectedEof" | EInvalidInput -> "InvalidInput"
  | EInterrupted -> "Interrupted"
let ioerr_of_string = function
  | "Other" -> EOther | "PermissionDenied" -> EPermissionDenied | "TimedOut" -> ETimedOut | "WouldBlock" -> EWouldBlock
  | "InvalidData" -> EInvalidData | "UnexpectedEof" -> EUnexpectedEof | "InvalidInput" -> EInvalidInput
  | "Interrupted" -> EInterrupted | s -> failwith ("kind " ^ s)

(* canonical metadata text: hex of the prefix up to the last non-zero byte, 'z', number of trailing zeros *)
let show_md (l : byte list) (pad : BZ.t) : string =
  let a = Array.of_list (List.map int_of_byte l) in
  let n = ref (Array.length a) in
  while !n > 0 && a.(!n - 1) = 0 do decr n done;
  let b = Buffer.create (2 * !n + 16) in
  for i = 0 to !n - 1 do Buffer.add_string b (Printf.sprintf "%02x" a.(i)) done;
  Buffer.add_char b 'z';
  Buffer.add_string b (BZ.to_string (BZ.add pad (BZ.of_int (Array.length a - !n))));
  Buffer.contents b

let show_out (r : out res) : string = match r with
  | Ok o ->
    let sp = o.o_data in
    let tail = " " ^ string_of_cn sp.s_off ^ " " ^ string_of_cn sp.s_len in
    (match o.o_metadata with
     | None -> "ok none" ^ tail
     | Some (md, pad) -> "ok some " ^ show_md md (z_of_cn pad) ^ tail)
  | EParse e -> "err parse " ^ show_perr e
  | EIo e -> "err io " ^ show_ioerr e
  | Panic s -> "panic"
  | OutOfFuel -> "out-of-fuel"

let parse_exts (s : string) : (n * byte list) list =
  if s = "-" then [] else
  List.map (fun e -> match String.split_on_char ':' e with
      | [o; h] -> (cn_of_string o, bytes_of_hex h) | _ -> failwith "ext") (String.split_on_char ',' s)

(* array-backed equivalent of Base.Prog.input_of_exts for large dense extents (see ocaml/mp4.ml) *)
let fast_input_of_exts (len : n) (exts : (n * byte list) list) : input =
  let dense = List.fold_left (fun a (_, l) -> a + List.length l) 0 exts in
  if dense <= 8192 then input_of_exts len exts else
  let es = List.map (fun (o, l) -> let a = Array.of_list l in let zo = z_of_cn o in
                      (zo, BZ.add zo (BZ.of_int (Array.length a)), a)) exts in
  { ilen = len;
    iget = (fun off -> let z = z_of_cn off in
             let rec go = function
               | [] -> byte_tab.(0)
               | (o, e, a) :: r -> if BZ.leq o z && BZ.lt z e then a.(BZ.to_int (BZ.sub z o)) else go r in
             go es) }

let parse_cfg mx cum =
  { max_metadata_size = cn_of_string mx;
    cumulative_mdat_box_size = (if cum = "-" then None else Some (cn_of_string cum)) }

let u64 = cn_of_string "18446744073709551615"
let lenient_of rd = (rd <> "strict")

let setup rd mx cum len exts =
  let exts = parse_exts exts in
  let total = List.fold_left (fun a (_, l) -> a + List.length l) 0 exts in
  (parse_cfg mx cum, lenient_of rd, fast_input_of_exts (cn_of_string len) exts, nat_of_int (total / 8 + 4))

let show_event (e : ievent) : string =
  let off = string_of_cn e.ie_off in
  let tail = (match e.ie_err with Some k -> "!" ^ show_ioerr k | None -> "") in
  match e.ie_op with
  | IRead n -> "r" ^ off ^ "+" ^ string_of_cn n ^ (if tail = "" then "=" ^ string_of_cn e.ie_ret else tail)
  | ISkip n -> "s" ^ off ^ "+" ^ string_of_cn n ^ tail
  | IPos -> "p" ^ off ^ tail
  | ILen -> "l" ^ off ^ (if tail = "" then "=" ^ string_of_cn e.ie_ret else tail)

let run_fault args = match args with
  | [_entry; k; kind; rd; mx; cum; len; exts] ->
    let (cfg, lenient, inp, fuel) = setup rd mx cum len exts in
    let fault = (if k = "-" then None else Some (cn_of_string k, ioerr_of_string kind)) in
    let ((r, _), _) = mp4_sanitize_b cfg lenient u64 inp fuel fault in
    show_out r
  | _ -> "bad-args"

let run_count args = match args with
  | [rd; mx; cum; len; exts] ->
    let (cfg, lenient, inp, fuel) = setup rd mx cum len exts in
    let ((r, n), _) = mp4_sanitize_b cfg lenient u64 inp fuel None in
    "n=" ^ string_of_cn n ^ " " ^ show_out r
  | _ -> "bad-args"

let run_meter args = match args with
  | [rd; mx; cum; len; exts] ->
    let (cfg, lenient, inp, fuel) = setup rd mx cum len exts in
    let ((r, _), tr) = mp4_sanitize_b cfg lenient u64 inp fuel None in
    let abstract = mp4_sanitize cfg lenient u64 inp fuel in
    let allocs = mp4_allocs cfg lenient u64 inp fuel in
    Printf.sprintf "%s | %s | allocs=%s ab=%d" (show_out r)
      (if tr = [] then "-" else String.concat "," (List.map show_event tr))
      (if allocs = [] then "-" else String.concat "," (List.map string_of_cn allocs))
      (if show_out abstract = show_out r then 1 else 0)
  | _ -> "bad-args"

(* specification side (Mp4/Spec.v): the top-level tiling of the input *)
let run_tiles args = match args with
  | [_rd; _mx; cum; len; exts] ->
    let exts = parse_exts exts in
    let total = List.fold_left (fun a (_, l) -> a + List.length l) 0 exts in
    let inp = fast_input_of_exts (cn_of_string len) exts in
    let cumo = (if cum = "-" then None else Some (cn_of_string cum)) in
    (* Spec.tile with an explicit fuel (every box that is present has at least 8 bytes present); Spec.tiling's own fuel
       ilen/8 is a unary number and cannot be built for multi-GiB sparse streams *)
    (match tile (nat_of_int (total / 8 + 4)) cumo inp N0 with
     | None -> "tiling=none"
     | Some bs -> Printf.sprintf "tiling=%d %s" (List.length bs)
                    (if bs = [] then "-" else String.concat "," (List.map (fun b ->
                         Printf.sprintf "%s:%s:%s:%s" (string_of_cn b.tb_off) (string_of_cn b.tb_hlen) (string_of_cn b.tb_size)
                           (hex_of_bytes b.tb_type)) bs)))
  | _ -> "bad-args"

let dispatch kind args = match kind with
  | "fault" -> run_fault args
  | "count" -> run_count args
  | "meter" -> run_meter args
  | "tiles" -> run_tiles args
  | "meterx" -> "model-skipped"            (* implementation-only cases (see lib/props/c10.py) *)
  | _ -> "unknown-kind " ^ kind
let () = main_loop dispatch
