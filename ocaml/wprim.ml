(* C17 driver: the extracted WebmPrim / ParseChunk models on
   `pparse <type> <hex>`, `pput <type> <value>`, `cparse <chunk> <hex>`. *)

let int_of_cn n = BZ.to_int (z_of_cn n)
let byte_of_int i = Model.n2b (cn_of_z (BZ.of_int i))
let int_of_byte b = int_of_cn (Model.b2n b)
let unhex s : Model.byte list =
  if s = "-" then [] else
  List.init (String.length s / 2) (fun i -> byte_of_int (int_of_string ("0x" ^ String.sub s (2 * i) 2)))
let hex (l : Model.byte list) : string =
  String.concat "" (List.map (fun b -> Printf.sprintf "%02x" (int_of_byte b)) l)
let rec int_of_nat = function Model.O -> 0 | Model.S n -> 1 + int_of_nat n

let prim_of_string = function
  | "u8" -> Some Model.PU8 | "u16" -> Some Model.PU16 | "u32" -> Some Model.PU32 | "u64" -> Some Model.PU64
  | "i8" -> Some Model.PI8 | "i16" -> Some Model.PI16 | "i32" -> Some Model.PI32 | "i64" -> Some Model.PI64
  | "fourcc" -> Some Model.PFourCC | "u24" -> Some Model.PU24 | "ob24" -> Some Model.POB24
  | "res0" -> Some (Model.PReserved (nat_of_int 0)) | "res1" -> Some (Model.PReserved (nat_of_int 1))
  | "res2" -> Some (Model.PReserved (nat_of_int 2)) | "res3" -> Some (Model.PReserved (nat_of_int 3))
  | "res4" -> Some (Model.PReserved (nat_of_int 4)) | "res8" -> Some (Model.PReserved (nat_of_int 8))
  | "vp8xflags" -> Some Model.PVp8xFlags | "anmfflags" -> Some Model.PAnmfFlags | "alphflags" -> Some Model.PAlphFlags
  | "chunkheader" -> Some Model.PChunkHeader
  | _ -> None

let chunk_of_string = function
  | "vp8x" -> Some Model.CVp8x | "anim" -> Some Model.CAnim | "anmf" -> Some Model.CAnmf
  | "alph" -> Some Model.CAlph | "webp" -> Some Model.CWebp | _ -> None

let show_val = function
  | Model.VN n -> string_of_cn n
  | Model.VZ z -> string_of_cz z
  | Model.VB b -> hex b
  | Model.VU -> "-"
  | Model.VH (name, len) -> hex name ^ ":" ^ string_of_cn len

let perr_str = function
  | Model.WInvalidInput -> "InvalidInput" | Model.TruncatedChunk -> "TruncatedChunk"
  | Model.InvalidChunkLayout -> "InvalidChunkLayout" | _ -> "Other"

let hex_or_dash l = if l = [] then "-" else hex l

let pparse args =
  match args with
  | [ty; hx] ->
    (match prim_of_string ty with
     | None -> "unknown-type " ^ ty
     | Some p ->
       (match Model.prim_parse p (unhex hx) with
        | Model.EParse e -> "err parse " ^ perr_str e
        | Model.Panic _ -> "panic"
        | Model.Ok (v, rest) ->
          let put = Model.prim_put p v in
          let back = (match Model.prim_parse p (put @ rest) with
              | Model.Ok (v2, r2) -> if Model.pval_eqb v2 v && r2 = rest then "ok" else "differ"
              | Model.Panic _ -> "panic"
              | _ -> "err") in
          if back = "panic" then "panic" else
          Printf.sprintf "ok %s rem=%d elen=%d put=%s back=%s" (show_val v) (List.length rest)
            (int_of_nat (Model.prim_len p)) (hex put) back
        | _ -> "other"))
  | _ -> "bad-args"

let value_of_string p s =
  try
    (match p with
     | Model.PU8 | Model.PU16 | Model.PU32 | Model.PU64 | Model.PVp8xFlags | Model.PAnmfFlags | Model.PAlphFlags ->
       if String.length s > 0 && s.[0] = '-' then None else Some (Model.VN (cn_of_string s))
     | Model.PI8 | Model.PI16 | Model.PI32 | Model.PI64 -> Some (Model.VZ (cz_of_string s))
     | Model.PFourCC -> Some (Model.VB (unhex s))
     | Model.PChunkHeader ->
       (match String.split_on_char ':' s with
        | [n; l] -> Some (Model.VH (unhex n, cn_of_string l))
        | _ -> None)
     | _ -> None)
  with _ -> None

let pput args =
  match args with
  | [ty; a] ->
    (match prim_of_string ty with
     | None -> "unknown-type " ^ ty
     | Some p ->
       (match value_of_string p a with
        | None -> "novalue"
        | Some v ->
          if not (Model.prim_wf p v) then "novalue" else
          let put = Model.prim_put p v in
          let back = (match Model.prim_parse p put with
              | Model.Ok (v2, r) -> Printf.sprintf "ok:%s:%d" (show_val v2) (List.length r)
              | Model.EParse e -> "err:" ^ perr_str e
              | Model.Panic _ -> "panic"
              | _ -> "other") in
          if back = "panic" then "panic" else
          Printf.sprintf "put=%s elen=%d back=%s" (hex_or_dash put) (int_of_nat (Model.prim_len p)) back))
  | _ -> "bad-args"

let show_fields vs =
  let l = List.filter (fun v -> v <> Model.VU) vs in
  if l = [] then "-" else String.concat "," (List.map show_val l)

let cparse args =
  match args with
  | [ty; hx] ->
    (match chunk_of_string ty with
     | None -> "unknown-type " ^ ty
     | Some c ->
       (match Model.chunk_parse c (unhex hx) with
        | Model.EParse e -> "err parse " ^ perr_str e
        | Model.Panic _ -> "panic"
        | Model.Ok (vs, rest) ->
          let put = Model.chunk_put c vs in
          let back = (match Model.chunk_parse c (put @ rest) with
              | Model.Ok (v2, r2) -> if Model.pvals_eqb v2 vs && r2 = rest then "ok" else "differ"
              | Model.Panic _ -> "panic"
              | _ -> "err") in
          if back = "panic" then "panic" else
          Printf.sprintf "ok %s rem=%d elen=%d put=%s back=%s" (show_fields vs) (List.length rest)
            (int_of_nat (Model.chunk_len c)) (hex put) back
        | _ -> "other"))
  | _ -> "bad-args"

let dispatch kind args =
  match kind with
  | "pparse" -> pparse args
  | "pput" -> pput args
  | "cparse" -> cparse args
  | _ -> "unknown-kind " ^ kind

let () = main_loop dispatch
