(* C16 driver (a,b and c): the extracted box-header model on `hdrparse <hex>` and `hdrmk <type-hex> <n>`. *)

let int_of_cn n = BZ.to_int (z_of_cn n)
let byte_of_int i = Model.n2b (cn_of_z (BZ.of_int i))
let int_of_byte b = int_of_cn (Model.b2n b)

let unhex s : Model.byte list =
  if s = "-" then [] else
  List.init (String.length s / 2) (fun i -> byte_of_int (int_of_string ("0x" ^ String.sub s (2 * i) 2)))
let hex (l : Model.byte list) : string =
  String.concat "" (List.map (fun b -> Printf.sprintf "%02x" (int_of_byte b)) l)

let type_hex = function Model.FourCC t -> hex t | Model.Uuid u -> hex u
let size_str = function
  | Model.UntilEof -> "eof"
  | Model.Size n -> "size:" ^ string_of_cn n
  | Model.Ext n -> "ext:" ^ string_of_cn n
let perr_str = function
  | Model.InvalidInput -> "InvalidInput" | Model.TruncatedBox -> "TruncatedBox"
  | Model.InvalidBoxLayout -> "InvalidBoxLayout" | Model.UnsupportedBoxLayout -> "UnsupportedBoxLayout"
  | _ -> "Other"
let data_str h =
  match Model.box_data_size h with
  | Model.Ok None -> "none"
  | Model.Ok (Some n) -> "some:" ^ string_of_cn n
  | Model.EParse e -> "err:" ^ perr_str e
  | Model.Panic _ -> "panic" | _ -> "other"
let reparse h p rest =
  match Model.hdr_read (p @ rest) with
  | Some (h2, r2) -> if h2 = h && r2 = rest then "ok" else "differ"
  | None -> "err"

let hdrparse args =
  match args with
  | [hx] ->
    let input = unhex hx in
    (match Model.hdr_read input with
     | None -> "err parse TruncatedBox"
     | Some (h, rest) ->
       let p = Model.hdr_put h in
       Printf.sprintf "ok t=%s s=%s elen=%s rem=%d data=%s put=%s re=%s"
         (type_hex h.Model.htype) (size_str h.Model.hsize) (string_of_cn (Model.encoded_len h))
         (List.length rest) (data_str h) (hex p) (reparse h p rest))
  | _ -> "bad-args"

let hdrmk args =
  match args with
  | [thx; n] ->
    let tb = unhex thx in
    let t = if List.length tb = 4 then Model.FourCC tb else Model.Uuid tb in
    let n = cn_of_string n in
    let u32s =
      if BZ.leq (z_of_cn n) (z_of_cn Model.u32MAX) then
        (match Model.with_data_size t n with
         | Model.Ok h when h = Model.with_u32_data_size t n -> "same"
         | _ -> "differ")
      else "na" in
    (match Model.with_data_size t n with
     | Model.EParse e -> "err parse " ^ perr_str e
     | Model.Ok h ->
       let p = Model.hdr_put h in
       Printf.sprintf "ok t=%s s=%s elen=%s data=%s put=%s re=%s u32=%s"
         (type_hex h.Model.htype) (size_str h.Model.hsize) (string_of_cn (Model.encoded_len h))
         (data_str h) (hex p) (reparse h p (unhex "a55a01")) u32s
     | Model.Panic _ -> "panic"
     | _ -> "other")
  | _ -> "bad-args"

(* C16 (c): `lazy <moov payload hex> <ops>`; ops = `-` or `i.k,i.k,...` (trak index, number of accessors of co_mut) *)
let full_perr = function
  | Model.InvalidInput -> "InvalidInput" | Model.TruncatedBox -> "TruncatedBox"
  | Model.InvalidBoxLayout -> "InvalidBoxLayout" | Model.UnsupportedBoxLayout -> "UnsupportedBoxLayout"
  | Model.MissingRequiredBox _ -> "MissingRequiredBox" | Model.UnsupportedBox _ -> "UnsupportedBox"
  | Model.UnsupportedFormat _ -> "UnsupportedFormat"
  | _ -> "Other"
let res_err = function
  | Model.EParse e -> "err parse " ^ full_perr e
  | Model.EIo _ -> "err io"
  | Model.Panic _ -> "panic"
  | Model.OutOfFuel -> "model-out-of-fuel"
  | Model.Ok _ -> "ok"
let rec int_of_nat = function Model.O -> 0 | Model.S n -> 1 + int_of_nat n
let parse_ops s =
  if s = "-" then [] else
  List.map (fun t -> match String.split_on_char '.' t with
      | [i; k] -> (nat_of_int (int_of_string i), nat_of_int (int_of_string k))
      | _ -> failwith "bad op") (String.split_on_char ',' s)
let lazy_ args =
  match args with
  | [hx; ops] ->
    let p = unhex hx in
    (match Model.parse_moov p with
     | Model.Ok kids ->
       let (kids', fail) = Model.run_ops (parse_ops ops) Model.O kids in
       let tail = Printf.sprintf "put=%s elen=%s" (let h = hex (Model.put_nodes kids') in if h = "" then "-" else h)
                    (string_of_cn (Model.nodes_encoded_len kids')) in
       (match fail with
        | None -> "ok " ^ tail
        | Some (step, e) ->
          (* the state the failed call left behind (Mp4/BoxFail.v), serialised with the calculated headers (Mp4/BoxEdit.v) *)
          let (kst, _) = Model.run_ops_st (parse_ops ops) Model.O kids in
          let tail = (match Model.puts_calc kst, Model.lens_calc kst with
              | Model.Ok b, Model.Ok n -> Printf.sprintf "put=%s elen=%s" (let h = hex b in if h = "" then "-" else h) (string_of_cn n)
              | _ -> "put=? elen=?") in
          Printf.sprintf "%s step=%d %s" (res_err e) (int_of_nat step) tail)
     | e -> res_err e ^ " step=parse")
  | _ -> "bad-args"

(* C16 with a caller edit: `lazyedit <moov payload hex> <ops> <i> <m>`: after the accessor calls, the table of the i-th trak is
   replaced by m entries 1..m; then put_buf / encoded_len with the calculated headers (Mp4/BoxEdit.v) *)
let lazyedit args =
  match args with
  | [hx; ops; i; m] ->
    let p = unhex hx in
    (match Model.parse_moov p with
     | Model.Ok kids ->
       let (kids', fail) = Model.run_ops (parse_ops ops) Model.O kids in
       (match fail with
        | Some (step, e) -> Printf.sprintf "%s step=%d" (res_err e) (int_of_nat step)
        | None ->
          (match Model.edit_trak (nat_of_int (int_of_string i)) (nat_of_int (int_of_string m)) kids' with
           | Model.Ok kids2 ->
             (match Model.puts_calc kids2, Model.lens_calc kids2 with
              | Model.Ok b, Model.Ok n -> Printf.sprintf "ok put=%s elen=%s" (let h = hex b in if h = "" then "-" else h) (string_of_cn n)
              | Model.Panic _, _ | _, Model.Panic _ -> "panic"
              | _ -> "other")
           | e -> res_err e ^ " step=edit"))
     | e -> res_err e ^ " step=parse")
  | _ -> "bad-args"

(* `ftypbox <hex of one whole box> <0|1>`: Mp4Box::<FtypBox>::parse (header + its payload), optionally the lazy parse of the payload
   (Box.parse_ftyp: major brand, minor version, all remaining bytes as the brand array), then put_buf / encoded_len: the bytes of the
   box as parsed, whatever was forced *)
let ftypbox args =
  match args with
  | [hx; force] ->
    let b = unhex hx in
    (match Model.hdr_read b with
     | None -> "err parse TruncatedBox step=parse"
     | Some (h, rest) ->
       (match Model.box_data_size h with
        | Model.Ok ods ->
          let (payload, after) = (match ods with
              | None -> (rest, [])
              | Some n ->
                let k = int_of_cn n in
                if k > List.length rest then ([], [Model.n2b Model.N0]) (* marker: truncated *)
                else (List.filteri (fun i _ -> i < k) rest, List.filteri (fun i _ -> i >= k) rest)) in
          if (match ods with Some n -> int_of_cn n > List.length rest | None -> false) then "err parse TruncatedBox step=parse"
          else if force = "1" && (match Model.parse_ftyp payload with Model.Ok _ -> false | _ -> true) then "err parse TruncatedBox step=0"
          else
            let node = Model.Raw (h, payload) in
            let out = Model.put_node node in
            Printf.sprintf "ok put=%s elen=%d rest=%d" (let x = hex out in if x = "" then "-" else x) (List.length out) (List.length after)
        | e -> res_err e ^ " step=parse"))
  | _ -> "bad-args"

let dispatch kind args =
  match kind with
  | "hdrparse" -> hdrparse args
  | "hdrmk" -> hdrmk args
  | "lazy" -> lazy_ args
  | "lazyedit" -> lazyedit args
  | "ftypbox" -> ftypbox args
  | _ -> "unknown-kind " ^ kind

let () = main_loop dispatch
