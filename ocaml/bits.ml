(* C19 driver: runs the extracted BitBufReader model on the case lines of harness/src/bits.rs.
   All sequencing (ops, stop-at-first-error, tree construction, cyclic short-read oracle) is the extracted
   BitBufRun.run_seq; the glue here only converts text <-> extracted numbers / bytes / op constructors and prints. *)

let cn_of_int i = cn_of_z (BZ.of_int i)
let byte_tab = Array.init 256 (fun i -> Model.n2b (cn_of_int i))
let unhex s =
  if s = "-" then [] else
  List.init (String.length s / 2) (fun i -> byte_tab.(int_of_string ("0x" ^ String.sub s (2 * i) 2)))

let split_on c s = String.split_on_char c s |> List.filter (fun x -> x <> "")
let strip_prefix p s =
  let lp = String.length p in
  if String.length s >= lp && String.sub s 0 lp = p then Some (String.sub s lp (String.length s - lp)) else None

let perr_name (e : Model.perr) = match e with
  | TruncatedChunk -> "TruncatedChunk" | WInvalidInput -> "InvalidInput"
  | InvalidVp8lPrefixCode -> "InvalidVp8lPrefixCode" | InvalidChunkLayout -> "InvalidChunkLayout"
  | _ -> "other"
let ioerr_name (e : Model.ioerr) = match e with
  | EUnexpectedEof -> "UnexpectedEof" | EInvalidInput -> "InvalidInput" | EInvalidData -> "InvalidData"
  | EInterrupted -> "Interrupted" | EPermissionDenied -> "PermissionDenied" | ETimedOut -> "TimedOut" | EWouldBlock -> "WouldBlock"
  | EOther -> "Other"

let width_n s = match String.index_opt s '.' with
  | Some i -> (cn_of_string (String.sub s 0 i), cn_of_string (String.sub s (i + 1) (String.length s - i - 1)))
  | None -> (cn_of_int 64, cn_of_string s)

exception Bad_op

let parse_op tok : Model.sop =
  match strip_prefix "br" tok with
  | Some n -> let (w, n) = width_n n in SBRead (w, n)
  | None ->
  match strip_prefix "bh" tok with
  | Some i -> SBHuff (nat_of_int (int_of_string i))
  | None ->
  if tok = "bb" then SBReadBit
  else if tok = "b" then SReadBit
  else match strip_prefix "r" tok with
  | Some n -> let (w, n) = width_n n in SRead (w, n)
  | None ->
  match strip_prefix "h" tok with
  | Some i -> SHuff (nat_of_int (int_of_string i))
  | None ->
  match strip_prefix "z" tok with
  | Some c -> SLz77 (cn_of_string c)
  | None ->
  if tok = "f" then SFill
  else if tok = "q" then SBits
  else match strip_prefix "e" tok with
  | Some r -> SEnsure (cn_of_string r)
  | None -> raise Bad_op

let parse_tree def =
  let lens = (match String.index_opt def '=' with
    | Some i -> String.sub def (i + 1) (String.length def - i - 1) | None -> "") in
  List.map (fun p -> match String.split_on_char ':' p with
    | [s; l] -> (cn_of_string s, cn_of_string l) | _ -> failwith "bad tree") (split_on ',' lens)

let show_obs (o : Model.sobs) = match o with
  | ONum n -> string_of_cn n
  | OBit b -> if b then "1" else "0"
  | OUnit -> "ok"
  | OQ n -> "q=" ^ string_of_cn n
  | OErrParse e -> "E:parse:" ^ perr_name e
  | OErrIo e -> "E:io:" ^ ioerr_name e
  | OPanic -> "panic"
  | OFuel -> "out-of-fuel"

let run_seq args =
  match args with
  | cap :: chunks :: hex :: cont :: toks ->
    let sizes = List.map cn_of_string (split_on ',' chunks) in
    let trees = List.filter_map (fun t -> match strip_prefix "T" t with Some d -> Some (parse_tree d) | None -> None) toks in
    let ops = List.filter_map (fun t -> match strip_prefix "T" t with Some _ -> None | None -> Some (parse_op t)) toks in
    let (obs, calls) = Model.run_seq (cn_of_string cap) sizes (unhex hex) (cont = "c") trees ops in
    if List.exists (fun o -> o = Model.OPanic) obs then "panic"
    else String.concat " " (List.map show_obs obs @ ["| calls " ^ string_of_cn calls])
  | _ -> "bad-args"

(* seqf <k> <kind> <cap> <chunks> <hex> s <ops>: the k-th inner read fails (Webp/BitBufFault.v); no call count is printed by the model *)
let ioerr_of_name = function
  | "Other" -> Model.EOther | "PermissionDenied" -> Model.EPermissionDenied | "TimedOut" -> Model.ETimedOut
  | "WouldBlock" -> Model.EWouldBlock | "InvalidData" -> Model.EInvalidData | "UnexpectedEof" -> Model.EUnexpectedEof
  | _ -> failwith "bad kind"
let run_seqf args =
  match args with
  | k :: kind :: cap :: chunks :: hex :: _cont :: toks ->
    let sizes = List.map cn_of_string (split_on ',' chunks) in
    let trees = List.filter_map (fun t -> match strip_prefix "T" t with Some d -> Some (parse_tree d) | None -> None) toks in
    let ops = List.filter_map (fun t -> match strip_prefix "T" t with Some _ -> None | None -> Some (parse_op t)) toks in
    let obs = Model.run_seq_f (cn_of_string k) (ioerr_of_name kind) (cn_of_string cap) sizes (unhex hex) trees ops in
    if List.exists (fun o -> o = Model.OPanic) obs then "panic"
    else String.concat " " (List.map show_obs obs)
  | _ -> "bad-args"

let dispatch kind args =
  match kind with
  | "seq" -> (try run_seq args with Bad_op -> "bad-op")
  | "seqf" -> (try run_seqf args with Bad_op -> "bad-op")
  | "lossless" | "insitu" -> "unmodelled"
  | _ -> "unknown-kind " ^ kind

let () = main_loop dispatch
