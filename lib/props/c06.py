"""C06 - WebP: accepted iff RIFF framing and the chunk grammar are exactly right."""
import webpgen as W

ID = "C06"
AREA = "webp"
COQ_TARGETS = ["theories/Props/C06.vo", "theories/Props/C06r.vo"]
COQCHK = ["MS.Props.C06", "MS.Props.C06r"]
REQUIRES = ["From Coq Require Import List NArith Bool.", "From Coq.Strings Require Import Byte.",
            "From MS Require Import Base.Bytes Base.Outcome Base.Prog Webp.Container Webp.Grammar Webp.Vp8l Props.C06.",
            "Import ListNotations.", "Open Scope N_scope."]
_Q = ("forall (lossless : N -> N -> bytes -> res unit) (allow lenient : bool) (ms : N) (inp : input) (fuel : nat), ")
THEOREMS = [
    ("C06_sound", _Q + "webp_sanitize lossless allow lenient ms inp fuel = Ok tt -> "
                       "webp_spec (fun w h b => is_ok (lossless w h b)) allow inp = true"),
    ("C06_complete", _Q + "ilen inp <= ms -> (N.to_nat (ilen inp / 8) < fuel)%nat -> "
                          "webp_spec (fun w h b => is_ok (lossless w h b)) allow inp = true -> "
                          "webp_sanitize lossless allow lenient ms inp fuel = Ok tt"),
    ("C06_accept_iff_grammar", _Q + "ilen inp <= ms -> (N.to_nat (ilen inp / 8) < fuel)%nat -> "
                                    "is_ok (webp_sanitize lossless allow lenient ms inp fuel) = "
                                    "webp_spec (fun w h b => is_ok (lossless w h b)) allow inp"),
    ("C06_fuel_irrelevant", "forall (lossless : N -> N -> bytes -> res unit) (allow lenient : bool) (ms : N) (inp : input) (f f' : nat), "
                            "(f <= f')%nat -> webp_sanitize lossless allow lenient ms inp f <> OutOfFuel -> "
                            "webp_sanitize lossless allow lenient ms inp f' = webp_sanitize lossless allow lenient ms inp f"),
]
THEOREMS = THEOREMS + [
    ("C06_readers_agree", "forall (lossless : N -> N -> bytes -> res unit) (allow l1 l2 : bool) (ms1 ms2 : N) (inp : input) (fuel : nat), "
                          "ilen inp <= ms1 -> ilen inp <= ms2 -> (N.to_nat (ilen inp / 8) < fuel)%nat -> "
                          "is_ok (webp_sanitize lossless allow l1 ms1 inp fuel) = is_ok (webp_sanitize lossless allow l2 ms2 inp fuel)"),
]
REQUIRES_FOR = {"C06_readers_agree": ["From Coq Require Import List NArith Bool.", "From Coq.Strings Require Import Byte.",
                                      "From MS Require Import Base.Bytes Base.Outcome Base.Prog Webp.Container Webp.Grammar Props.C06r.",
                                      "Open Scope N_scope."]}
XCHECK_N = 24
EXHAUSTIVE = {"quick": False, "thorough": False}
NOTES = []
FLAGSETS_ALL = [f << 1 for f in range(32)]          # the 32 combinations of the five defined VP8X flags
FLAGSETS_Q = [0, W.ICCP, W.ALPHA, W.EXIF, W.XMP, W.ANIM, W.ANIM | W.ALPHA, W.ICCP | W.EXIF | W.XMP, W.ALPHA | W.EXIF, 0x3E]


def gen(run):
    quick = run.tier == "quick"
    raw = []
    for f in W.valid_files():
        for rd in ("cursor", "strict"):
            for allow in (False, True):
                raw.append((W.case_line(rd, allow, f), "valid-seeds"))
    raw += list(W.boundary_cases("cursor")) + list(W.boundary_cases("strict"))
    raw += list(W.truncations("cursor")) + list(W.truncations("strict"))
    raw += list(W.sparse_sizes())
    raw += list(W.mutations(run.rng, 600 if quick else 20000))
    raw += list(W.dim_sensitive(run.rng, 25 if quick else 400))
    raw += list(W.sequences(3 if quick else 4, FLAGSETS_Q if quick else FLAGSETS_ALL))
    raw += list(W.frame_sequences(2 if quick else 3, [0, W.ALPHA] if quick else [0, W.ALPHA, W.EXIF]))
    raw += list(W.frame_orders(2 if quick else 3))
    raw += list(W.empty_trailers())
    raw += list(W.dim_mismatch())
    raw += list(W.vp8x_fields())
    if not quick:
        raw += list(W.sequences(5, FLAGSETS_Q, allows=(True,), sample=0.15, rng=run.rng))
    lines = W.with_tables(run, [l for l, _ in raw])
    for l, (_, s) in zip(lines, raw):
        yield l, s


def canon(out):
    return out.split(" need ")[0]


def same(line, impl, model):
    return canon(impl) == canon(model)


def classify(line, impl):
    t = impl.split()
    if not t:
        return "missing"
    return t[0] if t[0] != "err" else "err-" + t[2].split(":")[0]


def nontrivial(line, impl):
    return W.parse_case(line)["len"] >= 20


def oracle(run, pairs):
    """specification side: extracted Grammar.webp_spec (with the implementation's own lossless verdicts as the
    parameter) must equal `implementation accepted`; stated for strict and lenient readers alike."""
    res = run.driver(["s%d %s" % (i, l.replace("webp ", "wspec ", 1)) for i, (l, _) in enumerate(pairs)])
    out = []
    for i, (l, impl) in enumerate(pairs):
        spec = res.get("s%d" % i, "missing").split(" need ")[0]
        if impl.startswith(("panic", "timeout", "missing")):
            out.append((False, "implementation: " + impl))
            continue
        ok = (impl == "ok") == (spec == "true")
        out.append((ok, "grammar says %s, implementation says %s" % (spec, impl)))
    return out


_KINDS = {"InvalidChunkLayout": "InvalidChunkLayout", "InvalidInput": "WInvalidInput", "TruncatedChunk": "TruncatedChunk",
          "InvalidVp8lPrefixCode": "InvalidVp8lPrefixCode"}


def coq_bool(line, model_out):
    """the same run evaluated inside Coq (vm_compute) on the extracted model's answer: cross-check of the extraction"""
    c = W.parse_case(line)
    if c["len"] > 600 or sum(len(d) for _, d in c["exts"]) > 600:
        return None
    exts = "[" + "; ".join("(%d, [%s])" % (o, "; ".join("x%02x" % b for b in d)) for o, d in c["exts"]) + "]"
    lenient, ms = ("false", "18446744073709551615") if c["reader"] == "strict" else ("true", "18446744073709551615")
    fuel = sum(len(d) for _, d in c["exts"]) // 8 + 4
    call = "webp_sanitize lossless_read %s %s %s (input_of_exts %d %s) %d" % ("true" if c["allow"] else "false", lenient, ms, c["len"], exts, fuel)
    out = canon(model_out)
    if out == "ok":
        return "match %s with Ok tt => true | _ => false end" % call
    if out.startswith("err parse "):
        k = out.split()[2].split(":")[0]
        pat = _KINDS.get(k, "_")
        return "match %s with EParse %s => true | _ => false end" % (call, pat if pat != "_" else "_")
    if out.startswith("err io"):
        return "match %s with EIo _ => true | _ => false end" % call
    return None


def search(run, disagreements):
    lines = [l for l, _ in W.mutations(run.rng, 20000)] + [l for l, _ in W.sequences(4, FLAGSETS_Q)]
    for l in W.with_tables(run, lines):
        yield l, "search"


TRUSTED = [
    "Coq 8.16.1 kernel; no axioms expected",
    "hand-written Gallina model of webpsan's container logic: coq/theories/Webp/Container.v (ChunkReader levels accounted 'as if unbuffered'; "
    "the 8-byte std BufReaders are abstracted), Webp/{Prim,Chunks}.v, tied to /repo by the correspondence batch of every run",
    "the lossless validator is a parameter of both model and grammar; in the correspondence batch it is instantiated with the implementation's own "
    "LosslessImage::read verdict on the same bytes (harness kind `lossless`)",
    "specification coq/theories/Webp/Grammar.v (independent of the model)",
    "MAX_FILE_LEN regenerated from source (tools/gen_consts.py); flag masks regenerated by lib/props/c17.py",
    "extraction (ExtrOcamlBasic only), OCaml driver ocaml/webp.ml, Rust harness harness/src/webp.rs with sparse strict/lenient readers and io::Cursor",
]
ASSUMPTIONS = ["the harness readers implement Read+Skip as the ideal cursor of Base/Prog.v", "lossy VP8 payloads are not inspected (the code skips them)"]
RULE = ("valid seed files of every shape x readers x configs; pad-byte values {0,1,missing}; RIFF size field relative to the true length; tags; exact sizes of "
        "VP8X/ANIM/ANMF; reserved bits of VP8X/ALPH/ANMF flags; canvas product; VP8L signature/version/dimension rules (still, animated, ALPH in frame); "
        "nested overruns; truncation at every byte of 16 seed files; RIFF sizes near 2^32 on sparse streams; random mutations; all chunk sequences up to length "
        "3 (quick) / 4 (thorough, all 32 flag sets) at file level and 2 / 3 inside ANMF over {VP8,VP8L,VP8X,ALPH,ANIM,ANMF,ICCP,EXIF,XMP,UNKN}. "
        "Non-trivial = at least 20 bytes; distinct = distinct case line.")
LEVEL_TEXT = ("Coq theorems, no axioms, for EVERY input (any length, sparse or not), both values of allow_unknown_chunks, strict and seek-style "
              "Skip, every seek bound and every fuel: C06_sound - the model of webpsan::sanitize_with_config accepts only inputs of the independent "
              "grammar Grammar.webp_spec (RIFF size accounts for every byte, size limit, chunks inside their parents with zero pad bytes, the sequence "
              "VP8 | VP8L | VP8X [ICCP] (ANIM ANMF+ | [ALPH] VP8|VP8L) [EXIF] [XMP] unknown*, flags = chunks present, exact VP8X/ANIM sizes, reserved "
              "bits zero, no ALPH with VP8L, VP8L dimensions = canvas / frame); C06_complete - every input of the grammar is accepted (fuel "
              "ilen/8+1 suffices); C06_accept_iff_grammar - the two as one boolean equation; C06_fuel_irrelevant. The lossless validator is a "
              "parameter shared by model and grammar. The model is tied to the code by the differential batch (extracted model vs the real "
              "webpsan on seeds, boundary cases, all truncations, sparse near-2^32 sizes, mutations, exhaustive chunk sequences), and the extracted "
              "grammar judges the implementation's verdict directly.")
LEVEL_NOTE = ("The theorems are about Webp/Container.v, which accounts the bytes of each ChunkReader level as if unbuffered (the 8-byte std BufReaders are "
              "abstracted; C15 proves the buffered readers refine the cursor) and treats lossy VP8 payloads as opaque (the code skips them). "
              "Lossless payload validity is a parameter here; C07/C08 are about it.")
TECHNIQUE = "Coq proof about a hand-written model + extracted-model/Rust differential check + extracted grammar as oracle"
DESIGN_REF = "DESIGN.md section 7 (C06)"
