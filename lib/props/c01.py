"""C01 - relocated chunk offsets still address the same media bytes."""
import mp4props as P
from props import _mp4family as fam


def gen(run):
    quick = run.tier == "quick"
    rng = run.rng
    # emphasis on rewrite layouts: exact gaps, varied header forms, tables with boundary entries
    if not quick:
        yield from P.huge_pad_cases()
    for lay in P.seed_layouts(rng):
        for rd in ("cursor", "strict"):
            yield P.case_dense(rd, P.DEFAULT_MAX, None, b"".join(lay)), "seed-layouts"
    yield from P.gap_lattice(rng)
    yield from P.huge_gap_lattice()
    yield from P.displacement_boundary()          # backward shifts of exactly 2^31 - 1, 2^31 (= i32::MIN), 2^31 + 1
    yield from P.rewrite_cases(rng, 700 if quick else 60000)
    yield from P.tree_mutations(rng, 150 if quick else 20000)
    yield from P.config_lattice(rng)
    # the streams the other MP4 properties emphasise (size-field pathologies, 2^64-edge layouts, displacement boundaries, top-level
    # sequences): every property of the family sees every family of inputs at least thinly
    seen = set()
    for c in P.standard_stream(run, 40 if quick else 2000, 30 if quick else 1000, 2 if quick else 3):
        if c[0] not in seen:
            seen.add(c[0])
            yield c


fam.make(globals(), "C01", ["C01", "C01r"], gen)
COQ_TARGETS = ["theories/Props/C01.vo", "theories/Props/C01a.vo", "theories/Props/C01s.vo"]
COQCHK = ["MS.Props.C01", "MS.Props.C01a", "MS.Props.C01s"]
REQUIRES = ["From Coq Require Import List NArith ZArith Bool.", "From Coq.Strings Require Import Byte.",
            "From MS Require Import Base.Bytes Base.Outcome Base.Prog Mp4.Header Mp4.Box Mp4.San Mp4.Spec Mp4.ShiftSpec Mp4.SpliceSpec Props.C01 Props.C01a.",
            "Import ListNotations.", "Open Scope N_scope."]
_SHIFT = "each_trak kids (shift_table (shift_entry 32 d) (shift_entry 64 d))"
THEOREMS = [
    ("C01_offsets_shifted", """
  forall (p : bytes) (kids : list node) (ts : list (N * list N)) (d : Z) (kids' : list node) (u : list unit),
  moov_check p = Ok kids -> co_tables p = Some ts -> (- 2 ^ 31 <= d < 2 ^ 31)%%Z ->
  %s = Ok (kids', u) ->
  exists ts', co_tables (put_nodes kids') = Some ts' /\\ shift_all d ts = Some ts' /\\ shifted_by d ts ts'""" % _SHIFT),
    ("C01_shape_preserved", """
  forall (p : bytes) (kids : list node) (d : Z) (kids' : list node) (u : list unit),
  moov_check p = Ok kids -> (- 2 ^ 31 <= d < 2 ^ 31)%%Z ->
  %s = Ok (kids', u) ->
  co_regions (put_nodes kids') = co_regions p /\\ co_regions p <> None /\\ blen (put_nodes kids') = blen p""" % _SHIFT),
    ("C01_overflow_rejected", """
  forall (p : bytes) (kids : list node) (ts : list (N * list N)) (d : Z),
  moov_check p = Ok kids -> co_tables p = Some ts -> (- 2 ^ 31 <= d < 2 ^ 31)%%Z ->
  (exists t e, In t ts /\\ In e (snd t) /\\ shift (fst t) d e = None) ->
  %s = EParse InvalidInput""" % _SHIFT),
    ("C01_rejected_only_on_overflow", """
  forall (p : bytes) (kids : list node) (ts : list (N * list N)) (d : Z),
  moov_check p = Ok kids -> co_tables p = Some ts -> (- 2 ^ 31 <= d < 2 ^ 31)%%Z ->
  is_ok (%s) = false ->
  exists t e, In t ts /\\ In e (snd t) /\\ shift (fst t) d e = None""" % _SHIFT),
    ("C01_tables_found", """
  forall p : bytes, blen p < 4294967296 ->
  is_ok (moov_check p) = match co_regions p with Some _ => true | None => false end"""),
    ("C01_toplevel", """forall (cfg : config) (lenient : bool) (inp : input) (fuel : nat) (o : out) (md : bytes) (pad : N),
  ilen inp <= U64MAX -> (forall t, cumulative_mdat_box_size cfg = Some t -> t <= U32MAX) ->
  mp4_sanitize cfg lenient U64MAX' inp fuel = Ok o -> o_metadata o = Some (md, pad) ->
  exists bs m fp mp' psz ts,
    tiling (cumulative_mdat_box_size cfg) inp = Some bs /\\ last_moov bs = Some m /\\
    metadata_shape (md_input md pad) = Some (fp, mp', psz) /\\
    co_tables (tb_payload inp m) = Some ts /\\
    let delta := (Z.of_N (blen md + pad) - Z.of_N (s_off (o_data o)))%Z in
    co_regions mp' = co_regions (tb_payload inp m) /\\
    co_tables mp' = Some (map (fun t : N * list N => (fst t, map (fun e => Z.to_N (Z.of_N e + delta)) (snd t))) ts) /\\
    (forall t e, In t ts -> In e (snd t) -> (0 <= Z.of_N e + delta < 2 ^ (8 * Z.of_N (fst t)))%Z) /\\
    (psz <> 0 -> delta = 0%Z)"""),
    ("C01_pad_means_zero_shift", """forall (cfg : config) (lenient : bool) (inp : input) (fuel : nat) (o : out) (md : bytes) (pad : N)
         (fp mp : bytes) (psz : N),
  ilen inp <= U64MAX -> (forall t, cumulative_mdat_box_size cfg = Some t -> t <= U32MAX) ->
  mp4_sanitize cfg lenient U64MAX' inp fuel = Ok o -> o_metadata o = Some (md, pad) ->
  metadata_shape (md_input md pad) = Some (fp, mp, psz) -> psz <> 0 ->
  blen md + pad = s_off (o_data o)"""),
    ("C01_overflow_rejected_toplevel", """forall (cfg : config) (lenient : bool) (inp : input) (fuel : nat) (bs : list tbox),
  max_metadata_size cfg < 4294967296 -> ilen inp <= U64MAX ->
  (forall t, cumulative_mdat_box_size cfg = Some t -> t <= U32MAX) ->
  tiling (cumulative_mdat_box_size cfg) inp = Some bs ->
  (plan_of inp bs = Some Refuse \\/
   exists d m ts t e, plan_of inp bs = Some (Shift d) /\\ last_moov bs = Some m /\\
     co_tables (tb_payload inp m) = Some ts /\\ In t ts /\\ In e (snd t) /\\ shift (fst t) d e = None) ->
  is_ok (mp4_sanitize cfg lenient U64MAX' inp fuel) = false"""),
    ("C01_same_media_byte", """forall (cfg : config) (lenient : bool) (inp : input) (fuel : nat) (o : out) (md : bytes) (pad : N),
  ilen inp <= U64MAX -> (forall t, cumulative_mdat_box_size cfg = Some t -> t <= U32MAX) ->
  mp4_sanitize cfg lenient U64MAX' inp fuel = Ok o -> o_metadata o = Some (md, pad) ->
  exists bs m fp mp' psz ts,
    tiling (cumulative_mdat_box_size cfg) inp = Some bs /\\ last_moov bs = Some m /\\
    metadata_shape (md_input md pad) = Some (fp, mp', psz) /\\
    co_tables (tb_payload inp m) = Some ts /\\
    let off := s_off (o_data o) in
    let len := s_len (o_data o) in
    let J := splice md pad inp off len in
    let new := fun e : N => Z.to_N (Z.of_N e + (Z.of_N (blen md + pad) - Z.of_N off)) in
    co_tables mp' = Some (map (fun t : N * list N => (fst t, map new (snd t))) ts) /\\
    forall t e k, In t ts -> In e (snd t) -> off <= e + k < off + len ->
      new e + k < ilen J /\\ iget J (new e + k) = iget inp (e + k)"""),
    ("C01_spliced_file_addresses_same_bytes", """forall (cfg : config) (lenient lenient2 : bool) (inp : input) (fuel fuel2 : nat) (o : out) (md : bytes) (pad : N),
  max_metadata_size cfg < 4294967296 -> ilen inp <= U64MAX ->
  (forall t, cumulative_mdat_box_size cfg = Some t -> t <= U32MAX) ->
  mp4_sanitize cfg lenient U64MAX' inp fuel = Ok o -> o_metadata o = Some (md, pad) ->
  let off := s_off (o_data o) in
  let len := s_len (o_data o) in
  let J := splice md pad inp off len in
  ilen J <= U64MAX -> (N.to_nat (ilen J / 8) < fuel2)%nat ->
  exists bs m ts bs2 m2,
    tiling (cumulative_mdat_box_size cfg) inp = Some bs /\\ last_moov bs = Some m /\\ co_tables (tb_payload inp m) = Some ts /\\
    tiling (cumulative_mdat_box_size cfg) J = Some bs2 /\\ last_moov bs2 = Some m2 /\\
    let new := fun e : N => Z.to_N (Z.of_N e + (Z.of_N (blen md + pad) - Z.of_N off)) in
    co_tables (tb_payload J m2) = Some (map (fun t : N * list N => (fst t, map new (snd t))) ts) /\\
    (forall t e k, In t ts -> In e (snd t) -> off <= e + k < off + len ->
       new e + k < ilen J /\\ iget J (new e + k) = iget inp (e + k)) /\\
    mp4_sanitize cfg lenient2 U64MAX' J fuel2 = Ok {| o_metadata := None; o_data := {| s_off := blen md + pad; s_len := len |} |}"""),
]
_SREQ = ["From Coq Require Import List NArith ZArith Bool.", "From Coq.Strings Require Import Byte.",
         "From MS Require Import Base.Bytes Base.Outcome Mp4.Header Mp4.Box Gen.Mp4ShiftSites Mp4.ShiftSitesProofs Props.C01s.",
         "Import ListNotations.", "Open Scope N_scope."]
# which kernel rewrites which table, regenerated from the two rewrite loops of the source (Gen/Mp4ShiftSites.v; Props/C01s.v)
THEOREMS = THEOREMS + [
    ("C01_table_entry_sizes_are_source", """forall (A : Type) (kids : list node) (g : node -> res (node * A)),
  stbl_co kids g =
  (let have_stco := existsb (node_is t_stco) kids in
   let have_co64 := existsb (node_is t_co64) kids in
   if have_stco && have_co64 then EParse InvalidBoxLayout
   else if have_stco then with_one t_stco kids (fun n => n' <- force_table (entry_bytes_src t_stco) n ;; g n')
   else with_one t_co64 kids (fun n => n' <- force_table (entry_bytes_src t_co64) n ;; g n'))"""),
    ("C01_shift_kernel_widths_are_source", """forall (f32 f64 : N -> res N) (h : header) (w c : N) (e : bytes),
  shift_table f32 f64 (Tab h w c e) =
  (e' <- map_entries (S (length e)) (N.to_nat w) (if w =? entry_bytes_src t_stco then f32 else f64) e ;; Ok (Tab h w c e', tt))"""),
    ("C01_shift_sites", "SHIFT_SITES_SRC = [(t_stco, 32); (t_co64, 64)] /\\ DISPLACEMENT_BITS_SRC = 32"),
]
REQUIRES_FOR = {"C01_table_entry_sizes_are_source": _SREQ, "C01_shift_kernel_widths_are_source": _SREQ, "C01_shift_sites": _SREQ}
TRUSTED = fam.TRUSTED_COMMON + [
    "Base/AddSignedProofs.v (C20): the regenerated kernel checked_add_signed equals exact integer addition with range check",
    "Mp4/ShiftSpec.v: shift_all / shifted_by, the specification-side reading of `every entry becomes e + delta exactly`",
]
ASSUMPTIONS = fam.ASSUMPTIONS_COMMON + [
    "payload-level theorems are stated for ONE moov payload p and a displacement d in [-2^31, 2^31); the top-level theorems (C01_toplevel, "
    "C01_pad_means_zero_shift, C01_overflow_rejected_toplevel; Mp4/LoopProofsRewrite.v) supply that d = |metadata| - media offset, that it is 0 when a "
    "padding box is emitted, and that the returned moov payload is the rewritten one; they assume input length <= u64::MAX, the in-memory cursor "
    "(max_seek = 2^64-1), cumulative_mdat_box_size: u32; C01_overflow_rejected_toplevel additionally max_metadata_size < 2^32 (via C05)",
    "C01_tables_found needs |p| < 2^32 (the code's u32 arithmetic refuses tables of 4 GiB or more that the specification would admit)",
]
RULE = ("seed layouts (unit-test shapes and neighbours) x {cursor, strict}; gap lattice: gap = media offset - metadata length in {-20,-5,-1,0,1..9,16,100} x "
        "entry width {4,8} x entry sets with field-boundary values {0, 2^31-1, 2^31, 2^32-1 | 2^63, 2^64-1, 2^32}, plus gaps 1..7 built with a later moov; "
        "structure-aware random rewrite layouts (1-4 tracks, stco/co64, 32/64-bit/until-end headers, unknown siblings at every level, sparse multi-GiB "
        "fillers, 1-2 moov boxes); moov tree mutations; config lattices; thorough adds the 2^32-9 / 2^32-8 padding boundary. "
        "Oracle: extracted Spec.co_tables on the input's last moov payload and on the returned metadata, exact integer shift by "
        "delta = |metadata| - media offset; refusal required when the specification says an entry would leave its field. Non-trivial = at least 40 bytes "
        "present; distinct = distinct case line.")
LEVEL_TEXT = ("Coq theorems, no axioms. TOP LEVEL (whole inputs, every configuration, strict and seek-style Skip, every fuel, no size bound): "
              "C01_toplevel - if the model returns metadata then the specification reads it as boxes (metadata_shape) whose moov payload has the "
              "chunk-offset tables of the input's last moov payload at the same places, every entry replaced by e + delta EXACTLY with "
              "delta = |metadata| - media offset, every new entry inside its field; C01_pad_means_zero_shift - a padding box implies delta = 0 (a "
              "consequence, not an assumption); C01_overflow_rejected_toplevel - a Refuse plan, or a Shift under which some entry would leave its "
              "field, is never answered with Ok (derived from C05_accept_iff_rules). PAYLOAD LEVEL (one moov payload, d in [-2^31, 2^31)): "
              "C01_tables_found, C01_shape_preserved, C01_offsets_shifted (using C20's theorem for the regenerated checked_add_signed), "
              "C01_overflow_rejected, C01_rejected_only_on_overflow. C01_same_media_byte (Props/C01a.v) is the title itself: in the file the caller writes "
              "(metadata, padding, media span) position (new entry)+k holds the byte the input held at (old entry)+k, for every entry and every k "
              "with (old entry)+k inside the media span; C01_spliced_file_addresses_same_bytes says it with the written file read by the "
              "specification itself (its tiling, its last moov, that payload's tables) and adds the verdict of a second run (C02 b). The model is tied to the code by the differential batch (extracted model vs the "
              "real sanitizer on rewrite layouts), and the extracted specification judges the implementation's returned metadata directly.")
LEVEL_NOTE = ("Trusted: Coq kernel; the hand-written models Mp4/{Header,Box,San}.v (tied by the batch); Mp4/Spec.v + Mp4/ShiftSpec.v as the meaning of "
              "`chunk-offset tables`, `shifted by delta` and `the metadata read as boxes`; extraction and the OCaml driver; the Rust harness and its "
              "readers. Top-level and payload-level statements are both proved; see ASSUMPTIONS for the stated ranges.")
TECHNIQUE = ("Coq proof about a hand-written model whose kernel (checked_add_signed) and rewrite sites (table type, entry width, hand-over to the kernel) are "
             "regenerated from the source + extracted-model/Rust differential check + extracted specification as oracle")
DESIGN_REF = "DESIGN.md section 7 (C01)"
