"""C08 - WebP: valid images (reference-encoder output and spec corner cases) are accepted."""
from . import _c19_vp8l as V
from . import _c07_vp8l as G
from . import _vp8l_common as C

ID = "C08"
AREA = "vp8l"
COQ_TARGETS = ["theories/Props/C08.vo", "theories/Props/C08f.vo"]
REQUIRES = ["From Coq Require Import List NArith ZArith Bool.",
            "From Coq.Strings Require Import Byte.",
            "From MS Require Import Base.Bytes Base.Outcome Webp.Huffman Webp.HuffmanSpec Webp.BitBufSpec Webp.Vp8l Webp.Vp8lSpec "
            "Webp.Vp8lProofsTop Props.C08.",
            "Import ListNotations.", "Open Scope N_scope."]
COQCHK = ["MS.Props.C08", "MS.Props.C08f"]
from ._c07_theorems import THEOREMS_C08 as _T08
THEOREMS = list(_T08) + [
    ("C08_file_level", """forall (allow lenient : bool) (ms : N) (inp : input) (fuel : nat),
  ilen inp <= ms -> (N.to_nat (ilen inp / 8) < fuel)%nat ->
  webp_spec decodable_ok allow inp = true ->
  webp_sanitize lossless_read allow lenient ms inp fuel = Ok tt"""),
]
REQUIRES_FOR = {"C08_file_level": ["From Coq Require Import List NArith Bool.", "From Coq.Strings Require Import Byte.",
                                   "From MS Require Import Base.Bytes Base.Outcome Base.Prog Webp.Container Webp.Grammar Webp.Vp8l Webp.Vp8lSpec "
                                   "Webp.WebpSpecProofs Props.C08f.", "Open Scope N_scope."]}
_DREQ = ["From Coq Require Import List NArith Bool.",
         "From MS Require Import Base.Bytes Base.Outcome Base.Prog Webp.Grammar Props.C08d.", "Import ListNotations.", "Open Scope N_scope."]
THEOREMS = THEOREMS + [
    ("C08_D8_is_the_grammar_of_C06", """forall (lossless_ok : N -> N -> bytes -> bool) (inp : input) (w h : N) (c : wchunk) (r : list wchunk),
  w_name c = gVP8L ->
  image_ok lossless_ok inp true true w h (c :: r) = None"""),
    ("C08_vp8l_still_without_flag", """forall (lossless_ok : N -> N -> bytes -> bool) (inp : input) (w h : N) (c : wchunk) (r : list wchunk),
  w_name c = gVP8L -> vp8l_ok lossless_ok inp (Some (w, h)) c = true ->
  image_ok lossless_ok inp false false w h (c :: r) = Some r"""),
]
REQUIRES_FOR = dict(REQUIRES_FOR, C08_D8_is_the_grammar_of_C06=_DREQ, C08_vp8l_still_without_flag=_DREQ)
COQ_TARGETS = COQ_TARGETS + ["theories/Props/C08d.vo"]
COQCHK = COQCHK + ["MS.Props.C08d"]

TRUSTED = [
    "Coq 8.16.1 kernel (coqc; coqchk in the thorough tier); vm_compute only in Examples; no native_compute",
    "axioms: none (Print Assumptions of every theorem = Closed under the global context)",
    "hand-written model Webp/Vp8l.v of webpsan/src/parse/lossless.rs, tied to the code by the correspondence batch on every run (exact error kinds, "
    "LosslessImage::read and webpsan::sanitize); Webp/Huffman.v (C18) and the ideal bit source (C19) below it",
    "the specification Webp/Vp8lSpec.v (reference reading and strict reading; strict_exception), compared with libwebp's header decoder on every case",
    "REFERENCE: libwebp 1.3.1 (libwebp-sys 0.9.6, vendored, statically linked): WebPEncode, WebPAnimEncoder, WebPMux to produce files in-process; "
    "WebPDecodeRGBA / WebPAnimDecoder to confirm that libwebp decodes what it wrote; the internal VP8LDecodeHeader (hand-declared) for the header phase of "
    "synthesised streams",
    "extraction (ExtrOcamlBasic only), OCaml 4.13.1, ocaml/vp8l.ml; Rust harness harness/src/vp8l.rs; the stream writers _c19_vp8l.py / _c07_vp8l.py",
]
ASSUMPTIONS = [
    "'any file produced by libwebp's encoders and muxer is accepted' cannot be proved about libwebp: it is SAMPLED (every file generated in-process on every "
    "run is sanitized; libwebp must decode it, webpsan must accept it); what is proved is completeness of the model against the transcribed specification "
    "for ALL streams (C08_model_complete)",
    "container-level acceptance (chunk order, flags, frame geometry) is C06's theorem (container area); here whole files are only run through "
    "webpsan::sanitize",
    "strict_exception w h body = the reference reading of the specification decodes the header phase and the strict reading does not: the stream uses a "
    "predictor-image pixel with green outside 0..13, or a code (including the 19-symbol code-length code) with a single used symbol of length != 1",
    "a stream that names an out-of-alphabet symbol in a two-symbol simple distance code is decoded by libwebp but is not written according to the "
    "specification's syntax: the specification (and webpsan) refuse it; excused in the oracle (rule symbol-outside-alphabet)",
    "theorem domain: 0 < w <= 2^24, 0 < h <= 2^24, w*h < 2^32",
]
RULE = ("(a) whole files written in-process by libwebp: WebPEncode lossless and lossy, with and without alpha (alpha filter / quality grid), methods 0..6, "
        "qualities, near-lossless, exact, palettes of 1..256 colours, noise / gradient / flat / photographic-like / tiled images, sizes 1..512 and up to 16384 "
        "wide; WebPAnimEncoder animations whose frames are smaller than the canvas (lossless, lossy, mixed; minimize_size); WebPMux stills with ICC / EXIF / XMP "
        "and hand-pushed animation frames at offsets; each file: libwebp decodes it and webpsan::sanitize must accept it; (b) header phases synthesised from the "
        "specification grammar, valid by construction, including the corner cases named in the property (two-symbol simple code naming one symbol twice, "
        "descending two-symbol simple code, single-leaf codes of every form, maximal repeat runs 6 / 10 / 138 and the implicit initial length 8, all 65 "
        "transform orders) and the two documented strictness cases: libwebp's header decoder accepts => webpsan accepts unless strict_exception. "
        "Non-trivial = a file with at least 3 chunks or a stream of at least 12 bytes; distinct = distinct bytes.")
EXHAUSTIVE = {"quick": False, "thorough": False}
XCHECK_N = 20
NOTES = [
    "KNOWN FINDING D8: libwebp's muxer writes a lossless image with transparency as VP8X[alpha flag] + VP8L with no ALPH chunk; webpsan demands ALPH whenever "
    "the flag is set (repair would contradict C06 as given). Classifier: still image (no ANIM flag), VP8X alpha flag set, image chunk VP8L, no ALPH chunk.",
    "repaired defects kept as mutant witnesses in corpus/C08: D12 (valid stream with a two-symbol simple code naming one symbol twice was rejected), "
    "D14 (valid stream with a descending two-symbol simple code was misread), D4/D4b (animation frames smaller than the canvas) are exercised by the "
    "anim / muxanim files",
]


def gen(run):
    rng = run.rng
    quick = run.tier == "quick"
    for l in C.corpus_lines("C08"):
        yield l, "corpus"
    # (a) whole files
    glines, tags = [], []
    for (w, h) in C.enc_sizes(rng, 50 if quick else 700, 3 if quick else 30):
        glines.append(C.enc_line(rng, True, w, h)); tags.append("file-lossless")
    for (w, h) in C.enc_sizes(rng, 30 if quick else 400, 1 if quick else 10):
        glines.append(C.enc_line(rng, False, w, h)); tags.append("file-lossy")
    for i in range(10 if quick else 200):
        cw, ch = (rng.randint(8, 96), rng.randint(8, 96)) if i % 3 else (rng.randint(150, 400), rng.randint(150, 400))
        glines.append("anim %d %d %d %d %d %d %d %d %d %d" % (cw, ch, rng.randint(2, 5), rng.choice([0, 0, 1]), rng.choice([1, 2, 4, 5, 6]),
                                                          rng.choice([0, 1, 2, 3, 4]), rng.getrandbits(30), rng.randint(0, 1), rng.randint(0, 1), rng.randint(0, 4)))
        tags.append("file-anim")
    for i in range(14 if quick else 300):
        glines.append("mux %d %d %d %d %d %d %d %d %d %d" % (rng.choice([0, 1, 1]), rng.randint(1, 64), rng.randint(1, 64), rng.choice(C.PATTERNS),
                                                         rng.choice([0, 0, 1, 2, 3]), rng.getrandbits(30), rng.choice([0, 7, 128, 1001]),
                                                         rng.choice([0, 5, 64, 333]), rng.choice([0, 9, 100, 777]), rng.randint(0, 6)))
        tags.append("file-mux")
    for i in range(8 if quick else 150):
        big = i % 2 == 0
        glines.append("muxanim %d %d %d %d %d %d %d" % (rng.randint(150, 420) if big else rng.randint(4, 80), rng.randint(150, 420) if big else rng.randint(4, 80),
                                                      rng.randint(1, 4), rng.choice([0, 0, 1]),
                                                      rng.choice([0, 1, 2]), rng.getrandbits(30), rng.choice([0, 0, 20])))
        tags.append("file-muxanim")
    files = C.run_generators(run, glines)
    nfail = sum(1 for f in files if f is None)
    if nfail:
        run.notes.append("file corpus: %d of %d generator calls failed" % (nfail, len(files)))
    for f, tag in zip(files, tags):
        if f is None:
            continue
        if len(f) <= 80000:                 # whole-file cases are kept small; larger files are covered by their header phases below
            yield "sanitize %s" % C.hx(f), tag
        # the lossless payloads of the file through the stream-level oracle as well
        for kind, w, h, body in C.lossless_payloads(f)[:3]:
            yield C.case(w, h, body[:60000]), "payload-" + kind
    # (b) specification grammar, valid by construction
    for o in G.ORDERS:
        for i in range(1 if quick else 10):
            W, H, data, _ = G.build(rng, order=o)
            yield C.case(W, H, data), "valid-orders"
    for i in range(200 if quick else 6000):
        W, H, data, _ = G.build(rng)
        yield C.case(W, H, data), "valid-synth"
    for c in G.CORNERS:
        for i in range(15 if quick else 400):
            W, H, data = G.corner(rng, c)
            if c == "single-leaf" and quick and W * H > 1 << 18:
                continue
            yield C.case(W, H, data), "corner-" + c
    for i in range(2 if quick else 12):
        W, H, data, _ = G.build(rng, size=(rng.choice([2048, 4096, 16384]), rng.choice([1024, 2048, 16384])), big_fill=True)
        yield C.case(W, H, data), "valid-bigfill"
    for i in range(20 if quick else 800):
        W, H, data, _ = V.build_lossless(rng, rng.choice(["plain", "deep", "arbdeep"]))
        yield C.case(W, H, data), "valid-c19"
    # streams far beyond the 4 KiB bit buffer filled with back-references that carry the most extra bits, with a deep green code
    # (extradeep) or a single-symbol distance code (onedist): the read-ahead computed per image must cover them
    for i in range(6 if quick else 240):
        W, H, data, _ = V.build_lossless(rng, ["extradeep", "onedist", "extradeep"][i % 3])
        yield C.case(W, H, data), "valid-longrefs"
    # ONE maximal back-reference placed at every bit offset before the end of the first 4096 bytes of the bit stream (where the 4 KiB
    # buffer runs dry): a read-ahead bound that is a few bits short rejects exactly the streams whose reference starts in that window
    for k in (range(0, 72) if quick else range(0, 160)):
        for dsym in ((28,) if quick else (28, 26, 29)):
            for gl in (1, 15):          # a shallow green code, and one whose length symbol has a 15-bit code
                r = V.boundary_sweep(k, glen_lit=gl, dist_sym=dsym)
                if r:
                    yield C.case(r[0], r[1], r[2]), "valid-boundary-sweep"
    # long literal runs with red/blue/alpha codes of depth 15: a pixel costs more bits than a back-reference; the stream crosses
    # several refills of the 4 KiB bit buffer at varying bit offsets (read-ahead computation, C08's anchor lossless.rs:303-313)
    for i in range(40 if quick else 600):
        W, H, data, _ = V.build_lossless(rng, "arbdeep", pixel_budget=6000)
        yield C.case(W, H, data), "valid-arbdeep-long"
    # the documented strictness cases (libwebp accepts, webpsan refuses: must be classified as strict_exception)
    for v in sorted(G.STRICTNESS):
        for i in range(15 if quick else 300):
            W, H, data, _ = G.build(rng, violate=v)
            yield C.case(W, H, data), "strictness-" + v
    for i in range(10 if quick else 200):
        W, H, data, _ = G.build(rng, violate="outside-alphabet")
        yield C.case(W, H, data), "libwebp-leniency"


def same(line, impl, model):
    if line.startswith("sanitize"):
        return True                       # whole files: implementation only (the container model is the webp area's)
    return C.same_vp8l(impl, model)


def classify(line, impl):
    if line.startswith("sanitize"):
        a = C.fields(impl)
        return "file:%s/%s" % (a.get("san", "missing"), a.get("dec", "-"))
    return C.classify_vp8l(impl)


def nontrivial(line, impl):
    t = line.split()
    if t[0] == "sanitize":
        return len(C.riff_chunks(bytes.fromhex(t[1]))) >= 3
    return len(t[3]) >= 24


def oracle(run, pairs):
    """the reference decodes /\\ the implementation rejects /\\ not a documented exception => failing input"""
    out = [None] * len(pairs)
    ask = []
    for i, (line, impl) in enumerate(pairs):
        a = C.fields(impl)
        if line.startswith("sanitize"):
            ok = not (a.get("dec") == "accept" and a.get("san") != "ok")
            out[i] = (ok, "libwebp decode: %s, webpsan::sanitize: %s" % (a.get("dec"), a.get("san")))
        elif a.get("ref") == "accept" and (a.get("impl") != "ok" or a.get("san") not in ("ok", "na")):
            ask.append(i)
        else:
            out[i] = (True, "webpsan %s, libwebp header decoder: %s" % (a.get("impl"), a.get("ref")))
    if ask:
        res = run.driver(["o%d %s" % (i, pairs[i][0]) for i in ask])
        for i in ask:
            a = C.fields(pairs[i][1])
            b = C.fields(res.get("o%d" % i, ""))
            spec, strict = b.get("ref", "missing"), b.get("strict", "missing")
            if spec == "accept" and strict.startswith("reject:strict-"):
                out[i] = (True, "documented strictness (%s): strict_exception = true" % strict)
            elif spec == C.EXCUSED_RULE:
                out[i] = (True, "not written according to the specification (simple code symbol outside its alphabet; libwebp tolerates it)")
            elif spec == "skip":
                out[i] = (True, "specification not evaluated (sub-image too large)")
            else:
                out[i] = (False, "libwebp decodes the header phase, webpsan: %s/%s; specification: %s, strict reading: %s" % (
                    a.get("impl"), a.get("san"), spec, strict))
    return out


def known_class(line, impl):
    """D8: still image, VP8X alpha flag set, image chunk VP8L, no ALPH chunk"""
    t = line.split()
    if t[0] != "sanitize":
        return None
    ch = C.riff_chunks(bytes.fromhex(t[1]))
    names = [n for n, _ in ch]
    if names and names[0] == b"VP8X" and ch[0][1]:
        flags = ch[0][1][0]
        if (flags & 0x10) and not (flags & 0x02) and b"VP8L" in names and b"ALPH" not in names and b"ANMF" not in names:
            return "D8"
    return None


def search(run, disagreements):
    rng = run.rng
    for c in G.CORNERS:
        for i in range(200):
            W, H, data = G.corner(rng, c)
            if W * H <= 1 << 18:
                yield C.case(W, H, data), "search"
    for i in range(1500):
        W, H, data, _ = G.build(rng)
        yield C.case(W, H, data), "search"
    for o in G.ORDERS:
        for i in range(5):
            W, H, data, _ = G.build(rng, order=o)
            yield C.case(W, H, data), "search"
    for v in sorted(G.STRICTNESS):
        for i in range(100):
            W, H, data, _ = G.build(rng, violate=v)
            yield C.case(W, H, data), "search"


def coq_bool(line, model_out):
    return C.coq_bool_vp8l(line, model_out)


LEVEL_TEXT = ("At file level (C08_file_level = C06_complete + C08_model_complete + monotonicity of the grammar): an input that satisfies the container grammar and whose lossless payloads are all decodable by the reference reading (dimensions below 2^32 pixels) and are not one of the two documented strictness cases is accepted by the modelled webpsan. Stream level: Theorem C08_model_complete (Coq, all byte strings, all dimensions in the container's range): every stream whose header phase the reference "
              "reading of the specification decodes and that is not a strict_exception is accepted by the model of LosslessImage::read; with "
              "C07_model_is_strict_spec the model accepts EXACTLY the strict reading. The sentence about libwebp's encoders and muxer cannot be proved about: "
              "files are produced in-process by WebPEncode / WebPAnimEncoder / WebPMux on every run, libwebp decodes them, webpsan::sanitize must accept them "
              "(sampling, stated as such; finding D8 is reproduced by the muxer's lossless-with-alpha stills); synthesised specification corner cases are judged "
              "against libwebp's own header decoder.")
LEVEL_NOTE = ("Trusted: Coq kernel; the model Vp8l.v and the specification Vp8lSpec.v (both tied by the differential batches: model vs Rust with exact error kinds, "
              "specification vs libwebp's VP8LDecodeHeader); libwebp 1.3.1 as reference and as generator of the file corpus (sampled); extraction, OCaml/Rust glue. "
              "Exceptions of the completeness statement are exactly strict_exception (green outside 0..13 in a predictor image; single used symbol of length != 1, "
              "also in the code-length code). Domain 0 < w,h <= 2^24, w*h < 2^32. Container completeness is C06's. No axioms.")
TECHNIQUE = "Coq proof (simulation, both directions at once) + differential check vs Rust and vs libwebp + in-process encoder/muxer corpus"
DESIGN_REF = "DESIGN.md section 7 (C08), section 8 (D8, D12, D4, D4b), Appendix E"
