"""C04 - all metadata is carried over unchanged except chunk-offset values."""
import mp4props as P
from mp4gen import *
from props import _mp4family as fam


def _sibling_cases(rng):
    """moov trees with unknown siblings at every level, 64-bit / until-end child headers, uuid children, empty boxes,
    a stco outside the stbl path (must stay untouched), ftyp payloads of every length 8..40 and 1021..1024"""
    udta = box(b"udta", b"hello")
    uu = box(b"uuid", b"payload", uuid=bytes(range(16)))
    empty = box(b"free", b"")
    stray = stco([7, 8, 9])
    md = box(b"mdat", b"abcdefg")
    for w, ents in ((4, [20, 30, 2**31]), (8, [20, 2**40, 2**63]), (4, []), (8, [0])):
        tab = stco(ents) if w == 4 else co64(ents)
        for forms in (("32", "32", "32", "32"), ("64", "32", "64", "32"), ("32", "64", "32", "eof"), ("32", "32", "eof", "64"),
                      ("32", "eof", "32", "32"), ("eof", "32", "32", "32")):
            # an until-end child swallows everything after it: no trailing sibling at that level
            x_minf = (empty, stray) if forms[3] != "eof" else (empty,)
            x_mdia = (uu, udta) if forms[2] != "eof" else (uu,)
            x_trak = (stray, empty) if forms[1] != "eof" else (stray,)
            tr = trak(tab, extra_stbl=(udta, uu), extra_minf=x_minf, extra_mdia=x_mdia, extra_trak=x_trak, forms=forms)
            last_eof = forms[0] == "eof"
            for mform in ("32", "64", "eof"):
                mv = moov([trak(stco([1])), tr] if last_eof else [tr, trak(co64([5]))], extra=(udta, ) if last_eof else (udta, stray), form=mform)
                for pre in (b"", box(b"free", b"\0" * 13)):
                    for rd in ("cursor", "strict"):
                        yield case_dense(rd, DEFAULT_MAX, None, P.F() + pre + md + mv), "siblings"
    m1 = P.simple_moov([(4, [20, 30])])
    for n in list(range(8, 41)) + [1021, 1022, 1023, 1024, 1025]:
        pl = (b"isom" + be32(n) + b"isom" + bytes((i * 7 + 3) & 255 for i in range(n)))[:n] if n >= 12 else (b"isom" + be32(0) + b"isom")[:n]
        for rd in ("cursor", "strict"):
            yield case_dense(rd, DEFAULT_MAX, None, box(b"ftyp", pl) + md + m1), "ftyp-lengths"


def gen(run):
    quick = run.tier == "quick"
    rng = run.rng
    if not quick:
        yield from P.huge_pad_cases()
    yield from _sibling_cases(rng)
    for lay in P.seed_layouts(rng):
        for rd in ("cursor", "strict"):
            yield P.case_dense(rd, P.DEFAULT_MAX, None, b"".join(lay)), "seed-layouts"
    yield from P.gap_lattice(rng)
    yield from P.rewrite_cases(rng, 600 if quick else 12000)
    yield from P.tree_mutations(rng, 100 if quick else 3000)


fam.make(globals(), "C04", ["C04"], gen)
COQ_TARGETS = ["theories/Props/C04.vo"]
COQCHK = ["MS.Props.C04"]
REQUIRES = ["From Coq Require Import List NArith ZArith Bool.", "From Coq.Strings Require Import Byte.",
            "From MS Require Import Base.Bytes Base.Outcome Base.Prog Mp4.Header Mp4.Box Mp4.San Mp4.Spec Mp4.ShiftSpec Props.C04.",
            "Import ListNotations.", "Open Scope N_scope."]
THEOREMS = [
    ("C04_moov_identical_outside_tables", """
  forall (p : bytes) (kids : list node) (rs : list region) (d : Z) (kids' : list node) (u : list unit),
  moov_check p = Ok kids -> co_regions p = Some rs -> (- 2 ^ 31 <= d < 2 ^ 31)%Z ->
  each_trak kids (shift_table (shift_entry 32 d) (shift_entry 64 d)) = Ok (kids', u) ->
  put_nodes kids = p /\\ blen (put_nodes kids') = blen p /\\ masked_eq rs p (put_nodes kids') = true"""),
    ("C04_ftyp_identical", """
  forall (p major : bytes) (brands : list bytes), parse_ftyp p = Ok (major, brands) ->
  (8 <= length p)%nat /\\
  p = major ++ n2be 4 (be2n (firstn 4 (skipn 4 p))) ++ skipn 8 p /\\
  (exists tail, skipn 8 p = concat brands ++ tail /\\ (length tail < 4)%nat) /\\
  length major = 4%nat /\\ Forall (fun b => length b = 4%nat) brands"""),
]
TRUSTED = fam.TRUSTED_COMMON
ASSUMPTIONS = fam.ASSUMPTIONS_COMMON + [
    "the theorems are stated for the ftyp and moov PAYLOADS as the model keeps them; that the returned metadata is new header ++ ftyp payload ++ new "
    "header ++ put_nodes kids' (+ padding box) is the top-level assembly over Mp4/San.v finish (separate proof files); until it is in place the "
    "whole-input statement of C04 is decided by the correspondence batch + the oracle only",
    "the model keeps the ftyp payload as bytes where the code keeps the parsed FtypBox and re-serialises it; C04_ftyp_identical shows the parsed "
    "fields re-encode to the payload, the batch compares the emitted bytes",
]
RULE = ("moov trees with unknown siblings (udta, uuid-typed, empty free, a stray stco outside the stbl path) before and after the path box at each of the "
        "levels trak/mdia/minf/stbl, child header forms 32-bit / 64-bit / until-end at each level, moov header 32/64/until-end, stco and co64 with "
        "boundary entries; ftyp payloads of every length 8..40 and 1021..1025; seed layouts; gap lattice; structure-aware random rewrite layouts; tree "
        "mutations; thorough adds the 2^32-9 / 2^32-8 padding boundary. Oracle: ftyp payload of the returned metadata equals the input's; moov payload "
        "has the same length and equals the input's last moov payload outside the entry tables (independent Python walker for the mask + extracted "
        "Spec view of both). Non-trivial = at least 40 bytes present; distinct = distinct case line.")
LEVEL_TEXT = ("Coq theorems (no axioms, all payloads, no bound) about the box-tree model for ONE moov payload: the tree kept for an accepted moov "
              "serialises to the payload read (lazy parsing and the accessor forcings do not change a byte: C16 part c), and after a successful entry "
              "rewrite the payload has the same length and is byte-identical outside the entry tables that the independent walker of Mp4/Spec.v finds "
              "in the input payload (C04_moov_identical_outside_tables, Spec.masked_eq). For ftyp the parsed fields re-encode to the payload "
              "(C04_ftyp_identical). The model is tied to the code by the differential batch on trees with unknown siblings at every level and all "
              "child header forms; the oracle compares the implementation's returned payloads with the input's directly. NOT yet a theorem here: that "
              "the returned metadata consists of exactly these payloads under new headers (top-level assembly over Mp4/San.v finish).")
LEVEL_NOTE = ("Trusted: Coq kernel; the hand-written models (tied by the batch); Mp4/Spec.v co_regions/masked_eq as the meaning of `outside the "
              "chunk-offset tables`; extraction and OCaml driver; the Rust harness; the small Python table walker used for masking. Payload-level "
              "theorems only; see ASSUMPTIONS.")
TECHNIQUE = "Coq proof about a hand-written model + extracted-model/Rust differential check + extracted specification as oracle"
DESIGN_REF = "DESIGN.md section 7 (C04)"
