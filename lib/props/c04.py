"""C04 - all metadata is carried over unchanged except chunk-offset values."""
import mp4props as P
from mp4gen import *
from props import _mp4family as fam


def _sibling_cases(rng):
    """moov trees with unknown siblings at every level, 64-bit / until-end child headers, uuid children, empty boxes,
    a stco outside the stbl path (must stay untouched), ftyp payloads of every length 8..40 and 1021..1024"""
    udta = box(b"udta", b"hello")
    uu = box(b"uuid", b"payload", uuid=bytes(range(16)))
    empty = box(b"free", b"")
    stray = stco([7, 8, 9])
    md = box(b"mdat", b"abcdefg")
    for w, ents in ((4, [20, 30, 2**31]), (8, [20, 2**40, 2**63]), (4, []), (8, [0])):
        tab = stco(ents) if w == 4 else co64(ents)
        for forms in (("32", "32", "32", "32"), ("64", "32", "64", "32"), ("32", "64", "32", "eof"), ("32", "32", "eof", "64"),
                      ("32", "eof", "32", "32"), ("eof", "32", "32", "32")):
            # an until-end child swallows everything after it: no trailing sibling at that level
            x_minf = (empty, stray) if forms[3] != "eof" else (empty,)
            x_mdia = (uu, udta) if forms[2] != "eof" else (uu,)
            x_trak = (stray, empty) if forms[1] != "eof" else (stray,)
            tr = trak(tab, extra_stbl=(udta, uu), extra_minf=x_minf, extra_mdia=x_mdia, extra_trak=x_trak, forms=forms)
            last_eof = forms[0] == "eof"
            for mform in ("32", "64", "eof"):
                mv = moov([trak(stco([1])), tr] if last_eof else [tr, trak(co64([5]))], extra=(udta, ) if last_eof else (udta, stray), form=mform)
                for pre in (b"", box(b"free", b"\0" * 13)):
                    for rd in ("cursor", "strict"):
                        yield case_dense(rd, DEFAULT_MAX, None, P.F() + pre + md + mv), "siblings"
    m1 = P.simple_moov([(4, [20, 30])])
    for n in list(range(8, 41)) + [1021, 1022, 1023, 1024, 1025]:
        pl = (b"isom" + be32(n) + b"isom" + bytes((i * 7 + 3) & 255 for i in range(n)))[:n] if n >= 12 else (b"isom" + be32(0) + b"isom")[:n]
        for rd in ("cursor", "strict"):
            yield case_dense(rd, DEFAULT_MAX, None, box(b"ftyp", pl) + md + m1), "ftyp-lengths"


def gen(run):
    quick = run.tier == "quick"
    rng = run.rng
    if not quick:
        yield from P.huge_pad_cases()
    yield from _sibling_cases(rng)
    for lay in P.seed_layouts(rng):
        for rd in ("cursor", "strict"):
            yield P.case_dense(rd, P.DEFAULT_MAX, None, b"".join(lay)), "seed-layouts"
    yield from P.gap_lattice(rng)
    yield from P.rewrite_cases(rng, 600 if quick else 60000)
    yield from P.tree_mutations(rng, 100 if quick else 15000)
    # the streams the other MP4 properties emphasise (size-field pathologies, 2^64-edge layouts, displacement boundaries, top-level
    # sequences): every property of the family sees every family of inputs at least thinly
    seen = set()
    for c in P.standard_stream(run, 40 if quick else 2000, 30 if quick else 1000, 2 if quick else 3):
        if c[0] not in seen:
            seen.add(c[0])
            yield c


fam.make(globals(), "C04", ["C04"], gen)
COQ_TARGETS = ["theories/Props/C04.vo"]
COQCHK = ["MS.Props.C04"]
REQUIRES = ["From Coq Require Import List NArith ZArith Bool.", "From Coq.Strings Require Import Byte.",
            "From MS Require Import Base.Bytes Base.Outcome Base.Prog Mp4.Header Mp4.Box Mp4.San Mp4.Spec Mp4.ShiftSpec Props.C04.",
            "Import ListNotations.", "Open Scope N_scope."]
THEOREMS = [
    ("C04_moov_identical_outside_tables", """
  forall (p : bytes) (kids : list node) (rs : list region) (d : Z) (kids' : list node) (u : list unit),
  moov_check p = Ok kids -> co_regions p = Some rs -> (- 2 ^ 31 <= d < 2 ^ 31)%Z ->
  each_trak kids (shift_table (shift_entry 32 d) (shift_entry 64 d)) = Ok (kids', u) ->
  put_nodes kids = p /\\ blen (put_nodes kids') = blen p /\\ masked_eq rs p (put_nodes kids') = true"""),
    ("C04_ftyp_identical", """
  forall (p major : bytes) (brands : list bytes), parse_ftyp p = Ok (major, brands) ->
  (8 <= length p)%nat /\\
  p = major ++ n2be 4 (be2n (firstn 4 (skipn 4 p))) ++ skipn 8 p /\\
  (exists tail, skipn 8 p = concat brands ++ tail /\\ (length tail < 4)%nat) /\\
  length major = 4%nat /\\ Forall (fun b => length b = 4%nat) brands"""),
    ("C04_toplevel", """forall (cfg : config) (lenient : bool) (inp : input) (fuel : nat) (o : out) (md : bytes) (pad : N),
  ilen inp <= U64MAX -> (forall t, cumulative_mdat_box_size cfg = Some t -> t <= U32MAX) ->
  mp4_sanitize cfg lenient U64MAX' inp fuel = Ok o -> o_metadata o = Some (md, pad) ->
  exists bs f m mp' psz rs,
    tiling (cumulative_mdat_box_size cfg) inp = Some bs /\\ the_ftyp bs = Some f /\\ last_moov bs = Some m /\\
    metadata_shape (md_input md pad) = Some (tb_payload inp f, mp', psz) /\\
    co_regions (tb_payload inp m) = Some rs /\\
    blen mp' = blen (tb_payload inp m) /\\
    masked_eq rs (tb_payload inp m) mp' = true"""),
]
TRUSTED = fam.TRUSTED_COMMON
ASSUMPTIONS = fam.ASSUMPTIONS_COMMON + [
    "payload-level theorems are stated for the ftyp and moov PAYLOADS as the model keeps them; C04_toplevel (Mp4/LoopProofsRewrite.v) supplies that "
    "the returned metadata, read as boxes by Spec.metadata_shape, consists of exactly these payloads under new headers (+ padding box); it assumes "
    "input length <= u64::MAX, the in-memory cursor (max_seek = 2^64-1), cumulative_mdat_box_size: u32",
    "the model keeps the ftyp payload as bytes where the code keeps the parsed FtypBox and re-serialises it; C04_ftyp_identical shows the parsed "
    "fields re-encode to the payload, the batch compares the emitted bytes",
]
RULE = ("moov trees with unknown siblings (udta, uuid-typed, empty free, a stray stco outside the stbl path) before and after the path box at each of the "
        "levels trak/mdia/minf/stbl, child header forms 32-bit / 64-bit / until-end at each level, moov header 32/64/until-end, stco and co64 with "
        "boundary entries; ftyp payloads of every length 8..40 and 1021..1025; seed layouts; gap lattice; structure-aware random rewrite layouts; tree "
        "mutations; thorough adds the 2^32-9 / 2^32-8 padding boundary. Oracle: ftyp payload of the returned metadata equals the input's; moov payload "
        "has the same length and equals the input's last moov payload outside the entry tables (independent Python walker for the mask + extracted "
        "Spec view of both). Non-trivial = at least 40 bytes present; distinct = distinct case line.")
LEVEL_TEXT = ("Coq theorems, no axioms. TOP LEVEL (whole inputs, every configuration, strict and seek-style Skip, every fuel): C04_toplevel - if the "
              "model returns metadata then, read as boxes by the specification (metadata_shape), its ftyp payload is the input's ftyp payload byte "
              "for byte, and its moov payload has the length of the input's last moov payload and is byte-identical to it outside the entry tables "
              "that the independent walker of Mp4/Spec.v finds in the input payload (Spec.masked_eq). PAYLOAD LEVEL: the tree kept for an accepted "
              "moov serialises to the payload read (C16 part c), the rewrite touches only table entries (C04_moov_identical_outside_tables), the "
              "parsed ftyp fields re-encode to the payload (C04_ftyp_identical). The model is tied to the code by the differential batch on trees with "
              "unknown siblings at every level and all child header forms; the oracle compares the implementation's returned payloads with the "
              "input's directly.")
LEVEL_NOTE = ("Trusted: Coq kernel; the hand-written models (tied by the batch); Mp4/Spec.v co_regions/masked_eq/metadata_shape as the meaning of "
              "`outside the chunk-offset tables` and of `the metadata read as boxes`; extraction and OCaml driver; the Rust harness; the small Python "
              "table walker used for masking. Top-level assembly proved in Mp4/LoopProofsRewrite.v (input length <= u64::MAX, in-memory cursor).")
TECHNIQUE = "Coq proof about a hand-written model + extracted-model/Rust differential check + extracted specification as oracle"
DESIGN_REF = "DESIGN.md section 7 (C04)"
