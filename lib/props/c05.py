"""C05 - MP4: a file is accepted iff it meets the documented structural rules."""
import mp4props as P
from props import _mp4family as fam


def gen(run):
    quick = run.tier == "quick"
    yield from P.standard_stream(run, 300 if quick else 30000, 300 if quick else 40000, 3 if quick else 5,
                                 seq_sample=None if quick else None)


fam.make(globals(), "C05", ["C05"], gen, kinds=True)
COQ_TARGETS = ["theories/Props/C05.vo", "theories/Props/C05d.vo", "theories/Mp4/LoopProofsExamples.vo", "theories/Mp4/LoopProofsTotalInst.vo"]
REQUIRES = ["From Coq Require Import List NArith ZArith Bool.", "From Coq.Strings Require Import Byte.",
            "From MS Require Import Base.Bytes Base.Outcome Base.Prog Mp4.Header Mp4.Box Mp4.San Mp4.Spec Props.C05.",
            "Import ListNotations.", "Open Scope N_scope."]
COQCHK = ["MS.Props.C05", "MS.Props.C05d"]
_PRE = """forall (cfg : config) (lenient : bool) (inp : input) (fuel : nat),
  max_metadata_size cfg < 4294967296 ->
  ilen inp <= U64MAX ->
  (forall t, cumulative_mdat_box_size cfg = Some t -> t <= U32MAX) ->"""
THEOREMS = [
    ("C05_accept_iff_rules", _PRE + """
  mp4_sanitize cfg lenient U64MAX' inp fuel <> OutOfFuel ->
  is_ok (mp4_sanitize cfg lenient U64MAX' inp fuel) =
  accept_spec {| c_max := max_metadata_size cfg; c_cum := cumulative_mdat_box_size cfg |} inp
  && negb (match tiling (cumulative_mdat_box_size cfg) inp with Some bs => overflow_case inp bs | None => false end)"""),
    ("C05_none_iff_moov_first", """forall (cfg : config) (lenient : bool) (inp : input) (fuel : nat) (o : out),
  max_metadata_size cfg < 4294967296 ->
  ilen inp <= U64MAX ->
  (forall t, cumulative_mdat_box_size cfg = Some t -> t <= U32MAX) ->
  mp4_sanitize cfg lenient U64MAX' inp fuel = Ok o ->
  exists bs, tiling (cumulative_mdat_box_size cfg) inp = Some bs /\\
    (o_metadata o = None <-> plan_of inp bs = Some NoRewrite) /\\
    (plan_of inp bs = Some NoRewrite <->
     exists f m d, the_ftyp bs = Some f /\\ last_moov bs = Some m /\\ first_mdat bs = Some d /\\ tb_off m < tb_off d)"""),
    ("C05_strict_lenient_agree", """forall (cfg : config) (inp : input) (fuel : nat),
  max_metadata_size cfg < 4294967296 ->
  ilen inp <= U64MAX ->
  (forall t, cumulative_mdat_box_size cfg = Some t -> t <= U32MAX) ->
  mp4_sanitize cfg false U64MAX' inp fuel <> OutOfFuel ->
  mp4_sanitize cfg true U64MAX' inp fuel <> OutOfFuel ->
  is_ok (mp4_sanitize cfg false U64MAX' inp fuel) = is_ok (mp4_sanitize cfg true U64MAX' inp fuel)"""),
]
_DREQ = ["From Coq Require Import List NArith Bool.", "From Coq.Strings Require Import Byte.",
         "From MS Require Import Base.Bytes Base.Outcome Base.Prog Mp4.Header Mp4.Box Mp4.San Gen.Mp4Dispatch Mp4.SanDispatch Mp4.SanDispatchProofs Props.C05d.",
         "Import ListNotations.", "Open Scope N_scope."]
# the top-level dispatch regenerated from the source (Gen/Mp4Dispatch.v, tools/gen_consts.py): Props/C05d.v
THEOREMS = THEOREMS + [
    ("C05_dispatch_is_source", """forall (cfg : config) (fuel : nat) (R : reader) (rs : rst R),
  run R (sanitize_prog cfg fuel) rs = run R (sanitize_prog_arms cfg fuel) rs"""),
    ("C05_step_dispatch_is_source", """forall (cfg : config) (s : st) (R : reader) (rs : rst R),
  run R (step cfg s) rs = run R (step_arms cfg s) rs"""),
    ("C05_dispatch_list", """DISPATCH_SRC = [ANames [t_free; t_skip]; ANames [t_ftyp]; AGuardNoFtyp; ANames [t_mdat]; ANames [t_moov];
                  ANames [t_meta; t_meco]; AAny]"""),
]
_BREQ = ["From Coq Require Import List NArith Bool.", "From Coq.Strings Require Import Byte.",
         "From MS Require Import Base.Bytes Base.Outcome Mp4.Header Mp4.Box Gen.Mp4BoxTypes Mp4.BoxTypesProofs Props.C05d.",
         "Import ListNotations."]
THEOREMS = THEOREMS + [
    ("C05_accessor_chain_is_source", """forall (A : Type) (kids : list node) (g : node -> res (node * A)),
  trak_co kids g = chain_by ACCESSOR_CHAIN_SRC kids (fun sk => stbl_co sk g)"""),
    ("C05_box_types_are_source", """t_trak = TRAKS_ITEM_TYPE_SRC /\\ [t_mdia; t_minf; t_stbl] = ACCESSOR_CHAIN_SRC /\\
  t_stco = BOXTYPE_StcoBox_SRC /\\ t_co64 = BOXTYPE_Co64Box_SRC /\\ t_moov = BOXTYPE_MoovBox_SRC /\\ t_ftyp = BOXTYPE_FtypBox_SRC"""),
]
REQUIRES_FOR = {"C05_dispatch_is_source": _DREQ, "C05_step_dispatch_is_source": _DREQ, "C05_dispatch_list": _DREQ,
                "C05_accessor_chain_is_source": _BREQ, "C05_box_types_are_source": _BREQ}
TRUSTED = fam.TRUSTED_COMMON + ["the arms of the top-level `match header.box_type()` (names per arm, the ftyp guard arm, the catch-all, in source order) are "
                                "regenerated from mp4san/src/lib.rs on every run (Gen/Mp4Dispatch.v) and the model's step is proved to dispatch by that list "
                                "(C05_dispatch_is_source)",
                                "axioms: none (Print Assumptions of the three theorems = Closed under the global context)"]
ASSUMPTIONS = fam.ASSUMPTIONS_COMMON + [
    "C05 is stated for max_metadata_size < 2^32 (a chunk-offset table of 2^32 bytes or more is refused by the code's u32 arithmetic)",
    "input length <= u64::MAX; the in-memory cursor can seek up to u64::MAX (max_seek = U64MAX'); fuel: the theorem excludes OutOfFuel, "
    "Mp4/LoopProofs.v loop_fuel_enough gives ilen/8+1 as sufficient",
]
RULE = ("seed layouts (unit-test shapes and neighbours); gap lattice; structure-aware random rewrite layouts (dense and sparse, all header forms); "
        "size-field pathologies x 5 box kinds x 2 header forms; truncation at every byte of 2 seed files; overshoot by 1..2^63 on sparse streams; "
        "moov tree mutations (random point mutations and delete/duplicate/insert at each of the 5 levels); config lattices; all top-level sequences up to "
        "length 3 (quick) / 5 (thorough) over {ftyp,moov,mdat,free,skip,meta,meco,abcd,uuid}. Non-trivial = at least 40 bytes present; distinct = distinct case line.")
LEVEL_TEXT = ("Theorems C05_accept_iff_rules, C05_none_iff_moov_first, C05_strict_lenient_agree (Coq, all inputs of any length up to 2^64-1, all "
              "configurations with limit < 2^32, both Skip behaviours, no bound on the number or nesting of boxes) relate the hand-written model of "
              "sanitize_async_with_config to the independent specification accept_spec / plan_of / overflow_case of Mp4/Spec.v: the result is Ok exactly "
              "when the input is tiled by complete boxes, the layout/ftyp/moov/mdat rules hold and the chunk-offset relocation does not overflow; the "
              "metadata is None exactly when the last moov starts before the first mdat. The model is tied to /repo by the differential check of every "
              "run, and the extracted specification is evaluated on the implementation's outputs as the oracle.")
LEVEL_NOTE = ("Trusted: Coq kernel; the hand-written model (Header/Box/San.v) and its correspondence batch; the specification Spec.v as the reading "
              "of the property text (version-0 table = version 0 and flags 0; cumulative_mdat_box_size takes part in the tiling); extraction + OCaml "
              "driver; the Rust harness. No axioms. Limits >= 2^32 are outside the statement (sampled only).")
TECHNIQUE = ("Coq proof about a hand-written model whose top-level box dispatch, box-type strings and accessor chain are regenerated from the source + "
             "extracted-model/Rust differential check + extracted specification as oracle")
DESIGN_REF = "DESIGN.md section 7 (C05)"
