"""C05 - MP4: a file is accepted iff it meets the documented structural rules."""
import mp4props as P
from props import _mp4family as fam


def gen(run):
    quick = run.tier == "quick"
    yield from P.standard_stream(run, 300 if quick else 6000, 300 if quick else 8000, 3 if quick else 5,
                                 seq_sample=None if quick else None)


fam.make(globals(), "C05", ["C05"], gen, kinds=True)
COQ_TARGETS = ["theories/Mp4/San.vo", "theories/Mp4/Spec.vo"]
THEOREMS = []
TRUSTED = fam.TRUSTED_COMMON
ASSUMPTIONS = fam.ASSUMPTIONS_COMMON + ["C05 is stated for max_metadata_size < 2^32 (a chunk-offset table of 2^32 bytes or more is refused by the code's u32 arithmetic)"]
RULE = ("seed layouts (unit-test shapes and neighbours); gap lattice; structure-aware random rewrite layouts (dense and sparse, all header forms); "
        "size-field pathologies x 5 box kinds x 2 header forms; truncation at every byte of 2 seed files; overshoot by 1..2^63 on sparse streams; "
        "moov tree mutations (random point mutations and delete/duplicate/insert at each of the 5 levels); config lattices; all top-level sequences up to "
        "length 3 (quick) / 5 (thorough) over {ftyp,moov,mdat,free,skip,meta,meco,abcd,uuid}. Non-trivial = at least 40 bytes present; distinct = distinct case line.")
LEVEL_TEXT = "TBD"
LEVEL_NOTE = "TBD"
TECHNIQUE = "Coq proof about a hand-written model + extracted-model/Rust differential check + extracted specification as oracle"
DESIGN_REF = "DESIGN.md section 7 (C05)"
