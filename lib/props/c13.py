"""C13 - I/O failures are propagated; truncation is a parse error (mp4f area: MP4 sanitizer; webp area: `wcount`/`wfault` lines)."""
import random
import mp4props as P
import webpgen as W
from mp4gen import *

ID = "C13"
AREA = "mp4f"
AREAS = ["mp4f", "webp"]
COQ_TARGETS = ["theories/Props/C13.vo", "theories/Props/C13w.vo", "theories/Mp4/SanB.vo"]
REQUIRES = ["From Coq Require Import List NArith ZArith Bool.", "From Coq.Strings Require Import Byte.",
            "From MS Require Import Base.Bytes Base.Outcome Base.Prog Base.ProgSpec Base.BufLevel Mp4.Header Mp4.Box Mp4.San Mp4.SanB Props.C13.",
            "Import ListNotations.", "Open Scope N_scope."]
COQCHK = ["MS.Props.C13", "MS.Props.C13w"]
THEOREMS = [
    ("C13_fault_generic", """forall (A : Type) (T : perr -> Prop) (p : prog A), propagating T p ->
      forall (R : reader) (s : rst R) (k : nat) (e : ioerr),
        ((op_count R p s <= k)%nat /\\ run_fault R p s k e = run R p s)
        \\/ ((k < op_count R p s)%nat /\\ fault_result T e (fst (run_fault R p s k e)))"""),
    ("C13_fault_propagates_mp4", """forall (cfg : config) (fuel : nat) (R : reader) (s : rst R) (k : nat) (e : ioerr),
      let p := sanitize_prog cfg fuel in
      ((op_count R p s <= k)%nat /\\ run_fault R p s k e = run R p s)
      \\/ ((k < op_count R p s)%nat /\\
          (fst (run_fault R p s k e) = EIo e \\/
           (e = EUnexpectedEof /\\ fst (run_fault R p s k e) = EParse TruncatedBox)))"""),
    ("C13_reader_error_propagates_mp4", """forall (cfg : config) (fuel : nat) (R : reader) (s : rst R) (o : op) (e : ioerr),
      let p := sanitize_prog cfg fuel in
      first_err R p s = Some (o, e) ->
      fst (run R p s) = EIo e \\/ (e = EUnexpectedEof /\\ fst (run R p s) = EParse TruncatedBox)"""),
    ("C13_no_spurious_io", """forall (cfg : config) (fuel : nat) (inp : input) (lenient : bool) (e : ioerr),
      ilen inp <= 9223372036854775807 ->
      mp4_sanitize cfg lenient 18446744073709551615 inp fuel = EIo e -> lenient = true /\\ e = EInvalidData"""),
    ("C13_io_only_from_failed_skip", """forall (cfg : config) (fuel : nat) (inp : input) (lenient : bool) (max_seek : N) (e : ioerr),
      mp4_sanitize cfg lenient max_seek inp fuel = EIo e ->
      lenient = true /\\
      exists n pos, pos <= ilen inp /\\ max_seek < pos + n /\\
        e = (if (9223372036854775807 <? n) && (18446744073709551615 <? pos + n) then EInvalidData else EInvalidInput)"""),
    ("C13_fault_propagates_webp", """forall (lossless : N -> N -> bytes -> res unit) (allow : bool) (fuel : nat) (R : reader) (s : rst R) (k : nat) (e : ioerr),
      let p := webp_prog lossless allow fuel in
      ((op_count R p s <= k)%nat /\\ run_fault R p s k e = run R p s)
      \\/ ((k < op_count R p s)%nat /\\
          (fst (run_fault R p s k e) = EIo e \\/
           (e = EUnexpectedEof /\\ fst (run_fault R p s k e) = EParse TruncatedChunk)))"""),
    ("C13_reader_error_propagates_webp", """forall (lossless : N -> N -> bytes -> res unit) (allow : bool) (fuel : nat) (R : reader) (s : rst R) (o : op) (e : ioerr),
      let p := webp_prog lossless allow fuel in
      first_err R p s = Some (o, e) ->
      fst (run R p s) = EIo e \\/ (e = EUnexpectedEof /\\ fst (run R p s) = EParse TruncatedChunk)"""),
]
_WREQ = ["From Coq Require Import List NArith Bool.", "From Coq.Strings Require Import Byte.",
         "From MS Require Import Base.Bytes Base.Outcome Base.Prog Base.ProgSpec Webp.Container Webp.Vp8l Webp.ContainerProofsTotal Props.C13w.", "Open Scope N_scope."]
THEOREMS.append(("C13_no_spurious_io_webp", """forall (lossless : N -> N -> bytes -> res unit) (allow lenient : bool) (ms : N) (inp : input) (fuel : nat),
  (forall w h b, ldims w h -> rgood (lossless w h b)) -> (forall w h b e, ldims w h -> lossless w h b <> EIo e) ->
  (lenient = true -> ilen inp + 2 ^ 32 <= ms) ->
  forall e, webp_sanitize lossless allow lenient ms inp fuel <> EIo e"""))
THEOREMS.append(("C13_no_spurious_io_webpsan", """forall (allow lenient : bool) (ms : N) (inp : input) (fuel : nat) (e : ioerr),
  (lenient = true -> ilen inp + 2 ^ 32 <= ms) ->
  webp_sanitize lossless_read allow lenient ms inp fuel <> EIo e"""))
REQUIRES_FOR = {"C13_fault_propagates_webp": _WREQ, "C13_reader_error_propagates_webp": _WREQ, "C13_no_spurious_io_webp": _WREQ, "C13_no_spurious_io_webpsan": _WREQ}
TRUSTED = [
    "Coq 8.16.1 kernel (coqc; coqchk in the thorough tier); vm_compute only in Examples; no native_compute",
    "axioms: none (Print Assumptions = Closed under the global context for every theorem)",
    "hand-written Gallina model of mp4san::sanitize_async_with_config: coq/theories/Mp4/{Header,Box,San}.v over Base/{Bytes,Outcome,Prog}.v "
    "(every `?` and every `.map_eof` written out at its call site: do_* wrappers with eof = None / Some TruncatedBox)",
    "Base/BufLevel.v: hand-written model of futures_util 0.3.34 io::BufReader(32) (poll_read bypass rule, poll_fill_buf, consume), "
    "io::ReadExact and mediasan_common's `impl AsyncSkip for BufReader` as a reader issuing INNER operations on the wrapped stream; "
    "modelled, not verified; tied to the real code by this property's batch (fault indices are inner-operation indices)",
    "constants regenerated from the Rust source on every run (tools/gen_consts.py: BoxHeader::MAX_SIZE = buffer capacity, MAX_FTYP_SIZE ...)",
    "extraction with ExtrOcamlBasic only; OCaml 4.13.1; ocaml/prelude.ml + ocaml/mp4f.ml",
    "Rust harness harness/src/mp4f.rs: FaultMeter (Read+Skip) and AsyncFm (AsyncRead+AsyncSkip, always Ready) around the sparse test "
    "stream, counting read/skip/stream_position/stream_len calls and failing the k-th with io::Error::from(kind); rustc/cargo",
    "modelled, not verified: the compiler's async lowering, bytes::BytesMut",
]
ASSUMPTIONS = [
    "a failed inner operation has no effect on the stream (the harness wrapper does not touch the wrapped reader on the faulty call)",
    "error kinds considered: Other, PermissionDenied, TimedOut, WouldBlock, InvalidData, UnexpectedEof (ErrorKind::Interrupted is outside "
    "the property's list: futures' ReadExact does not retry it and it propagates like the others)",
    "stream positions and lengths are u64",
]
KINDS = ["Other", "PermissionDenied", "TimedOut", "WouldBlock", "InvalidData", "UnexpectedEof"]
RULE = ("MP4: ~60 inputs (the unit-test shapes and their neighbours: valid rewrites, moov before mdat, 64-bit and until-EOF ftyp/moov/mdat so that "
        "stream_len/stream_position are exercised, uuid headers, multiple moov/mdat, free/skip/meta/meco, invalid layouts, bad ftyp/moov trees; "
        "size-field pathologies; truncated files; sparse streams with multi-GiB boxes and skips beyond 2^64), each through the strict and/or the "
        "seek-style sparse reader; for EVERY inner operation index k of the fault-free run (read/skip/stream_position/stream_len calls on the "
        "input, counted below the sanitizer's 32-byte BufReader) and two indices beyond it x 6 error kinds x {sanitize_with_config, "
        "sanitize_async_with_config}: exact result (error kind included) compared with the model run over the Level-B reader with the same "
        "fault; plus the fault-free run with its operation count. Non-trivial = the fault is reached (k < count); distinct = distinct case line.")
EXHAUSTIVE = {"quick": True, "thorough": True}
XCHECK_N = 16
NOTES = ["exhaustive = every inner operation index x every listed error kind x both entry points for each input of the corpus; the theorems "
         "cover every reader, state, index and kind",
         "WebP half: C13_no_spurious_io_webp (fault-free cursor, strict or seek-style with a bound 2^32 beyond the input: never Io, any fuel) and "
         "C13_fault_propagates_webp / C13_reader_error_propagates_webp are about the container programme Webp/Container.v (the lossless "
         "validator is a pure parameter there: the model reads the chunk body with one read operation and hands the bytes over, the code pulls them "
         "through its 4 KiB bit buffer); fault indices of model and code therefore do not align and the `wfault` lines are judged by the oracle "
         "only (every inner operation index x 6 kinds on ~25 files), not compared with a model run"]

U64 = 2**64 - 1


def to_args(mp4_line):
    """`mp4 <reader> <max> <cum> <len> <exts>` -> `<reader> <max> <cum> <len> <exts>` with Sparse readers only"""
    t = mp4_line.split()
    rd = "strict" if t[1] == "strict" else "lenient"
    return " ".join([rd] + t[2:])


def corpus(rng, tier):
    out = []   # (args, tag)
    seeds = P.seed_layouts(rng)
    for i, lay in enumerate(seeds):
        data = b"".join(lay)
        rd = "strict" if i % 2 else "lenient"
        out.append((to_args(case_dense(rd, P.DEFAULT_MAX, None, data)), "seed"))
        if i % 5 == 0:
            out.append((to_args(case_dense("strict" if rd == "lenient" else "lenient", P.DEFAULT_MAX, None, data)), "seed"))
    m1 = P.simple_moov([(4, [20, 30])])
    md = box(b"mdat", b"abcdefg")
    f = P.F()
    # until-EOF boxes: stream_len / stream_position inside data_size
    for lay in ([f, md, box(b"moov", m1[8:], form="eof")], [f, m1, box(b"mdat", b"xyz", form="eof")], [f, box(b"free", b"abc", form="eof")],
                [box(b"ftyp", f[8:], form="eof")], [f, md, m1, box(b"meta", b"q", form="eof")], [f, md, box(b"abcd", b"q", form="eof")]):
        for rd in ("strict", "lenient"):
            out.append((to_args(case_dense(rd, P.DEFAULT_MAX, None, b"".join(lay))), "until-eof"))
    out.append((to_args(case_dense("strict", P.DEFAULT_MAX, 11, f + m1 + box(b"mdat", b"xyz", form="eof"))), "until-eof"))
    # truncations of a valid file at chosen points (header, payload, between boxes)
    data = f + md + m1
    for k in (0, 3, 4, 7, 8, 19, 20, 24, 28, 34, 35, 36, 40, 60, len(data) - 1):
        out.append((to_args(case_dense("strict" if k % 2 else "lenient", P.DEFAULT_MAX, None, data[:k])), "truncation"))
    # a payload far larger than any internal piece size, cut around the 64 KiB multiples: still ONE read whose short end is TruncatedBox
    big = [l for l, _ in P.big_box_truncations(("strict", "lenient"))]
    for l in (big[::7] if tier == "quick" else big):
        out.append((to_args(l), "truncation"))
    # size-field pathologies (sample)
    path = [l for l, tag in P.pathologies(rng, readers=("strict", "cursor")) if tag == "size-pathology"]
    for l in rng.sample(path, 10 if tier == "quick" else 40):
        out.append((to_args(l), "size-pathology"))
    # sparse: multi-GiB boxes, declared sizes beyond the input, skips beyond 2^64
    for over, nm in ((1, b"mdat"), (2**32, b"free"), (2**62, b"mdat"), (2**63 + 100, b"mdat"), (2**63 + 100, b"abcd")):
        L = Layout().add(f).add(m1).add(box(b"mdat", b"abc"))
        L.add(box(nm, b"xyz", form="64", size=16 + 3 + over))
        for rd in ("strict", "lenient"):
            out.append((to_args(case_line(rd, P.DEFAULT_MAX, None, L.total(), L.exts())), "overshoot"))
    L = Layout().add(f).add(m1).add(be32(1) + b"mdat" + be64(2**64 - 1) + b"abc")
    out.append((to_args(case_line("lenient", P.DEFAULT_MAX, None, L.total(), L.exts())), "overshoot"))
    g = 2**33
    L = Layout().add(f).add(box(b"free", b"", form="64", size=2**20), virtual=2**20).add(box(b"mdat", b"", form="64", size=g), virtual=g).add(m1)
    out.append((to_args(case_line("lenient", 4096, None, L.total(), L.exts())), "sparse"))
    out.append((to_args(case_line("strict", P.DEFAULT_MAX, None, L.total(), L.exts())), "sparse"))
    # limit below the moov payload; uuid header
    out.append((to_args(case_dense("strict", 10, None, f + md + m1)), "limit"))
    out.append((to_args(case_dense("lenient", P.DEFAULT_MAX, None, f + box(b"uuid", b"q", form="64", uuid=bytes(range(16))) + md + m1)), "seed"))
    if tier == "thorough":
        for l, _ in P.rewrite_cases(rng, 120):
            out.append((to_args(l), "rewrite"))
        for l, _ in P.tree_mutations(rng, 60):
            out.append((to_args(l), "tree-mutation"))
    seen, res = set(), []
    for a, tag in out:
        if a not in seen:
            seen.add(a)
            res.append((a, tag))
    return res


def counts_for(run, args_list):
    res = run.harness(["c%d count %s" % (i, a) for i, a in enumerate(args_list)])
    out = []
    for i in range(len(args_list)):
        r = res.get("c%d" % i, "")
        n = int(r.split()[0][2:]) if r.startswith("n=") else None
        out.append((n, r.split(" ", 1)[1] if n is not None else r))
    return out


def fault_lines(args, n, extra=2):
    for k in range(n + extra):
        for kind in KINDS:
            for entry in ("sync", "async"):
                yield "fault %s %d %s %s" % (entry, k, kind, args)


def gen(run):
    rng = run.rng
    # corpus of past disagreements / mutants first
    f = P.F(); m1 = P.simple_moov([(4, [20, 30])]); md = box(b"mdat", b"abcdefg")
    a0 = to_args(case_dense("lenient", P.DEFAULT_MAX, None, f + md + m1))
    for k in (0, 1, 2, 3, 5, 9):
        yield "fault sync %d UnexpectedEof %s" % (k, a0), "corpus"
        yield "fault async %d TimedOut %s" % (k, a0), "corpus"
    cs = corpus(rng, run.tier)
    cnt = counts_for(run, [a for a, _ in cs])
    for (a, tag), (n, _) in zip(cs, cnt):
        yield "count " + a, "fault-free-" + tag
        if n is None:
            continue
        for l in fault_lines(a, n):
            yield l, "fault-" + tag


def same(line, impl, model):
    return impl == model


def classify(line, impl):
    t = impl.split()
    if not t:
        return "missing"
    if t[0].startswith("n="):
        t = t[1:]
    if t[:1] == ["ok"]:
        return "ok-" + t[1]
    if t[:1] == ["err"]:
        return "err-" + t[1] + "-" + t[2].split(":")[0]
    return t[0]


def nontrivial(line, impl):
    return line.startswith("fault") and impl.startswith("err")


def skip_beyond_u64(args):
    """does the top-level walk of the input reach a box whose payload end lies beyond 2^64-1? (then a seek-style skip answers
    InvalidData: the one Io error the property allows on a fault-free in-memory input)"""
    t = args.split()
    ln = int(t[3])
    exts = []
    if t[4] != "-":
        for e in t[4].split(","):
            o, h = e.split(":")
            exts.append((int(o), bytes.fromhex(h)))
    sb = SparseBytes(ln, exts)
    off = 0
    for _ in range(10000):
        if off >= ln:
            return False
        h = sb.get(off, 32)
        if len(h) < 8:
            return False
        sz = int.from_bytes(h[:4], "big")
        hl = 8
        if sz == 1:
            if len(h) < 16:
                return False
            sz = int.from_bytes(h[8:16], "big")
            hl = 16
        elif sz == 0:
            return False
        if h[4:8] == b"uuid":
            hl += 16
        if sz < hl:
            return False
        if off + sz > U64:
            return True
        off += sz
    return False


def oracle(run, pairs):
    """From the property text, independently of the model: a reached fault => Io(kind) (or TruncatedBox for UnexpectedEof);
    an unreached fault => the fault-free result; never ok-after-fault, never a panic; fault-free runs never give Io except
    InvalidData for a skip target beyond u64."""
    base = {}
    for line, impl in pairs:
        if line.startswith("count ") and impl.startswith("n="):
            base[line[6:]] = (int(impl.split()[0][2:]), impl.split(" ", 1)[1])
    need = []
    for line, _ in pairs:
        if line.startswith("fault "):
            a = line.split(" ", 4)[4]
            if a not in base and a not in need:
                need.append(a)
    if need:
        for a, (n, r) in zip(need, counts_for(run, need)):
            base[a] = (n, r)
    out = []
    for line, impl in pairs:
        if impl in ("panic", "missing", "") or impl.startswith(("sync-async-differ", "unknown")):
            out.append((False, "no result / panic / sync and async differ: %s" % impl[:120]))
            continue
        if line.startswith("count "):
            r = impl.split(" ", 1)[1]
            if r.startswith("err io"):
                ok = r == "err io InvalidData" and line.split()[1] != "strict" and skip_beyond_u64(line[6:])
                out.append((ok, "fault-free in-memory run returned %s" % r))
            else:
                out.append((True, ""))
            continue
        t = line.split(" ", 4)
        k, kind, a = int(t[2]), t[3], t[4]
        n, r0 = base.get(a, (None, "missing"))
        if n is None:
            out.append((False, "no fault-free observation: %s" % r0[:100]))
        elif k < n:
            ok = impl == "err io " + kind or (kind == "UnexpectedEof" and impl == "err parse TruncatedBox")
            out.append((ok, "fault %s at inner operation %d of %d gave `%s`" % (kind, k, n, impl[:80])))
        else:
            out.append((impl == r0, "fault index %d beyond the %d operations of the run, result `%s` differs from fault-free `%s`" % (k, n, impl[:60], r0[:60])))
    return out


def search(run, disagreements):
    rng = random.Random(run.seed + 13)
    lines = [to_args(l) for l, _ in P.rewrite_cases(rng, 150)] + [to_args(l) for l, _ in P.tree_mutations(rng, 100)]
    lines += [to_args(l) for l, tag in P.pathologies(rng) if tag in ("size-pathology", "overshoot")][::3]
    lines = list(dict.fromkeys(lines))
    cnt = counts_for(run, lines)
    for a, (n, _) in zip(lines, cnt):
        yield "count " + a, "search"
        if n is None:
            continue
        for l in fault_lines(a, n, extra=1):
            yield l, "search"


def coq_bool(line, model_out):
    t = line.split()
    if t[0] != "fault" or t[2] == "-":
        return None
    args = t[4:]
    rd, mx, cum, ln, exts = args
    if exts == "-" or len(exts) > 900 or int(ln) > 10**6:
        return None
    ex = []
    for e in exts.split(","):
        o, h = e.split(":")
        ex.append("(%s, [%s])" % (o, "; ".join("x%s" % h[i:i + 2] for i in range(0, len(h), 2))))
    cfg = "{| max_metadata_size := %s; cumulative_mdat_box_size := %s |}" % (mx, "None" if cum == "-" else "Some %s" % cum)
    call = ("fst (fst (mp4_sanitize_b %s %s 18446744073709551615 (input_of_exts %s [%s]) 200 (Some (%s, E%s))))"
            % (cfg, "false" if rd == "strict" else "true", ln, "; ".join(ex), t[2], t[3]))
    if model_out.startswith("err io "):
        return "match %s with EIo E%s => true | _ => false end" % (call, model_out.split()[2])
    if model_out.startswith("err parse TruncatedBox"):
        return "match %s with EParse TruncatedBox => true | _ => false end" % call
    if model_out.startswith("err parse"):
        return "match %s with EParse _ => true | _ => false end" % call
    if model_out.startswith("ok"):
        return "match %s with Ok _ => true | _ => false end" % call
    return None


LEVEL_TEXT = ("MP4 half. Theorems (Coq, no bound): a generic fault theorem proved once by induction on programmes (C13_fault_generic: if every I/O "
              "site of a programme answers an error by returning Io e, or a truncation parse error at a map_eof site when e = UnexpectedEof, then a "
              "fault at ANY operation index of ANY run over ANY reader yields exactly that, or is never reached and the run is the fault-free "
              "run); its instance for the MP4 sanitizer programme (C13_fault_propagates_mp4: every reader, state, index, error kind, "
              "configuration, fuel; never Ok and never a panic after a reached fault), shown by one tactic that walks the programme's syntax; "
              "the same for readers that fail by themselves (C13_reader_error_propagates_mp4); and C13_no_spurious_io / "
              "C13_io_only_from_failed_skip: on the ideal in-memory cursor a fault-free run never returns Io except InvalidData from a "
              "seek-style skip whose target exceeds 2^64-1 (a short file is TruncatedBox). Which sites are map_eof sites is what the "
              "correspondence ties to the code: for ~60 inputs, EVERY inner operation index x 6 error kinds x sync and async entry points, "
              "the exact result of the real sanitizer (fault injected below its 32-byte BufReader) equals the model run over a Level-B model "
              "of that BufReader with the same fault. `For every operation index of every run and every error kind` is a universally "
              "quantified statement; the proof decides it for the model, the exhaustive-index batch shows the `?`/map_eof sites are where "
              "the model says.")
LEVEL_NOTE = ("WebP half PENDING (no webp programme model yet; C13_fault_generic is stated over any programme so that the webp instance is one "
              "more `propagating` proof). Trusted: Coq kernel; the hand-written sanitizer model and the Level-B model of futures BufReader(32) "
              "(modelled from the futures-util 0.3.34 / mediasan sources, compared with the implementation on every run: results under every "
              "fault index, operation counts); extraction and the OCaml driver; the Rust harness and its fault-injecting wrappers. The theorems "
              "are about ABSTRACT reader operations (fill_buf / read_exact / skip / stream_position / stream_len); the step from an inner fault "
              "to the abstract error answer goes through the Level-B model (C13_reader_error_propagates_mp4 applies to it as to any reader). "
              "No axioms.")
TECHNIQUE = "Coq proof by induction on the free-monad programme + syntactic traversal tactic + exhaustive-fault-index differential check against the real sanitizer"
DESIGN_REF = "DESIGN.md section 7 (C13), 3.1, Appendix A/B"


# ---------------------------------------------------------------------- WebP half (webp area)
_mp4f = dict(gen=gen, same=same, classify=classify, nontrivial=nontrivial, oracle=oracle, search=search, coq_bool=coq_bool)


def _is_w(line):
    return line.startswith(("wcount ", "wfault "))


def area_of(line):
    return "webp" if _is_w(line) else "mp4f"


def _wargs(f, rd="lenient", allow=True):
    return W.case_line(rd, allow, f).split(" ", 1)[1].rsplit(" ", 1)[0]     # `<reader> <allow> <len> <exts>`


def wcorpus(run):
    out = []
    fs = W.valid_files()
    for i, f in enumerate(fs):
        out.append((_wargs(f, "strict" if i % 2 else "lenient"), "valid"))
    f0 = fs[0]
    for k in (0, 5, 11, 12, 15, 19, 20, len(f0) - 1):
        out.append((_wargs(f0[:k], "strict" if k % 2 else "lenient"), "truncated"))
    big = max(fs, key=len)
    for k in range(13, len(big), 7):
        out.append((_wargs(big[:k], "lenient"), "truncated"))
    # odd-sized chunks (pad byte reads), unknown trailing chunks, a chunk declared longer than the input (seek-style skip)
    out.append((_wargs(W.riff(W.mk(b"VP8 ", odd=True) + W.mk(b"UNKN", odd=True))), "pads"))
    out.append((_wargs(W.riff(W.mk(b"VP8 ", odd=True) + W.mk(b"UNKN", odd=True)), allow=False), "pads"))
    out.append((_wargs(W.riff(W.chunk(b"VP8 ", b"\1\2")[:-1] , size=100), "lenient"), "overrun"))
    out.append((_wargs(W.riff(W.chunk(b"VP8 ", b"\1\2")[:-1], size=100), "strict"), "overrun"))
    # lossless payloads: a valid one and garbage (the bit buffer pulls bytes through the chunk data reader)
    out.append((_wargs(W.riff(W.chunk(b"VP8L", W.vp8l_payload(2, 3, bytes(range(40)))))), "lossless-garbage"))
    out.append((_wargs(W.riff(W.chunk(b"VP8X", W.vp8x_payload(W.ALPHA, 2, 3)) + W.chunk(b"ALPH", b"\1" + bytes(range(30))) + W.mk(b"VP8 "))), "lossless-garbage"))
    seen, res = set(), []
    for a, t in out:
        if a not in seen:
            seen.add(a)
            res.append((a, t))
    return res


def wcounts(run, args_list):
    run.use_area("webp")
    res = run.harness(["c%d wcount %s" % (i, a) for i, a in enumerate(args_list)])
    run.use_area("mp4f")
    out = []
    for i in range(len(args_list)):
        r = res.get("c%d" % i, "")
        n = int(r.split()[0][2:]) if r.startswith("n=") else None
        out.append((n, r.split(" ", 1)[1] if n is not None else r))
    return out


def wfaultfree(run):
    """fault-free in-memory webp inputs (no fault sweep): boundary cases, truncations at every byte, mutations"""
    quick = run.tier == "quick"
    raw = list(W.boundary_cases("cursor")) + list(W.boundary_cases("strict")) + list(W.truncations("cursor"))
    raw += list(W.mutations(run.rng, 400 if quick else 20000))
    raw += list(W.sequences(2 if quick else 3, [0, W.ALPHA, W.ANIM, W.ICCP | W.EXIF | W.XMP]))
    seen = set()
    for l, tag in raw:
        c = W.parse_case(l)
        if c["len"] > 2**20:
            continue
        rd = "strict" if c["reader"] == "strict" else "lenient"
        a = "%s %d %d %s" % (rd, 1 if c["allow"] else 0, c["len"], l.split(" ")[4])
        if a not in seen:
            seen.add(a)
            yield "wcount " + a, "webp-fault-free-" + tag


def gen(run):
    yield from _mp4f["gen"](run)
    yield from wfaultfree(run)
    cs = wcorpus(run)
    for (a, tag), (n, _) in zip(cs, wcounts(run, [a for a, _ in cs])):
        yield "wcount " + a, "webp-fault-free-" + tag
        if n is None:
            continue
        for k in range(n + 2):
            for kind in KINDS:
                yield "wfault %d %s %s" % (k, kind, a), "webp-fault-" + tag


def same(line, impl, model):
    return True if _is_w(line) else _mp4f["same"](line, impl, model)


def classify(line, impl):
    if not _is_w(line):
        return _mp4f["classify"](line, impl)
    t = impl.split()
    if t and t[0].startswith("n="):
        t = t[1:]
    if not t:
        return "webp-missing"
    return "webp-" + (t[0] if t[0] != "err" else "err-" + t[1] + "-" + (t[2].split(":")[0] if len(t) > 2 else ""))


def nontrivial(line, impl):
    return (line.startswith("wfault") and impl.startswith("err")) if _is_w(line) else _mp4f["nontrivial"](line, impl)


def coq_bool(line, model_out):
    return None if _is_w(line) else _mp4f["coq_bool"](line, model_out)


def _woracle(run, pairs):
    base = {}
    for line, impl in pairs:
        if line.startswith("wcount ") and impl.startswith("n="):
            base[line[7:]] = (int(impl.split()[0][2:]), impl.split(" ", 1)[1])
    need = []
    for line, _ in pairs:
        if line.startswith("wfault "):
            a = line.split(" ", 3)[3]
            if a not in base and a not in need:
                need.append(a)
    for a, nr in zip(need, wcounts(run, need) if need else []):
        base[a] = nr
    out = []
    for line, impl in pairs:
        if impl in ("panic", "missing", "", "timeout") or impl.startswith("unknown"):
            out.append((False, "no result / panic: %s" % impl[:100]))
        elif line.startswith("wcount "):
            r = impl.split(" ", 1)[1] if impl.startswith("n=") else impl
            out.append((not r.startswith("err io"), "fault-free in-memory run returned %s" % r))
        else:
            t = line.split(" ", 3)
            k, kind, a = int(t[1]), t[2], t[3]
            n, r0 = base.get(a, (None, "missing"))
            if n is None:
                out.append((False, "no fault-free observation: %s" % r0[:100]))
            elif k < n:
                ok = impl == "err io " + kind or (kind == "UnexpectedEof" and impl == "err parse TruncatedChunk")
                out.append((ok, "webp: fault %s at inner operation %d of %d gave `%s`" % (kind, k, n, impl[:80])))
            else:
                out.append((impl == r0, "webp: fault index %d beyond the %d operations of the run, `%s` differs from fault-free `%s`" % (k, n, impl[:60], r0[:60])))
    return out


def oracle(run, pairs):
    wi = [i for i, (l, _) in enumerate(pairs) if _is_w(l)]
    mi = [i for i, (l, _) in enumerate(pairs) if not _is_w(l)]
    res = [None] * len(pairs)
    if mi:
        for i, r in zip(mi, _mp4f["oracle"](run, [pairs[i] for i in mi])):
            res[i] = r
    if wi:
        for i, r in zip(wi, _woracle(run, [pairs[i] for i in wi])):
            res[i] = r
    return res

_BREQ = ["From Coq Require Import List NArith Bool.",
         "From MS Require Import Base.Bytes Base.Outcome Base.Prog Base.BufLevel Mp4.San Mp4.SanB Props.C10b.", "Open Scope N_scope."]
THEOREMS = list(THEOREMS) + [
    ("C10_level_b_refines_cursor", """forall (inp : input) (lenient : bool) (ms cap : N), 1 <= cap -> ilen inp <= I64MAX' -> ilen inp <= ms ->
  forall (A : Type) (p : prog A),
    fst (run (level_b inp lenient ms cap) p (lb_init None)) = fst (run (cursor inp lenient ms) p 0)"""),
    ("C10_mp4_level_b_is_model", """forall (cfg : config) (lenient : bool) (ms : N) (inp : input) (fuel : nat),
  ilen inp <= I64MAX' -> ilen inp <= ms ->
  fst (fst (mp4_sanitize_b cfg lenient ms inp fuel None)) = mp4_sanitize cfg lenient ms inp fuel"""),
]
REQUIRES_FOR = dict(REQUIRES_FOR, C10_level_b_refines_cursor=_BREQ, C10_mp4_level_b_is_model=_BREQ)
COQ_TARGETS = list(COQ_TARGETS) + ["theories/Props/C10b.vo"]
COQCHK = list(COQCHK) + ["MS.Props.C10b"]


# ================================================================================================ third layer: the bit reader of
# the lossless validator over a FAILING source (area bits; model Webp/BitBufFault.v; theorems Props/C13s.v)
_w2 = {k: globals()[k] for k in ("gen", "same", "classify", "nontrivial", "coq_bool", "oracle", "area_of")}
AREAS = list(AREAS) + ["bits"]
_SREQ = ["From Coq Require Import List NArith Bool.",
         "From MS Require Import Base.Bytes Base.Outcome Webp.BitBuf Webp.BitBufSpec Webp.BitBufRun Webp.BitBufFault Props.C13s.",
         "Open Scope N_scope."]
THEOREMS = list(THEOREMS) + [
    ("C13_fault_in_stream", """forall (A : Type) (k : N) (e : ioerr) (p : cprog A) (st : bbr), nreads st <= k ->
  (k < reads_of p st -> run_buf_f k e p st = EIo e) /\\
  (reads_of p st <= k -> run_buf_f k e p st = run_buf p st)"""),
    ("C13_stream_fault_never_swallowed", """forall (A : Type) (k : N) (e : ioerr) (p : cprog A) (src : source) (capacity : N),
  k < reads_of p (with_capacity src capacity) -> run_buf_f k e p (with_capacity src capacity) = EIo e"""),
]
REQUIRES_FOR = dict(REQUIRES_FOR, C13_fault_in_stream=_SREQ, C13_stream_fault_never_swallowed=_SREQ)
COQ_TARGETS = list(COQ_TARGETS) + ["theories/Props/C13s.vo"]
COQCHK = list(COQCHK) + ["MS.Props.C13s"]

# C13 at the poll level of the asynchronous entry point: C12 composed with C13 (Props/C13a.v, Base/AsyncSanFault.v)
_AREQ = ["From Coq Require Import List NArith ZArith Bool.",
         "From MS Require Import Base.Bytes Base.Outcome Base.Cursor Base.Adapters Base.Async Base.AsyncSpec Base.AsyncSan Base.AsyncSanFault "
         "Base.ProgSpec Mp4.San Gen.Consts Props.C13a.",
         "From MS Require Base.Prog.", "Open Scope N_scope."]
THEOREMS = list(THEOREMS) + [
    ("C13_async_reader_error_propagates_mp4", """forall (cfg : config) (fuel : nat) (R : reader)
  (s : bst (rst (ard (pending_reader R)))) (sc : sch) (o : Prog.op) (e : ioerr),
  first_err (san_reader R) (sanitize_prog cfg fuel) s = Some (o, e) ->
  exists r s' sc',
    run_san_sched BOXHEADER_MAX_SIZE (pending_reader R) (sanitize_prog cfg fuel) s sc = Some (r, s', sc') /\\
    (r = EIo e \\/ (e = EUnexpectedEof /\\ r = EParse TruncatedBox))"""),
    ("C13_async_same_result_as_sync", """forall (cfg : config) (fuel : nat) (R : reader)
  (s : bst (rst (ard (pending_reader R)))) (sc : sch),
  exists s' sc',
    run_san_sched BOXHEADER_MAX_SIZE (pending_reader R) (sanitize_prog cfg fuel) s sc =
    Some (fst (Prog.run (san_reader R) (sanitize_prog cfg fuel) s), s', sc')"""),
]
REQUIRES_FOR = dict(REQUIRES_FOR, C13_async_reader_error_propagates_mp4=_AREQ, C13_async_same_result_as_sync=_AREQ)
COQ_TARGETS = list(COQ_TARGETS) + ["theories/Props/C13a.vo"]
COQCHK = list(COQCHK) + ["MS.Props.C13a"]


def _is_b(line):
    return line.startswith(("seq ", "seqf "))


def _nocalls(out):
    """a `seq` observation without its trailing `| calls N` (which may be all there is when the line has no operation)"""
    import re
    return re.sub(r"\s*\|\s*calls \d+\s*$", "", out).strip()


def area_of(line):
    return "bits" if _is_b(line) else _w2["area_of"](line)


def _bcounts(run, lines):
    run.use_area("bits")
    res = run.harness(["b%d %s" % (i, l) for i, l in enumerate(lines)])
    run.use_area("mp4f")
    out = []
    for i in range(len(lines)):
        r = res.get("b%d" % i, "")
        if "| calls " in r:
            out.append((int(r.rsplit("| calls ", 1)[1]), _nocalls(r)))
        else:
            out.append((None, r))
    return out


def _bgen(run):
    """field sequences (those of C19: random widths, bits, prefix codes, LZ77 values, refills, every capacity and short-read pattern)
    over a source whose k-th inner read fails, for every k up to the number of reads of the fault-free run + 1 and every error kind"""
    from props import c19
    quick = run.tier == "quick"
    base = [l for l, _ in c19._corpus()] if hasattr(c19, "_corpus") else []
    base = [l for l in base if l.startswith("seq ") and " s " in l][:10]
    base += [l for l, _ in c19._random_seq(run, 30 if quick else 500)]
    counts = _bcounts(run, base)
    for l, (n, _) in zip(base, counts):
        yield l, "bits-fault-free"
        if n is None:
            continue
        ks = range(n + 2) if n <= 6 else sorted(set(list(range(3)) + [n // 2, n - 2, n - 1, n, n + 1]))
        for k in ks:
            for kind in (KINDS if (quick and k < 2) or not quick else KINDS[:2]):
                yield "seqf %d %s %s" % (k, kind, l.split(" ", 1)[1]), "bits-fault"


def gen(run):
    yield from _w2["gen"](run)
    yield from _bgen(run)


def same(line, impl, model):
    if not _is_b(line):
        return _w2["same"](line, impl, model)
    if line.startswith("seqf "):
        return _nocalls(impl) == _nocalls(model)
    return impl == model


def classify(line, impl):
    if not _is_b(line):
        return _w2["classify"](line, impl)
    t = _nocalls(impl).split()
    last = t[-1] if t else "empty"
    return "bits-" + (last if last.startswith("E:") else "completed")


def nontrivial(line, impl):
    return ("E:io:" in impl) if _is_b(line) else _w2["nontrivial"](line, impl)


def coq_bool(line, model_out):
    return None if _is_b(line) else _w2["coq_bool"](line, model_out)


def _boracle(run, pairs):
    base = {}
    for line, impl in pairs:
        if line.startswith("seq ") and "| calls " in impl:
            base[line.split(" ", 1)[1]] = (int(impl.rsplit("| calls ", 1)[1]), _nocalls(impl))
    need = [l.split(" ", 3)[3] for l, _ in pairs if l.startswith("seqf ") and l.split(" ", 3)[3] not in base]
    need = list(dict.fromkeys(need))
    for a, nr in zip(need, _bcounts(run, ["seq " + a for a in need]) if need else []):
        base[a] = nr
    out = []
    for line, impl in pairs:
        if impl in ("panic", "missing", "", "timeout", "bad-tree", "bad-kind") or impl.startswith("unknown"):
            out.append((impl == "bad-tree", "no result / panic: %s" % impl[:100]))
        elif line.startswith("seq "):
            out.append(("E:io:" not in impl, "fault-free in-memory run: %s" % impl[-80:]))
        else:
            t = line.split(" ", 3)
            k, kind, a = int(t[1]), t[2], t[3]
            n, r0 = base.get(a, (None, "missing"))
            got = _nocalls(impl)
            if n is None:
                out.append((False, "no fault-free observation: %s" % str(r0)[:100]))
            elif k < n:
                toks = got.split()
                ok = bool(toks) and toks[-1] == "E:io:" + kind and r0.split()[:len(toks) - 1] == toks[:-1]
                out.append((ok, "bit reader: inner read %d of %d fails with %s: `%s` (fault-free `%s`)" % (k, n, kind, got[-60:], r0[-60:])))
            else:
                out.append((got == r0, "bit reader: fault index %d beyond the %d reads of the run, `%s` differs from `%s`" % (k, n, got[-60:], r0[-60:])))
    return out


def oracle(run, pairs):
    bi = [i for i, (l, _) in enumerate(pairs) if _is_b(l)]
    oi = [i for i, (l, _) in enumerate(pairs) if not _is_b(l)]
    res = [None] * len(pairs)
    if oi:
        for i, r in zip(oi, _w2["oracle"](run, [pairs[i] for i in oi])):
            res[i] = r
    if bi:
        for i, r in zip(bi, _boracle(run, [pairs[i] for i in bi])):
            res[i] = r
    return res
