"""C09 - Totality: every input yields Ok or Err - never a panic, abort or hang."""
import mp4props as P
import webpgen as W
from mp4gen import parse_case as mp4_parse

ID = "C09"
AREAS = ["mp4", "webp"]
AREA = "mp4"
COQ_TARGETS = ["theories/Props/C09.vo", "theories/Props/C09w.vo"]
REQUIRES = ["From Coq Require Import List NArith Bool.",
            "From MS Require Import Base.Bytes Base.Outcome Base.Prog Mp4.Header Mp4.Box Mp4.San Props.C09.",
            "Open Scope N_scope."]
COQCHK = ["MS.Props.C09", "MS.Props.C09w"]
_PRE = """forall (cfg : config) (lenient : bool) (inp : input) (fuel : nat),
  max_metadata_size cfg < 4294967296 -> ilen inp <= U64MAX ->
  (forall t, cumulative_mdat_box_size cfg = Some t -> t <= U32MAX) ->"""
THEOREMS = [
    ("C09_mp4_no_panic", _PRE + " forall n, mp4_sanitize cfg lenient U64MAX' inp fuel <> Panic n"),
    ("C09_mp4_terminates", _PRE + " (N.to_nat (ilen inp / 8) < fuel)%nat -> mp4_sanitize cfg lenient U64MAX' inp fuel <> OutOfFuel"),
    ("C09_webp_container_no_panic", """forall (lossless : N -> N -> bytes -> res unit) (allow lenient : bool) (ms : N) (inp : input) (fuel : nat),
  (forall w h b, ldims w h -> rgood (lossless w h b)) -> forall n, webp_sanitize lossless allow lenient ms inp fuel <> Panic n"""),
    ("C09_webp_container_terminates", """forall (lossless : N -> N -> bytes -> res unit) (allow lenient : bool) (ms : N) (inp : input) (fuel : nat),
  (forall w h b, ldims w h -> rgood (lossless w h b)) -> (N.to_nat (ilen inp / 8) < fuel)%nat ->
  webp_sanitize lossless allow lenient ms inp fuel <> OutOfFuel"""),
    ("C09_webp_lossless_total", """forall (w h : N) (body : bytes), dims w h ->
  lossless_read w h body = Ok tt \\/ exists e, lossless_read w h body = EParse e"""),
    ("C09_webp_lossless_total_wide", """forall (w h : N) (body : bytes), 0 < w <= 2 ^ 24 /\\ 0 < h <= 2 ^ 24 ->
  lossless_read w h body = Ok tt \\/ exists e, lossless_read w h body = EParse e"""),
    ("C09_webp_no_panic", """forall (allow lenient : bool) (ms : N) (inp : input) (fuel : nat) (n : N),
  webp_sanitize lossless_read allow lenient ms inp fuel <> Panic n"""),
    ("C09_webp_terminates", """forall (allow lenient : bool) (ms : N) (inp : input) (fuel : nat),
  (N.to_nat (ilen inp / 8) < fuel)%nat -> webp_sanitize lossless_read allow lenient ms inp fuel <> OutOfFuel"""),
]
_WREQ = ["From Coq Require Import List NArith Bool.", "From Coq.Strings Require Import Byte.",
         "From MS Require Import Base.Bytes Base.Outcome Base.Prog Webp.Container Webp.Vp8l Webp.ContainerProofsTotal Webp.Vp8lProofsTop Props.C09w.",
         "Open Scope N_scope."]
REQUIRES_FOR = {n: _WREQ for n in ("C09_webp_container_no_panic", "C09_webp_container_terminates", "C09_webp_lossless_total", "C09_webp_lossless_total_wide", "C09_webp_no_panic", "C09_webp_terminates")}
_AREQ = ["From Coq Require Import List NArith ZArith Bool.",
         "From MS Require Import Base.Bytes Base.Outcome Base.Cursor Base.Adapters Base.Async Base.AsyncSpec Base.AsyncSan Base.StackReader "
         "Base.StackSpec Mp4.Header Mp4.San Gen.Consts Props.C09a.", "From MS Require Base.Prog.", "Open Scope N_scope."]
THEOREMS = list(THEOREMS) + [
    ("C09_mp4_async_total", """forall (cfg : config) (fuel : nat) (st : stk) (data : bytes) (sc : sch),
  stk_ok st -> blen data <= I64MAX ->
  max_metadata_size cfg < 4294967296 ->
  (forall t, cumulative_mdat_box_size cfg = Some t -> t <= U32MAX) ->
  (N.to_nat (blen data / 8) < fuel)%nat ->
  exists r s' sc',
    run_san_sched BOXHEADER_MAX_SIZE (pending_reader (stk_reader U64MAXN st)) (sanitize_prog cfg fuel) (stack_init U64MAXN st data) sc
      = Some (r, s', sc') /\\
    (forall n, r <> Panic n) /\\ r <> OutOfFuel"""),
]
REQUIRES_FOR = dict(REQUIRES_FOR, C09_mp4_async_total=_AREQ)
COQ_TARGETS = list(COQ_TARGETS) + ["theories/Props/C09a.vo"]
COQCHK = list(COQCHK) + ["MS.Props.C09a"]
XCHECK_N = 0
EXHAUSTIVE = {"quick": False, "thorough": False}
NOTES = ["partial by nature: the theorems are about the modelled logic (every unwrap/unreachable!/assert!/overflow/slice-bound site of the code is a "
         "`Panic n` outcome of the model and is proved unreachable; every loop has a proved fuel bound). Allocator failure, stack depth inside "
         "bitstream-io's compile_read_tree / Report formatting and third-party internals cannot be exhibited by a Gallina model: they are only sampled "
         "by the harness (catch_unwind, overflow-checks and debug-assertions on).",
         "webp: C09_webp_no_panic / C09_webp_terminates are about the WHOLE model (container programme with the lossless validator Webp/Vp8l.v plugged in), no "
         "hypothesis left: the container theorems are parametric in a validator that is total on the dimensions a container can pass (0 < w, h <= 2^24), and "
         "C09_webp_lossless_total_wide proves that of Vp8l.v for every pixel count (an ANMF frame header can declare 2^24 x 2^24 pixels; frames of that size are "
         "also sampled by the harness)"]


def area_of(line):
    return "webp" if line.startswith("webp ") else "mp4"


def gen(run):
    quick = run.tier == "quick"
    yield from P.standard_stream(run, 200 if quick else 20000, 300 if quick else 50000, 3 if quick else 4)
    # mp4: random garbage and spliced files
    rng = run.rng
    seeds = [b"".join(l) for l in P.seed_layouts(rng)]
    for _ in range(300 if quick else 20000):
        a, b = rng.choice(seeds), rng.choice(seeds)
        i, j = rng.randrange(len(a) + 1), rng.randrange(len(b) + 1)
        d = bytearray(a[:i] + b[j:])
        for _ in range(rng.choice([0, 1, 2, 5])):
            if d:
                d[rng.randrange(len(d))] = rng.randrange(256)
        yield P.case_dense(rng.choice(["cursor", "strict"]), rng.choice([P.DEFAULT_MAX, 64, 2**30]), rng.choice([None, None, 5, 40]), bytes(d)), "mp4-splice-mutate"
    # many top-level boxes (a loop counter, a periodic yield, a per-box allocation would show only here): 100 .. 65537 (thorough: 200000) empty free / skip /
    # unknown boxes around ftyp, moov, mdat, valid and truncated
    import mp4gen as G0
    m1 = P.simple_moov([(4, [20, 30])])
    for nb in ((100, 127, 128, 129, 256, 1000, 65537) if quick else (100, 127, 128, 129, 255, 256, 257, 511, 512, 1000, 3000, 65535, 65536, 65537, 200000)):
        fill = b"".join(G0.box(rng.choice([b"free", b"skip"]), b"") for _ in range(nb))
        for lay in (P.F() + m1 + fill + G0.box(b"mdat", b"abcdefg"), P.F() + fill + G0.box(b"mdat", b"abc") + m1,
                    fill + P.F() + G0.box(b"mdat", b"abc") + fill + m1, P.F() + G0.box(b"mdat", b"abc") + fill + m1[:-3]):
            for rd in ("cursor", "strict"):
                yield P.case_dense(rd, P.DEFAULT_MAX, None, lay), "mp4-many-boxes"
    # webp
    raw = list(W.boundary_cases("cursor")) + list(W.truncations("cursor")) + list(W.sparse_sizes())
    raw += list(W.mutations(rng, 800 if quick else 30000))
    # lossless payloads: garbage bodies for several dimensions, inside VP8L / ALPH / ANMF
    for _ in range(300 if quick else 10000):
        body = bytes(rng.randrange(256) for _ in range(rng.choice([0, 1, 3, 8, 20, 60, 200])))
        w, h = rng.choice([(1, 1), (2, 3), (16, 16), (300, 7), (16384, 16384), (1, 16384)])
        k = rng.random()
        if k < 0.5:
            f = W.riff(W.chunk(b"VP8L", W.vp8l_payload(w, h, body)))
        elif k < 0.75:
            f = W.riff(W.chunk(b"VP8X", W.vp8x_payload(W.ALPHA, w, h)) + W.chunk(b"ALPH", b"\1" + body) + W.mk(b"VP8 "))
        else:
            f = W.riff(W.chunk(b"VP8X", W.vp8x_payload(W.ANIM, w, h)) + W.mk(b"ANIM") +
                       W.chunk(b"ANMF", W.anmf_payload(W.chunk(b"VP8L", W.vp8l_payload(w, h, body)), w=w, h=h)))
        raw.append((W.case_line("cursor", rng.random() < 0.5, f), "webp-lossless-garbage"))
    # structured lossless streams (valid by construction, each rule violated in turn, boundary distance codes, deep codes):
    # random bytes almost never get past the first prefix code, these reach the pixel loops and the LZ77 arithmetic
    from props import _c07_vp8l as G
    from props import _c19_vp8l as V
    for i in range(150 if quick else 20000):
        k = i % 3
        if k == 0:
            w, h, body, _ = G.build(rng)
        elif k == 1:
            w, h, body, _ = G.build(rng, violate=rng.choice(G.VIOLATIONS))
        else:
            w, h, body, _ = V.build_lossless(rng, rng.choice(["plain", "deep", "arbdeep"]))
        if w > 16384 or h > 16384 or len(body) > 30000:
            continue
        if rng.random() < .2 and body:
            b = bytearray(body)
            b[rng.randrange(len(b))] ^= 1 << rng.randrange(8)
            body = bytes(b)
        raw.append((W.case_line("cursor", False, W.riff(W.chunk(b"VP8L", W.vp8l_payload(w, h, body)))), "webp-lossless-structured"))
    # ANMF frames declaring 2^24 x 2^24 pixels (the container does not bound a frame by the canvas) with lossless ALPH bodies
    big = 2**24
    for body in (W.LL_OK, bytes(rng.randrange(256) for _ in range(40)), b""):
        f = W.riff(W.chunk(b"VP8X", W.vp8x_payload(W.ANIM | W.ALPHA, 16, 16)) + W.mk(b"ANIM") +
                   W.chunk(b"ANMF", W.anmf_payload(W.chunk(b"ALPH", b"\1" + body) + W.mk(b"VP8 "), w=big, h=big)))
        raw.append((W.case_line("cursor", False, f), "webp-frame-2p48-pixels"))
    # the same huge frames with a lossless alpha stream that REACHES the sub-image arithmetic: a predictor / colour transform (or a meta
    # prefix image) whose entropy-coded sub-image has (w / 2^k) x (h / 2^k) pixels - up to 2^44, beyond u32 - behind five single-symbol
    # prefix codes (zero bits per pixel), then the main image with trivial codes; also VP8X canvases at the 2^32-pixel limit
    def trivial_codes(bw):
        for _ in range(5):
            bw.put(1, 1); bw.put(0, 1); bw.put(0, 1); bw.put(rng.randint(0, 1), 1)      # simple code, one symbol, 1-bit symbol

    def tiny_stream(ttype, bbits, meta):
        bw = V.BW()
        if ttype is not None:
            bw.put(1, 1); bw.put(ttype, 2); bw.put(bbits, 3)
            bw.put(0, 1)                                  # sub-image: no colour cache
            trivial_codes(bw)
        bw.put(0, 1)                                      # no more transforms
        bw.put(0, 1)                                      # no colour cache
        if meta is not None:
            bw.put(1, 1); bw.put(meta, 3)
            bw.put(0, 1)
            trivial_codes(bw)
        else:
            bw.put(0, 1)
        trivial_codes(bw)
        return bw.tobytes()
    dims = [2**16, 2**18, 2**20, 2**24, 2**24 - 1, 65535, 65537, 46341, 92682]
    for w in dims:
        for h in (w, 2**24, 3):
            for ttype, bbits, meta in ((0, 0, None), (0, 7, None), (1, 0, None), (1, 3, None), (None, 0, 0), (None, 0, 7), (0, 0, 0)):
                body = tiny_stream(ttype, bbits, meta)
                f = W.riff(W.chunk(b"VP8X", W.vp8x_payload(W.ANIM | W.ALPHA, 16, 16)) + W.mk(b"ANIM") +
                           W.chunk(b"ANMF", W.anmf_payload(W.chunk(b"ALPH", b"\1" + body) + W.mk(b"VP8 "), w=w, h=h)))
                raw.append((W.case_line("cursor", False, f), "webp-huge-frame-structured"))
    for l, s in raw:
        yield l, s


def same(line, impl, model):
    # outcome classes are compared: ok / parse error / io error / panic / timeout
    c = lambda o: (o.split(" need ")[0].split()[:2] if o.startswith("err") else o.split()[:1])
    return c(impl) == c(model)


def classify(line, impl):
    t = impl.split()
    return ("webp-" if line.startswith("webp") else "mp4-") + (t[0] if t else "missing") + ("-" + t[1] if t and t[0] == "err" else "")


def nontrivial(line, impl):
    return len(line) > 120


def oracle(run, pairs):
    out = []
    for l, impl in pairs:
        bad = impl.startswith(("panic", "timeout", "missing", "model-")) or impl == ""
        out.append((not bad, "observed: " + (impl or "no output (process died: abort/stack overflow?)")))
    return out


def search(run, disagreements):
    return []


TRUSTED = [
    "Coq 8.16.1 kernel; no axioms",
    "hand-written models Mp4/{Header,Box,San}.v, Webp/{Container,Vp8l,Huffman,BitBuf}.v with an explicit `Panic n` outcome at every panic site of the Rust code "
    "(enumerated in DESIGN.md section 7 C09) and explicit fuel for every loop; tied to /repo by the correspondence batch",
    "Rust harness built with overflow-checks and debug-assertions, every call under catch_unwind; a missing output line = the process died",
]
ASSUMPTIONS = ["max_metadata_size < 2^32 (the property says <= 1 GiB)", "stream positions/lengths are u64"]
RULE = ("mp4: the C05 standard stream (layouts, pathologies, truncation at every byte, tree mutations, config lattices, exhaustive sequences) plus spliced and mutated "
        "seed files; webp: boundary cases, truncation at every byte of 16 seed files, sparse near-2^32 sizes, mutations, random lossless bodies for dimensions 1x1..16384x16384 "
        "in VP8L / ALPH / ANMF positions. Non-trivial = case line longer than 120 characters; distinct = distinct line.")
LEVEL_TEXT = ("WebP: C09_webp_container_no_panic / C09_webp_container_terminates (every input, both configs, strict and seek-style readers, every fuel resp. fuel > ilen/8: "
              "no Panic site of the container model - ChunkReader protocol assertions, stream_position - 8, parent of the root, slice accesses of the chunk parsers - is "
              "reachable and every loop terminates), C09_webp_lossless_total_wide (the lossless validator returns Ok or a parse error for every byte string and all "
              "dimensions 0 < w, h <= 2^24) and their composition C09_webp_no_panic / C09_webp_terminates for the whole modelled webpsan. MP4: theorems C09_mp4_no_panic / C09_mp4_terminates (Coq, all inputs, both reader kinds, all configs with limit < 4 GiB, explicit fuel bound ilen/8+1): no Panic site "
              "of the mp4 model is reachable and the loop terminates; plus model/implementation correspondence of outcome classes and a panic/timeout/abort observer on "
              "structure-aware, mutated and exhaustively truncated inputs for both sanitizers. A universally quantified absence-of-failure claim over the sanitizer's own logic "
              "is what a proof decides; runtime aborts outside the logic are sampled.")
LEVEL_NOTE = ("PARTIAL by nature (see NOTES): proved for the modelled logic of mp4san (top-level loop, moov tree, rewrite) and of webpsan (container programme; lossless "
              "validator for dimensions below 2^32 pixels; the bit reader's panic-freedom is C19's); allocator failure, stack depth, third-party internals and lossless "
              "ALPH frames declaring 2^32 pixels or more are only sampled by the harness.")
TECHNIQUE = "Coq proof (panic sites unreachable, fuel bounds) + outcome-class correspondence + panic/timeout observer"
DESIGN_REF = "DESIGN.md section 7 (C09)"
