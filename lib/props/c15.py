"""C15 - Skip/AsyncSkip adapters behave as a forward-only cursor over the same bytes."""
import itertools
from props import adapt_common as ac

ID = "C15"
AREA = "adapt"
COQ_TARGETS = ["theories/Props/C15.vo", "theories/Base/AsyncSan.vo", "theories/Mp4/San.vo"]   # the adapt extraction also carries C12's sanitizer-level model
REQUIRES = ["From Coq Require Import List NArith ZArith Bool.", "From Coq.Strings Require Import Byte.",
            "From MS Require Import Base.Bytes Base.Outcome Base.Cursor Base.Adapters Base.AdaptersSpec Base.AdaptersProofsVcur Base.Async Props.C15.",
            "Import ListNotations.", "Open Scope N_scope."]
COQCHK = ["MS.Props.C15"]
THEOREMS = [
    ("C15_seek_adapter_refines", """forall (S : seeker) (abs : sst S -> cur) (Inv : sst S -> Prop) (max_seek : N),
      seeker_refines max_seek S abs Inv -> refines (seek_adapter S) abs Inv"""),
    ("C15_cursor_refines", """forall max_seek : N,
      refines (cursor_reader max_seek) (fun c => c) (fun c => wf_cur c /\\ clen c <= max_seek)"""),
    ("C15_vcursor_refines", """forall max_seek : N, seeker_refines max_seek (vcursor_seeker max_seek) vabs (vinv max_seek)"""),
    ("C15_bufreader_refines", """forall (cap : N) (R : reader) (abs : rst R -> cur) (Inv : rst R -> Prop),
      1 <= cap -> refines R abs Inv -> refines (std_buf cap R) (buf_abs R abs) (buf_inv R abs Inv)"""),
    ("C15_fut_bufreader_refines", """forall (cap : N) (R : reader) (abs : rst R -> cur) (Inv : rst R -> Prop),
      1 <= cap -> refines R abs Inv -> refines (fut_buf cap R) (buf_abs R abs) (buf_inv R abs Inv)"""),
    ("C15_forwarding_refines", """forall (R : reader) (abs : rst R -> cur) (Inv : rst R -> Prop),
      refines R abs Inv ->
      refines (fwd R) abs Inv /\\ refines (async_input R) abs Inv /\\ refines (fut_view R) abs Inv"""),
    ("C15_chunk_data_reader_refines", """forall (R : reader) (abs : rst R -> cur) (Inv : rst R -> Prop),
      refines R abs Inv -> chunk_refines R abs Inv"""),
    ("C15_history", """forall (R : reader) (abs : rst R -> cur) (Inv : rst R -> Prop), refines R abs Inv ->
      forall (ops : list op) (s : rst R), Inv s ->
        hist_ok ops (abs s) (fst (run_ops R ops s)) /\\
        (hist_within ops (abs s) (fst (run_ops R ops s)) ->
           abs (snd (run_ops R ops s)) = hist_end ops (abs s) (fst (run_ops R ops s)) /\\ Inv (snd (run_ops R ops s)))"""),
    ("C15_stream_len_does_not_move", """forall (R : reader) (abs : rst R -> cur) (Inv : rst R -> Prop), refines R abs Inv ->
      forall s : rst R, Inv s ->
        fst (rstep R OLen s) = Ok (VNum (clen (abs s))) /\\ abs (snd (rstep R OLen s)) = abs s /\\
        fst (rstep R OPos s) = Ok (VNum (cpos (abs s))) /\\ abs (snd (rstep R OPos s)) = abs s"""),
]
TRUSTED = [
    "Coq 8.16.1 kernel (coqc; coqchk in the thorough tier); vm_compute for the Examples only; no native_compute",
    "axioms: none (Print Assumptions = Closed under the global context for every theorem)",
    "hand-written models Base/Adapters.v of std::io::{Cursor, BufReader, default_read_exact} (rustc 1.95 as installed), "
    "futures-util 0.3.34 io::{Cursor, BufReader, ReadExact}, mediasan-common skip.rs / async_skip.rs / sync.rs, "
    "webpsan ChunkDataReader; tied to the code by the correspondence batch of this check (ChunkDataReader is a private type: the "
    "cfg(signalapp_mp4san_verif) hook webpsan::verif_reader re-exports it and the `cdr` cases drive it directly, one and two levels deep)",
    "the specification Base/Cursor.v (ideal forward-only cursor; a read may be short but never empty before the end)",
    "extraction (ExtrOcamlBasic only), OCaml 4.13.1, ocaml/adapt.ml (stack parser, Obj.repr for the existential reader state)",
    "Rust harness harness/src/adapt.rs building the real adapter stacks (exact types, no extra indirection); rustc/cargo",
    "the Python ideal cursor in lib/props/adapt_common.py (the oracle; about 60 lines)",
]
ASSUMPTIONS = [
    "usize is 64 bits (amount as usize is the identity)",
    "the innermost reader is an in-memory cursor (std / futures Cursor over Vec<u8>); File is not exercised here (finding D11 is C11's)",
    "BufReader capacity >= 1 (capacity 0 never buffers and reports end-of-stream at once; mp4san uses 32, webpsan 8)",
]
RULE = ("hist cases: (a) corpus; (b) exhaustive: every operation sequence of length <= 3 (quick) / <= 3 on 8 stacks and <= 5 on a reduced "
        "alphabet (thorough) over an alphabet chosen per (capacity c, stream length n): r0 r1 r2 r<c> r<c+1> x1 x2 x<c+1> s0 s1 s<b> s<b+1> "
        "s<c+1> p l with b = the amount buffered after r1, for every capacity 1..9 and every stream of 0..8 bytes; (c) seeded random "
        "histories of 60..200 operations on 4 KiB streams over every stack in the tables (sync: Cursor, SeekSkipAdapter, BufReader, &mut, "
        "Box, Box<dyn>; async: futures Cursor/BufReader, Pin, AsyncInputAdapter, Pending-capable bases with an all-Ready schedule), "
        "capacities 1..9,16,32,64,4096,8192; (c') skips of more than i64::MAX bytes that STAY WITHIN the stream, on a sparse virtual Read+Seek stream of up to 2^64-1 bytes "
        "(real bytes where the reads land) under 15 sync and async stacks, from positions 0 and > 0, with and without buffered bytes: judged by the "
        "ideal cursor like every other history; (d) boundary amounts 2^63-1, 2^63, 2^64-1-pos, 2^64-pos, 2^64-1 (these leave the stream: model "
        "vs implementation only); (e) out-of-stream read_exact / skip followed by queries. thorough adds Rust-side exhaustive sweeps "
        "(histsweep: all sequences of length <= 5 (BufReader over Cursor, std and futures) / <= 4 (four more stacks) over r/x/s with amounts {0,1,2,c,c+1,b,b+1} and p, l checked against an ideal cursor inside the harness). "
        "(f) cdr cases: webpsan's ChunkDataReader (through the hook webpsan::verif_reader) over 5 sync stacks: declared chunk lengths 0..17 with bodies "
        "shorter / equal / longer than declared, every operation sequence of length <= 2 (quick) / <= 3 (thorough) over amounts around the body "
        "length and the BufReader(8) capacity, nested chunk readers (inner length beyond the outer body), random histories; judged by an ideal "
        "cursor over the parent's bytes that ends with the chunk body and reports the parent's positions and length. "
        "A case is non-trivial when the history contains a skip or read_exact followed by a later position/length query or read; "
        "distinct = distinct case lines.")
EXHAUSTIVE = {"quick": True, "thorough": True}
XCHECK_N = 40
NOTES = ["exhaustive = over the stated operation alphabet, stream lengths 0..8 and capacities 1..9; the theorems cover all histories"]

EXH_STACKS_QUICK = ["buf(cursor)", "fbuf(fcursor)", "fbuf(seek(pc))"]
EXH_STACKS_THOROUGH = ["buf(cursor)", "fbuf(fcursor)", "buf(seek(cursor))", "fbuf(seek(pc))", "fbuf(native)", "fbuf(ain(cursor))",
                       "mut(buf(cursor))", "pin(fbuf(seek(fcursor)))"]
BIGCAPS = [1, 2, 3, 4, 5, 6, 7, 8, 9, 16, 32, 64, 4096, 8192]


def alphabet(c, n, reduced=False):
    b = max(min(c, n) - 1, 0)
    if reduced:
        a = ["r1", "r%d" % c, "x2", "s1", "s%d" % (b + 1), "p", "l"]
    else:
        a = ["r0", "r1", "r2", "r%d" % c, "r%d" % (c + 1), "x1", "x2", "x%d" % (c + 1), "s0", "s1", "s%d" % b, "s%d" % (b + 1),
             "s%d" % (c + 1), "p", "l"]
    out = []
    for o in a:
        if o not in out:
            out.append(o)
    return out


def data_of(n, salt=0):
    return bytes((17 * i + 3 + salt) % 256 for i in range(n))


def line(st, caps, data, ops):
    return "hist %s %s %s %s" % (st, ",".join(map(str, caps)) if caps else "-", ac.hexs(data), ";".join(ops))


CORPUS = [
    ("buf(cursor)", [4], 8, "r3;p;s2;l;p;x2;r5;r1;p"),
    ("buf(cursor)", [4], 8, "r1;s3;p;r1;p"),                 # amount = buffered
    ("buf(cursor)", [4], 8, "r1;s2;p;r1;p"),                 # amount < buffered
    ("buf(cursor)", [4], 8, "r1;s5;p;r1;p"),                 # amount > buffered
    ("buf(cursor)", [4], 8, "r1;l;p;r4;p"),                  # stream_len must not move the cursor
    ("buf(seek(cursor))", [3], 8, "r1;l;p;x4;p;l"),
    ("fbuf(seek(pc))", [3], 8, "r1;l;p;x4;p;l"),
    ("fbuf(fcursor)", [4], 8, "r1;s3;p;r1;p;s9;p;l;r1"),
    ("buf(buf(cursor))", [2, 5], 8, "r1;p;s2;p;x3;p;l;r9"),
    ("fbuf(ain(buf(cursor)))", [32, 8], 8, "r1;p;s2;p;x3;p;l;r9"),
    ("cursor", [], 2, "s9223372036854775808;p;s9223372036854775808;p;r1;x1;p"),
    ("seek(cursor)", [], 2, "s9223372036854775808;p;s9223372036854775808;p;r1;x1;p"),
    ("buf(cursor)", [4], 2, "r1;s18446744073709551615;p;r1"),
    ("cursor", [], 4, "x5;p;l;r1"),                          # Cursor::read_exact failure parks the cursor at the end
    ("cursor", [], 4, "s9;x1;p"),
    ("buf(cursor)", [1], 0, "r0;r1;x0;s0;p;l"),
]


def gen(run):
    rng = run.rng
    for st, caps, n, ops in CORPUS:
        yield line(st, caps, data_of(n), ops.split(";")), "corpus"

    # (b) exhaustive
    stacks = EXH_STACKS_QUICK if run.tier == "quick" else EXH_STACKS_THOROUGH
    for st in stacks:
        for c in range(1, 10):
            for n in range(0, 9):
                d = data_of(n)
                al = alphabet(c, n)
                for L in (1, 2, 3):
                    for seq in itertools.product(al, repeat=L):
                        yield line(st, [c], d, seq), "exhaustive-3"
    if run.tier == "thorough":
        for st in EXH_STACKS_QUICK[:2]:
            for c in range(1, 10):
                for n in range(0, 9):
                    d = data_of(n)
                    al = alphabet(c, n, reduced=True)
                    for L in (4, 5):
                        for seq in itertools.product(al, repeat=L):
                            yield line(st, [c], d, seq), "exhaustive-5"
        for st in ("buf(cursor)", "fbuf(fcursor)", "buf(seek(cursor))", "fbuf(ain(buf(cursor)))", "fbuf(seek(pc))", "fbuf(native)"):
            for c in range(1, 10):
                for n in range(0, 9):
                    yield "histsweep %s %d %d %d" % (st, c, n, 5 if st in ("buf(cursor)", "fbuf(fcursor)") else 4), "rust-sweep"
    # two-level buffering, exhaustive length <= 2 (quick) / 3 (thorough) on pairs of small capacities
    for c1, c2 in [(1, 1), (1, 3), (2, 3), (3, 2), (3, 3), (4, 1), (2, 5)]:
        for n in (0, 1, 4, 8):
            d = data_of(n)
            al = alphabet(c1, n)
            for L in ((1, 2) if run.tier == "quick" else (1, 2, 3)):
                for seq in itertools.product(al, repeat=L):
                    yield line("buf(buf(cursor))", [c1, c2], d, seq), "exhaustive-2level"

    # (c) random long histories on 4 KiB streams, every stack
    allst = ac.sync_stacks() + ac.async_stacks()
    reps = 1 if run.tier == "quick" else 6
    for rep in range(reps):
        for st in allst:
            n = 4096
            d = bytes(rng.randrange(256) for _ in range(n))
            caps = [rng.choice(BIGCAPS) for _ in range(ac.ncaps(st))]
            yield line(st, caps, d, random_ops(rng, n, caps, rng.randint(60, 200))), "random-4k"
        for st in rng.sample(allst, 30):
            n = rng.randint(0, 40)
            d = bytes(rng.randrange(256) for _ in range(n))
            caps = [rng.randint(1, 9) for _ in range(ac.ncaps(st))]
            yield line(st, caps, d, random_ops(rng, n, caps, rng.randint(3, 25))), "random-small"

    # (c') skips of more than i64::MAX bytes that stay within a sparse virtual stream
    H = 2 ** 63
    big_n = 2 ** 64 - 1
    ex = [(0, bytes(range(1, 25))), (H - 4, bytes(range(101, 141))), (big_n - 20, bytes(range(201, 221)))]
    for st in VCUR_STACKS:
        caps = [3, 2, 2][:ac.ncaps(st)]
        for pre in ("", "x1;", "x3;", "s4;", "x2;s1;", "r1;"):
            for a in (H, H + 1, H + 5, big_n - 30):
                yield "hist %s %s %s %s" % (st, ",".join(map(str, caps)) or "-", ac.vspec(big_n, ex),
                                            pre + "s%d;p;x2;p;l;r3;p" % a), "huge-skip-within"
    yield from huge_histories(rng, 300 if run.tier == "quick" else 6000)

    # (f) webpsan's ChunkDataReader driven directly (hook webpsan::verif_reader)
    yield from cdr_cases(run)

    # (d) boundary amounts beyond i64::MAX, (e) leaving the stream
    big = [2 ** 63 - 1, 2 ** 63, 2 ** 64 - 1, 2 ** 64 - 2, 2 ** 64 - 4, 2 ** 64 - 5, 2 ** 63 + 1]
    bst = ["cursor", "seek(cursor)", "buf(cursor)", "buf(seek(cursor))", "fcursor", "seek(fcursor)", "fbuf(fcursor)", "fbuf(seek(pc))",
           "fbuf(native)", "box(buf(cursor))", "pin(fbuf(seek(fcursor)))", "fbuf(ain(buf(cursor)))", "buf(buf(cursor))",
           "seek(mut(cursor))", "seek(box(cursor))", "dynbox(buf(cursor))"]
    for st in bst:
        caps = [3, 2, 2][:ac.ncaps(st)]
        for a in big:
            for pre in ("", "r1;", "s4;", "r1;s1;"):
                ops = (pre + "s%d;p;l;r1;s%d;p;x1;p;l" % (a, a)).split(";")
                yield line(st, caps, data_of(4), ops), "boundary-big-skip"
        for ops in ("x5;p;l;r1;x1", "r1;x4;p;l", "s5;p;l;r1;x1;p", "r1;s9;p;r1;l;p;s0;p", "x0;s0;r0;p;l", "r9;r9;p;x1;p",
                    "s4;p;r1;x1;p;s1;p;l"):
            yield line(st, caps, data_of(4), ops.split(";")), "out-of-stream"


def chunk(name, ln, body):
    return name + ln.to_bytes(4, "little") + body


CDR_STACKS = [("cursor", []), ("seek(cursor)", []), ("buf(cursor)", [3]), ("box(cursor)", []), ("buf(seek(cursor))", [5])]


def cdr_line(depth, st, caps, data, ops):
    return "cdr %d %s %s %s %s" % (depth, st, ",".join(map(str, caps)) if caps else "-", ac.hexs(data), ";".join(ops))


def cdr_cases(run):
    """ChunkDataReader: a cursor over the parent's bytes that ends with the chunk body.  Declared lengths 0..20 with bodies
    shorter than, equal to and longer than declared (following bytes belong to the parent), every operation sequence of
    length <= 2 (quick) / 3 (thorough) over amounts around the body length and the BufReader(8) capacity, nested chunks,
    long random histories."""
    rng = run.rng
    deep = run.tier != "quick"
    for L in (0, 1, 2, 5, 8, 9, 12, 17):
        for extra in (-3, 0, 1, 6):
            if L + extra < 0:
                continue
            data = chunk(b"ABCD", L, data_of(L + extra, 7))
            al = ["r0", "r1", "r3", "r8", "r9", "r%d" % (L + 2), "x1", "x2", "x%d" % L, "x%d" % (L + 1), "s0", "s1", "s2", "s%d" % L,
                  "s%d" % (L + 1), "p", "l"]
            al = list(dict.fromkeys(al))
            for st, caps in (CDR_STACKS if deep else CDR_STACKS[:3]):
                for n in ((1, 2, 3) if deep and L in (0, 1, 5, 9) else (1, 2)):
                    for seq in itertools.product(al, repeat=n):
                        yield cdr_line(1, st, caps, data, seq), "cdr-exhaustive"
    # nested: the outer body holds an inner chunk; the inner declared length may exceed what the outer body has left
    for L1 in (8, 9, 12, 16, 24):
        for L2 in (0, 1, 3, 4, 8, 9, 20):
            for extra in (0, 5):
                inner = chunk(b"EFGH", L2, data_of(max(L1 - 8, 0) + extra, 11))
                data = chunk(b"ABCD", L1, inner)
                room = max(min(L1 - 8, L2), 0)
                al = list(dict.fromkeys(["r1", "r9", "x1", "x%d" % room, "x%d" % (room + 1), "s0", "s1", "s%d" % room, "s%d" % (room + 1), "p", "l"]))
                for st, caps in CDR_STACKS[:3]:
                    for n in (1, 2):
                        for seq in itertools.product(al, repeat=n):
                            yield cdr_line(2, st, caps, data, seq), "cdr-nested"
    for _ in range(300 if not deep else 3000):
        L = rng.choice([0, 1, 7, 8, 9, 40, 200, 1000])
        body = bytes(rng.randrange(256) for _ in range(max(0, L + rng.choice([-5, 0, 0, 1, 30]))))
        depth = rng.choice([1, 1, 2])
        if depth == 2:
            L2 = rng.choice([0, 1, 8, max(L - 8, 0), max(L - 9, 0), L])
            body = chunk(b"EFGH", L2, body)
            data = chunk(b"ABCD", L, body)
            room = max(min(L - 8, L2), 0)
        else:
            data = chunk(b"ABCD", L, body)
            room = L
        st, caps = rng.choice(CDR_STACKS)
        ops, pos = [], 0
        for _ in range(rng.randint(3, 40)):
            left = max(room - pos, 0)
            k = rng.random()
            if k < 0.3:
                a = rng.choice([0, 1, 7, 8, 9, rng.randint(0, 20), left, left + 1]); ops.append("r%d" % a); pos += min(a, left)
            elif k < 0.5:
                a = rng.choice([0, 1, 8, 9, left, rng.randint(0, 12)]); a = min(a, left) if rng.random() < 0.95 else a
                ops.append("x%d" % a); pos += a
            elif k < 0.75:
                a = rng.choice([0, 1, 8, 9, left, rng.randint(0, 30)]); a = min(a, left) if rng.random() < 0.95 else a
                ops.append("s%d" % a); pos += a
            else:
                ops.append(rng.choice(["p", "l"]))
        yield cdr_line(depth, st, caps, data, ops), "cdr-random"


VCUR_STACKS = ["vcur", "seek(vcur)", "buf(vcur)", "buf(seek(vcur))", "buf(buf(seek(vcur)))", "box(buf(vcur))", "mut(seek(vcur))",
               "dynbox(buf(seek(vcur)))", "buf(mut(vcur))", "seek(avcur)", "fbuf(seek(avcur))", "pin(fbuf(seek(avcur)))",
               "fbuf(fbuf(seek(avcur)))", "fbuf(ain(buf(seek(vcur))))", "fbuf(ain(vcur))"]


def huge_histories(rng, count):
    """histories on a sparse virtual stream of up to 2^64-1 bytes whose skips exceed i64::MAX and STAY WITHIN the stream:
    real bytes are placed where the reads will land"""
    H = 2 ** 63
    for _ in range(count):
        n = rng.choice([2 ** 64 - 1, 2 ** 64 - 1, 2 ** 64 - 2, 2 ** 63 + 2 ** 62, 2 ** 63 + 40])
        st = rng.choice(VCUR_STACKS)
        caps = [rng.randint(1, 9) for _ in range(ac.ncaps(st))]
        ops, exts, pos = [], [], 0
        # optional small prefix so that the cursor is not at 0 (and a BufReader holds buffered bytes)
        for _ in range(rng.choice([0, 1, 1, 2, 3])):
            k = rng.random()
            if k < 0.5:
                a = rng.randint(0, 6); ops.append("r%d" % a)      # a short read moves the ideal cursor by what it returns: keep exact with x
                ops[-1] = "x%d" % a; pos += a
            elif k < 0.8:
                a = rng.randint(0, 12); ops.append("s%d" % a); pos += a
            else:
                ops.append(rng.choice(["p", "l"]))
        # the huge skip, inside the stream
        room = n - pos
        if room <= H:
            continue
        a = rng.choice([H, H + 1, H + 5, room, room - 1, room - 7, rng.randint(H, room)])
        a = max(H, min(a, room))
        ops.append("s%d" % a); pos += a
        ops.append("p")
        for _ in range(rng.randint(1, 4)):
            k = rng.random()
            left = n - pos
            if k < 0.4:
                a = rng.randint(0, 5); ops.append("r%d" % a); ops.append("p")
                pos = None
                break
            elif k < 0.7:
                a = min(rng.randint(0, 5), left); ops.append("x%d" % a); pos += a
            elif k < 0.85:
                a = min(rng.choice([0, 1, 3, 2 ** 62, left]), left); ops.append("s%d" % a); pos += a
            else:
                ops.append(rng.choice(["p", "l"]))
        ops.append("l")
        # real bytes at the start and around where the huge skip lands
        land = sum(int(o[1:]) for o in ops[:ops.index("p", next(i for i, o in enumerate(ops) if o[0] == "s" and int(o[1:]) >= H))] if o[0] in "sx")
        e0 = bytes(rng.randrange(1, 256) for _ in range(24))
        lo = max(24, land - 6)
        e1 = bytes(rng.randrange(1, 256) for _ in range(max(0, min(40, n - lo))))
        exts = [(0, e0)] + ([(lo, e1)] if e1 else [])
        yield "hist %s %s %s %s" % (st, ",".join(map(str, caps)) or "-", ac.vspec(n, exts), ";".join(ops)), "huge-skip-within"


def random_ops(rng, n, caps, count):
    """amounts concentrated around the capacities and what is left of the stream"""
    ops, pos = [], 0
    c = caps[0] if caps else 8
    for _ in range(count):
        left = max(n - pos, 0)
        k = rng.random()
        if k < 0.30:
            a = rng.choice([0, 1, 2, c - 1, c, c + 1, rng.randint(0, 2 * c + 2), rng.randint(0, 64)])
            a = max(a, 0)
            ops.append("r%d" % a)
            pos += min(a, left)        # upper bound of the progress
        elif k < 0.50:
            a = rng.choice([0, 1, c - 1, c, c + 1, rng.randint(0, 2 * c + 2), rng.randint(0, 40)])
            a = max(0, min(a, left)) if rng.random() < 0.97 else a
            ops.append("x%d" % a)
            pos += a
        elif k < 0.75:
            a = rng.choice([0, 1, c - 1, c, c + 1, rng.randint(0, 2 * c + 2), rng.randint(0, 300)])
            a = max(0, min(a, left)) if rng.random() < 0.97 else a
            ops.append("s%d" % a)
            pos += a
        elif k < 0.90:
            ops.append("p")
        else:
            ops.append("l")
    return ops


def same(line, impl, model):
    if line.startswith("histsweep"):
        return True
    return impl == model


def classify(line, impl):
    if line.startswith("histsweep"):
        return "sweep-" + (impl.split()[0] if impl else "missing")
    if impl in ("panic", "missing", "unknown-stack", "no-hook", "hdr-err"):
        return impl
    if line.startswith("cdr"):
        return "cdr-" + ("leaves-stream" if not ac.stays_within(line) else "err" if "e:" in impl else "within")
    if not ac.stays_within(line):
        return "leaves-stream"
    return "err" if "e:" in impl else "within"


def nontrivial(line, impl):
    if line.startswith("histsweep"):
        return True
    ops = line.split()[5 if line.startswith("cdr") else 4].split(";")
    for i, o in enumerate(ops):
        if o and o[0] in "sx" and o[1:] != "0" and any(p and p[0] in "plr" for p in ops[i + 1:]):
            return True
    return False


def oracle(run, pairs):
    out = []
    for ln, impl in pairs:
        if ln.startswith("histsweep"):
            out.append((impl.startswith("ok "), "rust-side ideal cursor sweep: " + impl))
        else:
            out.append(ac.ideal_hist(ln, impl))
    return out


def search(run, disagreements):
    rng = run.rng
    # neighbourhood of each disagreement: same stack and data, shorter / perturbed histories
    for ln, _, _ in disagreements[:40]:
        t = ln.split()
        if t[0] != "hist":
            continue
        ops = t[4].split(";")
        for i in range(1, len(ops) + 1):
            yield " ".join(t[:4] + [";".join(ops[:i])]), "search"
            yield " ".join(t[:4] + [";".join(ops[:i] + ["p", "l", "r1", "p"])]), "search"
    for st in ac.sync_stacks() + ac.async_stacks():
        for c in (1, 2, 3, 4, 8):
            for n in (0, 1, 5, 8):
                caps = [c] * ac.ncaps(st)
                al = alphabet(c, n)
                for _ in range(40):
                    seq = [rng.choice(al) for _ in range(rng.randint(2, 6))] + ["p", "l", "r1", "p"]
                    yield line(st, caps, data_of(n), seq), "search"
    for st in ("buf(cursor)", "fbuf(fcursor)", "buf(seek(cursor))", "fbuf(seek(pc))", "fbuf(native)"):
        for c in range(1, 6):
            for n in range(0, 7):
                yield "histsweep %s %d %d 3" % (st, c, n), "search"


def coq_bool(ln, model_out):
    t = ln.split()
    if t[0] != "hist" or len(t[3]) > 40 or t[3].startswith("V") or model_out in ("panic", "unknown-stack", "model-out-of-fuel"):
        return None
    data = bytes.fromhex(t[3]) if t[3] != "-" else b""
    caps = [int(x) for x in t[2].split(",")] if t[2] != "-" else []
    rs = ac.coq_sync_reader(t[1], caps, data)
    if rs is None:
        return None
    reader, st = rs
    if ac.is_async(t[1]):
        reader = "(fut_view %s)" % reader
    pats = [ac.coq_obs_pattern(r) for r in model_out.split(";")]
    if any(p is None for p in pats):
        return None
    ops = "[" + "; ".join(ac.coq_op(o) for o in t[4].split(";") if o) + "]"
    return "match fst (run_ops %s %s %s) with [%s] => true | _ => false end" % (reader, ops, st, "; ".join(pats))


LEVEL_TEXT = ("Theorems (Coq, unbounded): every provided adapter model - SeekSkipAdapter over any seek-style cursor, std and futures BufReader "
              "of any capacity >= 1 over ANY reader that itself refines the ideal cursor (so stacks of any depth), the forwarding impls, "
              "AsyncInputAdapter, ChunkDataReader - refines the ideal forward-only cursor of Base/Cursor.v operation by operation, with the "
              "invariant buffer = data[pos .. inner.pos); stream_len / stream_position return the ideal values and do not move the cursor; "
              "lifted to every operation history that stays within the stream (C15_history, induction over the list). Plus "
              "model/implementation correspondence on exhaustive small histories for every capacity 1..9 and stream length 0..8 and long "
              "random histories over 100+ real adapter stacks, sync and async. A universally quantified statement over all histories, "
              "capacities and stack depths is what a proof decides; the batch ties the model to the real std/futures/mediasan code.")
LEVEL_NOTE = ("Trusted: Coq kernel; the hand-written models of std/futures BufReader+Cursor and of mediasan's adapters (tied by the batch); "
              "extraction and the OCaml driver; the Rust harness; the 60-line Python ideal cursor. No axioms. ChunkDataReader is private to "
              "webpsan: it is driven directly through the cfg-guarded hook webpsan::verif_reader (cdr cases). "
              "Operations that leave the stream (skip past the end, amounts above i64::MAX) are compared model vs implementation only.")
TECHNIQUE = "Coq refinement proof (abstraction function + invariant, induction over histories) + differential check of extracted models vs real adapter stacks"
DESIGN_REF = "DESIGN.md section 7 (C15), Appendix A"
