"""C12 - the async result is independent of the Pending schedule."""
import itertools
from props import adapt_common as ac

ID = "C12"
AREA = "adapt"
COQ_TARGETS = ["theories/Props/C12.vo"]
REQUIRES = ["From Coq Require Import List NArith ZArith Bool.", "From Coq.Strings Require Import Byte.",
            "From MS Require Import Base.Bytes Base.Outcome Base.Cursor Base.Adapters Base.Async Base.AsyncSpec Props.C12.",
            "Import ListNotations.", "Open Scope N_scope."]
COQCHK = ["MS.Props.C12"]
THEOREMS = []   # filled below
TRUSTED = [
    "Coq 8.16.1 kernel (coqc; coqchk in the thorough tier); vm_compute for C12_poll_stream_len_refuted and the Examples; no native_compute",
    "axioms: none (Print Assumptions = Closed under the global context for every theorem)",
    "hand-written poll-level models Base/Async.v of common/src/async_skip.rs (SeekSkipAdapter, BufReader, forwarding) and of "
    "futures-util 0.3.34 io::BufReader::{poll_read, poll_fill_buf, consume} and io::ReadExact; the executor model `drive` "
    "(re-poll the same state-less future until Ready; an exhausted schedule answers Ready)",
    "modelled, not verified: the compiler's async fn lowering of sanitize_async_with_config and of the futures combinators above the poll "
    "functions; tied at sanitizer level by the sanasync batch: the extracted run of Mp4/San.v's programme over Base/AsyncSan.v's polls "
    "(run_san_sched, the object of C12_mp4_sanitizer_sched_indep) must give mp4san::sanitize_async's result AND its exact number of "
    "primitive polls under the same schedule",
    "extraction (ExtrOcamlBasic only), OCaml 4.13.1, ocaml/adapt.ml",
    "Rust harness harness/src/adapt.rs: PendingCursor (AsyncRead+AsyncSeek) and PendingNative (AsyncRead+AsyncSkip) inject Pending per "
    "primitive poll after waking the task and make no progress; manual poll loop with a no-op waker",
]
ASSUMPTIONS = [
    "an inner AsyncRead/AsyncSeek/AsyncSkip that answers Pending has made no progress and has woken the task (the property's premise)",
    "the executor re-polls the same future; futures are not dropped half-way (cancellation is outside the property)",
    "usize is 64 bits",
]
RULE = ("sched cases: one operation (skip with amounts 0, 1, < buffered, = buffered, > buffered, to the end, 2^63, 2^64-1; position; length; "
        "read; read_exact) on SeekSkipAdapter<PendingCursor>, a Pending AsyncSkip-native reader, futures BufReader (capacities 1,3,4; empty and "
        "pre-filled buffer) over both, and the &mut/Box/Pin/Box<dyn> forwarding wrappers, from start positions 0, 1, middle, end on 0/4/16-byte "
        "streams, under EVERY subset of <= 2 (quick) / <= 3 (thorough) suspended polls over poll indices 0..7 plus seeded random dense "
        "schedules; oracle: value, final cursor position and the position reported afterwards equal the implementation's own all-Ready run. "
        "sanasync cases: 41 MP4 inputs reaching every await point (header reads incl. 64-bit and uuid headers, ftyp/moov payload reads, skips, "
        "position, until-EOF moov/mdat length queries, truncations) through SeekSkipAdapter<PendingCursor> and through the AsyncSkip-native "
        "reader (also behind Pin<Box<_>> / Box<_>), every subset of <= 2 (quick) / <= 3 (thorough) "
        "suspended polls over every poll index of the run, plus random dense schedules; oracle: async result == sync result; "
        "correspondence: sync result, async result and total primitive polls equal the extracted model's (run_san_sync / run_san_sched). "
        "A case is non-trivial when at least one poll is suspended; distinct = distinct case lines.")
EXHAUSTIVE = {"quick": True, "thorough": True}
XCHECK_N = 30
NOTES = ["exhaustive = every subset of <= k suspended polls over the stated index range; the theorems cover all schedules"]

SCHED_STACKS = ["seek(pc)", "native", "fbuf(seek(pc))", "fbuf(native)", "box(seek(pc))", "pin(seek(pc))", "mut(seek(pc))", "pinmut(native)",
                "dynbox(seek(pc))", "fbuf(fbuf(seek(pc)))", "pin(fbuf(seek(pc)))", "fbuf(pin(seek(pc)))", "fbuf(box(native))",
                "dynbox(fbuf(native))", "pin(box(fbuf(seek(pc))))", "fbuf(mut(seek(pc)))"]


def sched_line(st, op, amount, pos, ln, bits, caps=None, prefill=0):
    s = "sched %s %s %d %d %d %s" % (st, op, amount, pos, ln, bits)
    if caps:
        s += " %s %d" % (",".join(map(str, caps)), prefill)
    return s


def subsets(universe, kmax):
    for k in range(kmax + 1):
        for c in itertools.combinations(universe, k):
            yield "@" + ",".join(map(str, c)) if c else "-"


def base_of(line):
    t = line.split()
    if t[0] == "sched":
        t[6] = "-"
    else:
        t[3] = "-"
    return " ".join(t)


def op_variants(st, pos, ln, cap, prefill):
    """(op, amount) classes for one configuration"""
    raw = min(pos + cap, ln) if (prefill and cap) else pos     # raw cursor after the prefill read
    buffered = (raw - pos - prefill) if prefill else 0
    left = max(ln - pos - prefill, 0)
    amounts = {0, 1, left, 2 ** 63, 2 ** 64 - 1, 2 ** 63 - 1}
    if buffered > 0:
        amounts |= {buffered - 1, buffered, buffered + 1, buffered + 2}
    out = [("s", a) for a in sorted(amounts)]
    out += [("p", 0), ("l", 0)]
    out += [("r", k) for k in sorted({0, 1, max(cap, 1), max(cap, 1) + 1, 5})]
    out += [("x", k) for k in sorted({0, 1, 3, max(cap, 1) + 2, 7})]
    return out


def gen(run):
    rng = run.rng
    # corpus: the D7 witness (schedule [ready, ready, pending]) and its neighbours; its all-Ready twin
    for bits in ("-", "001", "01001", "1001", "0001", "011", "1", "0010"):
        yield sched_line("seek(pc)", "l", 0, 1, 4, bits), "corpus"
    yield sched_line("fbuf(seek(pc))", "l", 0, 0, 16, "001", [4], 1), "corpus"
    yield sched_line("fbuf(seek(pc))", "l", 0, 0, 16, "-", [4], 1), "corpus"
    yield sched_line("seek(pc)", "l", 0, 4, 4, "001"), "corpus"          # already at the end: only two seeks
    yield sched_line("seek(pc)", "s", 2 ** 63, 1, 4, "01"), "corpus"     # position + absolute seek, second suspended
    # sanitizer level witness of D7: until-EOF mdat, the restoring seek of its stream_len suspended => data span 80+32 instead of 80+108
    w = dict(ac.mp4_inputs())["ftyp-moov-mdat0"]
    yield "sanasync seek(pc) %s -" % ac.hexs(w), "corpus"
    yield "sanasync seek(pc) %s @8" % ac.hexs(w), "corpus"
    yield "sanasync native %s @8" % ac.hexs(w), "corpus"

    kmax = 2 if run.tier == "quick" else 3
    universe = range(6) if run.tier == "quick" else range(8)
    scheds = list(subsets(universe, kmax))
    for st in SCHED_STACKS:
        nb = ac.ncaps(st)
        confs = []
        if nb == 0:
            confs = [([], 0)]
        else:
            for cap in (1, 3, 4):
                for prefill in (0, 1):
                    confs.append(([cap] + [2] * (nb - 1), prefill))
        for caps, prefill in confs:
            for ln in ((4,) if run.tier == "quick" else (0, 4, 16)):
                for pos in sorted({0, 1, ln // 2, ln}):
                    if pos > ln:
                        continue
                    for op, amount in op_variants(st, pos, ln, caps[0] if caps else 0, prefill):
                        for bits in scheds:
                            yield sched_line(st, op, amount, pos, ln, bits, caps, prefill), "sched-subsets"
                        for _ in range(2 if run.tier == "quick" else 8):
                            bits = "".join(rng.choice("0011" if rng.random() < .5 else "0001") for _ in range(rng.randint(3, 24)))
                            yield sched_line(st, op, amount, pos, ln, bits, caps, prefill), "sched-random"

    # sanitizer level
    inputs = ac.mp4_inputs()
    bases = ["seek(pc)", "native", "pin(seek(pc))", "box(native)"]
    probe = ["p%d_%d sanasync %s %s -" % (i, j, b, ac.hexs(d)) for i, (_, d) in enumerate(inputs) for j, b in enumerate(bases[:2])]
    res = run.harness(probe)
    for i, (name, d) in enumerate(inputs):
        for j, b in enumerate(bases[:2]):
            r = res.get("p%d_%d" % (i, j), "")
            npolls = int(r.split("polls=")[1].split()[0]) if "polls=" in r else 0
            yield "sanasync %s %s -" % (b, ac.hexs(d)), "san-base"
            k = 2 if run.tier == "quick" else 3
            # every subset of <= k suspended polls over every poll index of the run (a Pending shifts later indices by one per restart,
            # so the universe is extended by a few indices)
            for bits in subsets(range(npolls + 3), k):
                yield "sanasync %s %s %s" % (b, ac.hexs(d), bits), "san-subsets"
            for _ in range(3 if run.tier == "quick" else 20):
                n = rng.randint(npolls, 3 * npolls + 4)
                dens = rng.choice([0.1, 0.3, 0.5, 0.8])
                bits = "".join("1" if rng.random() < dens else "0" for _ in range(n)) or "-"
                yield "sanasync %s %s %s" % (b, ac.hexs(d), bits), "san-random"
        for b in bases[2:]:
            yield "sanasync %s %s -" % (b, ac.hexs(d)), "san-base"
            for bits in subsets(range(12), 1):
                yield "sanasync %s %s %s" % (b, ac.hexs(d), bits), "san-subsets-fwd"


def same(line, impl, model):
    if line.startswith("sanasync"):
        # the model (Mp4/San.v's programme over Base/AsyncSan.v's polls) has no D7 probe flag; everything else must agree:
        # synchronous result, asynchronous result and the number of primitive polls of the whole run
        return impl.rsplit(" d7=", 1)[0] == model
    return impl == model


def classify(line, impl):
    if impl in ("panic", "missing", "unknown-stack"):
        return impl
    if line.startswith("sanasync"):
        if "async=[ok" in impl:
            return "san-ok"
        if "async=[err parse" in impl:
            return "san-err-" + impl.split("async=[err parse ")[1].split("]")[0]
        return "san-err-io"
    return "err" if impl.startswith("e:") else "ok"


def nontrivial(line, impl):
    t = line.split()
    bits = t[6] if t[0] == "sched" else t[3]
    return bits != "-" and ("1" in bits or bits.startswith("@"))


def _fields(impl):
    """sched observation -> (value, pos, sp)"""
    t = impl.split()
    d = dict(x.split("=", 1) for x in t[1:] if "=" in x)
    return t[0] if t else "", d.get("pos"), d.get("sp")


def oracle(run, pairs):
    """value, final position (and the position reported afterwards) equal the implementation's own all-Ready run;
    sanitizer level: async result == sync result"""
    known = dict(pairs)
    need = []
    for ln, _ in pairs:
        if ln.startswith("sched"):
            b = base_of(ln)
            if b not in known and b not in need:
                need.append(b)
    if need:
        res = run.harness(["b%d %s" % (i, l) for i, l in enumerate(need)])
        for i, l in enumerate(need):
            known[l] = res.get("b%d" % i, "missing")
    out = []
    for ln, impl in pairs:
        if ln.startswith("sanasync"):
            if "sync=[" not in impl:
                out.append((False, "no observation: " + impl))
                continue
            s = impl.split("sync=[")[1].split("]")[0]
            a = impl.split("async=[")[1].split("]")[0]
            out.append((s == a, "sync %s / async %s" % (s[:60], a[:60])))
        else:
            base = known.get(base_of(ln), "missing")
            if impl in ("panic", "missing") or base in ("panic", "missing"):
                out.append((False, "no observation: %s / all-Ready %s" % (impl, base)))
                continue
            out.append((_fields(impl) == _fields(base), "all-Ready run: %s" % base))
    return out


def restoring_seek_suspended(bits):
    """does the schedule answer Pending to the third seek of a poll_stream_len run (position != end)?"""
    if bits == "-":
        return False
    if bits.startswith("@"):
        idx = set(int(x) for x in bits[1:].split(",") if x)
        b = [i in idx for i in range(max(idx) + 1)] if idx else []
    else:
        b = [c == "1" for c in bits]
    i, stage = 0, 0
    while i < len(b):
        if b[i]:
            if stage == 2:
                return True
            stage = 0
        else:
            stage += 1
            if stage == 3:
                return False
        i += 1
    return False


def known_class(line, impl):
    """D7: seek-based adapter, poll_stream_len, Pending on the restoring seek, position != end."""
    t = line.split()
    if t[0] == "sched":
        if "seek(pc)" in t[1] and t[2] == "l" and restoring_seek_suspended(t[6]):
            v, pos, _ = _fields(impl)
            # signature of the defect: the right length, the cursor left at the end
            if v == "n:%s" % t[5] and pos == t[5] and t[4] != t[5]:
                return "D7"
        return None
    if t[0] == "sanasync" and "seek(pc)" in t[1] and impl.endswith("d7=1") and has_until_eof_box(t[2]):
        # the call site of the finding: the length query of an until-EOF box (skip_box / read_data); a run without such a box
        # whose result depends on the schedule is a different violation, whatever the probe flag says
        return "D7"
    return None


def has_until_eof_box(hexdata):
    """does the top-level box sequence contain a box whose 32-bit size field is 0 (extends to the end of the input)?"""
    d = bytes.fromhex(hexdata) if hexdata != "-" else b""
    off = 0
    while off + 8 <= len(d):
        size = int.from_bytes(d[off:off + 4], "big")
        if size == 0:
            return True
        if size == 1:
            if off + 16 > len(d):
                return False
            size = int.from_bytes(d[off + 8:off + 16], "big")
        if size < 8:
            return False
        off += size
    return False


def search(run, disagreements):
    rng = run.rng
    scheds = list(subsets(range(10), 3))
    for st in SCHED_STACKS:
        nb = ac.ncaps(st)
        for caps, prefill in ([([], 0)] if nb == 0 else [([c] + [2] * (nb - 1), p) for c in (1, 2, 3, 4, 5) for p in (0, 1, 2) if p < c or p == 0]):
            for ln in (0, 3, 4, 9, 16):
                for pos in sorted({0, 1, ln // 2, ln}):
                    for op, amount in op_variants(st, pos, ln, caps[0] if caps else 0, prefill):
                        for bits in rng.sample(scheds, 25):
                            yield sched_line(st, op, amount, pos, ln, bits, caps, prefill), "search"
    for name, d in ac.mp4_inputs():
        for b in ("seek(pc)", "native"):
            for bits in subsets(range(60), 1):
                yield "sanasync %s %s %s" % (b, ac.hexs(d), bits), "search"
            for _ in range(40):
                bits = "".join("1" if rng.random() < 0.4 else "0" for _ in range(rng.randint(5, 150)))
                yield "sanasync %s %s %s" % (b, ac.hexs(d), bits), "search"


def coq_async(st, caps, ln, pos):
    """(areader term, initial state term)"""
    caps = list(caps)

    def go(node):
        name, inner = node
        if inner is None:
            if name == "native":
                return "(pending_reader (cursor_reader U64MAXN))", "{| cdata := %s; cpos := %d |}" % (ac.coq_bytes(bytes(i % 251 for i in range(ln))), pos)
            return None
        if name == "seek" and inner == ("pc", None):
            return ("(aseek_adapter (pending_seeker (std_cursor U64MAXN)))",
                    "{| cdata := %s; cpos := %d |}" % (ac.coq_bytes(bytes(i % 251 for i in range(ln))), pos))
        r = go(inner)
        if r is None:
            return None
        if name == "fbuf":
            c = caps.pop(0)
            return "(afut_buf %d %s)" % (c, r[0]), "(buf_init (ard %s) %s)" % (r[0], r[1])
        return "(afwd %s)" % r[0], r[1]

    # capacities are consumed outermost first
    return go(ac.parse_stack(st))


def coq_bool(line, model_out):
    t = line.split()
    if t[0] != "sched" or model_out.startswith(("model", "panic", "unknown")):
        return None
    caps = [int(x) for x in t[7].split(",")] if len(t) > 7 and t[7] != "-" else []
    prefill = int(t[8]) if len(t) > 8 else 0
    if prefill:
        return None
    rs = coq_async(t[1], caps, int(t[5]), int(t[4]))
    if rs is None:
        return None
    a, s = rs
    op = ac.coq_op(t[2] if t[2] in "pl" else t[2] + t[3])
    bits = t[6]
    if bits == "-":
        bl = []
    elif bits.startswith("@"):
        idx = set(int(x) for x in bits[1:].split(",") if x)
        bl = [i in idx for i in range(max(idx) + 1)]
    else:
        bl = [c == "1" for c in bits]
    pat = ac.coq_obs_pattern(model_out.split()[0])
    polls = model_out.split("polls=")[1]
    if pat is None:
        return None
    return ("match astep %s (%s) %s {| bits := [%s]; npolls := 0 |} with Some ((%s, _), sc) => npolls sc =? %s | _ => false end"
            % (a, op, s, "; ".join("true" if b else "false" for b in bl), pat, polls))


THEOREMS = [
    ("C12_poll_skip_sched_indep", """forall (S : seeker), seek_query_pure S ->
      forall (amount : N) (s : sst S) (sc : sch),
        exists sc', drive_all (apoll_skip (pending_seeker S) amount) s sc =
                    Some (fst (assa_skip (pending_seeker S) amount s), snd (assa_skip (pending_seeker S) amount s), sc')"""),
    ("C12_poll_position_sched_indep", """forall (S : seeker) (s : sst S) (sc : sch),
        exists sc', drive_all (apoll_pos (pending_seeker S)) s sc =
                    Some (fst (assa_pos (pending_seeker S) s), snd (assa_pos (pending_seeker S) s), sc')"""),
    ("C12_poll_stream_len_refuted", """exists (data : bytes) (pos : N) (sc : sch),
      let A := pending_seeker (std_cursor U64MAXN) in
      let s := {| cdata := data; cpos := pos |} in
      exists v s' sc', drive_all (apoll_len A) s sc = Some (v, s', sc') /\\
        v = fst (assa_len A s) /\\ v = Ok (clen s) /\\
        cpos (snd (assa_len A s)) = pos /\\ cpos s' = clen s /\\ cpos s' <> pos"""),
    ("C12_poll_stream_len_sched_indep_except_D7", """forall (S : seeker), seek_query_pure S ->
      forall (s : sst S) (sc : sch),
        len_sched_ok (bits sc) = true \\/ at_end S s ->
        exists sc', drive_all (apoll_len (pending_seeker S)) s sc =
                    Some (fst (assa_len (pending_seeker S) s), snd (assa_len (pending_seeker S) s), sc')"""),
    ("C12_bufreader_polls_sched_indep", """forall (cap : N) (A : areader),
      sched_indep_core A -> sched_indep_core (afut_buf cap A) /\\ (len_indep A -> len_indep (afut_buf cap A))"""),
    ("C12_bases_sched_indep", """forall (S : seeker) (R : reader), seek_query_pure S ->
      sched_indep_core (aseek_adapter (pending_seeker S)) /\\
      sched_indep_core (pending_reader R) /\\ len_indep (pending_reader R) /\\
      (forall A, sched_indep_core A -> sched_indep_core (afwd A)) /\\ (forall A, len_indep A -> len_indep (afwd A))"""),
    ("C12_prog_sched_indep", """forall (A : areader), sched_indep_core A ->
      forall (X : Type) (p : prog X), (len_indep A \\/ no_len p) ->
      forall (s : rst (ard A)) (sc : sch),
        exists sc', run_sched A p s sc = Some (fst (run_sync (fut_view (ard A)) p s), snd (run_sync (fut_view (ard A)) p s), sc')"""),
]

_SREQ = ["From Coq Require Import List NArith ZArith Bool.",
         "From MS Require Import Base.Bytes Base.Outcome Base.Cursor Base.Adapters Base.Async Base.AsyncSpec Base.AsyncSan Base.AsyncSanProofs Base.StackReader Base.StackSpec Mp4.San "
         "Gen.Consts Props.C12s.", "From MS Require Base.Prog.", "Open Scope N_scope."]
THEOREMS = THEOREMS + [
    ("C12_sanitizer_ops_sched_indep", """forall (cap : N) (A : areader), sched_indep_core A ->
  forall (X : Type) (p : Prog.prog X), (len_indep A \\/ no_len_prog p) ->
  forall (s : bst (rst (ard A))) (sc : sch),
    exists sc', run_san_sched cap A p s sc =
                Some (fst (run_san_sync cap A p s), snd (run_san_sync cap A p s), sc')"""),
    ("C12_mp4_sanitizer_sched_indep", """forall (cfg : config) (fuel : nat) (A : areader),
  sched_indep_core A -> len_indep A ->
  forall (s : bst (rst (ard A))) (sc : sch),
    exists sc', run_san_sched BOXHEADER_MAX_SIZE A (sanitize_prog cfg fuel) s sc =
                Some (fst (run_san_sync BOXHEADER_MAX_SIZE A (sanitize_prog cfg fuel) s),
                      snd (run_san_sync BOXHEADER_MAX_SIZE A (sanitize_prog cfg fuel) s), sc')"""),
    ("C12_mp4_sanitizer_native_sched_indep", """forall (cfg : config) (fuel : nat) (R : reader)
  (s : bst (rst (ard (pending_reader R)))) (sc : sch),
    exists sc', run_san_sched BOXHEADER_MAX_SIZE (pending_reader R) (sanitize_prog cfg fuel) s sc =
                Some (fst (run_san_sync BOXHEADER_MAX_SIZE (pending_reader R) (sanitize_prog cfg fuel) s),
                      snd (run_san_sync BOXHEADER_MAX_SIZE (pending_reader R) (sanitize_prog cfg fuel) s), sc')"""),
]
THEOREMS = THEOREMS + [
    ("C12_mp4_async_is_model", """forall (cfg : config) (fuel : nat) (ms : N) (st : stk) (data : bytes) (inp : Prog.input) (sc : sch),
  stk_ok st -> blen data <= I64MAX -> ms_ok (blen data) ms -> inp_is inp data ->
  exists s' sc',
    run_san_sched BOXHEADER_MAX_SIZE (pending_reader (stk_reader ms st)) (sanitize_prog cfg fuel) (stack_init ms st data) sc
    = Some (mp4_sanitize cfg true ms inp fuel, s', sc')"""),
]
_DREQ = ["From Coq Require Import List NArith ZArith Bool.",
         "From MS Require Import Base.Bytes Base.Outcome Base.Cursor Base.Adapters Base.Async Base.AsyncSpec Base.AsyncD7Proofs Props.C12d.",
         "Open Scope N_scope."]
THEOREMS = THEOREMS + [
    ("C12_poll_stream_len_D7_is_all", """forall (c : cur) (sc : sch), small c ->
  exists s' sc', drive_all (apoll_len (pending_seeker (std_cursor U64MAXN))) c sc = Some (Ok (clen c), s', sc') /\\
                 cdata s' = cdata c /\\ (cpos s' = cpos c \\/ cpos s' = clen c)"""),
]
REQUIRES_FOR = {"C12_poll_stream_len_D7_is_all": _DREQ, "C12_mp4_async_is_model": _SREQ, "C12_sanitizer_ops_sched_indep": _SREQ, "C12_mp4_sanitizer_sched_indep": _SREQ,
                "C12_mp4_sanitizer_native_sched_indep": _SREQ}
COQ_TARGETS = COQ_TARGETS + ["theories/Props/C12s.vo", "theories/Props/C12d.vo"]
COQCHK = COQCHK + ["MS.Props.C12s", "MS.Props.C12d"]

LEVEL_TEXT = ("Theorems (Coq, for ALL schedules, by induction on the schedule): the poll functions of SeekSkipAdapter (poll_skip, "
              "poll_stream_position), of futures BufReader (poll_read, poll_fill_buf, poll_skip, poll_stream_position, poll_stream_len) over ANY "
              "schedule-independent inner reader (so any stack depth), of the forwarding impls and of futures' ReadExact, driven under an arbitrary "
              "Pending schedule, complete with exactly the value and reader state of the all-Ready run; lifted to every adaptive client programme "
              "(C12_prog_sched_indep) that does not ask a seek-based adapter for the stream length, and to the MP4 sanitizer's own programme "
              "(fill_buf().is_empty(), read_exact, skip, position, length over futures BufReader(32), Mp4/San.v's sanitize_prog, every config and "
              "input: C12_mp4_sanitizer_sched_indep), and composed with C11's stack refinement: under every schedule the async run over any adapter "
              "stack on in-memory data returns what the abstract model mp4_sanitize returns (C12_mp4_async_is_model). SeekSkipAdapter::poll_stream_len is REFUTED "
              "(C12_poll_stream_len_refuted, finding D7), proved for every schedule that does not suspend its restoring seek, and the defect is "
              "characterised completely (C12_poll_stream_len_D7_is_all: under EVERY schedule the value is the right length, the data is untouched "
              "and the cursor is left where it was or at the end of the stream - nothing else). Plus "
              "model/implementation correspondence under every subset of <= 3 suspended polls, and sanitizer-level runs of mp4san::sanitize_async "
              "against the synchronous result. 'For every Pending schedule' is a universally quantified statement: a proof by induction on the "
              "schedule decides it, sampling subsets cannot.")
LEVEL_NOTE = ("Trusted: Coq kernel; the poll-level models and the executor model (re-poll until Ready); the compiler's async lowering and "
              "futures-util above the poll functions are modelled/sampled, not verified; extraction and the OCaml driver; the Rust harness with its "
              "Pending-injecting readers. No axioms. Known finding D7 (poll_stream_len leaves the cursor at the end when its third seek is suspended) "
              "is reported as KNOWN-FINDING on every run; the sanitizer-level theorem needs the inner reader's length query to be schedule independent, "
              "which holds for AsyncSkip-native readers and fails for SeekSkipAdapter exactly on D7.")
TECHNIQUE = "Coq proof by induction on the Pending schedule over poll-level models + differential check under exhaustive small Pending subsets + sanitizer-level sync/async comparison"
DESIGN_REF = "DESIGN.md section 7 (C12), section 8 (D7), Appendix A"
