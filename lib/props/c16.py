"""C16 - MP4 box codec: parse/serialize round trip and length agreement.
Parts (a) and (b): the box header (area `hdr`).  The module is organised as tables (THEOREMS, GENERATORS, ORACLES,
SEARCHERS, COQ_BOOLS keyed by case kind) so that part (c), the lazy box tree, can be added by appending to them."""
import re

ID = "C16"
AREA = "hdr"
COQ_TARGETS = ["theories/Props/C16.vo", "theories/Props/C16c.vo", "theories/Props/C16e.vo", "theories/Props/C16f.vo"]
REQUIRES = ["From Coq Require Import List NArith Bool.", "From Coq.Strings Require Import Byte.",
            "From MS Require Import Base.Bytes Base.Outcome Mp4.Header Mp4.HeaderSpec Mp4.Box Mp4.BoxLazy Mp4.BoxOps Mp4.BoxEdit Mp4.BoxFail Mp4.BoxFailProofs Props.C16 Props.C16c Props.C16e Props.C16f.",
            "Import ListNotations.", "Open Scope N_scope."]
COQCHK = ["MS.Props.C16", "MS.Props.C16c", "MS.Props.C16e", "MS.Props.C16f"]

THEOREMS = [
    ("C16_header_roundtrip", """
  (forall (h : header) (r : bytes), hdr_wf h = true ->
     hdr_read (hdr_put h ++ r) = Some (h, r) /\\ N.of_nat (length (hdr_put h)) = encoded_len h)
  /\\ (forall (l : bytes) (h : header) (r : bytes), hdr_read l = Some (h, r) ->
        hdr_wf h = true /\\ l = hdr_put h ++ r)"""),
    ("C16_header_constructors", """
  forall (t : box_type) (n : N), type_wf t = true -> n <= U64MAX ->
  (forall h, with_data_size t n = Ok h ->
     htype h = t /\\
     hdr_wf h = true /\\
     box_data_size h = Ok (Some n) /\\
     box_size_of h = Some (N.of_nat (length (hdr_put h)) + n) /\\
     N.of_nat (length (hdr_put h)) = encoded_len h /\\
     (is_ext h = true <-> U32MAX < n + short_len t) /\\
     (is_ext h = false -> size_field32 h <> 0 /\\ size_field32 h <> 1 /\\ size_field32 h = n + short_len t) /\\
     (is_ext h = true -> size_field32 h = 1 /\\ size_field64 h = n + long_len t) /\\
     (forall r, hdr_read (hdr_put h ++ r) = Some (h, r))) /\\
  (with_data_size t n = EParse InvalidInput <-> U64MAX < n + long_len t) /\\
  ((exists h, with_data_size t n = Ok h) \\/ with_data_size t n = EParse InvalidInput) /\\
  (n <= U32MAX -> with_data_size t n = Ok (with_u32_data_size t n))"""),
    # ---- part (c): the lazily parsed box tree (Mp4/Box.v); proofs in Mp4/BoxProofsLazy.v
    ("C16_lazy_roundtrip", """
  forall (fuel : nat) (buf : bytes) (ns ns' : list node),
  parse_boxes fuel buf = Ok ns -> Forall2 forces ns ns' ->
  put_nodes ns = buf /\\ put_nodes ns' = buf"""),
    ("C16_encoded_len_agrees", """
  forall (fuel : nat) (buf : bytes) (ns ns' : list node),
  parse_boxes fuel buf = Ok ns -> Forall2 forces ns ns' ->
  N.of_nat (length (put_nodes ns')) = nodes_encoded_len ns' /\\
  nodes_encoded_len ns' = N.of_nat (length buf) /\\
  (forall n, In n ns' -> N.of_nat (length (put_node n)) = node_encoded_len n)"""),
    ("C16_accessors_are_forcings", """
  forall (kids kids' : list node) (cs : list N),
  each_trak kids tab_count = Ok (kids', cs) -> Forall2 forces kids kids'"""),
    ("C16_moov_roundtrip", """
  forall (p : bytes) (kids : list node), moov_check p = Ok kids -> put_nodes kids = p"""),
    ("C16_set_keeps_length", """
  forall (f g : N -> res N) (kids kids' : list node) (l : list unit),
  each_trak kids (shift_table f g) = Ok (kids', l) -> length (put_nodes kids') = length (put_nodes kids)"""),
    ("C16_lazy_ops_roundtrip", """
  forall (p : bytes) (kids : list node) (ops : list (nat * nat)),
  parse_moov p = Ok kids ->
  put_nodes (fst (run_ops ops 0 kids)) = p /\\
  N.of_nat (length (put_nodes (fst (run_ops ops 0 kids)))) = nodes_encoded_len (fst (run_ops ops 0 kids))"""),
    # ---- after a caller edit that changes a payload length (Mp4/BoxEdit.v); proofs in Mp4/BoxEditProofs.v
    ("C16_edit_len_agrees", """
  forall (n : node), node_wf n = true ->
  forall b : bytes, put_calc n = Ok b -> len_calc n = Ok (N.of_nat (length b))"""),
    ("C16_calc_is_plain", """
  forall (fuel : nat) (buf : bytes) (ns ns' : list node),
  parse_boxes fuel buf = Ok ns -> Forall2 forces ns ns' ->
  puts_calc ns' = Ok buf /\\ lens_calc ns' = Ok (N.of_nat (length buf))"""),
    ("C16_sanitizer_tree_keeps_headers", """
  forall (p : bytes) (kids kids' : list node) (f g : N -> res N) (l : list unit),
  moov_check p = Ok kids -> each_trak kids (shift_table f g) = Ok (kids', l) ->
  puts_calc kids' = Ok (put_nodes kids') /\\ lens_calc kids' = Ok (nodes_encoded_len kids') /\\
  nodes_encoded_len kids' = N.of_nat (length p)"""),
    ("C16_edited_moov_len", """
  forall (p : bytes) (kids : list node) (ops : list (nat * nat)) (i m : nat) (kids' : list node) (b : bytes),
  parse_moov p = Ok kids -> edit_trak i m (fst (run_ops ops 0 kids)) = Ok kids' ->
  puts_calc kids' = Ok b -> lens_calc kids' = Ok (N.of_nat (length b))"""),
    ("C16_failing_model_agrees", """forall (ops : list (nat * nat)) (step : nat) (kids : list node),
  snd (run_ops_st ops step kids) = fail_unit (snd (run_ops ops step kids)) /\\
  (snd (run_ops ops step kids) = None -> fst (run_ops_st ops step kids) = fst (run_ops ops step kids))"""),
    ("C16_D9_container_shape", """forall n : node, let '(n', o) := force_cont_st n in
  match o with
  | Ok _ => force_cont n = Ok n'
  | _ => exists h d pre, n = Raw h d /\\ d = pre ++ boxes_resid (boxes_fuel d) d /\\ n' = Raw h (boxes_resid (boxes_fuel d) d)
  end"""),
    ("C16_D9_table_shape", """forall (w : N) (n : node), let '(n', o) := force_table_st w n in
  match o with
  | Ok _ => force_table w n = Ok n'
  | _ => exists h d pre, n = Raw h d /\\ d = pre ++ table_resid w d /\\ n' = Raw h (table_resid w d)
  end"""),
    ("C16_len_agrees_in_every_history", """forall (p : bytes) (kids : list node) (ops : list (nat * nat)) (b : bytes),
  parse_moov p = Ok kids ->
  puts_calc (fst (run_ops_st ops 0 kids)) = Ok b -> lens_calc (fst (run_ops_st ops 0 kids)) = Ok (N.of_nat (length b))"""),
]

TRUSTED = [
    "Coq 8.16.1 kernel (coqc; coqchk in the thorough tier); vm_compute for the Examples only; no native_compute",
    "axioms: none (Print Assumptions = Closed under the global context for all theorems)",
    "the hand-written model coq/theories/Mp4/Header.v of mp4san/src/parse/header.rs (hdr_read, hdr_put, encoded_len, box_data_size, "
    "with_u32_data_size, with_data_size), tied to the current source by the correspondence batch of every run",
    "part (c): the hand-written tree model coq/theories/Mp4/Box.v (+ Mp4/BoxLazy.v encoded length, Mp4/BoxOps.v partial accessor chains) of "
    "mp4san/src/parse/{mp4box,array,stco,co64,stbl,minf,mdia,trak,moov}.rs, tied to the source by the `lazy` batch of this module (public accessor "
    "API in generated orders) and by the mp4 area's batches (whole sanitizer runs)",
    "extraction (ExtrOcamlBasic only), OCaml 4.13.1, ocaml/prelude.ml + ocaml/hdr.ml",
    "Rust harness harness/src/hdr.rs calling mp4san::parse::BoxHeader::{parse, put_buf, encoded_len, box_size, box_data_size, with_data_size, "
    "with_u32_data_size}; the Size/Ext variant is read off the derived Debug text; rustc/cargo",
    "the Python oracle in lib/props/c16.py (an independent reading of ISO/IEC 14496-12 4.2 box headers)",
]
ASSUMPTIONS = [
    "BoxHeader::parse on an in-memory Buf is BoxHeader::read on the same bytes (buf_async_reader never returns Pending); the model reads byte lists",
    "header values range over hdr_wf: FourCC types other than `uuid`, 16-byte uuids, Size in 2..2^32-1, Ext in 0..2^64-1. "
    "BoxType::FourCC(`uuid`) (the public constant BoxType::UUID) is representable and does not round-trip; it is outside the quantifier "
    "(see Example fourcc_uuid_not_roundtrip) and its cases are run with the decode-back clause relaxed",
]
RULE = ("hdrparse: every truncation length of headers built from size fields {0,1,2,7,8,9,15,16,17,23,24,25,31,32,33,2^32-1,random} x "
        "types {free, uuid+16 bytes, random} x largesize {0,1,15,16,2^32,2^64-1,random}, exhaustive over all byte strings whose first 8 "
        "bytes are 000000ss + 4-letter type with ss in 0..=255 for two types, plus seeded random byte strings of length 0..48 biased to small "
        "size fields; hdrmk: payload sizes 0..40, u32::MAX-40..u32::MAX+16, u64::MAX-40..u64::MAX, powers of two +-1, seeded random, each for "
        "a FourCC type, a random FourCC, a uuid type and FourCC `uuid`. Non-trivial = parse succeeded with a size field of 0/1 or a uuid type, "
        "or failed by truncation after the 8th byte; constructor payload within 48 of a form boundary or an error. "
        "lazy: a call i.k = iterate traks() to the i-th trak and apply the first k of mdia_mut/minf_mut/stbl_mut/co_mut; exhaustive: no call, each of the "
        "15 calls (i in 0..2, k in 0..4) and each of the 225 ordered pairs on a two-trak moov with unknown siblings, 64-bit child header, stco + co64; "
        "random: structure-aware moov payloads (1-4 traks, unknown/uuid siblings at every level, 32/64-bit/until-end child headers, 0-6 entries) x random "
        "sequences of 0-6 calls (index may exceed the trak count); payloads MoovBox::parse refuses. Non-trivial = at least one call on >= 40 bytes. "
        "lazyedit (caller edits): after the calls the chunk-offset table of one trak is REPLACED by m entries (`*stco = (1..=m).collect()`), which changes "
        "the payload length of the table and of every ancestor: all 16 combinations of 32/64-bit headers on trak/mdia/minf/stbl (+ until-end forms) x 5 "
        "table forms x m in 0..7 x 3 call prefixes, and random trees; oracle: encoded_len = bytes written and the output is a sequence of whole boxes.")
EXHAUSTIVE = {"quick": False, "thorough": False}
XCHECK_N = 60
NOTES = ["part (c) (lazy box tree): theorems C16_lazy_roundtrip / C16_encoded_len_agrees quantify over EVERY sequence of successful forcings "
         "(relation `forces` of Mp4/BoxLazy.v); C16_accessors_are_forcings and C16_lazy_ops_roundtrip show that the sanitizer's accessor chain and the "
         "call sequences of the `lazy` batch are such sequences. The `lazy` batch drives MoovBox::parse, traks(), mdia_mut, minf_mut, stbl_mut, "
         "co_mut in generated orders (every single call and every ordered pair on a two-trak tree; random sequences of up to 6 calls on random "
         "trees) and compares put_buf / encoded_len with the extracted model; the oracle compares put_buf with the input bytes directly",
         "finding D9 (a FAILED lazy parse has already consumed part of the child's BytesMut and changed the payload length, so a later put_buf writes "
         "a shortened box with recomputed sizes; witness `lazy 000000347472616b0000002c6d646961000000246d696e660000001c7374626c000000147374636f"
         "000000000000000200000001 0.4`: co_mut fails with TruncatedBox, 44 bytes are then written for the 52 parsed): every caller in the "
         "sanitizer propagates the error at once, so the sanitizer never serialises such a value. As worded (`regardless of which children were "
         "lazily parsed in between`) the property is violated by these histories; the streams of failing accessor calls (`lazy-failing-calls`, "
         "`lazy-failing-grid`) are generated only when the finding is recorded as `known: property=C16 id=D9 ...` in known_findings.txt (or with "
         "VERIF_C16_D9=1), and are then reported as KNOWN-FINDING. The finding is INSIDE the model since Mp4/BoxFail.v: the state-passing "
         "accessor chains return the tree a failed call leaves behind (what the failing parser had consumed of the child's BytesMut: "
         "boxes_resid / table_resid), the bytes written after the failed call and encoded_len are compared with the extracted model exactly "
         "(every failure path of Boxes::parse and of the stco/co64 parsers, at every depth of the chain: `lazy-failing-grid`), "
         "C16_failing_model_agrees ties that model to the one of the success theorems, C16_D9_container_shape / C16_D9_table_shape give the "
         "exact shape (same header, a suffix of the payload), and C16_len_agrees_in_every_history proves the length clause in those histories too"]

U32 = 2**32 - 1
U64 = 2**64 - 1
UUID4 = b"uuid"


# ---------------------------------------------------------------------- independent reading of the format
def spec_decode(b):
    """ISO/IEC 14496-12 4.2: size(32) type(32) [largesize(64) if size==1] [usertype(128) if type=='uuid'].
    Returns None if the bytes end inside the header, else (type bytes, ('eof'|'size'|'ext', n), consumed)."""
    if len(b) < 8:
        return None
    size = int.from_bytes(b[0:4], "big")
    typ = b[4:8]
    pos = 8
    if size == 0:
        s = ("eof", None)
    elif size == 1:
        if len(b) < pos + 8:
            return None
        s = ("ext", int.from_bytes(b[pos:pos + 8], "big"))
        pos += 8
    else:
        s = ("size", size)
    if typ == UUID4:
        if len(b) < pos + 16:
            return None
        typ = b[pos:pos + 16]
        pos += 16
    return typ, s, pos


def spec_encode(typ, s):
    kind, n = s
    out = {"eof": 0, "ext": 1}.get(kind, n).to_bytes(4, "big")
    out += UUID4 if len(typ) == 16 else typ
    if kind == "ext":
        out += n.to_bytes(8, "big")
    if len(typ) == 16:
        out += typ
    return out


def _fields(out):
    d = {}
    for tok in out.split()[1:]:
        k, _, v = tok.partition("=")
        d[k] = v
    return d


def _size(sv):
    if sv == "eof":
        return ("eof", None)
    k, _, n = sv.partition(":")
    return (k, int(n))


# ---------------------------------------------------------------------- generators
def _hx(b):
    return b.hex() if b else "-"


def gen_hdrparse(run):
    rng = run.rng
    # corpus
    for h in ["-", "00", "0000000866726565", "0000000166726565", "00000001667265650000000000000010",
              "00000000757569640102030405060708090a0b0c0d0e0f", "00000000757569640102030405060708090a0b0c0d0e0f10",
              "00000001757569640000000000000020" + "11" * 16 + "aa", "0000000066726565ff", "0000000766726565"]:
        yield "hdrparse " + h, "corpus"
    sizes = [0, 1, 2, 7, 8, 9, 15, 16, 17, 23, 24, 25, 31, 32, 33, U32 - 1, U32, rng.randrange(2, U32)]
    types = [b"free", b"uuid", b"moov", bytes(rng.randrange(256) for _ in range(4)), b"uuiD", b"\x00\x00\x00\x00"]
    larges = [0, 1, 15, 16, 2**32, U64, rng.randrange(U64)]
    for sz in sizes:
        for t in types:
            for lg in (larges if sz == 1 else [0]):
                b = sz.to_bytes(4, "big") + t
                if sz == 1:
                    b += lg.to_bytes(8, "big")
                if t == b"uuid":
                    b += bytes(rng.randrange(256) for _ in range(16))
                b += bytes(rng.randrange(256) for _ in range(3))
                for k in range(len(b) + 1):
                    yield "hdrparse " + _hx(b[:k]), "truncations"
    # exhaustive small family: low size byte x two types, full and one byte short of full
    for ss in range(256):
        for t in (b"free", b"uuid"):
            b = bytes([0, 0, 0, ss]) + t + bytes(range(1, 25))
            yield "hdrparse " + _hx(b), "exhaustive-lowsize"
            need = 8 + (8 if ss == 1 else 0) + (16 if t == b"uuid" else 0)
            yield "hdrparse " + _hx(b[:need - 1]), "exhaustive-lowsize"
            yield "hdrparse " + _hx(b[:need]), "exhaustive-lowsize"
    n = 1500 if run.tier == "quick" else 60000
    for _ in range(n):
        ln = rng.randrange(0, 49)
        b = bytearray(rng.randrange(256) for _ in range(ln))
        k = rng.random()
        if ln >= 4 and k < 0.6:
            b[0:3] = b"\0\0\0"
            b[3] = rng.choice([0, 1, 1, 2, 8, 16, 24, 32, rng.randrange(256)])
        if ln >= 8 and rng.random() < 0.4:
            b[4:8] = b"uuid"
        yield "hdrparse " + _hx(bytes(b)), "random"


def _grid():
    g = list(range(0, 41))
    g += list(range(U32 - 40, U32 + 17))
    g += list(range(U64 - 40, U64 + 1))
    for p in (8, 16, 24, 31, 32, 33, 48, 63):
        g += [2**p - 1, 2**p, 2**p + 1]
    return g


def gen_hdrmk(run):
    rng = run.rng
    for t, n in [("66726565", 0), ("66726565", U32 - 8), ("66726565", U32 - 7), ("66726565", U64 - 16), ("66726565", U64 - 15),
                 ("00" * 16, U32 - 24), ("00" * 16, U32 - 23), ("00" * 16, U64 - 32), ("00" * 16, U64 - 31)]:
        yield "hdrmk %s %d" % (t, n), "corpus"
    types = ["66726565", bytes(rng.randrange(256) for _ in range(4)).hex(), bytes(rng.randrange(256) for _ in range(16)).hex(),
             "6d6f6f76", "ff" * 16]
    for n in _grid():
        for t in types:
            yield "hdrmk %s %d" % (t, n), "grid"
        yield "hdrmk 75756964 %d" % n, "fourcc-uuid"
    k = 600 if run.tier == "quick" else 30000
    for _ in range(k):
        r = rng.random()
        if r < 0.3:
            n = rng.randrange(0, U64 + 1)
        elif r < 0.6:
            n = max(0, min(U64, U32 + rng.randrange(-64, 64)))
        elif r < 0.8:
            n = U64 - rng.randrange(0, 64)
        else:
            n = rng.randrange(0, 2**rng.randrange(1, 64))
        t = bytes(rng.randrange(256) for _ in range(rng.choice([4, 16]))).hex()
        yield "hdrmk %s %d" % (t, n), "random"


# ---------------------------------------------------------------------- part (c): lazy box tree, forcing orders
def _d9_recorded():
    """the stream of FAILING accessor calls is run only when finding D9 is recorded for C16 in known_findings.txt
    (after a failed lazy parse the Rust value serialises to fewer bytes: a violation of the property as worded)"""
    import os
    if os.environ.get("VERIF_C16_D9") == "1":      # force the stream (used to reproduce the finding before it is recorded)
        return True
    p = os.path.join(os.path.dirname(os.path.dirname(os.path.dirname(os.path.abspath(__file__)))), "known_findings.txt")
    try:
        return any(l.startswith("known:") and "property=C16" in l and "id=D9" in l for l in open(p))
    except OSError:
        return False


def _rand_ops(rng, ntr, maxlen=6):
    n = rng.randint(0, maxlen)
    return ",".join("%d.%d" % (rng.randrange(0, ntr + 1), rng.randint(0, 4)) for _ in range(n)) or "-"


def _lazy_valid_payloads(rng, n):
    import mp4gen as G
    udta = G.box(b"udta", b"hello")
    uu = G.box(b"uuid", b"pay", uuid=bytes(range(16)))
    out = [G.trak(G.stco([1, 2])), G.trak(G.co64([2**40])) + G.trak(G.stco([])),
           udta + G.trak(G.stco([7]), extra_stbl=(udta, uu), extra_minf=(uu,), extra_mdia=(udta, udta), extra_trak=(uu, udta),
                         forms=("64", "32", "64", "32")) + uu,
           G.trak(G.stco([5])) + G.trak(G.co64([6]), forms=("32", "32", "32", "eof")),
           G.trak(G.stco([5])) + G.trak(G.co64([6]), forms=("eof", "eof", "eof", "eof"))]
    for _ in range(n):
        out.append(G.rand_moov(rng, 50))
    return out


def gen_lazy(run):
    import mp4gen as G
    rng = run.rng
    quick = run.tier == "quick"
    # every single call and every ordered pair of calls on a two-trak tree with siblings (exhaustive small domain)
    udta = G.box(b"udta", b"x")
    two = udta + G.trak(G.stco([1, 2**31]), extra_minf=(udta,), extra_trak=(udta,)) + G.trak(G.co64([2**63]), forms=("32", "64", "32", "32")) + udta
    calls = ["%d.%d" % (i, k) for i in range(3) for k in range(5)]
    yield "lazy %s -" % two.hex(), "lazy-exhaustive"
    for a in calls:
        yield "lazy %s %s" % (two.hex(), a), "lazy-exhaustive"
        for b in calls:
            yield "lazy %s %s,%s" % (two.hex(), a, b), "lazy-exhaustive"
    # structure-aware random trees x random call sequences (all calls succeed: the trees are valid)
    pls = _lazy_valid_payloads(rng, 60 if quick else 3000)
    for pl in pls:
        ntr = pl.count(b"trak")
        for _ in range(4 if quick else 6):
            yield "lazy %s %s" % (pl.hex(), _rand_ops(rng, ntr)), "lazy-valid"
    # trees that MoovBox::parse itself refuses (no successful parse: nothing to serialise)
    for bad in (b"", udta, two[:-3], G.box(b"trak", b"")[:7], b"\0\0\0\7trak"):
        yield "lazy %s -" % (bad.hex() or "-"), "lazy-parse-error"
    if _d9_recorded():
        # malformed subtrees: some accessor call fails (finding D9 shows after the failure)
        import mp4props as P
        for pl in pls[: (40 if quick else 1500)]:
            m = P.mutate_tree(rng, pl)
            ntr = max(1, m.count(b"trak"))
            for _ in range(3):
                yield "lazy %s %s" % (m.hex() or "-", _rand_ops(rng, ntr)), "lazy-failing-calls"
        tr = G.box(b"trak", G.box(b"mdia", G.box(b"minf", G.box(b"stbl", G.box(b"stco", b"\0\0\0\0\0\0\0\2\0\0\0\1")))))
        yield "lazy %s 0.4" % tr.hex(), "lazy-failing-calls"
        yield from _failing_grid()


def _failing_grid():
    """every way a lazy parse can fail, at every depth of the accessor chain, with complete siblings before the failing child
    (they are consumed and dropped with the Vec) and after a first, healthy trak whose calls succeed: what the failing parser has
    consumed of the child's BytesMut is compared with Mp4/BoxFail.v byte for byte (put= / elen= after the failed call)"""
    import mp4gen as G
    be32 = lambda n: n.to_bytes(4, "big")
    be64 = lambda n: n.to_bytes(8, "big")
    udta = G.box(b"udta", b"hi")
    uu = G.box(b"uuid", b"p", uuid=bytes(range(16)))
    # ways the children of a container can be malformed (appended after `pre` healthy siblings)
    bad_children = [
        ("hdr1", b"\0"), ("hdr3", b"\0\0\0"), ("hdr4", b"\0\0\0\x10"), ("hdr7", b"\0\0\0\x10fre"),
        ("ext-trunc", be32(1) + b"free" + b"\0\0\0"), ("ext-trunc15", be32(1) + b"free" + b"\0" * 7),
        ("uuid-trunc", be32(30) + b"uuid" + bytes(9)), ("uuid-ext-trunc", be32(1) + b"uuid" + be64(40) + bytes(15)),
        ("size-below-header", be32(7) + b"free" + b"abcdef"), ("size-2", be32(2) + b"free"),
        ("ext-size-below-header", be32(1) + b"free" + be64(15) + b"xyz"), ("uuid-size-below-header", be32(23) + b"uuid" + bytes(16) + b"q"),
        ("payload-too-long", be32(100) + b"free" + b"abc"), ("payload-one-short", be32(12) + b"free" + b"abc"),
        ("ext-payload-too-long", be32(1) + b"free" + be64(2**40) + b"abcd"),
    ]
    # ways a table payload can be malformed
    def tables(typ, w):
        ent = (be32 if w == 4 else be64)
        return [
            ("empty", b""), ("len1", b"\0"), ("len1-v1", b"\1"), ("len3", b"\0\0\0"), ("version1", b"\1\0\0\0" + be32(0)),
            ("flags", b"\0\0\0\1" + be32(1) + ent(5)), ("flags-hi", b"\0\x80\0\0" + be32(0)), ("no-count", b"\0\0\0\0"),
            ("count-3-bytes", b"\0\0\0\0\0\0\1"), ("overflow", b"\0\0\0\0" + be32(2**32 // w) + b"abcdefgh"),
            ("overflow-max", b"\0\0\0\0" + be32(2**32 - 1) + b"ab"), ("short-array", b"\0\0\0\0" + be32(3) + ent(1) + ent(2)),
            ("short-by-one", b"\0\0\0\0" + be32(1) + ent(1)[:-1]), ("extra-1", b"\0\0\0\0" + be32(1) + ent(9) + b"\xee"),
            ("extra-many", b"\0\0\0\0" + be32(0) + b"trailing-bytes"), ("extra-entry", b"\0\0\0\0" + be32(2) + ent(1) + ent(2) + ent(3)),
        ]
    good = G.trak(G.stco([4, 5]), extra_trak=(udta,))
    forms = [("32", "32", "32", "32"), ("64", "32", "64", "32"), ("32", "eof", "32", "32")]

    def wrap(depth, payload_of_failing, form):
        """a trak in which the container at `depth` (0 trak, 1 mdia, 2 minf, 3 stbl) has the given (malformed) payload"""
        names = [b"trak", b"mdia", b"minf", b"stbl"]
        inner = G.box(names[depth], payload_of_failing, form=form[depth] if form[depth] != "eof" or depth == 3 else "32")
        for d in range(depth - 1, -1, -1):
            inner = G.box(names[d], (udta if d % 2 else b"") + inner, form="32")
        return inner
    for depth in range(4):
        for name, bad in bad_children:
            for pre in (b"", udta, udta + uu):
                for form in forms[:2]:
                    tr = wrap(depth, pre + bad, form)
                    for before in (b"", good):
                        ti = 1 if before else 0
                        ops = ("0.4,%d.%d" % (ti, 4)) if before else "0.4"
                        yield "lazy %s %s" % ((before + tr + udta).hex(), ops), "lazy-failing-grid"
                    if depth:                                                # one accessor short of the failure: succeeds
                        yield "lazy %s 0.%d,1.4" % ((tr + good).hex(), depth - 1), "lazy-failing-grid"
    for typ, w in ((b"stco", 4), (b"co64", 8)):
        for name, pl in tables(typ, w):
            for tform in ("32", "64", "eof"):
                stbl_kids = udta + G.box(typ, pl, form=tform) + (uu if tform != "eof" else b"")
                tr = wrap(3, stbl_kids, forms[0])
                yield "lazy %s 0.4" % tr.hex(), "lazy-failing-grid"
                yield "lazy %s 0.4,1.4" % (good + tr).hex(), "lazy-failing-grid"
                yield "lazy %s 0.3,0.4,0.4" % tr.hex(), "lazy-failing-grid"
    # layout failures: nothing is consumed
    two_mdia = G.box(b"trak", G.box(b"mdia", b"") + G.box(b"mdia", b""))
    both = wrap(3, G.stco([1]) + G.co64([2]), forms[0])
    none = wrap(3, udta, forms[0])
    two_stco = wrap(3, G.stco([1]) + G.stco([2]), forms[0])
    for tr in (two_mdia, both, none, two_stco, G.box(b"trak", udta)):
        for k in range(5):
            yield "lazy %s 0.%d" % (tr.hex(), k), "lazy-failing-grid"
            yield "lazy %s 0.4,1.%d" % ((good + tr).hex(), k), "lazy-failing-grid"


def gen_lazyedit(run):
    """caller edits that change a payload length: the table of one trak is replaced by m entries; header forms (32-bit, 64-bit,
    until-end, uuid siblings) at every level of the chain so that re-derived headers change form"""
    import itertools
    import mp4gen as G
    rng = run.rng
    quick = run.tier == "quick"
    udta = G.box(b"udta", b"x")
    forms = list(itertools.product(("32", "64"), repeat=4)) + [("32", "32", "32", "eof"), ("eof", "64", "32", "64"), ("64", "eof", "64", "32")]
    for fm in forms:
        for tab in (G.stco([1, 2, 3], form="32"), G.stco([1, 2, 3], form="64"), G.co64([5], form="64"), G.co64([], form="32"), G.stco([9], form="eof")):
            pl = udta + G.trak(tab, extra_stbl=(udta,), forms=fm) + G.trak(G.stco([4]))
            for m in ((0, 1, 3, 4) if quick else (0, 1, 2, 3, 4, 7)):
                for ops in ("-", "0.4", "0.2,1.4"):
                    yield "lazyedit %s %s 0 %d" % (pl.hex(), ops, m), "lazyedit-forms"
    for pl in _lazy_valid_payloads(rng, 40 if quick else 2000):
        ntr = max(1, pl.count(b"trak"))
        for _ in range(3):
            yield "lazyedit %s %s %d %d" % (pl.hex(), _rand_ops(rng, ntr, 3), rng.randrange(0, ntr + 1), rng.choice([0, 1, 2, 5, 33])), "lazyedit-random"


def gen_ftypbox(run):
    """one ftyp box (the other typed top-level box besides moov), every header form, payload lengths 0..40 incl. every residue modulo 4
    (the brand array keeps a trailing partial brand), unparsed and lazily parsed before it is written back"""
    import mp4gen as G
    rng = run.rng
    quick = run.tier == "quick"
    for n in list(range(0, 24)) + [31, 32, 33, 39, 40, 1023, 1024, 1025]:
        pl = bytes((37 * i + 5) % 256 for i in range(n))
        for form in ("32", "64", "eof"):
            for force in (0, 1):
                yield "ftypbox %s %d" % (G.box(b"ftyp", pl, form=form).hex(), force), "ftypbox"
    for _ in range(20 if quick else 1000):
        n = rng.randint(0, 60)
        b = G.box(b"ftyp", bytes(rng.randrange(256) for _ in range(n)), form=rng.choice(["32", "64", "eof"])) + bytes(rng.randrange(256) for _ in range(rng.choice([0, 0, 3, 8])))
        yield "ftypbox %s %d" % (b.hex(), rng.randint(0, 1)), "ftypbox"


GENERATORS = [gen_hdrparse, gen_hdrmk, gen_lazy, gen_lazyedit, gen_ftypbox]


def gen(run):
    for g in GENERATORS:
        for c in g(run):
            yield c


# ---------------------------------------------------------------------- comparison / classification
def _strip_state(out):
    """observation of a `lazy` case without the serialised state (compared only when every call succeeded)"""
    return " ".join(t for t in out.split() if not t.startswith(("put=", "elen=")))


def same(line, impl, model):
    # after a FAILED accessor call too: Mp4/BoxFail.v models the state the failed call leaves behind (what the failing parser had
    # consumed of the child's BytesMut), so the bytes written afterwards and encoded_len are compared exactly
    return impl == model


def classify(line, impl):
    kind = line.split()[0]
    if not impl:
        return kind + ":missing"
    t = impl.split()
    if kind == "ftypbox":
        return "ftypbox:" + (" ".join(t[:4]) if t[0] != "ok" else "ok-forced" if line.split()[2] == "1" else "ok-raw")
    if kind == "lazyedit":
        if t[0] != "ok":
            return "lazyedit:" + " ".join(t[:4])
        n = len(impl.split("put=")[1].split()[0]) // 2
        return "lazyedit:ok-" + ("grown" if n > len(line.split()[1]) // 2 else "shrunk-or-same")
    if kind == "lazy":
        return "lazy:" + (" ".join(t[:3]) if t[0] != "ok" else "ok-%dcalls" % (0 if line.split()[2] == "-" else len(line.split()[2].split(","))))
    if t[0] == "ok":
        f = _fields(impl)
        return "%s:ok-%s%s" % (kind, f.get("s", "?").split(":")[0], "-uuid" if len(f.get("t", "")) == 32 else "")
    return kind + ":" + " ".join(t[:3])


def nontrivial(line, impl):
    t = line.split()
    if t[0] == "hdrparse":
        b = bytes.fromhex(t[1]) if t[1] != "-" else b""
        if impl.startswith("ok"):
            f = _fields(impl)
            return f["s"].startswith(("eof", "ext")) or len(f["t"]) == 32
        return len(b) >= 8
    if t[0] == "hdrmk":
        n = int(t[2])
        short = 24 if len(t[1]) == 32 else 8
        return (not impl.startswith("ok")) or abs(n + short - U32) <= 48 or n >= U64 - 48
    if t[0] == "lazy":
        return t[2] != "-" and len(t[1]) >= 2 * 40        # at least one accessor call on a tree of 40+ bytes
    return True


# ---------------------------------------------------------------------- the specification side
def oracle_hdrparse(line, impl):
    t = line.split()
    b = bytes.fromhex(t[1]) if t[1] != "-" else b""
    want = spec_decode(b)
    if impl == "panic" or impl == "missing" or impl == "":
        return False, "no result (%s); a header parse must return Ok or Err" % (impl or "missing")
    if want is None:
        ok = impl.startswith("err parse")
        return ok, "bytes end inside the header: expected an error, got %s" % impl[:60]
    typ, s, used = want
    if not impl.startswith("ok "):
        return False, "a complete %d-byte header is present (type %s, %s) but the result is %s" % (used, typ.hex(), s, impl[:60])
    f = _fields(impl)
    probs = []
    if f.get("t") != typ.hex():
        probs.append("type %s, expected %s" % (f.get("t"), typ.hex()))
    if _size(f.get("s", "eof")) != s:
        probs.append("size %s, expected %s" % (f.get("s"), s))
    if int(f.get("rem", -1)) != len(b) - used:
        probs.append("remaining %s, expected %d" % (f.get("rem"), len(b) - used))
    if f.get("put") != b[:used].hex():
        probs.append("re-serialisation %s differs from the consumed bytes %s" % (f.get("put"), b[:used].hex()))
    if int(f.get("elen", -1)) * 2 != len(f.get("put", "")):
        probs.append("encoded_len %s but %d bytes written" % (f.get("elen"), len(f.get("put", "")) // 2))
    if f.get("re") != "ok":
        probs.append("parse of the serialisation: %s" % f.get("re"))
    if s[0] == "eof":
        wd = "none"
    else:
        wd = "some:%d" % (s[1] - used) if s[1] >= used else "err:InvalidInput"
    if f.get("data") != wd:
        probs.append("box_data_size %s, expected %s" % (f.get("data"), wd))
    return (not probs), "; ".join(probs) or "ok"


def oracle_hdrmk(line, impl):
    t = line.split()
    typ = bytes.fromhex(t[1])
    n = int(t[2])
    short = 24 if len(typ) == 16 else 8
    long_ = short + 8
    if impl in ("panic", "missing", ""):
        return False, "no result (%s)" % (impl or "missing")
    if n + long_ > U64:
        ok = impl.startswith("err parse")
        return ok, "payload %d + %d-byte header exceeds u64: expected an error, got %s" % (n, long_, impl[:60])
    if not impl.startswith("ok "):
        return False, "payload %d fits (header %d/%d) but the result is %s" % (n, short, long_, impl[:60])
    f = _fields(impl)
    ext = n + short > U32
    s = ("ext", n + long_) if ext else ("size", n + short)
    hl = long_ if ext else short
    probs = []
    if f.get("t") != typ.hex():
        probs.append("type %s, expected %s" % (f.get("t"), typ.hex()))
    if _size(f.get("s", "eof")) != s:
        probs.append("declared %s, expected %s (header %d + payload %d; 64-bit form iff payload + %d > 2^32-1)" % (f.get("s"), s, hl, n, short))
    put = f.get("put", "")
    if put != spec_encode(typ, s).hex():
        probs.append("serialisation %s, expected %s" % (put, spec_encode(typ, s).hex()))
    if int(f.get("elen", -1)) * 2 != len(put):
        probs.append("encoded_len %s but %d bytes written" % (f.get("elen"), len(put) // 2))
    if len(put) >= 8:
        sf = int(put[:8], 16)
        if (not ext and sf in (0, 1)) or (ext and sf != 1):
            probs.append("32-bit size field %d" % sf)
    if f.get("data") != "some:%d" % n:
        probs.append("box_data_size %s, expected some:%d" % (f.get("data"), n))
    if typ == UUID4:
        pass        # FourCC `uuid` is outside the quantifier: the serialisation reads back as a uuid-typed box
    elif f.get("re") != "ok":
        probs.append("parse of the serialisation: %s" % f.get("re"))
    if n <= U32 and f.get("u32") != "same":
        probs.append("with_u32_data_size differs from with_data_size")
    return (not probs), "; ".join(probs) or "ok"


def oracle_lazy(line, impl):
    """C16 (c) as worded: whatever was lazily parsed in between, serialising reproduces the original bytes and writes
    exactly encoded_len bytes.  Independent of the model: the expected serialisation is the input payload itself."""
    t = line.split()
    payload = bytes.fromhex(t[1]) if t[1] != "-" else b""
    if impl in ("panic", "missing", ""):
        return False, "no result (%s)" % (impl or "missing")
    if "step=parse" in impl:
        return impl.startswith("err parse"), "MoovBox::parse failed: nothing to serialise"
    f = {}
    for tok in impl.split():
        k, _, v = tok.partition("=")
        if _:
            f[k] = v
    put = bytes.fromhex(f["put"]) if f.get("put", "-") != "-" else b""
    probs = []
    if int(f.get("elen", -1)) != len(put):
        probs.append("encoded_len %s but %d bytes written" % (f.get("elen"), len(put)))
    if put != payload:
        what = "after %s" % ("successful accessor calls" if impl.startswith("ok ") else "a failed accessor call (%s)" % " ".join(impl.split()[:4]))
        probs.append("serialisation (%d bytes) differs from the parsed bytes (%d bytes) %s" % (len(put), len(payload), what))
    return (not probs), "; ".join(probs) or "ok"


def known_class(line, impl):
    """D9: an accessor that returned Err has already consumed part of the child's bytes; put_buf then writes a shortened box"""
    if line.startswith("lazy ") and impl.startswith("err parse") and "step=parse" not in impl:
        # the finding is: the bytes written are fewer than the bytes parsed (the failed parse consumed some). Its signature keeps
        # encoded_len EQUAL to what is written; a length that disagrees with the bytes written is another violation, in the same histories
        f = dict(tok.split("=", 1) for tok in impl.split() if "=" in tok)
        put = f.get("put", "-")
        n = 0 if put == "-" else len(put) // 2
        if f.get("elen") == str(n):
            return "D9"
    return None


def oracle_lazyedit(line, impl):
    """C16 as worded, after a caller edit: serialising writes exactly encoded_len bytes, and what was written is a sequence of whole
    boxes (every declared size accounts for the bytes that follow: walked here independently of the model)"""
    if impl in ("panic", "missing", ""):
        return False, "no result (%s)" % (impl or "missing")
    if not impl.startswith("ok "):
        return impl.startswith("err parse"), "a call failed before the edit: nothing to judge (%s)" % impl
    f = dict(tok.split("=", 1) for tok in impl.split()[1:])
    put = bytes.fromhex(f["put"]) if f.get("put", "-") != "-" else b""
    probs = []
    if int(f.get("elen", -1)) != len(put):
        probs.append("encoded_len %s but %d bytes written" % (f.get("elen"), len(put)))

    def walk(b, depth):
        off = 0
        while off < len(b):
            if len(b) - off < 8:
                return "stray bytes at depth %d" % depth
            size, typ, hl = int.from_bytes(b[off:off + 4], "big"), b[off + 4:off + 8], 8
            if size == 1:
                if len(b) - off < 16:
                    return "truncated 64-bit size"
                size, hl = int.from_bytes(b[off + 8:off + 16], "big"), 16
            elif size == 0:
                size = len(b) - off
            if typ == b"uuid":
                hl += 16
            if size < hl or off + size > len(b):
                return "box %r at depth %d declares %d bytes, %d present" % (typ, depth, size, len(b) - off)
            if typ in (b"trak", b"mdia", b"minf", b"stbl"):
                r = walk(b[off + hl:off + size], depth + 1)
                if r:
                    return r
            off += size
        return None
    w = walk(put, 0)
    if w:
        probs.append("the serialisation is not a sequence of whole boxes: " + w)
    return (not probs), "; ".join(probs) or "ok"


def oracle_ftypbox(line, impl):
    """writing a parsed box reproduces the bytes of that box and writes exactly encoded_len bytes, lazily parsed or not"""
    if impl in ("panic", "missing", ""):
        return False, "no result (%s)" % (impl or "missing")
    if not impl.startswith("ok "):
        return impl.startswith("err parse"), "not parsed: nothing to judge (%s)" % impl
    f = dict(tok.split("=", 1) for tok in impl.split()[1:])
    put = bytes.fromhex(f["put"]) if f.get("put", "-") != "-" else b""
    data = bytes.fromhex(line.split()[1])
    box_bytes = data[:len(data) - int(f.get("rest", 0))]
    probs = []
    if int(f.get("elen", -1)) != len(put):
        probs.append("encoded_len %s but %d bytes written" % (f.get("elen"), len(put)))
    if put != box_bytes:
        probs.append("the bytes written differ from the bytes of the parsed box")
    return (not probs), "; ".join(probs) or "ok"


ORACLES = {"hdrparse": oracle_hdrparse, "hdrmk": oracle_hdrmk, "lazy": oracle_lazy, "lazyedit": oracle_lazyedit, "ftypbox": oracle_ftypbox}


def oracle(run, pairs):
    out = []
    for line, impl in pairs:
        f = ORACLES.get(line.split()[0])
        out.append(f(line, impl) if f else (True, "no oracle for this kind"))
    return out


# ---------------------------------------------------------------------- extended search
def search_hdr(run, disagreements):
    rng = run.rng
    for t in ["66726565", "00" * 16, "75756964", "ab" * 16, "61626364"]:
        for n in list(range(0, 80)) + list(range(U32 - 80, U32 + 80)) + list(range(U64 - 80, U64 + 1)):
            yield "hdrmk %s %d" % (t, n), "search"
    for sz in list(range(0, 40)) + [U32, U32 - 1, 2**31, 2**24, 2**16, 256, 255]:
        for t in (b"free", b"uuid", b"abcd"):
            for lg in (0, 1, 2, 15, 16, 17, 31, 32, 33, 2**32 - 1, 2**32, 2**63, U64):
                b = sz.to_bytes(4, "big") + t + (lg.to_bytes(8, "big") if sz == 1 else b"") + bytes(range(40, 60))
                for k in range(0, len(b) + 1):
                    yield "hdrparse " + _hx(b[:k]), "search"
    for line, _, _ in disagreements[:50]:
        t = line.split()
        if t[0] == "hdrparse" and t[1] != "-":
            b = bytearray.fromhex(t[1])
            for i in range(len(b)):
                for d in (1, 255, 0x80):
                    c = bytearray(b)
                    c[i] = (c[i] + d) & 255
                    yield "hdrparse " + bytes(c).hex(), "search"
            for k in range(len(b)):
                yield "hdrparse " + _hx(bytes(b[:k])), "search"
        elif t[0] == "hdrmk":
            n = int(t[2])
            for d in range(-40, 41):
                if 0 <= n + d <= U64:
                    yield "hdrmk %s %d" % (t[1], n + d), "search"
    for _ in range(20000):
        ln = rng.randrange(8, 49)
        b = bytearray(rng.randrange(256) for _ in range(ln))
        b[0:3] = b"\0\0\0"
        b[3] = rng.choice([0, 1, 2, 8, 9, 16, 24, 32])
        yield "hdrparse " + bytes(b).hex(), "search"


def search_lazy(run, disagreements):
    rng = run.rng
    for pl in _lazy_valid_payloads(rng, 1500):
        ntr = pl.count(b"trak")
        for _ in range(4):
            yield "lazy %s %s" % (pl.hex(), _rand_ops(rng, ntr, 8)), "search"
    for line, _, _ in disagreements[:50]:
        t = line.split()
        if t[0] == "lazy" and t[2] != "-":
            ops = t[2].split(",")
            for i in range(len(ops)):
                yield "lazy %s %s" % (t[1], ",".join(ops[:i] + ops[i + 1:]) or "-"), "search"
                yield "lazy %s %s" % (t[1], ",".join(ops[:i + 1])), "search"


SEARCHERS = [search_hdr, search_lazy]


def search(run, disagreements):
    for s in SEARCHERS:
        for c in s(run, disagreements):
            yield c


# ---------------------------------------------------------------------- in-Coq cross-check of the extraction
def _coq_bytes(b):
    return "[" + "; ".join("x%02x" % x for x in b) + "]"


def _coq_type(th):
    b = bytes.fromhex(th)
    return ("Uuid " if len(b) == 16 else "FourCC ") + _coq_bytes(b)


def _coq_size(sv):
    k, n = _size(sv)
    return {"eof": "UntilEof", "size": "Size %s" % n, "ext": "Ext %s" % n}[k]


def coq_bool_hdr(line, model_out):
    t = line.split()
    if t[0] == "hdrparse":
        b = bytes.fromhex(t[1]) if t[1] != "-" else b""
        if len(b) > 40:
            return None
        if not model_out.startswith("ok "):
            return "match hdr_read %s with None => true | Some _ => false end" % _coq_bytes(b)
        f = _fields(model_out)
        used = len(b) - int(f["rem"])
        return ("match hdr_read %s with Some (h, r) => box_type_eqb (htype h) (%s) && "
                "(if list_eq_dec Byte.byte_eq_dec r %s then true else false) && "
                "match hsize h, %s with UntilEof, UntilEof => true | Size a, Size b => a =? b | Ext a, Ext b => a =? b | _, _ => false end && "
                "(if list_eq_dec Byte.byte_eq_dec (hdr_put h) %s then true else false) | None => false end"
                % (_coq_bytes(b), _coq_type(f["t"]), _coq_bytes(b[used:]), _coq_size(f["s"]), _coq_bytes(bytes.fromhex(f["put"]))))
    if t[0] == "hdrmk":
        ty = _coq_type(t[1])
        if not model_out.startswith("ok "):
            return "match with_data_size (%s) %s with EParse InvalidInput => true | _ => false end" % (ty, t[2])
        f = _fields(model_out)
        return ("match with_data_size (%s) %s with Ok h => "
                "match hsize h, %s with Size a, Size b => a =? b | Ext a, Ext b => a =? b | _, _ => false end && "
                "(if list_eq_dec Byte.byte_eq_dec (hdr_put h) %s then true else false) | _ => false end"
                % (ty, t[2], _coq_size(f["s"]), _coq_bytes(bytes.fromhex(f["put"]))))
    return None


def coq_bool_lazy(line, model_out):
    t = line.split()
    b = bytes.fromhex(t[1]) if t[1] != "-" else b""
    if len(b) > 300:
        return None
    ops = "[" + "; ".join("(%s, %s)" % tuple("%s%%nat" % x for x in o.split(".")) for o in (t[2].split(",") if t[2] != "-" else [])) + "]"
    if model_out.startswith("err parse") and "step=parse" not in model_out and "put=" in model_out:
        # a failed call: the state it leaves behind (Mp4/BoxFail.v) serialised with the calculated headers (Mp4/BoxEdit.v), evaluated inside Coq
        f = dict(tok.split("=", 1) for tok in model_out.split() if "=" in tok)
        if f.get("put") in (None, "?"):
            return None
        put = bytes.fromhex(f["put"]) if f["put"] != "-" else b""
        return ("match parse_moov %s with Ok kids => let r := run_ops_st %s 0%%nat kids in "
                "match snd r, puts_calc (fst r), lens_calc (fst r) with "
                "| Some (i, _), Ok bs, Ok n => (Nat.eqb i %s%%nat) && (if list_eq_dec Byte.byte_eq_dec bs %s then true else false) && (n =? %s) "
                "| _, _, _ => false end | _ => false end"
                % (_coq_bytes(b), ops, f["step"], _coq_bytes(put), f["elen"]))
    if not model_out.startswith("ok "):
        return None
    f = _fields(model_out)
    put = bytes.fromhex(f["put"]) if f["put"] != "-" else b""
    return ("match parse_moov %s with Ok kids => let r := run_ops %s 0%%nat kids in "
            "match snd r with None => (if list_eq_dec Byte.byte_eq_dec (put_nodes (fst r)) %s then true else false) && "
            "(nodes_encoded_len (fst r) =? %s) | Some _ => false end | _ => false end"
            % (_coq_bytes(b), ops, _coq_bytes(put), f["elen"]))


COQ_BOOLS = {"hdrparse": coq_bool_hdr, "hdrmk": coq_bool_hdr, "lazy": coq_bool_lazy}


def coq_bool(line, model_out):
    f = COQ_BOOLS.get(line.split()[0])
    return f(line, model_out) if f else None


LEVEL_TEXT = ("Parts (a),(b): theorems C16_header_roundtrip (both directions, any trailing bytes, all header values / all byte strings) and "
              "C16_header_constructors (all box types, all u64 payload sizes) in Coq about the executable model of mp4san/src/parse/header.rs; "
              "model tied to the code by a differential check (every truncation of a size-field x type x largesize lattice, an exhaustive low-size "
              "family, seeded random strings; constructor grid around u32::MAX and u64::MAX for both type forms). A round-trip law over all header "
              "values and all byte strings is what a proof decides; the unit tests exercise three headers. Part (c): for every byte string parsed "
              "by Boxes::parse (model parse_boxes) and EVERY sequence of successful forcings (inductive relation `forces`: lazy parse of a "
              "container's children, of an stco/co64 table, at any depth, in any order) put gives back the parsed bytes and its length is "
              "encoded_len (C16_lazy_roundtrip, C16_encoded_len_agrees); the accessor chain the sanitizer runs is such a sequence "
              "(C16_accessors_are_forcings), and so is every call sequence of the `lazy` correspondence batch (C16_lazy_ops_roundtrip), which drives "
              "the real MoovBox / TrakBox / MdiaBox / MinfBox / StblBox accessors in generated orders and compares put_buf and encoded_len with "
              "the extracted model. Caller edits that change a payload length: Mp4/BoxEdit.v models Mp4Box::calculated_header (parsed header kept while the "
              "payload length is the declared one, otherwise a fresh shortest-form header; parents sum their children's encoded_len); for EVERY tree "
              "the bytes written are encoded_len many (C16_edit_len_agrees), the no-edit case is the plain model (C16_calc_is_plain), and the "
              "`lazyedit` batch compares the real put_buf / encoded_len after a table replacement with the extracted model. "
              "Histories containing a FAILED accessor call are outside the theorems (finding D9, see notes).")
LEVEL_NOTE = ("Trusted: Coq kernel; the hand-written header model (compared with the implementation on every run); extraction and OCaml driver; "
              "the Rust harness; the Python reading of the ISO box-header layout used as oracle. No axioms. FourCC `uuid` as a box type "
              "(BoxType::UUID) is outside the quantifier: it serialises to bytes that read back as a uuid-typed box.")
TECHNIQUE = "Coq proof over a hand-written model + differential check of extracted model vs Rust + independent Python oracle"
DESIGN_REF = "DESIGN.md section 7 (C16 a,b,c)"
