"""C10 - work and memory are bounded by metadata size; media is never inspected (MP4 half; the WebP half is pending)."""
import random
import mp4props as P
from mp4gen import *

ID = "C10"
AREA = "mp4f"
AREAS = ["mp4f", "webp", "huff"]
COQ_TARGETS = ["theories/Props/C10.vo", "theories/Props/C10w.vo", "theories/Mp4/SanB.vo"]
REQUIRES = ["From Coq Require Import List NArith ZArith Bool.", "From Coq.Strings Require Import Byte.",
            "From MS Require Import Base.Bytes Base.Outcome Base.Prog Base.ProgSpec Base.BufLevel Mp4.Header Mp4.Box Mp4.San Mp4.SanB "
            "Mp4.Spec Mp4.TraceSpec Props.C10.",
            "Import ListNotations.", "Open Scope N_scope."]
COQCHK = ["MS.Props.C10", "MS.Props.C10w"]
THEOREMS = [
    ("C10_noninterference_generic", """forall (A : Type) (p : prog A) (i1 i2 : input) (lenient : bool) (max_seek pos : N),
      ilen i1 = ilen i2 ->
      agree_on i1 i2 (trace_of (cursor i1 lenient max_seek) (fun s => s) p pos) ->
      run (cursor i2 lenient max_seek) p pos = run (cursor i1 lenient max_seek) p pos"""),
    ("C10_reads_confined", """forall (cfg : config) (fuel : nat) (inp : input) (lenient : bool) (max_seek : N),
      let B := N.max (max_metadata_size cfg) 1024 in
      let F := 2 * (max_metadata_size cfg + 1024 + 64) in
      all_steps (mp4_mstep B F) (cursor inp lenient max_seek) (read_confined B) (sanitize_prog cfg fuel) 0 MHead"""),
    ("C10_mp4_alloc_bounded", """forall (cfg : config) (fuel : nat) (inp : input) (lenient : bool) (max_seek : N),
      let B := N.max (max_metadata_size cfg) 1024 in
      let F := 2 * (max_metadata_size cfg + 1024 + 64) in
      all_steps (mp4_mstep B F) (cursor inp lenient max_seek) (alloc_bounded B F) (sanitize_prog cfg fuel) 0 MHead"""),
    ("C10_media_noninterference", """forall (cfg : config) (fuel : nat) (i1 i2 : input) (lenient : bool) (max_seek : N),
      ilen i1 = ilen i2 ->
      (forall j, iget i1 j <> iget i2 j ->
         exists n q, In (OSkip n, q) (trace_of (cursor i1 lenient max_seek) (fun s => s) (sanitize_prog cfg fuel) 0) /\\
                     q <= j < q + covered i1 lenient max_seek (OSkip n) q) ->
      mp4_sanitize cfg lenient max_seek i2 fuel = mp4_sanitize cfg lenient max_seek i1 fuel"""),
    ("C10_media_noninterference_tiled", """forall (cfg : config) (fuel : nat) (i1 i2 : input) (lenient : bool) (max_seek : N) (bs : list tbox),
      ilen i1 <= max_seek -> max_seek <= 18446744073709551615 ->
      (forall t, cumulative_mdat_box_size cfg = Some t -> t <= 4294967295) ->
      (N.to_nat (ilen i1 / 8) < fuel)%nat ->
      ilen i1 = ilen i2 ->
      tiling (cumulative_mdat_box_size cfg) i1 = Some bs ->
      (forall b j, In b bs -> tb_off b <= j < tb_off b + tb_hlen b -> iget i1 j = iget i2 j) ->
      (forall b j, In b bs -> is FTYP b || is MOOV b = true -> tb_off b + tb_hlen b <= j < tb_off b + tb_size b ->
                   iget i1 j = iget i2 j) ->
      mp4_sanitize cfg lenient max_seek i2 fuel = mp4_sanitize cfg lenient max_seek i1 fuel"""),
    ("C10_metadata_size_bounded", """forall (cfg : config) (fuel : nat) (inp : input) (lenient : bool) (max_seek : N)
                                           (md : bytes) (z : N) (sp : span),
      mp4_sanitize cfg lenient max_seek inp fuel = Ok {| o_metadata := Some (md, z); o_data := sp |} ->
      N.of_nat (length md) + z <= 2 * (max_metadata_size cfg + 1024 + 64)"""),
]
HEAP_A, HEAP_B = 16, 16384     # sampled bound: peak heap <= HEAP_A * max(max_metadata_size, 1024) + HEAP_B
TRUSTED = [
    "Coq 8.16.1 kernel (coqc; coqchk in the thorough tier); vm_compute only in Examples; no native_compute",
    "axioms: none (Print Assumptions = Closed under the global context for every theorem)",
    "hand-written Gallina model of mp4san::sanitize_async_with_config (Mp4/{Header,Box,San}.v) with an allocation event OAlloc n where the "
    "Rust allocates (BytesMut::zeroed(box_data_size) after the limit check; Vec::with_capacity(metadata_len + pad_size)); allocations made "
    "by the parsed box tree (Vec of children), error reports and logging are NOT modelled (sampled by the counting allocator)",
    "Mp4/TraceSpec.v: the monitor of allowed operation sequences, written from the property text",
    "Base/BufLevel.v: hand-written model of futures BufReader(32) + mediasan's AsyncSkip impl issuing inner operations (modelled, not "
    "verified); tied to the real code by comparing the complete inner operation trace (operation, offset, requested, returned) on every case",
    "constants regenerated from the Rust source on every run (tools/gen_consts.py)",
    "extraction with ExtrOcamlBasic only; OCaml 4.13.1; ocaml/prelude.ml + ocaml/mp4f.ml",
    "Rust harness harness/src/mp4f.rs: metering Read+Skip wrapper around the sparse test stream; counting #[global_allocator] "
    "(peak bytes in use during the call over the amount in use just before it); rustc/cargo; the system allocator's own overhead is not counted",
    "the 60-line Python top-level box walker of the oracle (ISO 14496-12 box header syntax), cross-checked on every tiled input against "
    "the extracted Spec.tiling",
]
ASSUMPTIONS = [
    "real peak heap is SAMPLED (counting allocator over the generated cases); the model bounds the sizes the code requests for payloads",
    "stream positions and lengths are u64; usize is 64 bits",
    "sampled heap bound: peak <= %d * max(max_metadata_size, 1024) + %d bytes on every generated case outside finding D6" % (HEAP_A, HEAP_B),
]
RULE = ("meter cases: the unit-test shapes and neighbours through the strict and the seek-style sparse reader; structure-aware random rewrite "
        "layouts on sparse streams with virtual mdat/free boxes of 2^16..2^40 bytes and gaps 2^16/2^20 before the media; declared ftyp/moov "
        "sizes above and just below the limit with the payload absent (limits 4096, 2^16, 2^24, default); moov payloads made of hundreds of "
        "8-byte children (allocation amplification); size-field pathologies; truncations; moov tree mutations; config lattices. Per case: the "
        "complete inner operation trace (op, offset, requested, returned) compared with the model's Level-B trace; oracle: every inner read "
        "inside the allowed set computed from the top-level tiling, result unchanged after scrambling every media payload byte (second run), "
        "peak heap within the stated bound, |metadata| <= 2*(limit+1024+64). Four implementation-only cases (moov of 2000 / 8000 eight-byte children) "
        "sample the heap amplification of the parsed-children vector. Non-trivial = at least 40 bytes present; distinct = distinct case line. "
        "Gaps above 2^24 bytes before the media are not generated in the quick tier.")
EXHAUSTIVE = {"quick": False, "thorough": False}
XCHECK_N = 10
NOTES = ["WebP half pending: C10_webp_alloc_constant needs the webp programme model; C10_noninterference_generic and the monitor logic "
         "(Base/ProgSpec.v, Base/ProgProofs.v) are stated over any programme"]


def to_args(mp4_line):
    t = mp4_line.split()
    rd = "strict" if t[1] == "strict" else "lenient"
    return " ".join([rd] + t[2:])


def parse_args(a):
    t = a.split()
    exts = []
    if t[4] != "-":
        for e in t[4].split(","):
            o, h = e.split(":")
            exts.append((int(o), bytes.fromhex(h)))
    return {"reader": t[0], "max": int(t[1]), "cum": None if t[2] == "-" else int(t[2]), "len": int(t[3]), "exts": exts}


def d6_witness():
    f = P.F(); mv = P.simple_moov([(4, [1048600])]); md = box(b"mdat", b"abc")
    g = 2**20
    L = Layout().add(f).add(box(b"free", b"", form="64", size=g), virtual=g).add(md).add(mv)
    return to_args(case_line("lenient", 4096, None, L.total(), L.exts()))


def adversarial(rng, tier):
    f = P.F(); m1 = P.simple_moov([(4, [20, 30])]); md = box(b"mdat", b"abcdefg")
    out = []
    # declared payload sizes above the limit: rejected before anything is allocated
    for lim in (4096, 2**16, P.DEFAULT_MAX):
        for decl in (lim + 17, 2**31 + 17, 2**40, 2**63, 2**64 - 1):
            for nm in (b"moov", b"ftyp"):
                L = Layout()
                if nm == b"moov":
                    L.add(f).add(md)
                L.add(box(nm, b"", form="64", size=decl))
                out.append(case_line("lenient", lim, None, max(L.total(), 64), L.exts()))
                out.append(case_line("strict", lim, None, L.total() + 5, L.exts()))
    # declared just below the limit, payload absent (virtual zeros or truncated file): allocates the declared size, then fails
    for lim in (4096, 2**16) + ((2**24,) if tier == "thorough" else (2**20,)):
        if lim <= 2**16:
            L = Layout().add(f).add(md).add(box(b"moov", b"", form="32", size=lim + 8), virtual=lim + 8)
            out.append(case_line("strict", lim, None, L.total(), L.exts()))
        L = Layout().add(f).add(md).add(box(b"moov", b"", form="32", size=lim + 8))
        out.append(case_line("strict", lim, None, L.total(), L.exts()))
        out.append(case_line("lenient", lim, None, L.total(), L.exts()))
    # until-EOF moov on a long sparse stream: the size comes from stream_len
    for lim in (4096, P.DEFAULT_MAX):
        L = Layout().add(f).add(md).add(box(b"moov", m1[8:], form="eof"), virtual=2**33)
        out.append(case_line("lenient", lim, None, L.total(), L.exts()))
    # amplification: a moov made of many tiny children
    for nkids in (100, 500):
        kids = b"".join(box(b"abcd", b"") for _ in range(nkids))
        mv = box(b"moov", kids + m1[8:])
        for lim in (len(mv), 2**16, P.DEFAULT_MAX):
            out.append(case_dense("strict", lim, None, f + md + mv))
    tr = box(b"trak", b"".join(box(b"mdia", b"") for _ in range(300)))
    out.append(case_dense("strict", 4096, None, f + md + box(b"moov", tr)))
    # very many top-level boxes that are only skipped (heap must not grow with their number), before, between and after the media
    # (at limit 1024 the heap bound is 32 KiB, which 24 bytes per box would exceed from about 1400 boxes on; the metered model keeps
    # the whole operation trace, so a few thousand boxes is what it runs in seconds - 65537 and more boxes are in C09's stream, where
    # the plain model runs them in a fraction of a second)
    for nb in ((3000,) if tier == "quick" else (3000, 6000)):
        fill = b"".join(box(rng.choice([b"free", b"skip"]), b"") for _ in range(nb))
        mds = b"".join(box(b"mdat", b"ab") for _ in range(nb // 2))
        for lay in (f + fill + md + m1, f + m1 + md + fill, f + mds + m1):
            out.append(case_dense("strict", 1024, None, lay))
    # gaps for which the displacement does not fit an i32 (2^31 + 1 .. 2^32 - 9): refused, never padded
    for g in (2**31 + 1, 2**31 + 4096, 2**32 - 9 - 200, 3 * 2**30):
        L = Layout().add(f).add(box(b"free", b"", form="64", size=g), virtual=g).add(md).add(m1)
        for rd in ("strict", "lenient"):
            out.append(case_line(rd, 4096, None, L.total(), L.exts()))
    # multi-GiB virtual media
    for sz in (2**32 + 17, 2**35, 2**40):
        L = Layout().add(f).add(box(b"mdat", b"", form="64", size=sz), virtual=sz).add(m1)
        out.append(case_line("lenient", 4096, None, L.total(), L.exts()))
        L = Layout().add(f).add(box(b"free", b"", form="64", size=sz), virtual=sz).add(md).add(m1)    # gap too large for padding
        out.append(case_line("strict", 4096, None, L.total(), L.exts()))
    # gaps of 2^16 / 2^20 (/ 2^24 thorough) bytes before the media at several limits (the former finding D6: now displaced, not padded)
    for g in (2**16, 2**20) + ((2**24,) if tier == "thorough" else ()):
        for lim in (4096, 2**16, P.DEFAULT_MAX):
            L = Layout().add(f).add(box(b"free", b"", form="64", size=g), virtual=g).add(md).add(m1)
            out.append(case_line("lenient", lim, None, L.total(), L.exts()))
    return [to_args(l) for l in out]


def amplification():
    """implementation only (the extracted list-based model needs minutes for a moov of thousands of children): peak heap of
    a moov payload made of 8-byte children, the worst case for the parsed-children vector"""
    f = P.F(); m1 = P.simple_moov([(4, [20, 30])]); md = box(b"mdat", b"abcdefg")
    for nkids in (2000, 8000):
        mv = box(b"moov", b"".join(box(b"abcd", b"") for _ in range(nkids)) + m1[8:])
        for lim in (len(mv), 2**20):
            yield to_args(case_dense("strict", lim, None, f + md + mv))


def gen(run):
    rng = run.rng
    quick = run.tier == "quick"
    yield "meter " + d6_witness(), "corpus"
    for a in amplification():
        yield "meterx " + a, "amplification-impl-only"
    for lay in P.seed_layouts(rng):
        for rd in ("lenient", "strict"):
            yield "meter " + to_args(case_dense(rd, P.DEFAULT_MAX, None, b"".join(lay))), "seed-layouts"
    for a in adversarial(rng, run.tier):
        yield "meter " + a, "adversarial"
    for l, tag in P.rewrite_cases(rng, 250 if quick else 4000, readers=("strict", "lenient")):
        yield "meter " + to_args(l), tag
    for l, tag in P.gap_lattice(rng, readers=("strict",)):
        yield "meter " + to_args(l), tag
    for l, tag in P.pathologies(rng, readers=("strict", "cursor")):
        yield "meter " + to_args(l), tag
    for l, tag in P.tree_mutations(rng, 100 if quick else 2000):
        yield "meter " + to_args(l), tag
    for l, tag in P.config_lattice(rng):
        yield "meter " + to_args(l), tag
    for l, tag in P.toplevel_sequences(2 if quick else 4):
        yield "meter " + to_args(l), tag


def split(obs):
    p = [x.strip() for x in obs.split("|")]
    return p if len(p) == 3 else None


def same(line, impl, model):
    if line.startswith("meterx "):
        return True           # implementation only
    a, b = split(impl), split(model)
    if a is None or b is None:
        return False
    return a[0] == b[0] and a[1] == b[1] and b[2].endswith("ab=1")


def classify(line, impl):
    a = split(impl)
    if a is None:
        return impl.split()[0] if impl else "missing"
    t = a[0].split()
    if t[0] == "ok":
        return "ok-" + t[1]
    if t[0] == "err":
        return "err-" + (t[2].split(":")[0] if len(t) > 2 else t[1])
    return t[0]


def nontrivial(line, impl):
    c = parse_args(line.split(" ", 1)[1])
    return sum(len(d) for _, d in c["exts"]) >= 40


# ---------------------------------------------------------------------- specification side (Python, from the box syntax)
KEEP = (b"ftyp", b"moov")


def walk(c):
    """top-level boxes as the format defines them: (off, hlen, size, type, complete). Stops at the first box that is
    truncated, malformed or extends past the end (that one is listed with complete=False)."""
    sb = SparseBytes(c["len"], c["exts"])
    off, out = 0, []
    while off < c["len"] and len(out) < 100000:
        h = sb.get(off, 32)
        if len(h) < 8:
            out.append((off, None, None, None, False)); break
        sz = int.from_bytes(h[:4], "big"); ty = h[4:8]; hl = 8
        if sz == 1:
            if len(h) < 16:
                out.append((off, None, None, ty, False)); break
            sz = int.from_bytes(h[8:16], "big"); hl = 16
        elif sz == 0:
            sz = c["cum"] if (ty == b"mdat" and c["cum"] is not None) else c["len"] - off
        if ty == b"uuid":
            hl += 16
            if len(h) < hl:
                out.append((off, None, None, ty, False)); break
        if sz < hl:
            out.append((off, hl, hl, ty, False)); break
        if off + sz > c["len"]:
            out.append((off, hl, sz, ty, False)); break
        out.append((off, hl, sz, ty, True))
        off += sz
    return out


def allowed_intervals(boxes):
    """header + 32-byte look-ahead for every top-level box; the whole box + look-ahead for ftyp and moov.
    The look-ahead is the BufReader's: a refill of 32 bytes starts where the buffer ran empty, at the latest on the last byte of
    the header (or of a kept box), so nothing at or beyond start + header length + 31 (kept box: start + size + 31) is read.
    The 32 is the property's number, not the regenerated constant: a larger buffer in the code is a violation."""
    iv = []
    for off, hl, sz, ty, _ in boxes:
        if hl is None:
            iv.append((off, off + 63))
        elif ty in KEEP:
            iv.append((off, off + sz + 31))
        else:
            iv.append((off, off + hl + 31))
    return iv


def inside(a, b, iv):
    # [a, b) covered by the union of intervals (sorted by construction)
    pos = a
    for s, e in iv:
        if s <= pos < e:
            pos = e
            if pos >= b:
                return True
    return pos >= b


def scramble(c, boxes):
    """the same input with every present payload byte of every box other than ftyp/moov changed"""
    regions = [(off + hl, off + sz) for off, hl, sz, ty, _ in boxes if hl is not None and ty not in KEEP]
    exts, changed = [], False
    for eo, d in c["exts"]:
        d = bytearray(d)
        for s, e in regions:
            a, b = max(s, eo), min(e, eo + len(d))
            for i in range(a, b):
                d[i - eo] ^= 0xA5
                changed = True
        exts.append((eo, bytes(d)))
    return exts if changed else None


def reads_of(trace):
    out = []
    if trace == "-":
        return out
    for ev in trace.split(","):
        if ev.startswith("r") and "=" in ev:
            o, rest = ev[1:].split("+")
            n, r = rest.split("=")
            out.append((int(o), int(n), int(r)))
    return out


def oracle(run, pairs):
    cases = [parse_args(l.split(" ", 1)[1]) for l, _ in pairs]
    walks = [walk(c) for c in cases]
    # self-check of the walker against the extracted Spec.tiling
    tl = run.driver(["t%d tiles %s" % (i, l.split(" ", 1)[1]) for i, (l, _) in enumerate(pairs)])
    # second run on scrambled media
    sl, smap = [], {}
    for i, (c, w) in enumerate(zip(cases, walks)):
        ex = scramble(c, w)
        if ex is not None:
            smap[i] = len(sl)
            sl.append("s%d meter %s" % (len(sl), to_args(case_line(c["reader"], c["max"], c["cum"], c["len"], ex))))
    second = run.harness(sl) if sl else {}
    out, worst = [], (0.0, "")
    for i, ((line, impl), c, w) in enumerate(zip(pairs, cases, walks)):
        a = split(impl)
        if a is None:
            out.append((False, "no observation / panic: %s" % impl[:100])); continue
        res, trace, tail = a
        bad = []
        t = tl.get("t%d" % i, "")
        if t.startswith("tiling=") and not t.startswith("tiling=none"):
            want = [(o, h, sz, ty[:4].hex()) for o, h, sz, ty, ok in w if ok]
            body = t.split(" ", 1)[1] if " " in t else "-"
            got = [] if body == "-" else [(int(x.split(":")[0]), int(x.split(":")[1]), int(x.split(":")[2]), x.split(":")[3][:8])
                                          for x in body.split(",")]
            if not all(ok for *_, ok in w) or want != got:
                bad.append("oracle self-check: Python box walk %s differs from Spec.tiling %s" % (want[:4], got[:4]))
        elif t.startswith("tiling=none") and w and all(ok for *_, ok in w):
            bad.append("oracle self-check: Python box walk tiles the input, Spec.tiling does not")
        iv = allowed_intervals(w)
        for o, n, r in reads_of(trace):
            if r > 0 and not inside(o, o + r, iv):
                bad.append("inner read of %d bytes at offset %d outside header windows / ftyp / moov (allowed %s)" % (r, o, iv[:6]))
                break
        if i in smap:
            s2 = second.get("s%d" % smap[i], "missing")
            r2 = split(s2)
            if r2 is None or r2[0] != res:
                bad.append("result changed after scrambling media payload bytes: %s -> %s" % (res[:60], s2[:60]))
        kv = dict(x.split("=") for x in tail.split() if "=" in x)
        heap, mdlen = int(kv.get("heap", 0)), int(kv.get("mdlen", 0))
        lim = max(c["max"], 1024)
        d6 = mdlen > 2 * (c["max"] + 1024 + 64)
        if d6:
            bad.append("returned metadata of %d bytes exceeds 2*(max_metadata_size+1024+64) = %d" % (mdlen, 2 * (c["max"] + 1088)))
        elif heap > HEAP_A * lim + HEAP_B:
            bad.append("peak heap %d exceeds %d*max(limit,1024)+%d = %d" % (heap, HEAP_A, HEAP_B, HEAP_A * lim + HEAP_B))
        if not d6 and heap / lim > worst[0]:
            worst = (heap / lim, "%d bytes at limit %d" % (heap, c["max"]))
        out.append((not bad, "; ".join(bad)))
    note = "sampled peak heap / max(limit,1024): worst ratio %.2f (%s) over %d cases" % (worst[0], worst[1], len(pairs))
    if len(pairs) > 50 and note not in run.notes:
        run.notes.append(note)
    return out


def known_class(line, impl):
    """D6: the returned metadata ends in a padding (`free`) box larger than 2*(max_metadata_size+1088)."""
    a = split(impl)
    if a is None or not a[0].startswith("ok some "):
        return None
    md = a[0].split()[2]
    h, z = md.split("z")
    c = parse_args(line.split(" ", 1)[1])
    if h.endswith("66726565") and int(z) + 8 > 2 * (c["max"] + 1088):
        return "D6"
    return None


def search(run, disagreements):
    rng = random.Random(run.seed + 10)
    for l, tag in P.rewrite_cases(rng, 3000, readers=("strict", "lenient")):
        yield "meter " + to_args(l), "search"
    for l, tag in P.tree_mutations(rng, 1500):
        yield "meter " + to_args(l), "search"
    for l, tag in P.toplevel_sequences(4):
        yield "meter " + to_args(l), "search"
    for a in adversarial(rng, "thorough"):
        yield "meter " + a, "search"


def coq_bool(line, model_out):
    a = split(model_out)
    if a is None or not line.startswith("meter "):
        return None
    rd, mx, cum, ln, exts = line.split()[1:]
    if exts == "-" or len(exts) > 900 or int(ln) > 10**6:
        return None
    ex = []
    for e in exts.split(","):
        o, h = e.split(":")
        ex.append("(%s, [%s])" % (o, "; ".join("x%s" % h[i:i + 2] for i in range(0, len(h), 2))))
    cfg = "{| max_metadata_size := %s; cumulative_mdat_box_size := %s |}" % (mx, "None" if cum == "-" else "Some %s" % cum)
    n = 0 if a[1] == "-" else len(a[1].split(","))
    call = "mp4_sanitize_b %s %s 18446744073709551615 (input_of_exts %s [%s]) 200 None" % (cfg, "false" if rd == "strict" else "true", ln, "; ".join(ex))
    pat = {"ok": "Ok _", "err": "EParse _" if a[0].startswith("err parse") else "EIo _"}.get(a[0].split()[0])
    if pat is None:
        return None
    return "match %s with (%s, n, tr) => (n =? %d) && Nat.eqb (length tr) %d | _ => false end" % (call, pat, n, n)


LEVEL_TEXT = ("WebP half: C10_webp_container_alloc_bounded, C10_webp_tree_size_bounded (see level_note) + sampled peak heap against a derived constant. MP4 half. Theorems (Coq, every input of any size, every configuration, strict and seek-style cursor): the sanitizer programme "
              "obeys the monitor of Mp4/TraceSpec.v over every reader (per top-level box: fill_buf, stream_position, header reads of 4,4,[8],[16] "
              "bytes, optionally stream_len/stream_position, then EITHER a skip OR an allocation of n <= max(max_metadata_size,1024) bytes "
              "followed by the read of exactly those n bytes); on the ideal cursor every read is such a header read inside the 32-byte window at "
              "the loop-iteration start or such a payload read (C10_reads_confined), every allocation except the output buffer is bounded and "
              "follows the limit check (C10_mp4_alloc_bounded); a generic non-interference theorem by induction on programmes "
              "(C10_noninterference_generic) and its consequence that bytes passed over by a skip never influence the result "
              "(C10_media_noninterference) and, through the specification's tiling, that the result depends only on box headers and ftyp/moov "
              "payloads (C10_media_noninterference_tiled); the returned metadata, padding included, is at most 2*(max_metadata_size+1024+64) bytes and so is the "
              "allocation of the output buffer (C10_metadata_size_bounded; this was finding D6 - the padding box grew with the gap before the media "
              "whatever the limit - refuted first, then repaired in /repo by 3c176e3 and proved of the repaired code). Correspondence: the complete inner operation trace below the 32-byte BufReader (operation, offset, "
              "requested, returned) of the real sanitizer equals the model's Level-B trace on every generated case; oracle: reads inside the "
              "allowed set computed from the box tiling, result unchanged after scrambling media bytes, sampled peak heap and |metadata| within "
              "the stated bounds. Statements about every offset of every input of any size (multi-GiB sparse streams included) are what a proof "
              "decides; tests only sample them.")
LEVEL_NOTE = ("MP4 half - modelled and proved: the sizes the code REQUESTS for box payloads and for the "
              "output buffer, the order of operations, which bytes are read. SAMPLED, not proved: real peak heap (counting global allocator in the "
              "harness; bound peak <= %d*max(limit,1024)+%d bytes stated in the evidence; the Vec of parsed children, error reports and the "
              "allocator's own overhead are not in the model). The 32-byte look-ahead of the BufReader is in the Level-B model, which is compared "
              "with the implementation trace exactly and is proved to refine the ideal cursor for every programme (C10_level_b_refines_cursor, "
              "C10_mp4_level_b_is_model: in-memory inputs, seek bound covering the input). C10_media_noninterference is stated through the trace (bytes passed over by a skip, all inputs) and, for inputs "
              "that are a sequence of complete boxes and enough fuel, through Spec.tiling (C10_media_noninterference_tiled, using the loop "
              "lemma of Mp4/LoopProofs.v). Finding D6 (metadata not bounded by the limit) is fixed (3c176e3); its classifier stays in known_class and its former "
              "witness is the first corpus case. Observation (no violation): a moov made of 8-byte children costs about 11-12 bytes of heap per "
              "payload byte (the vector of parsed children), which is what the constant 16 in the sampled heap bound absorbs. WebP half - proved: every allocation the container code sizes by an argument (ChunkReader::read_data) is at most 16 bytes "
              "(C10_webp_container_alloc_bounded, every reader/validator/config/fuel); an accepted prefix-code tree has one leaf per used symbol, at most "
              "the alphabet size (<= 2328), and one internal node fewer (C10_webp_tree_size_bounded), which bounds the tables bitstream-io builds from it "
              "(<= 256 + leaves tables of 256 entries: one top-level table, <= 255 first-level and <= leaves-1 second-level continuation tables for codes of "
              "at most 15 bits; this arithmetic about the third-party tabulation is NOT proved). SAMPLED, not proved: webpsan's real peak heap under a "
              "counting allocator stays below WEBP_HEAP_BOUND = (tables of one prefix-code group + the code-length code) * 256 * entry size + 2 MiB "
              "(about 21 MB; measured worst about 4 MB) whatever the declared dimensions (up to 16384 x 16384), chunk sizes (up to 4 GiB, sparse) and number "
              "of prefix-code groups (up to 4096 in the corpus: groups must not be kept alive together); that the lossless validator does not materialise "
              "sub-images and keeps one group alive at a time is a property of the Rust code the pure Gallina validator (Vp8l.v) cannot exhibit. No axioms." % (HEAP_A, HEAP_B))
TECHNIQUE = ("Coq: programme logic with a monitor (state machine over operations) + invariant on the ideal cursor + generic non-interference by "
             "induction on the free-monad programme; exact inner-trace differential check against the real sanitizer under a metering reader and a "
             "counting allocator")
DESIGN_REF = "DESIGN.md section 7 (C10), section 8 (D6), 3.1, Appendix A/B"


# ---------------------------------------------------------------------- WebP half (webp area): `wmeter` lines, oracle only
import webpgen as W
from props import _c07_vp8l as G
from props import _c19_vp8l as V

_mp4 = dict(gen=gen, same=same, classify=classify, nontrivial=nontrivial, oracle=oracle, search=search, coq_bool=coq_bool,
            known_class=known_class)
ENTRY = 24                      # size_of::<ReadHuffmanTree<LE, _>>() (checked against the harness on every run: kind `sizes`)
ALPHABETS = (256 + 24 + 2048, 256, 256, 256, 40)
TABLES = sum(ALPHABETS) + 19      # one 256-entry table per leaf (C10_webp_tables_bounded): five codes of a group + the code-length code
WEBP_HEAP_BOUND = TABLES * 256 * ENTRY + 2 * 2**20
_WREQ = ["From Coq Require Import List NArith Bool.", "From Coq.Strings Require Import Byte.",
         "From MS Require Import Base.Bytes Base.Outcome Base.Prog Base.ProgSpec Webp.Container Webp.Huffman Webp.ResourceProofs Props.C10w.",
         "Open Scope N_scope."]
THEOREMS = THEOREMS + [
    ("C10_webp_container_alloc_bounded", """forall (lossless : N -> N -> bytes -> res unit) (allow : bool) (fuel : nat) (R : reader) (s : rst R),
  all_steps (amon 16) R (fun _ _ o _ => alloc_ok 16 o) (webp_prog lossless allow fuel) s tt"""),
    ("C10_webp_tree_size_bounded", """forall (cl : list N) (t : htree), new_vec cl = Ok t ->
  fleaves (ht_tree t) = length (symbols (index_from 0 cl))
  /\\ (fleaves (ht_tree t) <= length cl)%nat
  /\\ S (fnodes (ht_tree t)) = fleaves (ht_tree t)"""),
    ("C10_webp_tables_bounded", """forall (cl : list N) (t : htree), new_vec cl = Ok t ->
  total_tables (ht_tree t) = length (symbols (index_from 0 cl)) /\\ (total_tables (ht_tree t) <= length cl)%nat"""),
]
REQUIRES_FOR = {"C10_webp_container_alloc_bounded": _WREQ, "C10_webp_tree_size_bounded": _WREQ, "C10_webp_tables_bounded": _WREQ}
NOTES = [n for n in NOTES if not n.startswith("WebP half pending")] + [
    "WebP half: `wmeter` lines are judged by the oracle only (peak heap <= WEBP_HEAP_BOUND = %d bytes, no read request above 4096 bytes)" % WEBP_HEAP_BOUND]


def _is_w(line):
    return line.startswith(("wmeter ", "wmeterrep ", "tabmem "))


def area_of(line):
    return "huff" if line.startswith("tabmem ") else ("webp" if _is_w(line) else "mp4f")


def tabgen(run):
    """code-length vectors (complete, over- and under-subscribed) over the alphabets of the format: the heap a compiled read
    tree retains (implementation) against Huffman.total_tables (model of bitstream-io's tabulation)"""
    rng = run.rng
    quick = run.tier == "quick"
    for a in (2, 19, 40, 256, 280, 2328):
        for _ in range(12 if quick else 200):
            k = min(a, rng.choice([1, 2, 3, 17, 120, a]))
            syms = rng.sample(range(a), k)
            ls = V.rand_lengths(rng, k, max(15 if rng.random() < .7 else 8, (k - 1).bit_length()), rng.random() < .5) if k <= 2 ** 15 else [1]
            lens = [0] * a
            for s_, l in zip(syms, ls):
                lens[s_] = l
            if rng.random() < .1 and k > 1:
                lens[syms[0]] = max(1, lens[syms[0]] - 1)           # over-subscribed: rejected by both
            yield "tabmem " + ",".join(map(str, lens)), "webp-tables-%d" % a


def _wl(f, rd="lenient", allow=True):
    return "wmeter " + W.case_line(rd, allow, f).split(" ", 1)[1].rsplit(" ", 1)[0]


def many_groups(ngroups, two_symbol=True):
    """a valid 1x1 lossless stream whose meta prefix image names group index ngroups-1, followed by ngroups groups of five
    simple codes (each group is cheap to write, about 60 bits, but costs the reader five compiled trees)"""
    bw = V.BW()
    bw.put(0, 1)                    # no transform
    bw.put(0, 1)                    # no colour cache
    bw.put(1, 1)                    # meta prefix codes present
    bw.put(0, 3)                    # block bits 2: 1x1 entropy image
    g = ngroups - 1
    bw.put(0, 1)                    # sub-image: no colour cache
    V.write_simple_code(bw, [g & 255])          # green  = low byte of the group index
    V.write_simple_code(bw, [(g >> 8) & 255])   # red    = high byte
    V.write_simple_code(bw, [0]); V.write_simple_code(bw, [0]); V.write_simple_code(bw, [0])
    for _ in range(ngroups):                    # (single-symbol codes: the one pixel of the sub-image costs no bits)
        for _ in range(5):
            V.write_simple_code(bw, [0, 1] if two_symbol else [0])
    bw.put(0, 4)                                # the one pixel of the image: green, red, blue, alpha one bit each
    return bw.tobytes() + b"\0" * 4


def wgen(run):
    rng = run.rng
    quick = run.tier == "quick"
    for f in W.valid_files():
        yield _wl(f), "webp-valid"
    # many prefix-code groups in a tiny stream
    for n in ((2, 64, 1024, 4096) if quick else (2, 64, 1024, 4096, 16384)):
        for two in (True, False):
            body = many_groups(n, two)
            yield _wl(W.riff(W.chunk(b"VP8L", W.vp8l_payload(1, 1, body)))), "webp-many-groups"
            yield _wl(W.riff(W.chunk(b"VP8X", W.vp8x_payload(W.ALPHA, 1, 1)) + W.chunk(b"ALPH", b"\1" + body) + W.mk(b"VP8 "))), "webp-many-groups"
    # structured lossless streams: huge declared dimensions with zero-length-code fills, deep codes, many groups
    for i in range(120 if quick else 3000):
        w, h, body, facts = G.build(rng, meta=(rng.random() < 0.6), big_fill=(rng.random() < 0.3),
                                    size=((16384, 16384) if i % 10 == 0 else None))
        if w > 16384 or h > 16384:
            continue
        yield _wl(W.riff(W.chunk(b"VP8L", W.vp8l_payload(w, h, body)))), "webp-structured"
    # declared chunk sizes up to 4 GiB on sparse streams (skipped chunks, truncated lossless bodies)
    for total, tag in ((2**32 - 2, "max"), (2**31, "2g"), (2**24, "16m")):
        size = total - 8
        hdr = b"RIFF" + W.le32(size) + b"WEBP"
        for name in (b"VP8 ", b"VP8L", b"ICCP"):
            body_len = total - 12 - 8
            if name == b"ICCP":
                pre = W.chunk(b"VP8X", W.vp8x_payload(W.ICCP, 16384, 16384))
                ch = pre + name + W.le32(body_len - len(pre))
            elif name == b"VP8L":
                ch = name + W.le32(body_len) + W.vp8l_payload(16384, 16384, bytes(rng.randrange(256) for _ in range(64)))
            else:
                ch = name + W.le32(body_len)
            yield "wmeter lenient 1 %d 0:%s" % (total, (hdr + ch).hex()), "webp-huge-chunk-" + tag
            yield "wmeter strict 1 %d 0:%s" % (total, (hdr + ch).hex()), "webp-huge-chunk-" + tag
    # files made of very many chunks: the peak heap is a constant, so it cannot grow with the number of animation frames (lossy and
    # lossless), of unknown chunks after the image or inside a frame (built inside the harness: prefix ++ unit x count ++ suffix).
    # The counts are chosen so that a growth of a few dozen bytes per chunk already exceeds the constant in the thorough tier.
    for count in ((70000,) if quick else (70000, 1000000)):
        units = [("frames-lossy", W.mk(b"ANMF", 1, 1), W.ANIM),
                 ("frames-lossless", W.mk(b"ANMF", 1, 1, inner=W.mk(b"VP8L", 1, 1)), W.ANIM),
                 ("frames-unknown-inside", W.mk(b"ANMF", 1, 1, inner=W.mk(b"VP8 ") + W.mk(b"UNKN") + W.mk(b"UNKN")), W.ANIM)]
        for tag, unit, fl in units:
            head = W.mk(b"VP8X", 1, 1, flags=fl) + W.mk(b"ANIM")
            total = 4 + len(head) + len(unit) * count
            pre = b"RIFF" + W.le32(total) + b"WEBP" + head
            yield "wmeterrep lenient 1 %s %s %d -" % (pre.hex(), unit.hex(), count), "webp-many-" + tag
        unk = W.mk(b"UNKN")
        head = W.mk(b"VP8L", 1, 1)
        pre = b"RIFF" + W.le32(4 + len(head) + len(unk) * count) + b"WEBP" + head
        yield "wmeterrep lenient 1 %s %s %d -" % (pre.hex(), unk.hex(), count), "webp-many-unknown-trailing"
        yield "wmeterrep strict 1 %s %s %d -" % (pre.hex(), unk.hex(), count), "webp-many-unknown-trailing"
    # garbage lossless bodies for the largest dimensions
    for _ in range(100 if quick else 3000):
        body = bytes(rng.randrange(256) for _ in range(rng.choice([8, 60, 300, 5000])))
        yield _wl(W.riff(W.chunk(b"VP8L", W.vp8l_payload(16384, 16384, body)))), "webp-garbage"


def gen(run):
    yield from _mp4["gen"](run)
    yield from wgen(run)
    yield from tabgen(run)


def same(line, impl, model):
    if line.startswith("tabmem "):
        return impl == model
    return True if _is_w(line) else _mp4["same"](line, impl, model)


def classify(line, impl):
    if not _is_w(line):
        return _mp4["classify"](line, impl)
    t = impl.split("|")[0].split()
    return "webp-" + (t[0] if t and t[0] != "err" else ("err-" + t[2].split(":")[0] if len(t) > 2 else "missing"))


def nontrivial(line, impl):
    return (len(line) > 100) if _is_w(line) else _mp4["nontrivial"](line, impl)


def coq_bool(line, model_out):
    return None if _is_w(line) else _mp4["coq_bool"](line, model_out)


def known_class(line, impl):
    return None if _is_w(line) else _mp4["known_class"](line, impl)


def _woracle(run, pairs):
    out = []
    worst = 0
    run.use_area("webp")
    sz = run.harness(["z sizes"]).get("z", "")
    run.use_area("mp4f")
    entry_ok = all(x.split("=")[1] == str(ENTRY) for x in sz.split() if "=" in x) and "entry_u16" in sz
    for line, impl in pairs:
        if line.startswith("tabmem "):
            n = len(line.split(" ", 1)[1].split(","))
            if impl == "reject":
                out.append((True, ""))
            elif impl.startswith("tables="):
                kv = dict(x.split("=") for x in impl.split())
                ok = int(kv["tables"]) <= n and kv.get("rem") == "0"
                out.append((ok, "a compiled tree over %d symbols retains %s: more than one 256-entry table per symbol" % (n, impl)))
            else:
                out.append((False, "no observation: %s" % impl[:80]))
            continue
        if "|" not in impl:
            out.append((False, "no observation / panic / abort: %s" % impl[:100]))
            continue
        kv = dict(x.split("=") for x in impl.split("|")[1].split() if "=" in x)
        heap, maxreq = int(kv.get("heap", 0)), int(kv.get("maxreq", 0))
        worst = max(worst, heap)
        bad = []
        if not entry_ok:
            bad.append("table entry size of bitstream-io changed (%s): WEBP_HEAP_BOUND must be re-derived" % sz)
        if heap > WEBP_HEAP_BOUND:
            bad.append("webpsan peak heap %d exceeds the constant %d (tables of one prefix-code group + slack)" % (heap, WEBP_HEAP_BOUND))
        if maxreq > 4096:
            bad.append("a single read request of %d bytes (> 4096-byte bit buffer)" % maxreq)
        out.append((not bad, "; ".join(bad)))
    note = "webp: sampled peak heap worst %d bytes over %d cases (bound %d)" % (worst, len(pairs), WEBP_HEAP_BOUND)
    if len(pairs) > 20 and not any(n.startswith("webp: sampled peak heap") for n in run.notes):
        run.notes.append(note)
    return out


def oracle(run, pairs):
    wi = [i for i, (l, _) in enumerate(pairs) if _is_w(l)]
    mi = [i for i, (l, _) in enumerate(pairs) if not _is_w(l)]
    res = [None] * len(pairs)
    if mi:
        for i, r in zip(mi, _mp4["oracle"](run, [pairs[i] for i in mi])):
            res[i] = r
    if wi:
        for i, r in zip(wi, _woracle(run, [pairs[i] for i in wi])):
            res[i] = r
    return res


def search(run, disagreements):
    yield from _mp4["search"](run, disagreements)
    yield from wgen(run)

_BREQ = ["From Coq Require Import List NArith Bool.",
         "From MS Require Import Base.Bytes Base.Outcome Base.Prog Base.BufLevel Mp4.San Mp4.SanB Props.C10b.", "Open Scope N_scope."]
THEOREMS = list(THEOREMS) + [
    ("C10_level_b_refines_cursor", """forall (inp : input) (lenient : bool) (ms cap : N), 1 <= cap -> ilen inp <= I64MAX' -> ilen inp <= ms ->
  forall (A : Type) (p : prog A),
    fst (run (level_b inp lenient ms cap) p (lb_init None)) = fst (run (cursor inp lenient ms) p 0)"""),
    ("C10_mp4_level_b_is_model", """forall (cfg : config) (lenient : bool) (ms : N) (inp : input) (fuel : nat),
  ilen inp <= I64MAX' -> ilen inp <= ms ->
  fst (fst (mp4_sanitize_b cfg lenient ms inp fuel None)) = mp4_sanitize cfg lenient ms inp fuel"""),
]
REQUIRES_FOR = dict(REQUIRES_FOR, C10_level_b_refines_cursor=_BREQ, C10_mp4_level_b_is_model=_BREQ)
COQ_TARGETS = list(COQ_TARGETS) + ["theories/Props/C10b.vo"]
COQCHK = list(COQCHK) + ["MS.Props.C10b"]
