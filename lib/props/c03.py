"""C03 - MP4: the media span lies inside the input and is exactly the media run."""
import mp4props as P
from props import _mp4family as fam


def gen(run):
    quick = run.tier == "quick"
    yield from P.standard_stream(run, 300 if quick else 30000, 100 if quick else 15000, 3 if quick else 5)


fam.make(globals(), "C03", ["C03"], gen)
COQ_TARGETS = ["theories/Props/C03.vo"]
REQUIRES = ["From Coq Require Import List NArith ZArith Bool.", "From Coq.Strings Require Import Byte.",
            "From MS Require Import Base.Bytes Base.Outcome Base.Prog Mp4.Header Mp4.Box Mp4.San Mp4.Spec Props.C03.",
            "Import ListNotations.", "Open Scope N_scope."]
COQCHK = ["MS.Props.C03"]
THEOREMS = [
    ("C03_span_is_media_run", """forall (cfg : config) (lenient : bool) (inp : input) (fuel : nat) (o : out),
  ilen inp <= U64MAX ->
  (forall t, cumulative_mdat_box_size cfg = Some t -> t <= U32MAX) ->
  mp4_sanitize cfg lenient U64MAX' inp fuel = Ok o ->
  exists bs, tiling (cumulative_mdat_box_size cfg) inp = Some bs /\\
    media_run bs = Some (s_off (o_data o), s_len (o_data o)) /\\
    s_off (o_data o) + s_len (o_data o) <= ilen inp /\\
    forallb (fun b => if is MDAT b then inside (s_off (o_data o), s_len (o_data o)) b else true) bs = true"""),
    ("C03_truncated_rejected", """forall (cfg : config) (lenient : bool) (inp : input) (fuel : nat),
  ilen inp <= U64MAX ->
  (forall t, cumulative_mdat_box_size cfg = Some t -> t <= U32MAX) ->
  tiling (cumulative_mdat_box_size cfg) inp = None ->
  is_ok (mp4_sanitize cfg lenient U64MAX' inp fuel) = false"""),
    ("C03_truncated_rejected_strict_in_loop", """forall (cfg : config) (inp : input) (fuel : nat),
  ilen inp <= U64MAX ->
  (forall t, cumulative_mdat_box_size cfg = Some t -> t <= U32MAX) ->
  tiling (cumulative_mdat_box_size cfg) inp = None ->
  is_ok (fst (run (cursor inp false U64MAX') (loop fuel cfg st0) 0)) = false"""),
]
TRUSTED = fam.TRUSTED_COMMON + ["axioms: none (Print Assumptions of the three theorems = Closed under the global context)"]
ASSUMPTIONS = fam.ASSUMPTIONS_COMMON + [
    "input length <= u64::MAX; the in-memory cursor can seek up to u64::MAX (max_seek = U64MAX')",
    "the theorems hold for every fuel (an Ok result cannot be produced by running out of fuel); Mp4/LoopProofs.v loop_fuel_enough gives ilen/8+1 as sufficient",
]
RULE = ("seed layouts; gap lattice; structure-aware random rewrite layouts (dense and sparse, several mdat boxes, fillers between and after them); "
        "size-field pathologies; truncation at every byte of 2 seed files; boxes declared longer than the input by 1..2^63 on sparse streams through "
        "strict and seek-style readers; until-EOF mdat with and without cumulative_mdat_box_size; all top-level sequences up to length 3 (quick) / 5 (thorough). "
        "Non-trivial = at least 40 bytes present; distinct = distinct case line.")
LEVEL_TEXT = ("Theorems C03_span_is_media_run and C03_truncated_rejected (Coq, every input up to 2^64-1 bytes, every configuration, strict and seek-style "
              "Skip, every fuel): an Ok result implies that the input is tiled by complete top-level boxes, that the returned span equals the "
              "specification's media run of that tiling (first mdat to the end of the maximal run of mdat/free/skip/meta/meco), lies inside the input "
              "and contains every mdat; an input that is not so tiled is rejected. Proved from a closed form of the sanitizer's loop (fold of a pure "
              "per-box transition over the tiling). The model is tied to /repo by the differential check; the extracted specification is the oracle.")
LEVEL_NOTE = ("Trusted: Coq kernel; the hand-written model and its correspondence batch (the lenient case relies on the end-of-loop check "
              "`stream_position > stream_len => TruncatedBox` present in /repo); Spec.v tiling/media_run; extraction + OCaml driver; Rust harness. No axioms.")
TECHNIQUE = "Coq proof about a hand-written model + extracted-model/Rust differential check + extracted specification as oracle"
DESIGN_REF = "DESIGN.md section 7 (C03)"
