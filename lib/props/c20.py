"""C20 - checked signed addition is exact."""
ID = "C20"
AREA = "add"
COQ_TARGETS = ["theories/Props/C20.vo"]
REQUIRES = ["From Coq Require Import ZArith Bool.", "From MS Require Import Gen.Kernels Props.C20.", "Open Scope Z_scope."]
COQCHK = ["MS.Props.C20"]
THEOREMS = [
    ("C20_exact", """forall w x y : Z, 1 <= w -> 0 <= x < 2^w -> - 2^(w-1) <= y < 2^(w-1) ->
      checked_add_signed w x y = if (0 <=? x + y) && (x + y <? 2^w) then Some (x + y) else None"""),
]
TRUSTED = [
    "Coq 8.16.1 kernel (coqc; coqchk in the thorough tier); vm_compute for the Examples only; no native_compute",
    "axioms: none (Print Assumptions C20_exact = Closed under the global context)",
    "tools/gen_kernels.py: pattern-locked translator of the body of impl_checked_add_signed! (common/src/util.rs) to Gallina, run on every check; "
    "its reading of Rust's `as`, overflowing_add, ^, < on w-bit integers is trusted and cross-checked by the correspondence batch",
    "extraction (ExtrOcamlBasic only: bool, option, unit, list, prod, sumbool, sumor; andb/orb inlined), OCaml 4.13.1, ocaml/driver.ml (zarith used only for decimal I/O)",
    "Rust harness harness/src/add.rs calling mediasan_common::util::checked_add_signed for u8,u16,u32,u64,u128,usize; rustc/cargo",
]
ASSUMPTIONS = [
    "usize is 64 bits on the platform under test (the usize instance is run against the w=64 model)",
    "the six impl_checked_add_signed! instantiations are the only implementations of CheckedAddSigned (checked by gen_kernels: instance list)",
]
RULE = ("exhaustive u8 x i8 (65536 pairs); for widths 16,32,64,128,usize the boundary lattice "
        "{0,1,MAX/2,MAX/2+1,MAX-1,MAX} x {MIN,MIN+1,-1,0,1,MAX-1,MAX} plus seeded random pairs; thorough adds more random pairs and an exhaustive "
        "Rust-side u16 x i16 sweep against i64 arithmetic. A case is non-trivial when the mathematical sum lies within 2 of either end of the range "
        "or the result is None; distinct = distinct (width,x,y).")
EXHAUSTIVE = {"quick": False, "thorough": False}
XCHECK_N = 60
NOTES = ["the 8-bit instance is enumerated completely in both tiers; wider instances are sampled (the theorem covers them for all operands)"]

WIDTHS = [("8", 8), ("16", 16), ("32", 32), ("64", 64), ("128", 128), ("size", 64)]


def gen(run):
    # corpus: minimised past disagreements / mutants
    for x, y in [(0, -1), (255, 1), (128, -128), (127, -128), (0, 0), (255, 0), (1, -1)]:
        yield "add 8 %d %d" % (x, y), "corpus"
    if True:
        for x in range(256):
            for y in range(-128, 128):
                yield "add 8 %d %d" % (x, y), "exhaustive-8"
    n_rand = 400 if run.tier == "quick" else 20000
    for name, w in WIDTHS[1:]:
        M, m, mx = 2**w - 1, -2**(w - 1), 2**(w - 1) - 1
        xs = [0, 1, M // 2, M // 2 + 1, M - 1, M]
        ys = [m, m + 1, -1, 0, 1, mx - 1, mx]
        for x in xs:
            for y in ys:
                yield "add %s %d %d" % (name, x, y), "lattice-%s" % name
        for _ in range(n_rand):
            k = run.rng.random()
            if k < 0.4:
                x, y = run.rng.randint(0, M), run.rng.randint(m, mx)
            elif k < 0.7:   # near the top
                y = run.rng.randint(0, min(mx, 2**20)) if run.rng.random() < .5 else run.rng.randint(m, mx)
                x = max(0, min(M, M - y + run.rng.randint(-2, 2)))
            else:           # near zero
                y = -run.rng.randint(0, min(mx, 2**20)) if run.rng.random() < .5 else run.rng.randint(m, 0)
                x = max(0, min(M, -y + run.rng.randint(-2, 2)))
            yield "add %s %d %d" % (name, x, y), "random-%s" % name
    if run.tier == "thorough":
        yield "addsweep 16", "rust-sweep-16"


def _parse(line):
    t = line.split()
    w = dict(WIDTHS)[t[1]]
    return t[0], w, int(t[2]), int(t[3])


def same(line, impl, model):
    if line.startswith("addsweep"):
        return True          # Rust-side only
    return impl == model


def classify(line, impl):
    return impl.split()[0] if impl else "missing"


def nontrivial(line, impl):
    if line.startswith("addsweep"):
        return True
    _, w, x, y = _parse(line)
    s = x + y
    return s <= 2 or s >= 2**w - 3


def oracle(run, pairs):
    """Specification side: exact integer addition (Python's unbounded ints)."""
    out = []
    for line, impl in pairs:
        if line.startswith("addsweep"):
            out.append((impl.startswith("ok "), "u16 x i16 sweep: " + impl))
            continue
        _, w, x, y = _parse(line)
        s = x + y
        want = ("some %d" % s) if 0 <= s < 2**w else "none"
        out.append((impl == want, "mathematical sum %d => expected %s" % (s, want)))
    return out


def search(run, disagreements):
    yield "addsweep 8", "search"
    yield "addsweep 16", "search"
    for name, w in WIDTHS[1:]:
        M, m, mx = 2**w - 1, -2**(w - 1), 2**(w - 1) - 1
        for x in [0, 1, 2, M // 2 - 1, M // 2, M // 2 + 1, M - 2, M - 1, M]:
            for y in [m, m + 1, m + 2, -2, -1, 0, 1, 2, mx - 2, mx - 1, mx]:
                yield "add %s %d %d" % (name, x, y), "search"
                yield "add %s %d %d" % (name, max(0, min(M, -y)), y), "search"
                yield "add %s %d %d" % (name, max(0, min(M, M - y)), y), "search"
                yield "add %s %d %d" % (name, max(0, min(M, M - y + 1)), y), "search"
                yield "add %s %d %d" % (name, max(0, min(M, -y - 1)), y), "search"


def coq_bool(line, model_out):
    if not line.startswith("add "):
        return None
    _, w, x, y = _parse(line)
    pat = "Some v => v =? %s | None => false" % model_out.split()[1] if model_out.startswith("some") else "Some _ => false | None => true"
    return "match checked_add_signed %d (%d) (%d) with %s end" % (w, x, y, pat)

LEVEL_TEXT = ("Theorem C20_exact (Coq, all widths w>=1, all operands, no bound) about a Gallina definition regenerated from the macro body in "
              "common/src/util.rs on every run; plus model/implementation correspondence: exhaustive for u8/i8, boundary lattice + seeded random for "
              "u16..u128 and usize. A universally quantified arithmetic law is exactly what a proof decides and tests only sample.")
LEVEL_NOTE = ("Trusted: Coq kernel; the pattern-locked Rust->Gallina translator tools/gen_kernels.py (semantics of `as`, overflowing_add, ^, <); extraction "
              "(ExtrOcamlBasic) and the OCaml driver; the Rust harness. No axioms. usize is run as w=64.")
TECHNIQUE = "Coq proof over a model regenerated from source + differential check of extracted model vs Rust"
DESIGN_REF = "DESIGN.md section 7 (C20), 4a"
