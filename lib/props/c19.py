"""C19 - bit-buffer refills are transparent."""
import os, re
from . import _c19_vp8l as V

ID = "C19"
AREA = "bits"
COQ_TARGETS = ["theories/Props/C19.vo"]
REQUIRES = ["From Coq Require Import List NArith Bool.",
            "From Coq.Strings Require Import Byte.",
            "From MS Require Import Base.Bytes Base.Outcome Webp.BitBuf Webp.BitBufSpec Webp.BitBufRun Props.C19.",
            "Import ListNotations.", "Open Scope N_scope."]
COQCHK = ["MS.Props.C19"]
THEOREMS = [
    ("C19_initial_state", """forall src c,
      inv (with_capacity src c) /\\ abs (with_capacity src c) = bits_of_bytes (sdata src)"""),
    ("C19_refill_preserves_abs", """forall st,
      inv st ->
      exists st', fill_buf st = (Ok tt, st') /\\ inv st' /\\ cap st' = cap st /\\ abs st' = abs st /\\
                  (8 * cap st - 7 <= buf_bits st' \\/ src_rest st' = [])"""),
    ("C19_refill_on_request", """forall st r,
      inv st -> 16 <= cap st -> r <= 121 ->
      exists st', ensure r st = (Ok tt, st') /\\ inv st' /\\ cap st' = cap st /\\ abs st' = abs st /\\
                  (r <= buf_bits st' \\/ src_rest st' = [])"""),
    ("C19_read_is_ideal", """forall st,
      inv st -> 16 <= cap st ->
      (forall w n, w <= 64 -> agrees 0 st (ideal_read w n (abs st)) (read w n st)) /\\
      agrees 0 st (ideal_read_bit (abs st)) (read_bit st) /\\
      (forall d, decoder_ok d -> dc_longest d <= 121 ->
         agrees 0 st (ideal_read_code (dc_dec d) (abs st)) (read_huffman (hdec_of d) st))"""),
    ("C19_eof_only_when_exhausted", """forall st,
      inv st -> 16 <= cap st ->
      (forall w n, w <= 64 -> n <= w -> (fst (read w n st) = EParse TruncatedChunk <-> slen (abs st) < n)) /\\
      (fst (read_bit st) = EParse TruncatedChunk <-> abs st = []) /\\
      (forall d, decoder_ok d -> dc_longest d <= 121 ->
         (fst (read_huffman (hdec_of d) st) = EParse TruncatedChunk <-> dc_dec d (abs st) = None))"""),
    ("C19_readahead_sufficient", """forall (A : Type) (p : cprog A) st m r,
      inv st -> m + 7 <= 8 * cap st -> (r <= buf_bits st \\/ src_rest st = []) -> cwf m r p ->
      run_buf p st = run_ideal p (abs st)"""),
    ("C19_entropy_iteration_within_readahead", """forall (A : Type) (g r b a d : decoder)
        (k : cval -> cval -> cval -> cval -> cprog A) b0,
      decoder_ok g -> decoder_ok r -> decoder_ok b -> decoder_ok a -> decoder_ok d ->
      dc_longest g <= 15 -> dc_longest r <= 15 -> dc_longest b <= 15 -> dc_longest a <= 15 -> dc_longest d <= 15 ->
      (forall b' v1 v2 v3 v4, cwf 81 b' (k v1 v2 v3 v4)) ->
      81 + 7 <= 8 * 16 /\\ cwf 81 b0 (entropy_iteration g r b a d k)"""),
    ("C19_verdict_capacity_independent", """forall (A : Type) (p : cprog A) data c1 c2 o1 o2 i1 i2,
      16 <= c1 -> 16 <= c2 -> cwf 121 0 p ->
      run_buf p (with_capacity (mksrc data o1 i1) c1) = run_ideal p (bits_of_bytes data) /\\
      run_buf p (with_capacity (mksrc data o1 i1) c1) = run_buf p (with_capacity (mksrc data o2 i2) c2)"""),
]
_KREQ = ["From Coq Require Import List NArith Bool.",
         "From MS Require Import Base.Bytes Base.Outcome Webp.BitBufSpec Gen.Lz77Kernel Props.C19k.", "Open Scope N_scope."]
THEOREMS = THEOREMS + [
    ("C19_lz77_kernel_matches", """lz77_direct_last_src = 3 /\\ lz77_max_symbol_src = 39 /\\
  forall c, 4 <= c -> c <= 39 ->
    lz77_extra_src c = (c - 2) / 2 /\\ lz77_offset_src c = (2 + c mod 2) * 2 ^ ((c - 2) / 2)"""),
    ("C19_lz77_extra_bits_is_src", """forall c,
  lz77_extra_bits c = if c <=? lz77_direct_last_src then 0 else if c <=? lz77_max_symbol_src then lz77_extra_src c else 0"""),
    ("C19_ideal_read_lz77_is_src", """forall c bits, 4 <= c -> c <= 39 -> lz77_extra_src c <= slen bits ->
  ideal_read_lz77 c bits =
  (Ok (lz77_offset_src c + num_of_bits (firstn (N.to_nat (lz77_extra_src c)) bits) + 1), skipn (N.to_nat (lz77_extra_src c)) bits)"""),
]
REQUIRES_FOR = {"C19_lz77_kernel_matches": _KREQ, "C19_lz77_extra_bits_is_src": _KREQ, "C19_ideal_read_lz77_is_src": _KREQ}
COQ_TARGETS = COQ_TARGETS + ["theories/Props/C19k.vo"]
COQCHK = COQCHK + ["MS.Props.C19k"]
TRUSTED = [
    "Coq 8.16.1 kernel (coqc; coqchk in the thorough tier); vm_compute only in the refutation witness and the Examples; no native_compute",
    "axioms: none (Print Assumptions of every theorem = Closed under the global context)",
    "hand-written model Webp/BitBuf.v of BitBufReader (bitstream.rs) and of the third-party code under it: bitstream_io 1.10.0 "
    "BitQueue<LE,u8>/BitReader<Cursor<Vec<u8>>,LE> (read, read_bit, skip, position_in_bits; read_huffman as bit-by-bit descent of an "
    "abstract decoder), Cursor::read_exact, Take::read_to_end; tied to the code only by the correspondence batch",
    "the specification Webp/BitBufSpec.v (bits LSB first via Coq's Byte.to_bits, value = sum bit_i 2^i, LZ77 formula of the WebP lossless "
    "specification, decoder contract decoder_ok) and the consumer-programme language (cprog, cwf)",
    "extraction (ExtrOcamlBasic only), OCaml 4.13.1, ocaml/bits.ml (text <-> numbers/ops only; sequencing is the extracted run_seq)",
    "test glue canon_codes/codes_hdec in BitBuf.v (canonical code of a length list; not the Huffman model of the development) - "
    "checked against CanonicalHuffmanTree::new by every `h` case and against an RFC-1951 style decoder in the Python oracle",
    "Rust harness harness/src/bits.rs (ChunkedReader with a prescribed short-read pattern; public BitBufReader / LosslessImage API); rustc/cargo",
    "Python oracle in lib/props/c19.py (ideal LSB-first reader over the whole byte string) and the VP8L stream writer lib/props/_c19_vp8l.py",
]
ASSUMPTIONS = [
    "the underlying reader never fails and returns Ok(0) only at the end of its data (io::Read contract); I/O failures inside fill_buf are C13's subject "
    "(note: an Err from read_to_end leaves BitBufReader with an empty internal reader and a stale buf_len - not modelled)",
    "Vec::with_capacity(c) yields capacity exactly c for u8 on this allocator (observed through `f q`: buf_bits = 8*c); the theorems hold for any actual capacity >= 16",
    "read_to_end's inner read sizes are modelled for capacities <= 8192 (DEFAULT_BUF_SIZE); results do not depend on them",
    "a consumer is a decision tree over the values read (cprog); LosslessImage::read itself is modelled by the Vp8l area, here it is exercised in situ "
    "through the public LosslessImage::read on a BitBufReader of arbitrary capacity (what sanitize_image_data does with 4096)",
    "whole-file in situ uses the hook webpsan::verif_set_bitbuf_capacity (cfg signalapp_mp4san_verif; harness built with --cfg verif_caphook by the framework "
    "when the hook is present; a process-global, so each harness process runs its cases sequentially)",
]
RULE = ("field sequences through the public BitBufReader<_, LE>::with_capacity(reader, cap) over a reader with a prescribed cyclic short-read pattern: "
        "exhaustive small domain (capacities 16..24 x stream lengths 0..40 x 12 fixed-width patterns), refill-boundary lattice "
        "(consume 8*cap - k bits, then read n, for capacities 16,17,31,32,33,63,64,4096), seeded random sequences of "
        "read::<u8|u16|u32|u64>(0..64 and over-wide), read_bit, read_huffman (random complete canonical codes, depth <= 15, and single-leaf trees), "
        "the loop-head check `if buf_bits() < r { fill_buf() }` followed by buf_read/buf_read_bit/buf_read_huffman/buf_read_lz77, explicit fill_buf at safe positions, "
        "buf_bits; capacities 16..64 and 4096, streams 0..12 KiB; bare fill_buf at arbitrary positions (full buffer included); separately: capacities < 16 and "
        "continuing after errors (model vs implementation only), requests > 8*cap-7 bits. In situ: structure-aware VP8L streams (transforms with entropy-coded sub-images, "
        "meta prefix image, prefix-code groups; deep codes; long back-references with up to 10+18 extra bits), their truncations and bit flips, through "
        "LosslessImage::read at capacities 16..64 against 4096. Non-trivial = the stream is longer than the capacity (at least one real refill) or ends in end-of-data.")
EXHAUSTIVE = {"quick": False, "thorough": False}
XCHECK_N = 40
NOTES = [
    "repaired defect (fixed: 76e133f): fill_buf on a full buffer with fewer than 8 bits consumed used to set input = None and lose the rest of the "
    "source; with `if buf.len() < buf.capacity()` the refill is transparent at every position (C19_refill_preserves_abs has no side condition; "
    "Example double_fill_keeps_the_source; corpus case `seq 16 100 <32 bytes> s f f r64 r64 r64`). Bare fill_buf at arbitrary positions is "
    "generated (stream `barefill`) and judged by the oracle.",
    "observed threshold: with the largest read-ahead (81 bits) capacities <= 10 change verdicts (10 and 8 seen); 11..15 did not - consistent with r + 7 <= 8*cap "
    "(Example capacity_8_is_not_enough: the bound is tight for 64-bit reads)",
    "`insitu` cases run webpsan::sanitize on whole files under the capacity hook (webpsan::verif_set_bitbuf_capacity); on a tree without the hook they print "
    "`no-hook` and are skipped",
    "capacities < 16 are observations: compared model vs implementation, not judged by the oracle",
]

CAPS = list(range(16, 65)) + [4096]
WIDTHS = [1, 3, 7, 8, 9, 13, 17, 31, 32, 33, 63, 64]


# ------------------------------------------------------------------------------------------------ helpers
def _hex(b):
    return b.hex() if b else "-"


def _rand_bytes(rng, n):
    k = rng.random()
    if k < 0.6:
        return bytes(rng.getrandbits(8) for _ in range(n))
    if k < 0.8:
        return bytes(rng.choice([0x00, 0xff, 0x55, 0xaa, 0x80, 0x01]) for _ in range(n))
    return bytes((i * 37 + 11) & 0xff for i in range(n))


def _chunks(rng):
    k = rng.random()
    if k < 0.25:
        return "1"
    if k < 0.4:
        return "100000"
    if k < 0.55:
        return str(rng.randint(2, 40))
    return ",".join(str(rng.choice([1, 1, 2, 3, 5, 7, 8, 15, 16, 17, 31, 64, 100, 4095, 5000])) for _ in range(rng.randint(2, 6)))


def _rand_tree(rng):
    """complete canonical code over a random symbol set, or a single-leaf tree"""
    k = rng.choice([1, 2, 2, 3, 4, 7, 19, 40, 100])
    syms = rng.sample(range(0, 300), k)
    lens = V.rand_lengths(rng, k, max(rng.choice([2, 4, 7, 15]), (k - 1).bit_length()), rng.random() < .4)
    pairs = list(zip(syms, lens))
    # sprinkle zero-length (unused) symbols
    for _ in range(rng.randint(0, 3)):
        s = rng.randint(0, 300)
        if s not in syms:
            pairs.append((s, 0))
            syms.append(s)
    rng.shuffle(pairs)
    return "=" + ",".join("%d:%d" % p for p in pairs), max(lens) if k > 1 else 0


def _rand_ops(rng, cap, nbits, allow_f=True):
    """a field sequence that stays within the guarantees (requests <= 8*cap-7, buf_ reads inside the announced read-ahead,
    fill_buf only right after a refilling read of >= 8 bits) and runs a little past the end of the data"""
    toks, trees = [], []
    for _ in range(rng.choice([0, 0, 1, 2, 3])):
        d, longest = _rand_tree(rng)
        toks.append("T%d%s" % (len(trees), d))
        trees.append(longest)
    maxreq = 8 * cap - 7
    used = 0
    target = int(nbits * rng.choice([0.3, 0.9, 1, 1, 1])) + rng.choice([0, 1, 8, 64, 200])
    style = rng.choice(["mixed", "mixed", "wide", "narrow", "ahead"])
    n_ops = 0
    while used < target and n_ops < 1500:
        n_ops += 1
        r = rng.random()
        if style == "wide":
            n = rng.choice([64, 63, 57, 33, 32, 48, 64])
            toks.append("r%d" % n)
            used += n
        elif style == "narrow":
            if r < .5:
                toks.append("b")
                used += 1
            else:
                n = rng.randint(0, 9)
                toks.append("r%s%d" % (rng.choice(["", "8.", "16.", "32."]) if n <= 8 else "16.", n))
                used += n
        elif style == "ahead" or r < .2:
            ra = rng.randint(0, min(maxreq, 121))
            toks.append("e%d" % ra)
            budget = ra
            for _ in range(rng.randint(0, 6)):
                k = rng.random()
                if k < .4:
                    n = rng.randint(0, min(64, budget))
                    toks.append("br%d" % n)
                    budget -= n
                    used += n
                elif k < .55 and budget >= 1:
                    toks.append("bb")
                    budget -= 1
                    used += 1
                elif k < .75 and trees:
                    i = rng.randrange(len(trees))
                    if trees[i] <= budget:
                        toks.append("bh%d" % i)
                        budget -= trees[i]
                        used += max(1, trees[i] // 2)
                else:
                    c = rng.randint(0, 39)
                    eb = V.lz77_extra_bits(c)
                    if eb <= budget:
                        toks.append("z%d" % c)
                        budget -= eb
                        used += eb
        elif r < .3:
            toks.append("b")
            used += 1
        elif r < .4 and trees:
            i = rng.randrange(len(trees))
            toks.append("h%d" % i)
            used += max(1, trees[i] // 2)
        elif r < .45:
            toks.append("q")
        elif r < .5 and allow_f:
            n = rng.randint(8, 64)
            toks += ["r%d" % n, "f"]
            used += n
        else:
            w = rng.choice([8, 16, 32, 64, 64, 64])
            n = rng.randint(0, w)
            toks.append(("r%d" % n) if w == 64 else ("r%d.%d" % (w, n)))
            used += n
    return toks


# ------------------------------------------------------------------------------------------------ generators
def _corpus():
    d32 = bytes(range(32)).hex()
    yield "seq 16 1 %s s r3 b r64 q r13 f q r64 r64 r64 r64 r1" % d32, "corpus"
    yield "seq 16 3,1,7 ff00ff00aa55aa55123456789abcdef00102030405060708090a0b0c0d0e0f10 s T0=0:1,1:2,2:3,3:3 h0 h0 h0 r5 h0 b q e40 z4 z39 z40", "corpus"
    yield "seq 4096 2 0001 c r65 r8.9 r8.8 r16.9 q b", "corpus"
    yield "seq 16 5 - s r0 b", "corpus"
    yield "seq 16 1 f0f1f2 c T0=5:1 h0 h0 T1=1:1,2:1 h1 h1 r20 h1 h1 h1 h1 h1 h0 q", "corpus"
    yield "seq 16 1 f0f1f2 c T0=0:2,1:2,2:2,3:2 r7 r7 r7 h0 h0 q f q", "corpus"
    # past mutants: `<=` in the refill condition; drain(..byte_pos+1); missing re-skip; premature EOF on a short read
    yield "seq 16 3 %s s r64 r64 r1 r64 r64 r63 r1" % bytes(range(40)).hex(), "corpus"
    yield "seq 17 1 %s s r5 r64 r64 r3 r64 r64 r64" % bytes(range(1, 60)).hex(), "corpus"
    yield "seq 16 5,1 %s s b r64 r64 r64 r64 r64" % bytes(range(100, 150)).hex(), "corpus"
    yield "seq 24 7 %s s r13 e81 br10 br15 br18 br15 r64 r64 r64" % bytes(range(7, 77)).hex(), "corpus"
    # the actual Vec capacity as observed through buf_bits after the first fill (8 * capacity when the source is long enough)
    yield "seq 16 100000 %s s f q r8 q" % bytes(range(40)).hex(), "corpus"
    yield "seq 33 1 %s s f q b q" % bytes(range(80)).hex(), "corpus"
    yield "seq 4096 4095 %s s f q r64 q" % bytes(i & 255 for i in range(5000)).hex(), "corpus"
    # the repaired defect: bare fill_buf on a full buffer (fewer than 8 bits consumed)
    yield "seq 16 100 %s s f f r64 r64 r64 r64 r1" % d32, "corpus"
    yield "seq 16 1 %s s r3 f f q r64 f r64 r64 r64 b" % d32, "corpus"
    yield "seq 4096 100000 %s s r1 f r64 q" % bytes(i & 255 for i in range(5000)).hex(), "corpus"
    # small-capacity observations
    yield "seq 8 100 %s c b r64 r64 r8 q f q r8" % d32, "smallcap"
    yield "seq 0 5 0102 s r0 r1", "smallcap"


def _exhaustive_small(run):
    for cap in range(16, 25):
        for n in range(0, 41):
            data = _rand_bytes(run.rng, n)
            for w in WIDTHS:
                cnt = (8 * n) // w + 2
                ch = ["1", "100", "3,1", "7"][(cap + n + w) % 4]
                yield "seq %d %s %s s %s" % (cap, ch, _hex(data), " ".join(["r%d" % w] * cnt)), "exhaustive-small"


def _boundary(run):
    for cap in [16, 17, 31, 32, 33, 63, 64, 4096]:
        ks = range(0, 18) if cap != 4096 else [0, 1, 7, 8, 9, 15, 16]
        for k in ks:
            for n in [1, 7, 8, 9, 33, 57, 64]:
                # consume 8*cap - k bits with 64-bit reads (+ a remainder), then a read of n bits that straddles the refill
                total = 8 * cap - k
                pre = ["r64"] * (total // 64)
                if total % 64:
                    pre.append("r%d" % (total % 64))
                data = _rand_bytes(run.rng, cap + 24)
                for ch in (["1", "100000", "5,3"] if cap != 4096 else ["4095", "100000"]):
                    yield "seq %d %s %s s %s r%d r64 r64 r64" % (cap, ch, data.hex(), " ".join(pre), n), "boundary"
                    if n == 1 and cap != 4096:
                        yield "seq %d %s %s s %s b b r64 r64 r64" % (cap, ch, data.hex(), " ".join(pre)), "boundary"


def _random_seq(run, count, stream="random"):
    rng = run.rng
    for _ in range(count):
        cap = rng.choice(CAPS) if rng.random() < .9 else rng.choice([16, 17, 64, 4096])
        k = rng.random()
        if cap == 4096:
            n = rng.choice([0, 10, 4095, 4096, 4097, 5000, 8192, 8200, 12000])
        elif k < .3:
            n = rng.randint(0, 3 * cap)
        elif k < .8:
            n = rng.randint(0, 400)
        else:
            n = rng.randint(400, 3000)
        data = _rand_bytes(rng, n)
        ops = _rand_ops(rng, cap, 8 * n)
        yield "seq %d %s %s s %s" % (cap, _chunks(rng), _hex(data), " ".join(ops)), stream


def _huff_streams(run, count):
    """long runs of read_huffman with codes of 9..15 bits at small capacities (public API; in situ only the code-length code, at most 7
    bits, goes through read_huffman): a code word that needs two more bytes when exactly one is left in the buffer, at every
    alignment (interleaved single bits and short reads)"""
    rng = run.rng
    for _ in range(count):
        cap = rng.choice([16, 16, 17, 20, 24, 31, 32, 33, 48, 64])
        if rng.random() < .5:
            lens = list(range(1, 16)) + [15]                      # 1,2,...,15,15
        else:
            k = rng.choice([20, 40, 100])
            lens = V.rand_lengths(rng, k, 15, True)
        syms = rng.sample(range(0, 300), len(lens))
        tree = "T0=" + ",".join("%d:%d" % p for p in zip(syms, lens))
        n = rng.choice([200, 400, 1200])
        data = _rand_bytes(rng, n) if rng.random() < .5 else bytes(rng.choice([0xff, 0xfe, 0x7f, 0xff, rng.randrange(256)]) for _ in range(n))
        ops = []
        for _ in range(rng.choice([150, 400, 900])):
            r = rng.random()
            ops.append("h0" if r < .8 else "b" if r < .9 else "r%d" % rng.randint(1, 9))
        yield "seq %d %s %s s %s %s" % (cap, _chunks(rng), _hex(data), tree, " ".join(ops)), "huffman-long-codes"


def _malformed_seq(run, count):
    """sequences outside the guarantees: over-wide reads, invalid LZ77 codes, unguarded buffer-only reads, requests beyond
    8*cap-7, bare fill_buf, continuing after errors, capacities below 16"""
    rng = run.rng
    for _ in range(count):
        kind = rng.choice(["wide", "lz", "unguarded", "bigreq", "rawfill", "cont", "smallcap", "smallcap"])
        cap = rng.choice(CAPS)
        n = rng.randint(0, 200)
        data = _rand_bytes(rng, n)
        ops = _rand_ops(rng, cap, 8 * n)
        mode = "s"
        pos = rng.randint(0, len(ops))
        if kind == "wide":
            ops.insert(pos, rng.choice(["r65", "r8.9", "r16.17", "r32.33", "r200", "br65", "br8.9", "r4294967295"]))
        elif kind == "lz":
            ops.insert(pos, "z%d" % rng.choice([40, 41, 255, 65535]))
        elif kind == "unguarded":
            for _ in range(rng.randint(1, 5)):
                ops.insert(rng.randint(0, len(ops)), rng.choice(["br64", "bb", "br17", "z39", "z23"]))
        elif kind == "bigreq":
            ops.insert(pos, "e%d" % rng.randint(8 * cap - 6, 8 * cap + 200))
        elif kind == "rawfill":
            for _ in range(rng.randint(1, 3)):
                ops.insert(rng.randint(0, len(ops)), "f")
        elif kind == "cont":
            mode = "c"
            ops += ["r64", "b", "q", "f", "q", "r8"]
        elif kind == "smallcap":
            cap = rng.randint(0, 15)
        stream = {"rawfill": "barefill", "smallcap": "smallcap", "cont": "continue"}.get(kind, "malformed")
        yield "seq %d %s %s %s %s" % (cap, _chunks(rng), _hex(data), mode, " ".join(ops)), stream


def _lossless(run, n_streams, caps_per_stream, stream_name="insitu-lossless"):
    rng = run.rng
    for i in range(n_streams):
        style = ["plain", "deep", "extrabits", "arbdeep", "extradeep", "onedist"][i % 6]
        W, H, data, facts = V.build_lossless(rng, style)
        variants = [("valid", data)]
        k = rng.random()
        if len(data) > 4:
            variants.append(("trunc", data[:rng.randint(1, len(data) - 1)]))
            if k < .5:
                b = bytearray(data)
                p = rng.randrange(len(b))
                b[p] ^= 1 << rng.randrange(8)
                variants.append(("flip", bytes(b)))
            if k > .7:
                variants.append(("trunc", data[:rng.randint(max(1, len(data) - 40), len(data) - 1)]))
        for vname, d in variants:
            caps = [4096] + (CAPS[:-1] if caps_per_stream is None else rng.sample(CAPS[:-1], caps_per_stream) + [16])
            for j, cap in enumerate(dict.fromkeys(caps)):
                ch = "100000" if j == 0 else _chunks(rng)
                yield "lossless %d %s %d %d %s" % (cap, ch, W, H, d.hex()), "%s-%s" % (stream_name, vname)
            for cap in rng.sample(range(8, 16), 2):
                yield "lossless %d %s %d %d %s" % (cap, _chunks(rng), W, H, d.hex()), "insitu-smallcap"


def _webp_file(W, H, payload):
    hdr = bytearray([0x2f])
    v = (W - 1) | ((H - 1) << 14) | (1 << 28)
    hdr += v.to_bytes(4, "little")
    chunk = bytes(hdr) + payload
    body = b"WEBP" + b"VP8L" + len(chunk).to_bytes(4, "little") + chunk + (b"\0" if len(chunk) % 2 else b"")
    return b"RIFF" + len(body).to_bytes(4, "little") + body


def _insitu_files(run, n, caps_per_file=4):
    """whole .webp files (RIFF + VP8L chunk) through webpsan::sanitize under the capacity hook"""
    rng = run.rng
    for i in range(n):
        W, H, data, _ = V.build_lossless(rng, ["plain", "deep", "extrabits", "arbdeep", "extradeep", "onedist"][i % 6])
        variants = [("valid", data)]
        if len(data) > 4:
            variants.append(("trunc", data[:rng.randint(1, len(data) - 1)]))
            b = bytearray(data)
            b[rng.randrange(len(b))] ^= 1 << rng.randrange(8)
            variants.append(("flip", bytes(b)))
        for vname, d in variants:
            f = _webp_file(W, H, d)
            caps = [4096, 16] + (CAPS[:-1] if caps_per_file is None else rng.sample(CAPS[:-1], caps_per_file))
            for cap in dict.fromkeys(caps):
                yield "insitu %d %s" % (cap, f.hex()), "insitu-file-" + vname


def gen(run):
    cdir = os.path.join(os.path.dirname(os.path.dirname(os.path.dirname(os.path.abspath(__file__)))), "corpus", "C19")
    if os.path.isdir(cdir):
        for fn in sorted(os.listdir(cdir)):
            for ln in open(os.path.join(cdir, fn)):
                ln = ln.strip()
                if ln and not ln.startswith("#"):
                    yield ln, "corpus"
    yield from _corpus()
    quick = run.tier == "quick"
    yield from _boundary(run)
    yield from _exhaustive_small(run)
    yield from _random_seq(run, 1500 if quick else 40000)
    yield from _malformed_seq(run, 400 if quick else 6000)
    yield from _huff_streams(run, 60 if quick else 1500)
    yield from _lossless(run, 48 if quick else 600, 6 if quick else None)
    yield from _insitu_files(run, 30 if quick else 300, 4 if quick else None)


# ------------------------------------------------------------------------------------------------ the ideal reader
def _kind(line):
    return line.split(" ", 1)[0]


def _rfc_table(pairs):
    """canonical prefix code as in RFC 1951 3.2.2 / the WebP lossless specification: {(len, code): symbol};
    a lone symbol of length 1 is the empty code"""
    nz = [(s, l) for s, l in pairs if l > 0]
    if len(nz) == 1 and nz[0][1] == 1:
        return {(0, 0): nz[0][0]}, 0
    maxl = max(l for _, l in nz)
    bl = [0] * (maxl + 2)
    for _, l in nz:
        bl[l] += 1
    nxt, code = [0] * (maxl + 2), 0
    for b in range(1, maxl + 1):
        code = (code + bl[b - 1]) << 1
        nxt[b] = code
    tab = {}
    for s, l in sorted(nz):
        tab[(l, nxt[l])] = s
        nxt[l] += 1
    return tab, maxl


def _decode(tab, maxl, bits, pos):
    """-> (symbol, consumed) or None if the bits end first"""
    if (0, 0) in tab:
        return tab[(0, 0)], 0
    code = 0
    for k in range(1, maxl + 1):
        if pos + k > len(bits):
            return None
        code = (code << 1) | bits[pos + k - 1]
        if (k, code) in tab:
            return tab[(k, code)], k
    return None


def _width_n(s):
    if "." in s:
        w, n = s.split(".")
        return int(w), int(n)
    return 64, int(s)


def check_seq(line, impl):
    t = line.split()
    cap, data, toks = int(t[1]), (bytes.fromhex(t[3]) if t[3] != "-" else b""), t[5:]
    if impl in ("panic", "missing", "") or impl.startswith(("unknown", "bad-")):
        return False, "no observation: %s" % impl
    if cap < 16:
        return True, "capacity < 16: observation only"
    out = impl.split()
    if "|" not in out:
        return False, "malformed output"
    out = out[:out.index("|")]
    bits = []
    for b in data:
        for i in range(8):
            bits.append((b >> i) & 1)
    total = len(bits)
    pos, budget = 0, 0
    trees = []
    oi = 0
    TR = "E:parse:TruncatedChunk"
    maxreq = 8 * cap - 7

    def val(n):
        v = 0
        for i in range(n):
            v |= bits[pos + i] << i
        return v

    for tok in toks:
        if tok.startswith("T"):
            pairs = [tuple(int(x) for x in p.split(":")) for p in tok.split("=", 1)[1].split(",") if p]
            trees.append(_rfc_table(pairs))
            continue
        if oi >= len(out):
            return False, "output ends before op %s" % tok
        got = out[oi]
        oi += 1
        refilling = tok[0] in "rhef" or tok == "b"
        # what the op wants from the stream: (cost in bits, expected text) or an error that must be reported
        want_err, cost, exp = None, 0, None
        req = 0
        if tok.startswith("br") or (tok.startswith("r")):
            w, n = _width_n(tok[2:] if tok.startswith("br") else tok[1:])
            req = n
            if n > w:
                want_err = "E:io:InvalidInput"
            else:
                cost = n
                exp = str(val(n)) if total - pos >= n else None
        elif tok in ("b", "bb"):
            req = cost = 1
            exp = str(bits[pos]) if total - pos >= 1 else None
        elif tok.startswith("bh") or tok.startswith("h"):
            tab, maxl = trees[int(tok[2:] if tok.startswith("bh") else tok[1:])]
            req = maxl
            d = _decode(tab, maxl, bits, pos)
            if d is not None:
                exp, cost = str(d[0]), d[1]
            else:
                cost = total - pos + 1
        elif tok.startswith("z"):
            c = int(tok[1:])
            if c >= 40:
                want_err = "E:parse:InvalidInput"
            elif c < 4:
                exp = str(c + 1)
            else:
                eb = (c - 2) >> 1
                cost = eb
                exp = str(((2 + (c & 1)) << eb) + val(eb) + 1) if total - pos >= eb else None
        elif tok == "f":
            exp = "ok"          # transparent at every position; afterwards the buffer is full or the source exhausted
        elif tok == "q":
            m = re.match(r"q=(\d+)$", got)
            if not m:
                return False, "op q: got %s" % got
            q = int(m.group(1))
            if q > total - pos or q > 8 * cap:
                return False, "buf_bits %d exceeds what is left (%d) or the capacity" % (q, total - pos)
            if q < min(budget, total - pos):
                return False, "buf_bits %d below the announced %d with %d bits left" % (q, budget, total - pos)
            continue
        elif tok.startswith("e"):
            req = int(tok[1:])
            exp = "ok"
        else:
            return False, "unknown op " + tok
        if refilling:
            # after `if buf_bits() < req { fill_buf() }` (or a bare fill_buf) min(req, 8*cap-7) bits are buffered or the source
            # is exhausted; a request the buffer cannot hold (req > 8*cap-7) guarantees only that much
            budget = max(budget, maxreq if tok == "f" else min(req, maxreq))
        if want_err:
            if got != want_err:
                return False, "op %s at bit %d: expected %s, got %s" % (tok, pos, want_err, got)
            return True, "ends with %s as specified" % want_err
        strict = cost <= budget
        if exp is None:
            # the whole byte string has fewer bits than requested: end of data must be reported
            if got != TR:
                return False, "op %s at bit %d of %d: expected end of data, got %s" % (tok, pos, total, got)
            return True, "end of data exactly at exhaustion"
        if got == exp:
            pos += cost
            budget = max(0, budget - cost)
            continue
        if got == TR and not strict:
            return True, "TruncatedChunk on a buffer-only access beyond the announced read-ahead: allowed"
        return False, "op %s at bit %d of %d: expected %s, got %s" % (tok, pos, total, exp, got)
    return True, "all fields as read from the whole byte string"


def same(line, impl, model):
    if _kind(line) in ("lossless", "insitu"):
        return True            # no model of the lossless decoder in this area: implementation vs itself across capacities
    # the trailing `| calls N` (inner read calls, visible only to the underlying reader) is reported but not compared:
    # it is no part of BitBufReader's observable behaviour and harmless rewrites of fill_buf change it
    return impl.split(" | ")[0] == model.split(" | ")[0]


def classify(line, impl):
    if not impl:
        return "missing"
    k = _kind(line)
    if k == "seq":
        m = re.search(r"E:(\S+)", impl)
        return "seq-" + (m.group(1) if m else "ok")
    return k + "-" + impl.replace(" ", "-")[:40]


def nontrivial(line, impl):
    t = line.split()
    if t[0] == "seq":
        return (len(t[3]) // 2 > int(t[1])) or "TruncatedChunk" in impl
    return len(t[-1]) // 2 > int(t[1])


def oracle(run, pairs):
    # reference verdicts (capacity 4096) for the in-situ kinds
    ref = {}
    for line, impl in pairs:
        t = line.split()
        if t[0] == "lossless" and t[1] == "4096":
            ref.setdefault(("l", t[3], t[4], t[5]), impl)
        elif t[0] == "insitu" and t[1] == "4096":
            ref.setdefault(("i", t[2]), impl)
    out = []
    for line, impl in pairs:
        t = line.split()
        if t[0] == "seq":
            out.append(check_seq(line, impl))
        elif t[0] in ("lossless", "insitu"):
            if impl == "no-hook":
                out.append((True, "skipped: capacity hook not present in the tree under test"))
                continue
            key = ("l", t[3], t[4], t[5]) if t[0] == "lossless" else ("i", t[2])
            r = ref.get(key)
            if impl in ("panic", "missing", ""):
                out.append((False, "no verdict: %s" % impl))
            elif int(t[1]) < 16:
                out.append((True, "capacity < 16: observation only (%s vs %s at 4096)" % (impl, r)))
            elif r is None:
                out.append((True, "no 4096 reference in this batch"))
            else:
                out.append((impl == r, "verdict at capacity %s = %s, at 4096 = %s" % (t[1], impl, r)))
        else:
            out.append((False, "unknown case kind"))
    return out


def search(run, disagreements):
    yield from _boundary(run)
    yield from _random_seq(run, 6000, "search")
    # neighbourhood of each disagreement: same ops at every capacity and several chunkings
    for line, _, _ in disagreements[:20]:
        t = line.split()
        if t[0] != "seq":
            continue
        for cap in CAPS:
            for ch in ("1", "100000", "3,1,7"):
                yield " ".join([t[0], str(cap), ch] + t[3:]), "search"
    yield from _lossless(run, 120, None, "search-lossless")
    yield from _insitu_files(run, 60, None)


def _coq_bytes(b):
    return "[" + "; ".join("x%02x" % x for x in b) + "]"


def coq_bool(line, model_out):
    t = line.split()
    if t[0] != "seq" or len(t[3]) > 160 or len(t) > 40 or model_out == "panic" or "out-of-fuel" in model_out or "|" not in model_out:
        return None
    data = bytes.fromhex(t[3]) if t[3] != "-" else b""
    trees, ops, isbit = [], [], []
    for tok in t[5:]:
        bit = False
        if tok.startswith("T"):
            pairs = [p.split(":") for p in tok.split("=", 1)[1].split(",") if p]
            trees.append("[" + "; ".join("(%s, %s)" % (s, l) for s, l in pairs) + "]")
            continue
        elif tok.startswith("br"):
            ops.append("SBRead %d %d" % _width_n(tok[2:]))
        elif tok.startswith("bh"):
            ops.append("SBHuff %s%%nat" % tok[2:])
        elif tok == "bb":
            ops.append("SBReadBit")
            bit = True
        elif tok == "b":
            ops.append("SReadBit")
            bit = True
        elif tok.startswith("r"):
            ops.append("SRead %d %d" % _width_n(tok[1:]))
        elif tok.startswith("h"):
            ops.append("SHuff %s%%nat" % tok[1:])
        elif tok.startswith("z"):
            ops.append("SLz77 %s" % tok[1:])
        elif tok == "f":
            ops.append("SFill")
        elif tok == "q":
            ops.append("SBits")
        elif tok.startswith("e"):
            ops.append("SEnsure %s" % tok[1:])
        else:
            return None
        isbit.append(bit)
    mo = model_out.split()
    calls = mo[-1]
    exp = []
    for k, x in enumerate(mo[:mo.index("|")]):
        if x == "ok":
            exp.append("OUnit")
        elif x.startswith("q="):
            exp.append("OQ %s" % x[2:])
        elif x == "E:parse:TruncatedChunk":
            exp.append("OErrParse TruncatedChunk")
        elif x == "E:parse:InvalidInput":
            exp.append("OErrParse WInvalidInput")
        elif x == "E:io:InvalidInput":
            exp.append("OErrIo EInvalidInput")
        elif x.startswith("E:"):
            return None
        elif isbit[k]:
            exp.append("OBit %s" % ("true" if x == "1" else "false"))
        else:
            exp.append("ONum %s" % x)
    cmp_ = ("(fun a b : sobs => match a, b with ONum x, ONum y => x =? y | OBit x, OBit y => Bool.eqb x y | OUnit, OUnit => true "
            "| OQ x, OQ y => x =? y | OErrParse TruncatedChunk, OErrParse TruncatedChunk => true "
            "| OErrParse WInvalidInput, OErrParse WInvalidInput => true | OErrIo EInvalidInput, OErrIo EInvalidInput => true "
            "| _, _ => false end)")
    return ("(let '(xs, calls) := run_seq %s [%s] %s %s [%s] [%s] in "
            "(calls =? %s) && Nat.eqb (length xs) %d && forallb (fun p => %s (fst p) (snd p)) (combine xs [%s]))"
            % (t[1], "; ".join(t[2].split(",")), _coq_bytes(data), "true" if t[4] == "c" else "false",
               "; ".join(trees), "; ".join(ops), calls, len(exp), cmp_, "; ".join(exp)))


LEVEL_TEXT = ("Coq theorems (no axioms) about a faithful executable model of BitBufReader and of the bitstream_io / std code under it: for every state "
              "satisfying the invariant (all byte strings, all short-read patterns, all histories) every refill (at any position, full buffer included; any capacity) "
              "preserves the abstraction `unread buffer bits ++ bits of the undelivered bytes` (C19_refill_preserves_abs) and for capacity >= 16 a request for r <= 121 bits leaves r bits buffered or the source "
              "exhausted (C19_refill_on_request); read(n<=64), "
              "read_bit and read_huffman return the first bits of it as the number sum bit_i 2^i and advance it (C19_read_is_ideal); TruncatedChunk is "
              "reported iff it is too short (C19_eof_only_when_exhausted); buffer-only accessors inside an announced read-ahead, and one pixel-loop iteration "
              "with the code's read-ahead formula (<= 81 bits, 81+7 <= 128), agree with the ideal reader (C19_readahead_sufficient, "
              "C19_entropy_iteration_within_readahead); any consumer decision tree gives the same result for all capacities >= 16 and all chunkings "
              "(C19_verdict_capacity_independent). Model tied to the code by a differential check through the public API (exhaustive small domain, refill-boundary lattice, "
              "seeded random field sequences, capacities 16..64 and 4096) and in situ through LosslessImage::read and, under the capacity hook, whole files through webpsan::sanitize, at every capacity against 4096.")
LEVEL_NOTE = ("Trusted: Coq kernel; the hand-written model (incl. bitstream_io/std behaviour, tied by correspondence only); the specification file; extraction and the "
              "OCaml driver; the Rust harness; the Python oracle and VP8L stream writer. No axioms. read_huffman is modelled over an abstract decoder "
              "(contract decoder_ok); the Huffman tree model is C18's. LosslessImage::read is not modelled here: capacity independence of the real "
              "decoder is sampled in situ, and proved for every consumer expressible as a decision tree obeying the read-ahead discipline. "
              "I/O errors inside fill_buf are out of scope (C13).")
TECHNIQUE = "Coq proof (simulation against an ideal bit list, induction over consumer programmes) + differential check of the extracted model vs Rust + in-situ capacity sweep"
DESIGN_REF = "DESIGN.md section 7 (C19), section 9, Appendix A/B"
