"""C18 - canonical prefix codes are built and decoded exactly as the specification defines."""
import itertools
from fractions import Fraction

ID = "C18"
AREA = "huff"
COQ_TARGETS = ["theories/Props/C18.vo"]
REQUIRES = ["From Coq Require Import List NArith Bool Sorted Permutation.",
            "From MS Require Import Base.Outcome Webp.Huffman Webp.HuffmanSpec Props.C18.",
            "Import ListNotations.", "Open Scope N_scope."]
COQCHK = ["MS.Props.C18"]
THEOREMS = [
    ("C18_accept_iff_kraft", r"""forall cl : list N,
  is_ok (new_vec cl) = true <-> (kraft_at (max_len cl) cl = 2 ^ max_len cl \/ filter nonzero cl = [1])"""),
    ("C18_accept_is_spec", r"""forall cl : list N, is_ok (new_vec cl) = spec_accepts cl"""),
    ("C18_reject_kind", r"""forall cl : list N, is_ok (new_vec cl) = false -> new_vec cl = EParse InvalidVp8lPrefixCode"""),
    ("C18_over_subscribed_fails_at_insertion", r"""forall cl : list N,
  single_len1 cl = false -> 2 ^ max_len cl < kraft_at (max_len cl) cl ->
  exists e, add_all WEmpty (symbols (index_from 0 cl)) = inr e /\ (e = DuplicateLeaf \/ e = OrphanedLeaf)"""),
    ("C18_under_subscribed_fails_at_finalize", r"""forall cl : list N,
  single_len1 cl = false -> kraft_at (max_len cl) cl < 2 ^ max_len cl ->
  exists t, add_all WEmpty (symbols (index_from 0 cl)) = inl t /\ finalize t = inr MissingLeaf"""),
    ("C18_codes_are_canonical", r"""forall cl : list N,
  Permutation (symbols (index_from 0 cl)) (canonical cl) /\
  forall s c, In (s, c) (symbols (index_from 0 cl)) <-> In (s, c) (canonical cl)"""),
    ("C18_sort_is_the_sorted_permutation", r"""forall l l' : list (N * N),
  (Permutation l l' /\ StronglySorted (fun a b : N * N => is_true (KeyOrder.leb a b)) l') <-> l' = sort_by_key l"""),
    ("C18_decode_is_canonical", r"""forall (cl : list N) t, new_vec cl = Ok t ->
  forall bits s rest,
    decode (ht_tree t) bits = Some (s, rest) <-> exists c, In (s, c) (canonical cl) /\ bits = c ++ rest"""),
    ("C18_decode_is_table_decode", r"""forall (cl : list N) t, new_vec cl = Ok t ->
  forall bits, decode (ht_tree t) bits = table_decode (canonical cl) bits"""),
    ("C18_decode_many_is_canonical", r"""forall (cl : list N) t, new_vec cl = Ok t ->
  forall n bits, decode_many n (ht_tree t) bits = table_decode_many n (canonical cl) bits"""),
    ("C18_single_symbol_zero_bits", r"""forall cl : list N, single_len1 cl = true ->
  exists s, nth_error cl (N.to_nat s) = Some 1 /\ canonical cl = [(s, [])] /\
            new_vec cl = Ok {| ht_tree := FLeaf s; ht_longest := 0 |} /\
            forall bits, read_huffman {| ht_tree := FLeaf s; ht_longest := 0 |} bits = Ok (s, bits)"""),
    ("C18_longest_bounds_consumption", r"""forall (cl : list N) t, Forall (fun l => l < 2 ^ 32) cl -> new_vec cl = Ok t ->
  ht_longest t = spec_longest cl /\
  (forall bits s rest, decode (ht_tree t) bits = Some (s, rest) ->
     exists c, bits = c ++ rest /\ N.of_nat (length c) <= ht_longest t) /\
  (forall bits, ht_longest t <= N.of_nat (length bits) -> decode (ht_tree t) bits <> None)"""),
    ("C18_observation_is_spec", r"""forall (cl : list N) n bits, Forall (fun l => l < 2 ^ 32) cl ->
  observe (new_vec cl) n bits = spec_observation cl n bits"""),
    ("C18_simple_codes", r"""forall a b : N,
  from_symbols [(a, [])] = Ok {| ht_tree := FLeaf a; ht_longest := 0 |} /\
  from_symbols [(a, [false]); (b, [true])] = Ok {| ht_tree := FNode (FLeaf a) (FLeaf b); ht_longest := 1 |}"""),
]
_LREQ = ["From Coq Require Import List NArith Bool Sorted Permutation.",
         "From MS Require Import Base.Bytes Base.Outcome Webp.Huffman Props.C18l.", "Open Scope N_scope."]
THEOREMS = THEOREMS + [
    ("C18_listing_order_irrelevant", r"""forall l l' : list (N * N), Permutation l l' ->
  symbols l = symbols l' /\ new l = new l'"""),
]
REQUIRES_FOR = {"C18_listing_order_irrelevant": _LREQ}
COQ_TARGETS = COQ_TARGETS + ["theories/Props/C18l.vo"]
COQCHK = COQCHK + ["MS.Props.C18l"]
TRUSTED = [
    "Coq 8.16.1 kernel (coqc; coqchk in the thorough tier); vm_compute for the Examples only; no native_compute",
    "axioms: none (Print Assumptions of every theorem = Closed under the global context)",
    "the hand-written model coq/theories/Webp/Huffman.v of CanonicalHuffmanTree::{new,from_symbols,symbols,longest_code_len} and of "
    "bitstream-io 1.10.0 compile_read_tree / read_huffman (bit-by-bit descent of the final tree instead of the byte-indexed state table); "
    "tied to the code by the correspondence batch of every run",
    "sort_unstable_by_key is modelled by the stdlib merge sort (any correct sort returns the same list: the key is the whole element)",
    "the specification coq/theories/Webp/HuffmanSpec.v (Kraft sum as an exact integer at the maximal length, RFC 1951 next_code assignment, "
    "decode by code table); re-implemented independently in Python in lib/props/c18.py and both are evaluated on every implementation output",
    "extraction (ExtrOcamlBasic only), OCaml 4.13.1, ocaml/huff.ml",
    "Rust harness harness/src/huff.rs calling webpsan::parse::{CanonicalHuffmanTree::<LE,u16>::{new,from_symbols,longest_code_len}, "
    "BitBufReader::{with_capacity,read_huffman,buf_bits}} and bitstream_io::huffman::compile_read_tree / BitReader::read_huffman; rustc/cargo",
]
ASSUMPTIONS = [
    "symbols passed to CanonicalHuffmanTree::new are the indices 0..n-1 in order (true of both callers in lossless.rs; the model's `symbols` "
    "takes arbitrary (symbol, length) pairs, the theorems are about index vectors)",
    "code lengths are u8 in Rust; theorems hold for arbitrary N lengths, the longest_code_len theorem assumes lengths < 2^32 (the `as u32`)",
    "BitBufReader refills are transparent (property C19); the harness uses capacity 4096 and compares positions through buf_bits",
]
RULE = ("exhaustive: every code-length vector over <= 6 symbols with lengths 0..5 (55 987 vectors) with a seeded random bit string each, and for "
        "every accepted vector of that domain all bit strings up to length 6 (quick: 5) ; seeded random vectors over the real alphabets "
        "(19, 40, 256, 280+2^k..2328 symbols, lengths 0..15): complete by random tree splitting, under-/over-subscribed by perturbation, wrap-around "
        "shapes, single symbols; random / biased / constant bit strings (thorough: long ones, up to 60 000 bits, so BitBufReader refills); the "
        "simple-code shapes of from_symbols (one symbol, two symbols incl. equal symbols) and arbitrary malformed code tables through from_symbols "
        "and compile_read_tree. Non-trivial: the vector has at least two non-zero lengths or exactly one; distinct = distinct case lines.")
EXHAUSTIVE = {"quick": True, "thorough": True}
XCHECK_N = 40
NOTES = ["the small domain (<= 6 symbols, lengths 0..5) is enumerated completely in both tiers; the real alphabets are sampled "
         "(the theorems cover them for all vectors and all bit strings)",
         "model scope: bitstream-io's byte-indexed read table is modelled as the bit-by-bit descent of the final tree it is compiled from; "
         "BitBufReader refills are not modelled here (C19); `hufftree` cases compare the trie builder's error kind "
         "(Duplicate/Orphaned/MissingLeaf) with compile_read_tree directly",
         "observation: a single used symbol whose length is not 1 is rejected by webpsan (MissingLeaf) although libwebp's BuildHuffmanTable "
         "treats any single used symbol as a zero-bit code; the property text sides with webpsan (relevant to C08, not a C18 failure)"]

ALPHABETS = [19, 40, 256, 280] + [280 + 2 ** k for k in range(1, 12)]


# ------------------------------------------------------------------------------------------------ specification in Python
def kraft(lens):
    return sum(Fraction(1, 2 ** l) for l in lens if l)


def single_len1(lens):
    return [l for l in lens if l] == [1]


def spec_accepts(lens):
    return kraft(lens) == 1 or single_len1(lens)


def canonical(lens):
    """RFC 1951 3.2.2; returns {code string: symbol}. Single used symbol of length 1 => empty code."""
    if single_len1(lens):
        return {"": [i for i, l in enumerate(lens) if l][0]}
    mx = max(lens) if lens else 0
    bl = [0] * (mx + 2)
    for l in lens:
        if l:
            bl[l] += 1
    nxt = [0] * (mx + 2)
    code = 0
    for b in range(1, mx + 1):
        code = (code + bl[b - 1]) << 1
        nxt[b] = code
    tab = {}
    for n, l in enumerate(lens):
        if l:
            v = nxt[l] % (1 << l)
            nxt[l] += 1
            tab[format(v, "0%db" % l)] = n
    return tab


def table_decode_many(tab, bits, n):
    """greedy decode by code table, at most n symbols; returns (symbols, consumed)"""
    out, pos = [], 0
    if "" in tab:
        return [tab[""]] * n, 0
    mx = max(len(c) for c in tab) if tab else 0
    for _ in range(n):
        hit = None
        for k in range(1, mx + 1):
            if pos + k > len(bits):
                break
            s = tab.get(bits[pos:pos + k])
            if s is not None:
                hit = (s, k)
                break
        if hit is None:
            break
        out.append(hit[0])
        pos += hit[1]
    return out, pos


def spec_huff(lens, bits, n):
    if not spec_accepts(lens):
        return "err parse InvalidVp8lPrefixCode"
    tab = canonical(lens)
    ss, pos = table_decode_many(tab, bits, n)
    longest = 0 if single_len1(lens) else max(lens)
    return "ok %d %s %d" % (longest, ",".join(map(str, ss)) or "-", pos)


def spec_table(syms, bits, n, with_longest):
    """from_symbols / compile_read_tree on an explicit code table: accepted iff the codes are a complete prefix code"""
    codes = [c for _, c in syms]
    ok = bool(codes)
    for i, a in enumerate(codes):
        for j, b in enumerate(codes):
            if i != j and b.startswith(a):
                ok = False
    if ok and sum(Fraction(1, 2 ** len(c)) for c in codes) != 1:
        ok = False
    if not ok:
        return None
    tab = {c: s for s, c in syms}
    ss, pos = table_decode_many(tab, bits, n)
    longest = (0 if len(syms) == 1 else max(len(c) for c in codes)) if with_longest else None
    return "ok %s %s %d" % ("-" if longest is None else longest, ",".join(map(str, ss)) or "-", pos)


# ------------------------------------------------------------------------------------------------ generators
def fmt_lens(lens):
    return ",".join(map(str, lens)) or "-"


def huff_line(lens, bits, n=None):
    return "huff %s %s %d" % (fmt_lens(lens), bits or "-", len(bits) + 1 if n is None else n)


def rand_bits(rng, k):
    mode = rng.random()
    if mode < 0.6:
        return "".join(rng.choice("01") for _ in range(k))
    if mode < 0.75:
        p = rng.choice([0.1, 0.25, 0.75, 0.9])
        return "".join("1" if rng.random() < p else "0" for _ in range(k))
    if mode < 0.85:
        return "1" * k
    if mode < 0.95:
        return "0" * k
    return ("01" * k)[:k]


def complete_lengths(rng, k, maxlen=15):
    """k leaf depths of a random full binary tree of height <= maxlen (Kraft sum exactly 1), k >= 2"""
    leaves = [1, 1]
    while len(leaves) < k:
        cand = [i for i, d in enumerate(leaves) if d < maxlen]
        if not cand:
            break
        # bias: sometimes always split the deepest (skewed tree), sometimes uniform
        i = rng.choice(cand) if rng.random() < 0.7 else max(cand, key=lambda j: leaves[j])
        d = leaves.pop(i)
        leaves += [d + 1, d + 1]
    return leaves


def place(rng, size, depths):
    lens = [0] * size
    pos = rng.sample(range(size), len(depths))
    rng.shuffle(depths)
    for p, d in zip(pos, depths):
        lens[p] = d
    return lens


def random_vector(rng, size, kind):
    k = rng.randint(2, min(size, rng.choice([3, 8, 40, size])))
    lens = place(rng, size, complete_lengths(rng, k))
    used = [i for i, l in enumerate(lens) if l]
    free = [i for i, l in enumerate(lens) if not l]
    if kind == "complete":
        # sometimes cut trailing zeros (max_symbol_reads < alphabet size)
        if rng.random() < 0.3:
            while lens and lens[-1] == 0:
                lens.pop()
        return lens
    if kind == "under":
        m = rng.random()
        i = rng.choice(used)
        if m < 0.4:
            lens[i] = 0
        elif m < 0.8 and lens[i] < 15:
            lens[i] += rng.randint(1, 15 - lens[i])
        elif free:
            # remove one and add a longer one elsewhere
            lens[free[0]] = min(15, lens[i] + 1)
            lens[i] = 0
        else:
            lens[i] = 0
        return lens
    if kind == "over":
        m = rng.random()
        i = rng.choice(used)
        if m < 0.4 and lens[i] > 1:
            lens[i] -= rng.randint(1, lens[i] - 1)
        elif free:
            lens[rng.choice(free)] = rng.randint(1, 15)
        else:
            lens[i] = 1
        return lens
    if kind == "wrap":
        # several shortest codes filling the space early, then more symbols (the increment wraps to all zeros)
        l = rng.randint(1, 4)
        cnt = 2 ** l
        pos = rng.sample(range(size), min(size, cnt + rng.randint(1, 6)))
        lens = [0] * size
        for j, p in enumerate(pos):
            lens[p] = l if j < cnt else rng.randint(l, 15)
        return lens
    if kind == "single":
        lens = [0] * size
        lens[rng.randrange(size)] = rng.choice([1, 1, 1, 2, 3, 8, 15])
        return lens
    if kind == "noise":
        dens = rng.choice([0.02, 0.1, 0.5, 1.0])
        return [rng.randint(1, 15) if rng.random() < dens else 0 for _ in range(size)]
    raise ValueError(kind)


CORPUS = [
    ([], ""), ([0], "0"), ([0, 0, 0], "01"), ([1], "0101"), ([0, 1, 0], "111"), ([2], "00"), ([0, 0, 5], "00000"),
    ([1, 1], "0110"), ([1, 1, 1], "01"), ([1, 1, 1, 2], "0"), ([2, 1, 3, 3], "0101101111"), ([1, 2], "010"), ([2, 2, 2], "00011011"),
    ([2, 2, 2, 2, 2], "0001"), ([1, 2, 2, 2], "010"), ([3, 3, 3, 3, 3, 3, 3, 3], "000001010011100101110111"), ([1, 2, 3, 4, 5, 5], "11111111101"),
    ([15] * 2, "0" * 15), ([1, 15], "0" + "0" * 15 + "1"), ([1] + [2] + [3] + [4] + [5] + [6] + [7] + [8] + [9] + [10] + [11] + [12] + [13] + [14] + [15, 15],
                                                          "1" * 15 + "0" + "1" * 14 + "0"),
    ([0, 1, 1, 0], "0"), ([1, 0, 0, 1], "1"), ([1, 1, 0, 1], "1"), ([3, 3, 2, 2, 2], "1100"),
]


def small_vectors(nsym, maxlen):
    for k in range(nsym + 1):
        for v in itertools.product(range(maxlen + 1), repeat=k):
            yield list(v)


def all_bits(maxlen):
    for k in range(maxlen + 1):
        for t in itertools.product("01", repeat=k):
            yield "".join(t)


def rand_table(rng):
    """arbitrary (symbol, code) lists for from_symbols / compile_read_tree: complete, duplicate, orphaned, missing"""
    m = rng.random()
    depths = complete_lengths(rng, rng.randint(2, 9), maxlen=6)
    tab = canonical(depths)
    entries = [(rng.randint(0, 300), c) for c, _ in sorted(tab.items(), key=lambda kv: rng.random())]
    if m < 0.35:
        return entries
    if m < 0.5:
        i = rng.randrange(len(entries))
        del entries[i]
        return entries
    if m < 0.65:
        s, c = rng.choice(entries)
        entries.insert(rng.randint(0, len(entries)), (rng.randint(0, 300), c))        # duplicate
        return entries
    if m < 0.8:
        s, c = rng.choice(entries)
        entries.insert(rng.randint(0, len(entries)), (rng.randint(0, 300), c + rng.choice(["0", "1", "01"])))   # below a leaf
        return entries
    if m < 0.9:
        s, c = rng.choice(entries)
        entries.insert(rng.randint(0, len(entries)), (rng.randint(0, 300), c[:-1]))   # an internal node
        return entries
    return [(rng.randint(0, 300), "".join(rng.choice("01") for _ in range(rng.randint(0, 4)))) for _ in range(rng.randint(0, 6))]


def fmt_table(entries):
    return ";".join("%d:%s" % (s, c) for s, c in entries) or "-"


def gen(run):
    rng = run.rng
    quick = run.tier == "quick"
    for lens, bits in CORPUS:
        yield huff_line(lens, bits), "corpus"
        yield huff_line(lens, bits + "1"), "corpus"
    # the simple-code shapes of lossless.rs and hand-made tables
    for a, b in [(0, 0), (0, 1), (1, 0), (5, 5), (255, 0), (17, 200), (255, 255)]:
        for bits in ["", "0", "1", "0110", "111000"]:
            yield "huffsym %d:0;%d:1 %s %d" % (a, b, bits or "-", len(bits) + 1), "simple-code"
    for a in [0, 1, 7, 255]:
        for bits, n in [("", 0), ("", 3), ("1", 4), ("0101", 9)]:
            yield "huffsym %d: %s %d" % (a, bits or "-", n), "simple-code"
    for t in ["-", "1:", "1:;2:", "1:;2:0", "1:0;2:", "1:0", "1:1", "1:0;2:0", "1:0;2:00", "1:00;2:0", "1:0;2:1;3:1", "1:00;2:01;3:1",
              "1:00;2:01;3:10", "1:1;2:01;3:00", "1:000;2:1", "1:0;1:1", "1:0;2:10;3:110;4:111", "1:0;2:10;3:110;4:111;5:1"]:
        for kind in ("huffsym", "hufftree"):
            yield "%s %s %s %d" % (kind, t, "0110111001", 11), "tables"
    # exhaustive small domain
    nsym, maxlen, blen = 6, 5, (5 if quick else 6)
    for v in small_vectors(nsym, maxlen):
        k = rng.randint(0, 14)
        yield huff_line(v, rand_bits(rng, k)), "exhaustive-vectors"
        if spec_accepts(v):
            for b in all_bits(blen if len(v) <= 5 or not quick else 4):
                yield huff_line(v, b), "exhaustive-bits"
    # real alphabets
    per = 6 if quick else 120
    for size in ALPHABETS:
        for kind in ("complete", "complete", "complete", "under", "over", "wrap", "single", "noise"):
            for _ in range(per if size <= 600 or not quick else max(2, per // 3)):
                v = random_vector(rng, size, kind)
                nb = rng.choice([0, 1, 7, 15, 16, 64, 200]) if quick else rng.choice([0, 1, 15, 16, 64, 200, 1000])
                yield huff_line(v, rand_bits(rng, nb)), "alphabet-%s" % kind
    # long bit strings (several buffer refills at capacity 4096 bytes)
    for _ in range(4 if quick else 60):
        size = rng.choice(ALPHABETS)
        v = random_vector(rng, size, "complete")
        nb = rng.choice([33000, 40000]) if quick else rng.randint(33000, 60000)
        yield huff_line(v, rand_bits(rng, nb)), "long-bits"
    # the same codes with the (symbol, length) pairs listed in another order: reversed, rotated, shuffled, the code-length wire order,
    # used symbols only / used symbols first; the code must be the canonical one whatever the listing ("ties by symbol value")
    WIRE = [17, 18, 0, 1, 2, 3, 4, 5, 16, 6, 7, 8, 9, 10, 11, 12, 13, 14, 15]
    lst = [v for v in small_vectors(5, 4)][:: (7 if quick else 2)]
    for size in (19, 40, 256, 280):
        for kind in ("complete", "complete", "under", "single"):
            for _ in range(3 if quick else 40):
                lst.append(random_vector(rng, size, kind))
    for v in lst:
        pairs = list(enumerate(v))
        orders = [list(reversed(pairs)), pairs[len(pairs) // 2:] + pairs[:len(pairs) // 2], rng.sample(pairs, len(pairs)),
                  [p for p in pairs if p[1]] + [p for p in pairs if not p[1]], sorted(pairs, key=lambda p: (-p[1], -p[0]))]
        if len(v) == 19:
            orders.append([(s, v[s]) for s in WIRE])
        bits = rand_bits(rng, rng.choice([0, 7, 16, 64, 200]))
        for o in orders:
            yield "huffl %s %s %d" % (",".join("%d:%d" % p for p in o) or "-", bits or "-", len(bits) + 1), "listing-order"
    # the same decoding through a small bit buffer (16..64 bytes: a refill every few symbols, long code words straddling it)
    for _ in range(40 if quick else 1200):
        size = rng.choice([19, 40, 256, 280])
        v = random_vector(rng, size, "complete") if rng.random() < .6 else list(range(1, 16)) + [15]
        nb = rng.choice([600, 2000, 6000])
        yield "huffc %d %s" % (rng.choice([16, 17, 24, 32, 33, 64]), huff_line(v, rand_bits(rng, nb)).split(" ", 1)[1]), "small-buffer"
    # arbitrary tables
    for _ in range(300 if quick else 6000):
        t = rand_table(rng)
        bits = rand_bits(rng, rng.randint(0, 24))
        yield "hufftree %s %s %d" % (fmt_table(t), bits or "-", len(bits) + 1), "tables-random"
        yield "huffsym %s %s %d" % (fmt_table(t), bits or "-", len(bits) + 1), "tables-random"


# ------------------------------------------------------------------------------------------------ comparison / oracle
def _parse(line):
    t = line.split()
    if t[0] == "huffc":
        t = ["huff"] + t[2:]
    kind, a, bits, n = t[0], t[1], ("" if t[2] == "-" else t[2]), int(t[3])
    if kind == "huff":
        arg = [] if a == "-" else [int(x) for x in a.split(",")]
    elif kind == "huffl":
        # the listing as a symbol-indexed vector: what the code must be is a function of that alone
        ps = [] if a == "-" else [tuple(int(x) for x in e.split(":")) for e in a.split(",")]
        arg = [0] * (max((s for s, _ in ps), default=-1) + 1)
        for s_, l_ in ps:
            arg[s_] = l_
    else:
        arg = [] if a == "-" else [(int(e.split(":")[0]), e.split(":")[1]) for e in a.split(";")]
    return kind, arg, bits, n


def same(line, impl, model):
    return impl == model


def classify(line, impl):
    if not impl:
        return "missing"
    t = impl.split()
    if t[0] == "ok":
        return "accepted-zero-bits" if t[1] == "0" else "accepted"
    return " ".join(t[:3])


def nontrivial(line, impl):
    kind, arg, bits, n = _parse(line)
    if kind in ("huff", "huffl"):
        return sum(1 for l in arg if l) >= 1
    return len(arg) >= 1


def oracle(run, pairs):
    """Specification side, twice: the Python transcription above, and the extracted HuffmanSpec.spec_observation."""
    out = []
    spec_lines, idx = [], {}
    for k, (line, impl) in enumerate(pairs):
        if line.startswith(("huff ", "huffc ")):
            idx[k] = "o%d" % len(spec_lines)
            spec_lines.append("%s huffspec %s" % (idx[k], line[5:] if line.startswith("huff ") else line.split(" ", 2)[2]))
    ext = run.driver(spec_lines) if spec_lines and run.driver_bin else {}
    for k, (line, impl) in enumerate(pairs):
        kind, arg, bits, n = _parse(line)
        if kind == "huffl":
            want = spec_huff(arg, bits, n)
            out.append((impl == want, "listing order must not matter: expected %s" % want[:120]))
            continue
        if kind == "huff":
            want = spec_huff(arg, bits, n)
            ok = impl == want
            why = "Kraft sum %s, single-length-1 %s => expected %s" % (kraft(arg), single_len1(arg), want[:120])
            if ok and ext:
                e = ext.get(idx[k], "missing")
                e = "err parse InvalidVp8lPrefixCode" if e == "reject" else e
                if e != impl:
                    ok, why = False, "extracted HuffmanSpec.spec_observation gives %s" % e[:120]
            out.append((ok, why))
        else:
            want = spec_table(arg, bits, n, kind == "huffsym")
            if want is None:
                ok = impl.startswith("err parse InvalidVp8lPrefixCode") if kind == "huffsym" else impl.startswith("err tree ")
                out.append((ok, "code table is not a complete prefix code => expected rejection"))
            else:
                out.append((impl == want, "complete prefix code table => expected %s" % want[:120]))
    return out


def search(run, disagreements):
    rng = run.rng
    # denser small domain: 7 symbols, lengths 0..3, several bit strings each
    for v in small_vectors(7, 3):
        yield huff_line(v, rand_bits(rng, 12)), "search"
    for v in small_vectors(6, 5):
        if spec_accepts(v) or sum(1 for l in v if l) == 1:
            for b in all_bits(7):
                yield huff_line(v, b), "search"
    for line, _, _ in disagreements[:50]:
        kind, arg, bits, n = _parse(line)
        if kind != "huff":
            continue
        for _ in range(40):
            v = list(arg)
            if v:
                i = rng.randrange(len(v))
                v[i] = max(0, min(15, v[i] + rng.choice([-1, 1])))
            yield huff_line(v, rand_bits(rng, 64)), "search"
    for size in ALPHABETS:
        for kind in ("complete", "under", "over", "wrap", "single", "noise"):
            for _ in range(40):
                yield huff_line(random_vector(rng, size, kind), rand_bits(rng, 200)), "search"


def coq_bool(line, model_out):
    kind, arg, bits, n = _parse(line)
    if len(line) > 1500 or n > 200:
        return None
    blist = "[" + ";".join("true" if c == "1" else "false" for c in bits) + "]"
    if kind == "huff":
        r = "new_vec [%s]" % ";".join(map(str, arg))
    elif kind == "huffsym":
        r = "from_symbols [%s]" % ";".join("(%d, [%s])" % (s, ";".join("true" if c == "1" else "false" for c in code)) for s, code in arg)
    else:
        return None
    t = model_out.split()
    if t[0] != "ok":
        return "match observe (%s) %d %s with None => true | Some _ => false end" % (r, n, blist)
    ss = "[]" if t[2] == "-" else "[%s]" % ";".join(t[2].split(","))
    return ("match observe (%s) %d %s with Some (l, ss, c) => (l =? %s) && (if list_eq_dec N.eq_dec ss %s then true else false) && (c =? %s) "
            "| None => false end" % (r, n, blist, t[1], ss, t[3]))


LEVEL_TEXT = ("Coq theorems (all code-length vectors, all bit strings, no bound) about a hand-written Gallina model of "
              "CanonicalHuffmanTree::{new,from_symbols,symbols,longest_code_len} and bitstream-io's trie builder / decoder, relating it to an "
              "independent specification (Kraft equality, RFC 1951 canonical assignment, decode by table); plus model/implementation "
              "correspondence: exhaustive over <= 6 symbols x lengths 0..5, seeded random over the real alphabets, random bit strings; the same "
              "codes with their (symbol, length) pairs listed in other orders (`huffl`; C18_listing_order_irrelevant: permuted listings give the same code).")
LEVEL_NOTE = ("Trusted: Coq kernel; the hand-written model (tied by the differential check); the specification file; extraction and the OCaml driver; "
              "the Rust harness. No axioms.")
TECHNIQUE = "Coq proof over a hand-written model + differential check of extracted model vs Rust + specification oracle on implementation outputs"
DESIGN_REF = "DESIGN.md section 7 (C18), Appendix A (bitstream_io)"
