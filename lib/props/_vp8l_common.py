"""Shared by c07.py and c08.py (area vp8l): case construction, encoder-driven corpus, comparison, classification."""
import os
from . import _c19_vp8l as V
from . import _c07_vp8l as G

VERIF = os.path.dirname(os.path.dirname(os.path.dirname(os.path.abspath(__file__))))


def hx(b):
    return b.hex() if b else "-"


def case(w, h, body):
    return "vp8l %d %d %s" % (w, h, hx(body))


def fields(out):
    return dict(t.split("=", 1) for t in out.split() if "=" in t)


def corpus_lines(prop):
    d = os.path.join(VERIF, "corpus", prop)
    if not os.path.isdir(d):
        return
    for f in sorted(os.listdir(d)):
        if not f.endswith(".txt"):
            continue
        for line in open(os.path.join(d, f)):
            line = line.split("#")[0].strip()
            if line:
                yield line


# ------------------------------------------------------------------------------------------------ RIFF helpers
def riff_chunks(f):
    """[(name, body)] of the top-level chunks; ANMF bodies are returned as they are"""
    p, res = 12, []
    while p + 8 <= len(f):
        n = int.from_bytes(f[p + 4:p + 8], "little")
        res.append((f[p:p + 4], f[p + 8:p + 8 + n]))
        p += 8 + n + (n & 1)
    return res


def sub_chunks(body, start):
    p, res = start, []
    while p + 8 <= len(body):
        n = int.from_bytes(body[p + 4:p + 8], "little")
        res.append((body[p:p + 4], body[p + 8:p + 8 + n]))
        p += 8 + n + (n & 1)
    return res


def vp8l_dims(payload):
    bits = int.from_bytes(payload[1:5], "little")
    return (bits & 0x3fff) + 1, ((bits >> 14) & 0x3fff) + 1


def lossless_payloads(f):
    """every lossless stream of a file: (w, h, body) for VP8L chunks and losslessly compressed ALPH chunks (top level and in frames)"""
    out = []
    canvas = None
    for name, body in riff_chunks(f):
        if name == b"VP8X" and len(body) >= 10:
            canvas = (int.from_bytes(body[4:7], "little") + 1, int.from_bytes(body[7:10], "little") + 1)
        elif name == b"VP8L" and len(body) >= 5:
            w, h = vp8l_dims(body)
            out.append(("VP8L", w, h, body[5:]))
        elif name == b"ALPH" and canvas and body and (body[0] & 3) == 1:
            out.append(("ALPH", canvas[0], canvas[1], body[1:]))
        elif name == b"ANMF" and len(body) >= 16:
            fw, fh = int.from_bytes(body[6:9], "little") + 1, int.from_bytes(body[9:12], "little") + 1
            for n2, b2 in sub_chunks(body, 16):
                if n2 == b"VP8L" and len(b2) >= 5:
                    w, h = vp8l_dims(b2)
                    out.append(("VP8L", w, h, b2[5:]))
                elif n2 == b"ALPH" and b2 and (b2[0] & 3) == 1:
                    out.append(("ALPH", fw, fh, b2[1:]))
    return out


# ------------------------------------------------------------------------------------------------ encoder-driven corpus
PATTERNS = [0, 1, 2, 3, 4, 5, 6]


def enc_line(rng, lossless, w, h, alpha=None):
    """enc <lossless> <w> <h> <method> <quality> <pattern> <colors> <alpha> <seed> <near_lossless> <exact> <afilter> <aquality> <acomp>"""
    if alpha is None:
        alpha = rng.choice([0, 0, 1, 2, 3, 4])
    return "enc %d %d %d %d %d %d %d %d %d %d %d %d %d %d" % (
        1 if lossless else 0, w, h, rng.randint(0, 6), rng.choice([0, 25, 50, 75, 90, 100]), rng.choice(PATTERNS),
        rng.choice([1, 2, 3, 4, 5, 16, 17, 100, 256]), alpha, rng.getrandbits(30),
        rng.choice([100, 100, 100, 60, 20, 0]), rng.randint(0, 1), rng.randint(0, 2), rng.choice([100, 100, 80, 30]), 1)


def enc_sizes(rng, n, wide):
    out = []
    for i in range(n):
        k = rng.random()
        if k < 0.45:
            out.append((rng.randint(1, 40), rng.randint(1, 40)))
        elif k < 0.8:
            out.append((rng.randint(1, 200), rng.randint(1, 200)))
        else:
            out.append((rng.randint(100, 512), rng.randint(100, 512)))
    for i in range(wide):
        out.append(rng.choice([(16384, rng.randint(1, 6)), (rng.randint(1, 6), 16384), (16383, 2), (8192, 3), (4097, 5)]))
    return out


def run_generators(run, lines):
    """run generator kinds (enc / anim / mux / muxanim) through the harness; returns the files in order (None on failure)"""
    res = run.harness(["g%d %s" % (i, l) for i, l in enumerate(lines)])
    out = []
    for i in range(len(lines)):
        v = res.get("g%d" % i, "")
        out.append(bytes.fromhex(v[4:]) if v.startswith("hex ") else None)
    return out


def mutations(rng, body, flips, splices, cuts, every_byte_upto=0):
    """bit flips (biased to the header phase = the front of the stream), splices, truncations"""
    n = len(body)
    out = []
    if n == 0:
        return out
    front = min(n, 96)
    for _ in range(flips):
        d = bytearray(body)
        for _ in range(rng.choice([1, 1, 1, 2, 4])):
            p = rng.randrange(front) if rng.random() < 0.8 else rng.randrange(n)
            d[p] ^= 1 << rng.randrange(8)
        out.append(("flip", bytes(d)))
    for _ in range(splices):
        a, b = rng.randrange(front), rng.randrange(n)
        k = rng.random()
        if k < 0.4:
            d = body[:a] + body[b:]
        elif k < 0.7:
            d = body[:a] + bytes(rng.getrandbits(8) for _ in range(rng.randint(1, 8))) + body[a:]
        else:
            d = body[:a] + body[b:b + rng.randint(1, 16)] + body[a:]
        out.append(("splice", d))
    for c in range(min(every_byte_upto, n)):
        out.append(("cut", body[:c]))
    for _ in range(cuts):
        out.append(("cut", body[:rng.randrange(n)]))
    return out


# ------------------------------------------------------------------------------------------------ comparison
EXCUSED_RULE = "reject:symbol-outside-alphabet"


def same_vp8l(impl, model):
    """model = implementation (exact error kinds, both entry points) and specification = libwebp (verdict).
    One documented exception for the second: libwebp tolerates an out-of-alphabet symbol in a two-symbol simple distance code,
    the specification (rule symbol-outside-alphabet) does not."""
    a, b = fields(impl), fields(model)
    if a.get("impl") != b.get("impl") or a.get("san") != b.get("san"):
        return False
    ref, spec = a.get("ref"), b.get("ref", "")
    if ref in ("na", "oom") or spec == "skip":
        return True
    if ref == spec.split(":")[0]:
        return True
    return ref == "accept" and spec == EXCUSED_RULE


def classify_vp8l(impl):
    a = fields(impl)
    return "%s/%s" % (a.get("impl", "missing"), a.get("ref", "-"))


def coq_bytes(b):
    return "(" + " :: ".join("x%02x" % x for x in b) + " :: nil)%list" if b else "nil"


def coq_bool_vp8l(line, model_out, maxlen=160):
    t = line.split()
    if t[0] != "vp8l":
        return None
    body = b"" if t[3] == "-" else bytes.fromhex(t[3])
    if len(body) > maxlen or int(t[1]) * int(t[2]) > 1 << 16:
        return None
    m = fields(model_out)
    want = m.get("impl", "")
    if want == "ok":
        pat = "Ok _ => true | _ => false"
    elif want == "err:TruncatedChunk":
        pat = "EParse TruncatedChunk => true | _ => false"
    elif want == "err:InvalidInput":
        pat = "EParse WInvalidInput => true | _ => false"
    elif want == "err:InvalidVp8lPrefixCode":
        pat = "EParse InvalidVp8lPrefixCode => true | _ => false"
    else:
        return None
    bs = coq_bytes(body)
    e = "match Vp8l.lossless_read %s %s %s with %s end" % (t[1], t[2], bs, pat)
    spec = m.get("ref", "")
    if spec and spec != "skip":
        e = "andb (%s) (Bool.eqb (Vp8lSpec.vp8l_spec %s %s %s) %s)" % (e, t[1], t[2], bs, "true" if spec == "accept" else "false")
    return e
