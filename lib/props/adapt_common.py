"""Shared by c15.py and c12.py (area "adapt"): stack tables (must match harness/src/adapt.rs), the ideal-cursor
oracle in Python, an MP4 builder for the sanitizer-level Pending runs, Gallina term printers for the in-Coq cross-check."""
import struct

SYNC_LAYERS = ["B", "buf(B)", "box(B)", "mut(B)", "dynbox(B)", "buf(buf(B))", "buf(box(B))", "box(buf(B))", "buf(mut(B))",
               "mut(buf(B))", "buf(dynbox(B))", "dynbox(buf(B))", "box(box(B))", "mut(mut(B))", "buf(buf(buf(B)))",
               "buf(box(buf(B)))", "mut(box(buf(B)))"]
SYNC_BASES = ["cursor", "seek(cursor)", "seek(mut(cursor))", "seek(box(cursor))"]
ASYNC_LAYERS = ["B", "fbuf(B)", "box(B)", "mut(B)", "pin(B)", "pinmut(B)", "dynbox(B)", "fbuf(fbuf(B))", "fbuf(box(B))",
                "box(fbuf(B))", "fbuf(pin(B))", "pin(fbuf(B))", "fbuf(mut(B))", "mut(fbuf(B))", "fbuf(dynbox(B))",
                "dynbox(fbuf(B))", "pin(pin(B))", "fbuf(fbuf(fbuf(B)))", "pin(box(fbuf(B)))"]
ASYNC_BASES = ["fcursor", "seek(fcursor)", "seek(mut(fcursor))", "seek(pc)", "native"]
AIN_INNER = ["cursor", "buf(cursor)", "seek(cursor)", "buf(seek(cursor))", "box(buf(cursor))", "mut(cursor)"]

U64 = 2 ** 64
I64MAX = 2 ** 63 - 1


def stack(layers, base):
    return layers.replace("B", base)


def ncaps(st):
    return st.count("buf(")   # buf( and fbuf(


def sync_stacks():
    return [stack(l, b) for b in SYNC_BASES for l in SYNC_LAYERS]


def async_stacks():
    out = [stack(l, b) for b in ASYNC_BASES for l in ASYNC_LAYERS]
    out += [stack(l, "ain(%s)" % i) for i in AIN_INNER for l in ("B", "fbuf(B)", "box(fbuf(B))", "fbuf(fbuf(B))", "pin(B)")]
    return out


def hexs(b):
    return b.hex() if b else "-"


# ---------------------------------------------------------------------------------------------- data of a hist line
class Stream:
    """the bytes a hist line is about: dense hex, or the sparse virtual stream V<len>@<off>:<hex>@... (zero background)"""

    def __init__(self, spec):
        if spec.startswith("V"):
            parts = spec[1:].split("@")
            self.n = int(parts[0])
            self.exts = [(int(o), bytes.fromhex(h)) for o, h in (e.split(":") for e in parts[1:])]
        else:
            d = bytes.fromhex(spec) if spec != "-" else b""
            self.n, self.exts = len(d), [(0, d)]

    def get(self, pos, k):
        k = max(0, min(k, self.n - pos))
        out = bytearray(k)
        for o, d in reversed(self.exts):          # the first extent listed wins (as in the harness and the model)
            a, b = max(pos, o), min(pos + k, o + len(d))
            if a < b:
                out[a - pos:b - pos] = d[a - o:b - o]
        return bytes(out)


def vspec(n, exts):
    return "V%d" % n + "".join("@%d:%s" % (o, d.hex()) for o, d in exts)


# ---------------------------------------------------------------------------------------------- ideal cursor
def cdr_frame(line):
    """cdr <depth> <stack> <caps> <hexdata> <ops>: (stream, ops, start, limit, length) of the data reader's ideal cursor:
    it stands behind the chunk header(s), ends with the innermost chunk body (or the parent's, or the data), reports the
    PARENT's positions and the parent's length.  None when a header cannot be read."""
    t = line.split()
    depth = int(t[1])
    st = Stream(t[4])
    ops = [o for o in t[5].split(";") if o]
    start, limit = 0, st.n
    for _ in range(depth):
        if limit - start < 8:
            return None
        ln = int.from_bytes(st.get(start + 4, 4), "little")
        start += 8
        limit = min(limit, start + ln)
    return st, ops, start, limit, st.n


def ideal_hist(line, impl):
    """Specification side for a `hist` / `cdr` line: an ideal forward-only cursor over the same bytes.
    Returns (ok, why).  Nothing is claimed after the first operation that leaves the stream."""
    t = line.split()
    if t[0] == "cdr":
        fr = cdr_frame(line)
        if fr is None:
            return impl == "hdr-err", "no chunk header to read: " + impl
        st, ops, pos, n, total = fr
    else:
        st = Stream(t[3])
        ops = [o for o in t[4].split(";") if o]
        pos, n, total = 0, st.n, st.n
    if impl in ("panic", "missing", "timeout", "unknown-stack", "hdr-err", "no-hook") or impl.startswith("unknown"):
        return False, "no observation: %s" % impl
    outs = impl.split(";")
    if len(outs) != len(ops):
        return False, "%d answers for %d operations" % (len(outs), len(ops))
    for i, (o, r) in enumerate(zip(ops, outs)):
        c = o[0]
        if c == "r":
            k = int(o[1:])
            if not r.startswith("b:"):
                return False, "op %d %s: read failed: %s" % (i, o, r)
            b = bytes.fromhex(r[2:]) if r != "b:-" else b""
            if len(b) > k:
                return False, "op %d %s: more bytes than asked" % (i, o)
            if st.get(pos, len(b)) != b or pos + len(b) > n:
                return False, "op %d %s at %d: bytes %s are not the next bytes of the stream" % (i, o, pos, r)
            if (len(b) == 0) != (k == 0 or pos >= n):
                return False, "op %d %s at %d of %d: %s (early/late end-of-stream)" % (i, o, pos, n, r)
            pos += len(b)
        elif c == "x":
            k = int(o[1:])
            if pos + k > n:
                return True, "left the stream at op %d" % i
            if r != "b:" + hexs(st.get(pos, k)):
                return False, "op %d %s at %d: %s" % (i, o, pos, r)
            pos += k
        elif c == "s":
            a = int(o[1:])
            if pos + a > n:
                return True, "left the stream at op %d" % i
            if r != "u":
                return False, "op %d %s at %d: %s" % (i, o, pos, r)
            pos += a
        elif c == "p":
            if r != "n:%d" % pos:
                return False, "op %d position: %s, ideal %d" % (i, r, pos)
        elif c == "l":
            if r != "n:%d" % total:
                return False, "op %d length: %s, ideal %d" % (i, r, total)
    return True, "ideal"


def stays_within(line):
    t = line.split()
    if t[0] == "cdr":
        fr = cdr_frame(line)
        if fr is None:
            return False
        _, ops, pos, n, _ = fr
    else:
        n = Stream(t[3]).n
        pos = 0
        ops = t[4].split(";")
    for o in ops:
        if not o:
            continue
        if o[0] in "xs":
            pos += int(o[1:])
            if pos > n:
                return False
        elif o[0] == "r":
            pos = min(n, pos + int(o[1:]))   # upper bound; short reads only make it smaller
    return True


# ---------------------------------------------------------------------------------------------- Gallina printers
def coq_bytes(b):
    return "[" + "; ".join("x%02x" % x for x in b) + "]"


def coq_op(o):
    c = o[0]
    if c == "r":
        return "ORead %s" % o[1:]
    if c == "x":
        return "OReadExact %s" % o[1:]
    if c == "s":
        return "OSkip %s" % o[1:]
    return "OPos" if c == "p" else "OLen"


def coq_obs_pattern(r):
    if r.startswith("b:"):
        return "Ok (VBytes %s)" % coq_bytes(bytes.fromhex(r[2:]) if r != "b:-" else b"")
    if r == "u":
        return "Ok VUnit"
    if r.startswith("n:"):
        return "Ok (VNum %s)" % r[2:]
    if r.startswith("e:"):
        return "EIo E%s" % r[2:]
    return None


def parse_stack(s):
    i = s.find("(")
    if i < 0:
        return (s, None)
    return (s[:i], parse_stack(s[i + 1:-1]))


def coq_sync_reader(st, caps, data):
    """(reader term, initial state term) of the synchronous view of a stack"""
    caps = list(caps)

    def go(node):
        name, inner = node
        if inner is None:
            if name == "cursor":
                return "(cursor_reader U64MAXN)", "{| cdata := %s; cpos := 0 |}" % coq_bytes(data)
            if name in ("fcursor", "native"):
                return "(fut_view (cursor_reader U64MAXN))", "{| cdata := %s; cpos := 0 |}" % coq_bytes(data)
            return None
        if name == "seek":
            return "(seek_adapter (std_cursor U64MAXN))", "{| cdata := %s; cpos := 0 |}" % coq_bytes(data)
        if name in ("buf", "fbuf"):
            c = caps.pop(0)
            r = go(inner)
            if r is None:
                return None
            return ("(%s %d %s)" % ("std_buf" if name == "buf" else "fut_buf", c, r[0]),
                    "(buf_init %s %s)" % (r[0], r[1]))
        r = go(inner)
        if r is None:
            return None
        if name == "ain":
            return "(async_input %s)" % r[0], r[1]
        return "(fwd %s)" % r[0], r[1]

    return go(parse_stack(st))


def is_async(st):
    return any(x in st for x in ("fcursor", "ain(", "pc)", "native", "avcur"))


# ---------------------------------------------------------------------------------------------- MP4 inputs
def box(t, payload=b"", size=None, ext=False):
    t = t.encode() if isinstance(t, str) else t
    if ext:
        return struct.pack(">I4sQ", 1, t, 16 + len(payload) if size is None else size) + payload
    return struct.pack(">I4s", 8 + len(payload) if size is None else size, t) + payload


def ftyp(compat=(b"isom",), major=b"isom"):
    return box("ftyp", major + b"\0\0\0\0" + b"".join(compat))


def moov(offsets=(0,), co64=False, size=None, ext=False):
    if co64:
        co = box("co64", b"\0\0\0\0" + struct.pack(">I", len(offsets)) + b"".join(struct.pack(">Q", o) for o in offsets))
    else:
        co = box("stco", b"\0\0\0\0" + struct.pack(">I", len(offsets)) + b"".join(struct.pack(">I", o) for o in offsets))
    inner = box("trak", box("mdia", box("minf", box("stbl", co))))
    return box("moov", inner, size=size, ext=ext)


def mdat(n=100, size=None, ext=False):
    return box("mdat", bytes((i * 7 + 1) % 256 for i in range(n)), size=size, ext=ext)


def mp4_inputs():
    """(name, bytes): inputs that drive every await point of sanitize_async_with_config"""
    F, M, D = ftyp(), moov((48,)), mdat(100)
    out = [
        ("ftyp-moov-mdat", F + M + D),
        ("ftyp-mdat-moov", F + D + M),
        ("ftyp-moov-mdat0", F + M + mdat(100, size=0)),                      # until-EOF mdat: stream_len + position
        ("ftyp-moov-mdat0-short", F + M + mdat(5, size=0)),
        ("ftyp-moov-mdat0-empty", F + M + mdat(0, size=0)),
        ("ftyp-mdat-moov0", F + D + moov((48,), size=0)),                      # until-EOF moov: stream_len + position
        ("ftyp-free-moov-mdat", F + box("free", b"\0" * 10) + M + D),
        ("ftyp-moov-free-mdat-free", F + M + box("free", b"\0" * 3) + D + box("free", b"\0" * 40)),
        ("ftyp-skip-mdat-skip-moov", F + box("skip", b"\0" * 50) + D + box("skip", b"") + M),
        ("ftyp-moov-meta-mdat", F + M + box("meta", b"\0" * 20) + D),
        ("ftyp-mdat-meco-moov", F + D + box("meco", b"\0" * 33) + M),
        ("ftyp-moov-mdatext", F + M + mdat(100, ext=True)),
        ("ftyp-moovext-mdat", F + moov((48,), ext=True) + D),
        ("ftypext-moov-mdat", box("ftyp", b"isom\0\0\0\0isom", ext=True) + M + D),
        ("ftyp-moov-mdat-mdat", F + M + D + mdat(40)),
        ("ftyp-mdat-free-mdat-moov", F + D + box("free", b"\0" * 9) + mdat(12) + M),
        ("ftyp-mdat-moov-mdat", F + D + M + mdat(7)),                          # discontiguous
        ("ftyp-moov-co64-mdat", F + moov((48, 60), co64=True) + D),
        ("ftyp-mdat-moov-co64", F + D + moov((48, 60), co64=True)),
        ("ftyp-moov-uuid", F + M + box("uuid", b"\x11" * 16 + b"\0" * 20) + D),  # unsupported box after skip
        ("ftyp-unknown0", F + M + D + box("abcd", b"\0" * 70, size=0)),          # until-EOF unknown box
        ("ftyp-free0", F + M + D + box("free", b"\0" * 70, size=0)),             # until-EOF free box
        ("ftyp-moov-mdat-big-free", F + M + D + box("free", b"\0" * 300, ext=True)),
        ("ftyp-moov-mdat-declared-long", F + M + mdat(20, size=1000)),           # skip past the end (lenient)
        ("ftyp-moov-free-declared-long", F + M + D + box("free", b"", size=5000)),
        ("moov-first", M + F + D),
        ("two-ftyp", F + F + M + D),
        ("no-moov", F + D),
        ("no-mdat", F + M),
        ("empty", b""),
        ("ftyp-only", F),
        ("not-isom", ftyp((b"mp41",), b"mp41") + M + D),
        ("ftyp-many-brands", ftyp((b"mp41", b"mp42", b"isom", b"avc1")) + M + D),
        ("ftyp-too-large", box("ftyp", b"isom\0\0\0\0" + b"isom" * 300) + M + D),
        ("moov-truncated", F + D + M[:-9]),
        ("moov-header-truncated", F + D + M[:5]),
        ("ext-header-truncated", F + M + mdat(100, ext=True)[:12]),
        ("ftyp-truncated", F[:13]),
        ("moov-no-trak", F + box("moov", b"") + D),
        ("size-too-small", F + M + box("mdat", b"", size=4)),
        ("two-moov", F + M + D + moov((48,))),
    ]
    # alignment sweep: the sanitizer reads through a 32-byte buffer that is refilled from wherever the previous skip ended;
    # a leading free box of 25..31 bytes (and a second one before the moov) makes the size / type fields of the following
    # box headers straddle a refill, so that a header read is split into a buffered part and a part that needs the inner
    # reader (where a Pending can hit it)
    for k in range(25, 32):
        out.append(("shift%d-ftyp-moov-mdat" % k, box("free", b"\0" * (k - 8)) + F + M + D))
        out.append(("shift%d-ftyp-mdat-free-moov" % k, F + box("free", b"\0" * 4) + mdat(12) + box("free", b"\0" * (k - 20)) + M + box("free", b"")))
    return out
