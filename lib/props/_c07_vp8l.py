"""Grammar-level writer of WebP lossless HEADER PHASES for C07 / C08, written from the WebP lossless bitstream specification
on top of the bit writer and canonical-code helpers of _c19_vp8l.py.

build(rng, violate=None, ...) returns (w, h, bytes, facts): a stream that is valid by construction (every transform order and
subset, every colour-cache size, meta prefix image or not, simple / normal codes, max_symbol, repeat runs, back references
with mapped and linear distances, cache symbols, zero-length codes) or, when `violate` names a rule, valid except for
exactly that rule at one randomly chosen place:

  dup-transform      a transform type announced a second time (with complete, valid data)
  cache-bits         colour-cache size bits 0 or 12..15
  symbol-count       max_symbol = alphabet + 1 .. (over-long symbol count)
  repeat-overrun     a repeat token (16/17/18) running past the end of the alphabet
  incomplete         one code length increased (Kraft sum < 1)
  oversubscribed     one code length decreased / one symbol added (Kraft sum > 1)
  empty              a code without any symbol
  outside-alphabet   simple distance code naming symbol >= 40 (alone: libwebp rejects; next to a valid one: libwebp tolerates)
  backref-start      a back reference whose distance exceeds the pixels decoded so far
  backref-end        a back reference whose length exceeds the pixels left
  predictor          a predictor sub-image literal with green 14, 15 or 16..255           (documented strictness, libwebp accepts)
  single-len         a normal code with a single used symbol whose length is 2..15         (documented strictness, libwebp accepts)
  clc-single-len     the same for the 19-symbol code-length code

  pal-width          after a colour-indexing transform with 2,3,4,5,16 or 17 colours the rest of the stream is sized with the pixel
                     packing of the NEIGHBOURING palette class (an off-by-one in the 2 / 4 / 16 thresholds)
  block-size         one sub-image sized with block bits + 1 or + 3 instead of + 2, or with floor instead of ceiling division
  early-fill         a sub-image whose green code has a single literal but whose red/blue/alpha codes do not: only the first pixel is
                     written, as if a single-symbol green code alone filled the image
(the last three are streams a reader with the corresponding arithmetic slip would accept; they are invalid for the specification
whenever the slip changes a pixel count)

corner(rng, name) builds the specification corner cases named in C08."""
from . import _c19_vp8l as V

VIOLATIONS = ["dup-transform", "cache-bits", "symbol-count", "repeat-overrun", "incomplete", "oversubscribed", "empty",
              "outside-alphabet", "backref-start", "backref-end", "predictor", "single-len", "clc-single-len",
              "pal-width", "block-size", "early-fill", "sixteen-after-zero"]
# violations that libwebp accepts (documented strictness of webpsan)
STRICTNESS = {"predictor", "single-len", "clc-single-len"}

SIZES = [1, 2, 3, 4, 5, 7, 8, 9, 15, 16, 17, 31, 32, 33, 63, 64, 65, 100, 127, 128, 129, 255, 256, 257, 511, 512, 513, 1000,
         1023, 1024, 1025, 4095, 4096, 4097, 8191, 8192, 16383, 16384]


def ceil_div(a, b):
    return (a + b - 1) // b


# ------------------------------------------------------------------------------------------------ prefix codes
def put_clc_and_tokens(bw, rng, toks, use_max, max_symbol_value=None, clc_lens=None):
    """normal-code body: code-length code for the token alphabet, optional max_symbol, the tokens."""
    used = sorted(set(t[0] for t in toks)) or [0]
    if clc_lens is None:
        clc_lens = dict(zip(rng.sample(used, len(used)), V.rand_lengths(rng, len(used), 7)))
    num = max(max(V.CODE_ORDER.index(s) for s in clc_lens) + 1, 4)
    bw.put(num - 4, 4)
    for s in V.CODE_ORDER[:num]:
        bw.put(clc_lens.get(s, 0), 3)
    codes = V.canon(clc_lens)
    if use_max:
        bw.put(1, 1)
        n = (len(toks) if max_symbol_value is None else max_symbol_value) - 2
        x = 0
        while n >= 2 ** (2 + 2 * x):
            x += 1
        bw.put(x, 3)
        bw.put(n, 2 + 2 * x)
    else:
        bw.put(0, 1)
    for s, extra, nb in toks:
        bw.code(codes.get(s, []))
        if nb:
            bw.put(extra, nb)


def write_normal(bw, rng, alphabet, lens, use_max=None, inject=None):
    """lens: list (index = symbol) of length <= alphabet."""
    bw.put(0, 1)
    lens = list(lens)
    if inject == "clc-single-len":
        # code-length code with a single used symbol of length 2..7: every token is that symbol (zero bits each for libwebp)
        sym = rng.choice([1, 2, 3, 8])
        put_clc_and_tokens(bw, rng, [], False, clc_lens={sym: rng.randint(2, 7)})
        return
    if inject == "sixteen-after-zero":
        # a complete code in which part of a run of zero lengths is written as token 16 right after a zero: token 16 repeats the last
        # NON-ZERO length (8 before any), so the code really described has extra symbols (over-subscribed, or at least another code)
        # while a reader that repeats the PREVIOUS length sees the complete code
        runs, i = [], 0
        while i < len(lens):
            if lens[i] == 0:
                j = i
                while j < len(lens) and lens[j] == 0:
                    j += 1
                if j - i >= 4:
                    runs.append((i, j - i))
                i = j
            else:
                i += 1
        if runs:
            st, ln = rng.choice(runs)
            k = rng.randint(st + 1, st + ln - 3)
            r = rng.randint(3, min(6, st + ln - k))
            toks = V.rle(lens[:k]) + [(16, r - 3, 2)] + V.rle(lens[k + r:])
            put_clc_and_tokens(bw, rng, toks, False)
            return
        inject = None
    if inject == "symbol-count":
        if rng.random() < .4:
            # the largest count fields (16-bit field holding 0xfffd..0xffff: counts 65535, 65536, 65537) followed by as many
            # tokens as a count truncated to 16 bits would ask for (65536 -> 0, 65537 -> 1): a reader that wraps accepts
            v = rng.choice([65535, 65536, 65537, 65537])
            toks = [(1, 0, 0)] * ((v & 0xffff) if (v & 0xffff) < 4 else 1)
            put_clc_and_tokens(bw, rng, toks or [(1, 0, 0)][:0], True, max_symbol_value=v, clc_lens={1: 1, 0: 1} if not toks else None)
            return
        toks = V.rle(lens)
        put_clc_and_tokens(bw, rng, toks, True, max_symbol_value=alphabet + rng.choice([1, 1, 2, 50]))
        return
    if inject == "repeat-overrun":
        k = rng.randint(0, max(0, alphabet - 12))
        head = V.rle(lens[:k]) if k else []
        room = alphabet - k
        kind = rng.choice([16, 17, 18]) if k else rng.choice([17, 18])
        if kind == 16 and room <= 6 - 1:
            tok = (16, min(3, max(0, room + 1 - 3)), 2)
        elif kind == 17 and room <= 10 - 1:
            tok = (17, min(7, max(0, room + 1 - 3)), 3)
        elif room <= 138 - 1:
            tok = (18, min(127, max(0, room + 1 - 11)), 7)
        else:
            # cannot overrun in one token from here: fill with zeros first
            head += V.rle([0] * (room - 20))
            tok = (18, 127, 7)
        put_clc_and_tokens(bw, rng, head + [tok], False)
        return
    last = max([i for i, l in enumerate(lens) if l > 0] + [0])
    toks = V.rle(lens)
    if use_max is None:
        use_max = rng.random() < 0.3
    if use_max:
        short = V.rle(lens[:last + 1])
        if len(short) >= 2:
            toks = short
        else:
            use_max = False
    put_clc_and_tokens(bw, rng, toks, use_max)


def mutate_lens(rng, lens_by_sym, alphabet, how):
    d = dict(lens_by_sym)
    syms = sorted(d)
    if how == "incomplete":
        if len(syms) == 1:
            # two symbols, lengths 1 and 2: Kraft 3/4
            other = rng.choice([s for s in range(alphabet) if s not in d])
            return {syms[0]: 1, other: 2}
        s = rng.choice([s for s in syms if d[s] < 15] or syms)
        d[s] = min(15, d[s] + 1)
        return d
    if how == "oversubscribed":
        cand = [s for s in syms if d[s] >= 2]
        free = [s for s in range(alphabet) if s not in d]
        if cand and (rng.random() < 0.6 or not free):
            s = rng.choice(cand)
            d[s] -= 1
            return d
        if len(syms) == 1:
            a, b = rng.sample(free, 2)
            return {syms[0]: 1, a: 1, b: rng.randint(1, 3)}
        d[rng.choice(free)] = rng.randint(1, 15)
        return d
    if how == "empty":
        return {}
    if how == "single-len":
        return {rng.choice(syms): rng.randint(2, 15)}
    raise ValueError(how)


def write_code(bw, rng, alphabet, lens_by_sym, inject=None, form=None):
    """One prefix code.  lens_by_sym {symbol: length>0} is a complete code (or a single symbol of length 1)."""
    if inject == "outside-alphabet":
        assert alphabet == 40
        bad = rng.choice([40, 41, 63, 64, 128, 200, 255])
        if rng.random() < 0.5:
            V.write_simple_code(bw, [bad])
        else:
            good = rng.randrange(40)
            syms = [bad, good] if rng.random() < 0.5 else [good, bad]
            bw.put(1, 1)
            bw.put(1, 1)
            bw.put(1, 1)
            bw.put(syms[0], 8)
            bw.put(syms[1], 8)
        return
    if inject in ("incomplete", "oversubscribed", "empty", "single-len"):
        d = mutate_lens(rng, lens_by_sym, alphabet, inject)
        lens = [0] * alphabet
        for s, l in d.items():
            lens[s] = l
        write_normal(bw, rng, alphabet, lens, use_max=False if inject == "empty" else None)
        return
    nz = {s: l for s, l in lens_by_sym.items() if l > 0}
    syms = sorted(nz)
    lens = [0] * alphabet
    for s, l in nz.items():
        lens[s] = l
    if inject in ("symbol-count", "repeat-overrun", "clc-single-len", "sixteen-after-zero"):
        write_normal(bw, rng, alphabet, lens, inject=inject)
        return
    simple_ok = (len(syms) == 1 and syms[0] < 256) or (len(syms) == 2 and all(s < 256 for s in syms) and all(nz[s] == 1 for s in syms))
    if form is None:
        form = "simple" if (simple_ok and rng.random() < 0.6) else "normal"
    if form == "simple" and simple_ok:
        order = list(syms)
        if len(order) == 2 and rng.random() < 0.5:
            order.reverse()                       # the two symbols may come in any order (canonical: smaller gets 0)
        if len(order) == 1 and rng.random() < 0.2:
            order = [order[0], order[0]]          # the same symbol twice = a one-symbol code
        bw.put(1, 1)
        bw.put(len(order) - 1, 1)
        if order[0] < 2 and rng.random() < 0.7:
            bw.put(0, 1)
            bw.put(order[0], 1)
        else:
            bw.put(1, 1)
            bw.put(order[0], 8)
        if len(order) == 2:
            bw.put(order[1], 8)
        return
    write_normal(bw, rng, alphabet, lens)


# ------------------------------------------------------------------------------------------------ entropy-coded images
def write_image(bw, rng, width, height, role, inject=None, groups_max=None, zero_len=False, cache_bits=None, token_cap=3000):
    """One entropy-coded sub-image (colour cache, one code group, pixels).  role: 'predictor' | 'data' | 'meta'.
    Returns facts; facts['max_group'] for meta."""
    n = width * height
    if inject == "cache-bits":
        bw.put(1, 1)
        bw.put(rng.choice([0, 12, 13, 14, 15]), 4)
        cache_bits = 0
        inject = None                                   # the rest is written as if no cache (never reached)
    else:
        if cache_bits is None:
            cache_bits = rng.choice([0, 0, 0, 1, 2, rng.randint(1, 11), 11])
        if cache_bits:
            bw.put(1, 1)
            bw.put(cache_bits, 4)
        else:
            bw.put(0, 1)
    cache_len = (1 << cache_bits) if cache_bits else 0
    green_max = 13 if role == "predictor" else 255
    if role == "meta":
        green_max = groups_max if groups_max is not None else rng.choice([0, 1, 2, 5])
    deep = rng.random() < 0.3
    maxlen = 15 if deep else rng.choice([2, 3, 5, 8, 11, 15])

    def pick(lo, hi, kmax):
        k = rng.randint(1, max(1, min(kmax, hi - lo + 1)))
        return rng.sample(range(lo, hi + 1), k)

    if zero_len:
        lit, lens_syms, csyms = [rng.randint(0, green_max)], [], []
        if zero_len == "cache" and cache_len:
            lit, csyms = [], [280 + rng.randrange(cache_len)]
        rs, bs, as_, dsyms = [rng.randint(0, 255) if role != "meta" else 0], [rng.randint(0, 255)], [rng.randint(0, 255)], [rng.randrange(40)]
    else:
        lit = pick(0, green_max, rng.choice([1, 2, 4, 14, 60, 200]))
        lens_syms = [256 + s for s in pick(0, 23, rng.choice([1, 2, 6, 24]))] if rng.random() < 0.75 else []
        csyms = [280 + s for s in pick(0, cache_len - 1, rng.choice([1, 3, 10]))] if cache_len and rng.random() < .7 else []
        dsyms = V.with_13(rng, pick(0, 39, rng.choice([1, 2, 5, 40])))
        rs = [0] if role == "meta" else pick(0, 255, rng.choice([1, 1, 2, 5, 40, 256]))
        if role == "meta" and rng.random() < 0.05:
            rs = [0, 1]                                  # group indices above 255
        bs, as_ = pick(0, 255, rng.choice([1, 2, 40, 256])), pick(0, 255, rng.choice([1, 2, 40, 256]))
    if inject == "early-fill":
        lit, lens_syms, csyms = [rng.randint(0, green_max)], [], []
        rs = [0, 1] if role == "meta" else rng.sample(range(256), rng.choice([2, 3, 9]))
        bs, as_ = rng.sample(range(256), rng.choice([1, 2, 5])), rng.sample(range(256), rng.choice([1, 2]))
        dsyms = [rng.randrange(40)]
    bad_lit = None
    if inject == "predictor":
        bad_lit = rng.choice([14, 15, 16, 17, 29, 30, 31, 32, 100, 255])
        lit = sorted(set(lit + [bad_lit]))
    if inject in ("backref-start", "backref-end") and not lens_syms:
        lens_syms = [256 + rng.randint(0, 23)]
    if inject == "backref-end":
        lens_syms = sorted(set(lens_syms + [256 + 23, 256 + rng.randint(12, 23)]))
    gsyms = lit + lens_syms + csyms
    codes_l = [V.make_code(rng, gsyms, maxlen, deep), V.make_code(rng, rs, maxlen, deep), V.make_code(rng, bs, maxlen, deep),
               V.make_code(rng, as_, maxlen, deep), V.make_code(rng, dsyms, min(maxlen, 15), deep)]
    alph = [256 + 24 + cache_len, 256, 256, 256, 40]
    code_inj = inject if inject in ("symbol-count", "repeat-overrun", "incomplete", "oversubscribed", "empty", "outside-alphabet",
                                    "single-len", "clc-single-len", "sixteen-after-zero") else None
    which = 4 if code_inj == "outside-alphabet" else rng.randrange(5)
    for j, (a, cl) in enumerate(zip(alph, codes_l)):
        write_code(bw, rng, a, cl, inject=code_inj if j == which else None)
    G, R, B, A, D = [V.canon(c) for c in codes_l]
    glen = max(len(c) for c in G.values()) if len(G) > 1 else 0
    arb = sum((max(len(c) for c in X.values()) if len(X) > 1 else 0) for X in (R, B, A))
    idx, tokens, max_group = 0, 0, 0
    w_back = rng.choice([0.0, 0.1, 0.4, 0.8])
    inj_at = rng.randint(0, 6) if inject in ("backref-start", "backref-end", "predictor") else None
    while idx < n and tokens < token_cap:
        if inj_at is not None and tokens == inj_at:
            if inject == "predictor":
                bw.code(G[bad_lit])
                bw.code(R[rng.choice(rs)])
                bw.code(B[rng.choice(bs)])
                bw.code(A[rng.choice(as_)])
                idx = n if (glen + arb == 0) else idx + 1
                tokens += 1
                continue
            if inject == "backref-start":
                # find a distance > idx
                for _ in range(50):
                    ds = rng.choice(dsyms)
                    de = rng.getrandbits(V.lz77_extra_bits(ds)) if V.lz77_extra_bits(ds) else 0
                    if V.dist_of(V.lz77_value(ds, de), width) > idx:
                        ls = rng.choice(lens_syms) - 256
                        bw.code(G[ls + 256])
                        bw.put(0, V.lz77_extra_bits(ls))
                        bw.code(D[ds])
                        bw.put(de, V.lz77_extra_bits(ds))
                        return {"injected": True, "max_group": max_group}
                inj_at += 1 if idx > 0 else 0            # no large distance available: at idx 0 any distance works
            if inject == "backref-end" and idx > 0:
                for _ in range(50):
                    ls = rng.choice(lens_syms) - 256
                    le = rng.getrandbits(V.lz77_extra_bits(ls)) if V.lz77_extra_bits(ls) else 0
                    if V.lz77_value(ls, le) > n - idx:
                        ds = rng.choice(dsyms)
                        if V.dist_of(V.lz77_value(ds, 0), width) <= idx:
                            bw.code(G[ls + 256])
                            bw.put(le, V.lz77_extra_bits(ls))
                            bw.code(D[ds])
                            bw.put(0, V.lz77_extra_bits(ds))
                            return {"injected": True, "max_group": max_group}
                inj_at += 1
            elif inject == "backref-end":
                inj_at += 1
        kind = "lit"
        r = rng.random()
        if lens_syms and idx > 0 and r < w_back:
            kind = "back"
        elif csyms and (r > 0.9 or not lit):
            kind = "cache"
        if kind == "back":
            ok = False
            for _ in range(6):
                ls = rng.choice(lens_syms) - 256
                le = rng.getrandbits(V.lz77_extra_bits(ls)) if V.lz77_extra_bits(ls) else 0
                ln = V.lz77_value(ls, le)
                if ln > n - idx:
                    base = V.lz77_value(ls, 0)
                    if base > n - idx:
                        continue
                    le = min(le, n - idx - base)
                    ln = base + le
                ds, de = V.pick_dist(rng, dsyms)
                dist = V.dist_of(V.lz77_value(ds, de), width)
                if dist > idx:
                    base = V.dist_of(V.lz77_value(ds, 0), width) if V.lz77_value(ds, 0) > 120 else None
                    if base is None or base > idx:
                        continue
                    de = min(de, idx - base)
                    dist = V.dist_of(V.lz77_value(ds, de), width)
                    if dist > idx:
                        continue
                ok = True
                break
            if ok:
                bw.code(G[ls + 256])
                bw.put(le, V.lz77_extra_bits(ls))
                bw.code(D[ds])
                bw.put(de, V.lz77_extra_bits(ds))
                idx += ln
            else:
                kind = "lit" if lit else "cache"
        if kind == "cache":
            bw.code(G[rng.choice(csyms)])
            idx = n if glen == 0 else idx + 1
        if kind == "lit":
            g = rng.choice(lit)
            if bad_lit is not None and g == bad_lit and len(lit) > 1:
                g = rng.choice([x for x in lit if x != bad_lit])
            rr = rng.choice(rs)
            bw.code(G[g])
            bw.code(R[rr])
            bw.code(B[rng.choice(bs)])
            bw.code(A[rng.choice(as_)])
            max_group = max(max_group, rr << 8 | g)
            idx = n if (glen + arb == 0) else idx + 1
            if inject == "early-fill":
                return {"injected": n > 1, "max_group": max_group}
        tokens += 1
    return {"injected": False, "complete": idx >= n, "max_group": max_group, "tokens": tokens}


def write_groups(bw, rng, count, cache_len, inject=None):
    which = rng.randrange(count) if inject else -1
    for gi in range(count):
        maxlen = rng.choice([1, 3, 8, 15])
        code_inj = inject if gi == which else None
        j_inj = 4 if code_inj == "outside-alphabet" else rng.randrange(5)
        for j, a in enumerate((256 + 24 + cache_len, 256, 256, 256, 40)):
            k = rng.choice([1, 2, 3, 17, min(a, 120)])
            if maxlen == 1:
                k = rng.choice([1, 2])
            syms = rng.sample(range(a), k)
            write_code(bw, rng, a, V.make_code(rng, syms, maxlen, rng.random() < .3), inject=code_inj if j == j_inj else None)


def sub_dims(rng, width, height, b, slip):
    """dimensions of a sub-image with block bits b; slip: size it wrongly (block-size violation)"""
    if not slip:
        bs = 1 << (b + 2)
        return ceil_div(width, bs), ceil_div(height, bs)
    k = rng.choice(["plus1", "plus3", "floor"])
    if k == "floor":
        bs = 1 << (b + 2)
        return max(1, width // bs), max(1, height // bs)
    bs = 1 << (b + (1 if k == "plus1" else 3))
    return ceil_div(width, bs), ceil_div(height, bs)


def block_bits_for(rng, w, h, budget):
    opts = [b for b in range(8) if ceil_div(w, 1 << (b + 2)) * ceil_div(h, 1 << (b + 2)) <= budget]
    return rng.choice(opts) if opts else 7


def build(rng, violate=None, size=None, order=None, pixel_budget=2500, meta=None, big_fill=False):
    """A lossless header phase for a w x h image.  Returns (w, h, bytes, facts)."""
    facts = {"violate": violate}
    bw = V.BW()
    if size is None:
        W, H = (rng.choice(SIZES), rng.choice(SIZES)) if rng.random() < 0.5 else (rng.randint(1, 300), rng.randint(1, 300))
        if W * H > 2 ** 26:
            H = rng.choice([1, 2, 3, 17])
    else:
        W, H = size
    width = W
    if order is None:
        order = rng.sample([0, 1, 2, 3], rng.choice([0, 1, 1, 2, 3, 4]))
    order = list(order)
    # where the violation goes: a transform sub-image, the meta image, or the level-0 groups
    places = [("t", i) for i, t in enumerate(order) if t in (0, 1, 3)]
    use_meta = meta if meta is not None else (rng.random() < 0.45)
    if use_meta:
        places.append(("m", 0))
    target = None
    if violate == "dup-transform":
        if not order:
            order = [rng.randrange(4)]
        dup_at = rng.randrange(len(order))
        order = order + [order[dup_at]]
    elif violate == "predictor":
        if 0 not in order:
            order.insert(rng.randrange(len(order) + 1), 0)
        target = ("t", order.index(0))
    elif violate in ("backref-start", "backref-end"):
        if not places:
            use_meta = True
            places.append(("m", 0))
        target = rng.choice(places)
    elif violate == "early-fill":
        if not places:
            use_meta = True
            places.append(("m", 0))
        target = rng.choice(places)
    elif violate == "pal-width":
        if 3 not in order:
            order.insert(rng.randrange(len(order) + 1), 3)
        if not any(t in (0, 1) for t in order[order.index(3) + 1:]):
            use_meta = True
        if W < 40:
            W = rng.randint(40, 300)
            width = W
    elif violate == "block-size":
        if not places or all(k == "t" and order[i] == 3 for k, i in places):
            use_meta = True
            places.append(("m", 0))
        target = rng.choice([pl for pl in places if not (pl[0] == "t" and order[pl[1]] == 3)])
        if W < 40 or H < 40:
            W, H = rng.randint(40, 300), rng.randint(40, 300)
            width = W
    elif violate == "cache-bits":
        target = rng.choice(places + [("c", 0)])
    elif violate is not None:
        target = rng.choice(places + [("g", 0)])
    facts["order"] = order
    seen = set()
    for i, t in enumerate(order):
        bw.put(1, 1)
        bw.put(t, 2)
        inj = violate if target == ("t", i) else None
        if t in (0, 1):
            b = block_bits_for(rng, width, H, pixel_budget) if not big_fill else rng.choice([0, 1])
            bw.put(b, 3)
            sw, sh = sub_dims(rng, width, H, b, inj == "block-size")
            write_image(bw, rng, sw, sh, "predictor" if t == 0 else "data", inject=inj,
                        zero_len=(rng.choice([True, "cache"]) if big_fill else (rng.random() < 0.08)),
                        cache_bits=(rng.randint(1, 11) if big_fill and rng.random() < .5 else None))
        elif t == 3:
            ncol = rng.choice([1, 2, 3, 4, 5, 16, 17, 100, 256])
            if violate == "pal-width":
                ncol = rng.choice([2, 3, 4, 5, 16, 17])
            bw.put(ncol - 1, 8)
            write_image(bw, rng, ncol, 1, "data", inject=inj)
            if t not in seen:
                factor = 8 if ncol <= 2 else 4 if ncol <= 4 else 2 if ncol <= 16 else 1
                if violate == "pal-width":
                    factor = {2: 4, 3: 8, 4: 2, 5: 4, 16: 1, 17: 2}[ncol]
                width = ceil_div(width, factor)
        seen.add(t)
    bw.put(0, 1)
    if target == ("c", 0):
        bw.put(1, 1)
        bw.put(rng.choice([0, 12, 13, 14, 15]), 4)
        cache_bits = 0
    else:
        cache_bits = rng.choice([0, 0, 1, rng.randint(1, 11), 11])
        if cache_bits:
            bw.put(1, 1)
            bw.put(cache_bits, 4)
        else:
            bw.put(0, 1)
    cache_len = (1 << cache_bits) if cache_bits else 0
    groups = 1
    if use_meta:
        bw.put(1, 1)
        b = block_bits_for(rng, width, H, pixel_budget) if not big_fill else rng.choice([0, 1])
        if violate in ("pal-width", "block-size"):
            b = rng.choice([0, 0, 1])
        bw.put(b, 3)
        sw, sh = sub_dims(rng, width, H, b, violate == "block-size" and target == ("m", 0))
        f = write_image(bw, rng, sw, sh, "meta", inject=violate if target == ("m", 0) else None,
                        zero_len=big_fill)
        groups = f["max_group"] + 1
        facts["groups"] = groups
    else:
        bw.put(0, 1)
    if groups > 600:
        groups = 600                                   # (group indices above 255: keep the stream short; it stays truncated-invalid)
        facts["groups_capped"] = True
    write_groups(bw, rng, groups, cache_len, inject=violate if target == ("g", 0) else None)
    tail = bytes(rng.getrandbits(8) for _ in range(rng.choice([0, 0, 1, 5, 40])))
    data = bw.tobytes(rng) + tail
    return W, H, data, facts


# ------------------------------------------------------------------------------------------------ C08 corner cases
def simple1(bw, s=0):
    V.write_simple_code(bw, [s])


def corner(rng, name):
    """Specification corner cases named in C08; each returns (w, h, bytes)."""
    bw = V.BW()
    if name == "simple-same-twice":
        # predictor sub-image whose green code is a two-symbol simple code naming one symbol twice: zero bits per pixel
        W, H = rng.randint(1, 64), rng.randint(1, 64)
        bw.put(1, 1); bw.put(0, 2); bw.put(0, 3)
        bw.put(0, 1)
        s = rng.randint(0, 13)
        bw.put(1, 1); bw.put(1, 1); bw.put(1, 1); bw.put(s, 8); bw.put(s, 8)
        k = rng.choice([0, 1, 2, 3])                    # which of the other codes are non-trivial
        codes = []
        for j in range(3):
            if k > j:
                a, b = rng.sample(range(256), 2)
                V.write_simple_code(bw, sorted([a, b]))
                codes.append(1)
            else:
                simple1(bw, rng.randint(0, 1))
                codes.append(0)
        simple1(bw)
        n = ceil_div(W, 4) * ceil_div(H, 4)
        if sum(codes):
            for _ in range(n):
                for c in codes:
                    if c:
                        bw.put(rng.randint(0, 1), 1)
        bw.put(0, 1)
    elif name == "simple-descending":
        # meta image whose green code is simple {first > second}: the smaller symbol has code 0
        W, H = rng.randint(1, 40), rng.randint(1, 40)
        bw.put(0, 1); bw.put(0, 1)
        bw.put(1, 1); bw.put(0, 3)
        bw.put(0, 1)
        hi, lo = (1, 0) if rng.random() < .5 else sorted(rng.sample(range(0, 4), 2), reverse=True)
        bw.put(1, 1); bw.put(1, 1)
        if hi < 2:
            bw.put(0, 1); bw.put(hi, 1)
        else:
            bw.put(1, 1); bw.put(hi, 8)
        bw.put(lo, 8)
        for _ in range(4):
            simple1(bw)
        n = ceil_div(W, 4) * ceil_div(H, 4)
        mx = lo
        for _ in range(n):
            bit = rng.randint(0, 1)
            bw.put(bit, 1)
            mx = max(mx, hi if bit else lo)
        write_groups(bw, rng, mx + 1, 0)
        return W, H, bw.tobytes(rng)
    elif name == "single-leaf":
        # every code a single leaf (simple one-symbol, or normal with one length-1 symbol): whole images from zero bits
        W, H = rng.choice(SIZES), rng.choice(SIZES)
        if W * H > 2 ** 22:
            H = rng.choice([1, 2, 5])
        for t in rng.sample([0, 1, 3], rng.randint(1, 3)):
            bw.put(1, 1); bw.put(t, 2)
            if t in (0, 1):
                bw.put(rng.randint(0, 7), 3)
            else:
                bw.put(rng.choice([0, 1, 3, 15, 16, 255]), 8)
            cb = rng.choice([0, 0, 3])
            if cb:
                bw.put(1, 1); bw.put(cb, 4)
            else:
                bw.put(0, 1)
            for j, a in enumerate((280 + (1 << cb if cb else 0), 256, 256, 256, 40)):
                s = rng.randrange(a) if j else rng.choice([rng.randint(0, 13), rng.randint(0, 13), 280 + rng.randrange(1 << cb) if cb else 0])
                if s < 256 and rng.random() < 0.5:
                    simple1(bw, s) if s < 2 else V.write_simple_code(bw, [s])
                else:
                    lens = [0] * a
                    lens[s] = 1
                    write_normal(bw, rng, a, lens)
        bw.put(0, 1)
    elif name == "max-repeat":
        # maximal repeat runs: 138 zeros (code 18), 10 zeros (17), 6 repeats (16), the initial previous length 8
        W, H = rng.randint(1, 100), rng.randint(1, 100)
        bw.put(0, 1)
        cb = rng.choice([0, 7, 11])
        if cb:
            bw.put(1, 1); bw.put(cb, 4)
        else:
            bw.put(0, 1)
        bw.put(0, 1)
        a = 280 + ((1 << cb) if cb else 0)
        # green: 256 symbols of length 8 written as one literal 8 + runs of 16 (the first 16s repeat the initial 8 when
        # no literal precedes), then zeros in runs of 138
        bw.put(0, 1)
        first_literal = rng.random() < 0.5
        toks = ([(8, 0, 0)] if first_literal else []) + []
        left = 256 - (1 if first_literal else 0)
        while left >= 3:
            t = min(6, left)
            if left - t in (1, 2):
                t = left - 3 if left - 3 >= 3 else t
            toks.append((16, t - 3, 2))
            left -= t
        toks += [(8, 0, 0)] * left
        rest = a - 256
        while rest >= 11:
            t = min(138, rest)
            if 0 < rest - t < 3:
                t -= 3
            toks.append((18, t - 11, 7))
            rest -= t
        while rest >= 3:
            t = min(10, rest)
            toks.append((17, t - 3, 3))
            rest -= t
        toks += [(0, 0, 0)] * rest
        put_clc_and_tokens(bw, rng, toks, rng.random() < 0.5)
        for _ in range(3):
            simple1(bw, rng.randint(0, 1))
        simple1(bw)
        return W, H, bw.tobytes(rng)
    else:
        raise ValueError(name)
    # common tail: no cache, no meta, one trivial group
    bw.put(0, 1)
    bw.put(0, 1)
    for _ in range(5):
        simple1(bw)
    return W, H, bw.tobytes(rng)


CORNERS = ["simple-same-twice", "simple-descending", "single-leaf", "max-repeat"]

ORDERS = [()]
for _a in range(4):
    ORDERS.append((_a,))
    for _b in range(4):
        if _b != _a:
            ORDERS.append((_a, _b))
            for _c in range(4):
                if _c not in (_a, _b):
                    ORDERS.append((_a, _b, _c))
                    for _d in range(4):
                        if _d not in (_a, _b, _c):
                            ORDERS.append((_a, _b, _c, _d))
