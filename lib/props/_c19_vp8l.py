"""Structure-aware writer of VP8L lossless streams (the part webpsan's LosslessImage::read parses: transforms with their
entropy-coded sub-images, colour cache, meta prefix image, prefix-code groups), written from the WebP lossless bitstream
specification.  Used by C19 to produce valid / nearly valid streams with controlled code lengths and LZ77 extra bits, so that
the read-ahead arithmetic of the pixel loop is exercised at every buffer capacity."""

CODE_ORDER = [17, 18, 0, 1, 2, 3, 4, 5, 16, 6, 7, 8, 9, 10, 11, 12, 13, 14, 15]

DISTANCE_MAP = [
    (0, 1), (1, 0), (1, 1), (-1, 1), (0, 2), (2, 0), (1, 2), (-1, 2), (2, 1), (-2, 1), (2, 2), (-2, 2), (0, 3), (3, 0),
    (1, 3), (-1, 3), (3, 1), (-3, 1), (2, 3), (-2, 3), (3, 2), (-3, 2), (0, 4), (4, 0), (1, 4), (-1, 4), (4, 1), (-4, 1),
    (3, 3), (-3, 3), (2, 4), (-2, 4), (4, 2), (-4, 2), (0, 5), (3, 4), (-3, 4), (4, 3), (-4, 3), (5, 0), (1, 5), (-1, 5),
    (5, 1), (-5, 1), (2, 5), (-2, 5), (5, 2), (-5, 2), (4, 4), (-4, 4), (3, 5), (-3, 5), (5, 3), (-5, 3), (0, 6), (6, 0),
    (1, 6), (-1, 6), (6, 1), (-6, 1), (2, 6), (-2, 6), (6, 2), (-6, 2), (4, 5), (-4, 5), (5, 4), (-5, 4), (3, 6), (-3, 6),
    (6, 3), (-6, 3), (0, 7), (7, 0), (1, 7), (-1, 7), (5, 5), (-5, 5), (7, 1), (-7, 1), (4, 6), (-4, 6), (6, 4), (-6, 4),
    (2, 7), (-2, 7), (7, 2), (-7, 2), (3, 7), (-3, 7), (7, 3), (-7, 3), (5, 6), (-5, 6), (6, 5), (-6, 5), (8, 0), (4, 7),
    (-4, 7), (7, 4), (-7, 4), (8, 1), (8, 2), (6, 6), (-6, 6), (8, 3), (5, 7), (-5, 7), (7, 5), (-7, 5), (8, 4), (6, 7),
    (-6, 7), (7, 6), (-7, 6), (8, 5), (7, 7), (-7, 7), (8, 6), (8, 7)]


class BW:
    """LSB-first bit writer."""
    def __init__(self):
        self.bits = []

    def put(self, v, n):
        for i in range(n):
            self.bits.append((v >> i) & 1)

    def code(self, bits):
        self.bits.extend(bits)

    def tobytes(self, rng=None):
        b = list(self.bits)
        while len(b) % 8:
            b.append(rng.randint(0, 1) if rng else 0)
        out = bytearray()
        for i in range(0, len(b), 8):
            v = 0
            for j in range(8):
                v |= b[i + j] << j
            out.append(v)
        return bytes(out)


def canon(lens):
    """canonical prefix code of {symbol: length} (lengths > 0), codes as bit lists in stream order; a lone symbol of
    length 1 gets the empty code (webp: single-leaf tree, zero bits per symbol)."""
    nz = sorted((l, s) for s, l in lens.items() if l > 0)
    if not nz:
        return {}
    if len(nz) == 1 and nz[0][0] == 1:
        return {nz[0][1]: []}
    out, code, prev = {}, 0, nz[0][0]
    for i, (l, s) in enumerate(nz):
        if i > 0:
            code = (code + 1) << (l - prev)
        out[s] = [(code >> (l - 1 - j)) & 1 for j in range(l)]
        prev = l
    return out


def rand_lengths(rng, k, maxlen, deep=False):
    """leaf depths of a random full binary tree with k leaves, depth <= maxlen (a complete prefix code)."""
    if k == 1:
        return [1]
    assert k <= 2 ** maxlen
    leaves = [0]
    while len(leaves) < k:
        cands = [i for i, d in enumerate(leaves) if d < maxlen]
        # keep it completable: splitting must leave enough capacity; a full tree with depth bound always can
        if deep and rng.random() < 0.75:
            i = max(cands, key=lambda i: leaves[i])
        else:
            i = rng.choice(cands)
        d = leaves.pop(i)
        leaves += [d + 1, d + 1]
    rng.shuffle(leaves)
    return leaves


def rle(lens):
    toks, i, n = [], 0, len(lens)
    while i < n:
        v, j = lens[i], i
        while j < n and lens[j] == v:
            j += 1
        run = j - i
        if v == 0:
            while run >= 11:
                t = min(run, 138)
                toks.append((18, t - 11, 7))
                run -= t
            while run >= 3:
                t = min(run, 10)
                toks.append((17, t - 3, 3))
                run -= t
            toks += [(0, 0, 0)] * run
        else:
            toks.append((v, 0, 0))
            run -= 1
            while run >= 3:
                t = min(run, 6)
                toks.append((16, t - 3, 2))
                run -= t
            toks += [(v, 0, 0)] * run
        i = j
    return toks


def write_simple_code(bw, syms):
    """simple prefix code: 1 or 2 symbols, first 1 or 8 bits, second 8 bits."""
    bw.put(1, 1)
    bw.put(len(syms) - 1, 1)
    if syms[0] < 2:
        bw.put(0, 1)
        bw.put(syms[0], 1)
    else:
        bw.put(1, 1)
        bw.put(syms[0], 8)
    if len(syms) == 2:
        bw.put(syms[1], 8)


def write_normal_code(bw, rng, lens, use_max_symbol=False):
    """normal prefix code for the length vector `lens` (index = symbol)."""
    bw.put(0, 1)
    toks = rle(lens)
    if use_max_symbol:
        last = max(i for i, l in enumerate(lens) if l > 0)
        short = rle(lens[:last + 1])
        if len(short) >= 2:
            toks = short
        else:
            use_max_symbol = False
    used = sorted(set(t[0] for t in toks))
    cl = dict(zip(rng.sample(used, len(used)), rand_lengths(rng, len(used), 7)))
    num = max(max(CODE_ORDER.index(s) for s in used) + 1, 4)
    bw.put(num - 4, 4)
    for s in CODE_ORDER[:num]:
        bw.put(cl.get(s, 0), 3)
    codes = canon(cl)
    if use_max_symbol:
        bw.put(1, 1)
        n = len(toks) - 2
        x = 0
        while n >= 2 ** (2 + 2 * x):
            x += 1
        bw.put(x, 3)
        bw.put(n, 2 + 2 * x)
    else:
        bw.put(0, 1)
    for s, extra, nb in toks:
        bw.code(codes[s])
        if nb:
            bw.put(extra, nb)


def write_code(bw, rng, alphabet, lens_by_sym):
    """lens_by_sym: {symbol: length}; picks the simple form when it applies (sometimes), else the normal form."""
    nz = {s: l for s, l in lens_by_sym.items() if l > 0}
    syms = sorted(nz)
    simple_ok = (len(syms) == 1 and syms[0] < 256) or (len(syms) == 2 and all(s < 256 for s in syms) and
                                                       all(nz[s] == 1 for s in syms))
    if simple_ok and rng.random() < 0.6:
        write_simple_code(bw, syms)
        return
    lens = [0] * alphabet
    for s, l in nz.items():
        lens[s] = l
    write_normal_code(bw, rng, lens, use_max_symbol=rng.random() < 0.3)


def lz77_value(sym, extra):
    if sym < 4:
        return sym + 1
    eb = (sym - 2) >> 1
    return ((2 + (sym & 1)) << eb) + extra + 1


def lz77_extra_bits(sym):
    return 0 if sym < 4 else (sym - 2) >> 1


def dist_of(code, width):
    if code <= 120:
        dx, dy = DISTANCE_MAP[code - 1]
        d = dy * width + dx
        return d if d >= 1 else 1
    return code - 120


def pick_dist(rng, dsyms):
    """a distance prefix symbol of the code and its extra bits; favours the boundaries of the 120-entry distance map
    (distance codes 119, 120, 121: prefix symbol 13 with extra bits 22, 23, 24) and the smallest / largest codes"""
    ds = rng.choice(dsyms)
    if 13 in dsyms and rng.random() < .3:
        return 13, rng.choice([22, 23, 23, 24])
    nb = lz77_extra_bits(ds)
    if nb and rng.random() < .1:
        return ds, rng.choice([0, (1 << nb) - 1])
    return ds, (rng.getrandbits(nb) if nb else 0)


def with_13(rng, dsyms):
    """sometimes make sure prefix symbol 13 (distance codes 97..128, across the end of the distance map) is in the code"""
    return sorted(set(dsyms) | {13}) if rng.random() < .25 else dsyms


def make_code(rng, syms, maxlen, deep):
    syms = list(syms)
    ls = rand_lengths(rng, len(syms), max(maxlen, (len(syms) - 1).bit_length()), deep)
    return dict(zip(syms, ls))


def write_entropy_image(bw, rng, width, height, style, green_max=255, red_syms=None, cache_bits=None):
    """One entropy-coded (sub-)image: colour cache, one prefix-code group, the pixels.  Returns a dict of facts."""
    n = width * height
    if cache_bits is None:
        cache_bits = rng.choice([0, 0, 0, rng.randint(1, 11)])
    if cache_bits:
        bw.put(1, 1)
        bw.put(cache_bits, 4)
    else:
        bw.put(0, 1)
    cache_len = (1 << cache_bits) if cache_bits else 0
    deep = style in ("deep", "extrabits", "arbdeep", "extradeep", "onedist") or rng.random() < 0.3
    maxlen = 15 if deep else rng.choice([3, 5, 8, 11, 15])

    def pick(lo, hi, kmax):
        k = rng.randint(1, max(1, min(kmax, hi - lo + 1)))
        return rng.sample(range(lo, hi + 1), k)

    if style == "arbdeep":
        # red/blue/alpha codes of depth 15 against a shallow green code and a single-symbol distance code: one literal pixel
        # costs up to green + 45 bits, more than a back-reference's green + 36 + dist; the read-ahead must cover it
        lit = rng.sample(range(0, green_max + 1), min(green_max + 1, rng.choice([2, 2, 3, 4])))
        lens_syms = [256 + rng.randint(0, 3)] if rng.random() < .3 else []
        csyms = []
        dsyms = [rng.randint(0, 39)]
        rs = red_syms if red_syms is not None else rng.sample(range(256), rng.choice([16, 40, 120]))
        bs, as_ = rng.sample(range(256), rng.choice([16, 40, 120])), rng.sample(range(256), rng.choice([16, 40, 120]))
    elif style == "extradeep":
        # like extrabits, but the green code is deep and the length symbols with 10 extra bits (278, 279) carry its LONGEST
        # codes: a back-reference then costs green (up to 15) + 10 + distance code + 18 bits, the worst case of the read-ahead
        lit = rng.sample(range(0, green_max + 1), min(green_max + 1, rng.choice([12, 14, 40])))
        lens_syms = [256 + 22, 256 + 23]
        csyms = []
        dsyms = sorted(set([1, 38, 39] + ([rng.randint(0, 39)] if rng.random() < .5 else [])))
        rs, bs, as_ = [rng.randint(0, 255)], [rng.randint(0, 255)], [rng.randint(0, 255)]
        if red_syms is not None:
            rs = red_syms
    elif style == "onedist":
        # a SINGLE-symbol (zero-bit) distance code whose symbol carries 7..13 extra bits, single-symbol red/blue/alpha codes, a small
        # green code with the 10-extra-bit length symbols: a back-reference still needs green + 10 + 0 + extra bits of read-ahead
        # although no distance CODE bits are read
        lit = rng.sample(range(0, green_max + 1), min(green_max + 1, rng.choice([1, 2, 3])))
        lens_syms = sorted(set([256 + rng.choice([20, 21, 22, 23]), 256 + rng.choice([0, 1, 22, 23])]))
        csyms = []
        dsyms = [rng.choice([16, 17, 20, 21, 24, 25, 28])]
        rs, bs, as_ = [rng.randint(0, 255)], [rng.randint(0, 255)], [rng.randint(0, 255)]
        if red_syms is not None:
            rs = red_syms
    elif style == "extrabits":
        lit = [rng.randint(0, green_max)]
        lens_syms = sorted(set([256 + rng.choice([20, 21, 22, 23])] + ([256 + rng.randint(0, 23)] if rng.random() < .5 else [])))
        csyms = []
        dsyms = sorted(set([1, rng.choice([30, 33, 36, 38, 39])] + ([rng.randint(0, 39)] if rng.random() < .5 else [])))
        rs, bs, as_ = [rng.randint(0, 255)], [rng.randint(0, 255)], [rng.randint(0, 255)]
        if red_syms is not None:
            rs = red_syms
    else:
        lit = pick(0, green_max, rng.choice([1, 2, 4, 14, 60, 200]))
        lens_syms = [256 + s for s in pick(0, 23, rng.choice([1, 2, 6, 24]))] if rng.random() < 0.75 else []
        csyms = [280 + s for s in pick(0, cache_len - 1, rng.choice([1, 3, 10]))] if cache_len and rng.random() < .7 else []
        dsyms = with_13(rng, pick(0, 39, rng.choice([1, 2, 5, 40])))
        kk = rng.choice([1, 1, 2, 5, 40, 256])
        rs = red_syms if red_syms is not None else pick(0, 255, kk)
        bs, as_ = pick(0, 255, rng.choice([1, 2, 40, 256])), pick(0, 255, rng.choice([1, 2, 40, 256]))
    gsyms = lit + lens_syms + csyms
    codes_l = [make_code(rng, gsyms, maxlen, deep), make_code(rng, rs, maxlen, deep), make_code(rng, bs, maxlen, deep),
               make_code(rng, as_, maxlen, deep), make_code(rng, dsyms, min(maxlen, 15), deep)]
    if style == "extradeep":
        # give the length symbols the longest green codes
        g = codes_l[0]
        order = sorted(g, key=lambda x: -g[x])
        longest = [g[x] for x in order]
        rest = [x for x in order if x not in lens_syms]
        codes_l[0] = dict(zip(lens_syms + rest, longest))
    alph = [256 + 24 + cache_len, 256, 256, 256, 40]
    for a, cl in zip(alph, codes_l):
        write_code(bw, rng, a, cl)
    G, R, B, A, D = [canon(c) for c in codes_l]
    glen = max(len(c) for c in G.values()) if len(G) > 1 else 0
    arb = sum((max(len(c) for c in X.values()) if len(X) > 1 else 0) for X in (R, B, A))
    dlen = max(len(c) for c in D.values()) if len(D) > 1 else 0
    readahead = glen + max(arb, glen + 36 + dlen)
    idx, npx_tokens, max_iter_bits = 0, 0, 0
    w_back = {"extrabits": 0.85, "extradeep": 0.85, "onedist": 0.7, "arbdeep": 0.02}.get(style, rng.choice([0.0, 0.1, 0.4, 0.8]))
    while idx < n:
        start = len(bw.bits)
        kind = "lit"
        r = rng.random()
        if lens_syms and idx > 0 and r < w_back:
            kind = "back"
        elif csyms and r > 0.9:
            kind = "cache"
        if kind == "back":
            ok = False
            for _ in range(6):
                ls = rng.choice(lens_syms) - 256
                le = rng.getrandbits(lz77_extra_bits(ls)) if lz77_extra_bits(ls) else 0
                ln = lz77_value(ls, le)
                if ln > n - idx:
                    # shrink the extra bits to fit if possible
                    base = lz77_value(ls, 0)
                    if base > n - idx:
                        continue
                    le = min(le, n - idx - base)
                    ln = base + le
                ds, de = pick_dist(rng, dsyms)
                dist = dist_of(lz77_value(ds, de), width)
                if dist > idx:
                    base = dist_of(lz77_value(ds, 0), width) if lz77_value(ds, 0) > 120 else None
                    if base is None or base > idx:
                        continue
                    de = min(de, idx - base)
                    dist = dist_of(lz77_value(ds, de), width)
                    if dist > idx:
                        continue
                ok = True
                break
            if ok:
                bw.code(G[ls + 256])
                bw.put(le, lz77_extra_bits(ls))
                bw.code(D[ds])
                bw.put(de, lz77_extra_bits(ds))
                idx += ln
            else:
                kind = "lit"
        if kind == "cache":
            bw.code(G[rng.choice(csyms)])
            idx = n if glen == 0 else idx + 1
        if kind == "lit":
            g = rng.choice(lit)
            bw.code(G[g])
            if style == "arbdeep" and rng.random() < .6:
                bw.code(R[max(rs, key=lambda x: len(R[x]))])
                bw.code(B[max(bs, key=lambda x: len(B[x]))])
                bw.code(A[max(as_, key=lambda x: len(A[x]))])
            else:
                bw.code(R[rng.choice(rs)])
                bw.code(B[rng.choice(bs)])
                bw.code(A[rng.choice(as_)])
            idx = n if (glen + arb == 0) else idx + 1
        npx_tokens += 1
        max_iter_bits = max(max_iter_bits, len(bw.bits) - start)
        if npx_tokens > 40000:
            # give up on filling the image: the stream stays structurally valid up to here (truncated semantics)
            break
    return {"readahead": readahead, "tokens": npx_tokens, "max_iter_bits": max_iter_bits, "complete": idx >= n}


def ceil_div(a, b):
    return (a + b - 1) // b


def build_lossless(rng, style="plain", pixel_budget=3000):
    """A stream for LosslessImage::read(width, height): returns (width, height, bytes, facts)."""
    facts = {"style": style, "images": []}
    bw = BW()
    if style in ("extrabits", "extradeep", "onedist"):
        # one predictor sub-image with up to a million pixels, filled by long back-references with many extra bits
        W = H = rng.choice([2048, 4096, 4096]) if style == "extrabits" else 4096
        bw.put(1, 1)
        bw.put(0 if style == "extrabits" else rng.choice([0, 1]), 2)
        bw.put(0, 3)
        facts["images"].append(write_entropy_image(bw, rng, ceil_div(W, 4), ceil_div(H, 4), style,
                                                   green_max=13 if style in ("extrabits", "onedist") else 255, cache_bits=0))
        width = W
    else:
        W, H = rng.randint(1, 300), rng.randint(1, 300)
        if style == "arbdeep":
            W, H = rng.randint(100, 300), rng.randint(100, 300)
        width = W
        order = rng.sample([0, 1, 2, 3], rng.choice([0, 1, 1, 2, 3, 4]))
        if style == "arbdeep" and 1 not in order and 0 not in order:
            order = [1] + order
        for t in order:
            bw.put(1, 1)
            bw.put(t, 2)
            if t in (0, 1):
                # block order such that the sub-image stays within the pixel budget
                opts = [b for b in range(8) if ceil_div(width, 1 << (b + 2)) * ceil_div(H, 1 << (b + 2)) <= pixel_budget]
                b = rng.choice(opts) if opts else 7
                if style == "arbdeep" and opts:
                    b = min(opts)                     # the largest sub-image within the budget: long literal runs
                bw.put(b, 3)
                bs = 1 << (b + 2)
                facts["images"].append(write_entropy_image(bw, rng, ceil_div(width, bs), ceil_div(H, bs), style,
                                                           green_max=13 if t == 0 else 255))
            elif t == 3:
                ncol = rng.choice([1, 2, 3, 4, 5, 16, 17, 100, 256])
                bw.put(ncol - 1, 8)
                facts["images"].append(write_entropy_image(bw, rng, ncol, 1, style))
                width = ceil_div(width, 8 if ncol <= 2 else 4 if ncol <= 4 else 2 if ncol <= 16 else 1)
    bw.put(0, 1)                      # no more transforms
    # spatially coded image: colour cache, meta prefix image, the groups
    cache_bits = rng.choice([0, 0, rng.randint(1, 11)])
    if cache_bits:
        bw.put(1, 1)
        bw.put(cache_bits, 4)
    else:
        bw.put(0, 1)
    cache_len = (1 << cache_bits) if cache_bits else 0
    groups = 1
    if style not in ("extrabits", "extradeep", "onedist") and rng.random() < 0.4:
        bw.put(1, 1)
        opts = [b for b in range(8) if ceil_div(width, 1 << (b + 2)) * ceil_div(H, 1 << (b + 2)) <= pixel_budget]
        b = rng.choice(opts) if opts else 7
        bw.put(b, 3)
        bs = 1 << (b + 2)
        gmax = rng.choice([0, 1, 2, 3])
        facts["images"].append(write_entropy_image(bw, rng, ceil_div(width, bs), ceil_div(H, bs), style, green_max=gmax,
                                                   red_syms=[0]))
        groups = gmax + 1          # upper bound on max(green)+1; the reader takes the max over the literals actually present
        facts["groups_upper"] = groups
    else:
        bw.put(0, 1)
    # the reader needs max_code_group + 1 groups where max is over pixels present; writing `groups` groups is enough
    # (extra groups are simply never read: the main image data is not parsed by webpsan)
    for _ in range(groups):
        maxlen = rng.choice([3, 8, 15])
        for a in (256 + 24 + cache_len, 256, 256, 256, 40):
            k = rng.choice([1, 2, 3, 17, min(a, 120)])
            syms = rng.sample(range(a), k)
            write_code(bw, rng, a, make_code(rng, syms, maxlen, rng.random() < .3))
    data = bw.tobytes(rng) + bytes(rng.getrandbits(8) for _ in range(rng.choice([0, 1, 5, 40])))
    return W, H, data, facts


def boundary_sweep(k, glen_lit=1, dist_sym=28, len_sym=23, boundary_bytes=4096, sub=(192, 192)):
    """A VALID stream in which ONE back-reference with the most extra bits that fits (length symbol 256+len_sym: 10 extra bits;
    distance symbol dist_sym: 13 extra bits, a single-symbol = zero-bit distance code) starts exactly k bits before the end of the first
    `boundary_bytes` bytes of the bit stream (where the sanitizer's 4 KiB buffer runs dry), behind literal pixels of exactly glen_lit bits
    each and followed by literals up to the end of the sub-image.  The pixels are those of a PREDICTOR TRANSFORM's sub-image (4x4 blocks):
    the sanitizer decodes sub-images, not the main image.  Sweeping k places the reference at every offset relative to the refill."""
    import random
    rng = random.Random(k)
    sw, sh = sub
    W, H = sw * 4, sh * 4
    n = sw * sh
    bw = BW()
    bw.put(1, 1)            # a transform follows
    bw.put(0, 2)            # predictor transform
    bw.put(0, 3)            # block size 1 << (2 + 0)
    bw.put(0, 1)            # sub-image: no colour cache
    if glen_lit == 1:
        g = {0: 1, 1: 2, 256 + len_sym: 2}
    elif glen_lit == 15:
        # a DEEP green code: literal 0 still costs one bit, the length symbol has the longest code there is (15 bits)
        g = {i: i + 1 for i in range(14)}
        g[14] = 15
        g[256 + len_sym] = 15
    else:
        g = {0: 2, 1: 2, 2: 2, 256 + len_sym: 2}
    lens = [0] * 280
    for sy, l in g.items():
        lens[sy] = l
    write_normal_code(bw, rng, lens, use_max_symbol=False)
    for _ in range(3):
        write_simple_code(bw, [0])              # red, blue, alpha: one symbol, zero bits
    write_simple_code(bw, [dist_sym])           # distance: one symbol, zero bits
    G = canon(g)
    cost = len(G[0])
    target = boundary_bytes * 8 - k             # bit offset at which the back-reference starts
    head = len(bw.bits)
    if (target - head) % cost:
        return None
    nlit = (target - head) // cost
    idx = 0
    for _ in range(nlit):
        bw.code(G[0])
        idx += 1
    le = (1 << 10) - 1
    ln = lz77_value(len_sym, le)
    nb = lz77_extra_bits(dist_sym)
    de = 0
    dist = lz77_value(dist_sym, de) - 120
    if dist > idx or idx + ln > n:
        return None
    bw.code(G[256 + len_sym])
    bw.put(le, 10)
    bw.put(de, nb)
    idx += ln
    while idx < n:
        bw.code(G[1 if idx % 7 == 0 else 0])
        idx += 1
    bw.put(0, 1)            # no further transform
    bw.put(0, 1)            # main image: no colour cache
    bw.put(0, 1)            # no meta prefix codes
    for _ in range(5):
        write_simple_code(bw, [0])              # every pixel of the main image costs zero bits
    return W, H, bw.tobytes() + b"\0\0"
