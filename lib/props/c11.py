"""C11 - same bytes, same answer: entry points, adapters and read chunking."""
import itertools
import struct
import mp4props as P
from mp4gen import box, be32, be64, parse_case, DEFAULT_MAX

ID = "C11"
AREA = "views"
COQ_TARGETS = ["theories/Props/C11.vo"]
REQUIRES = ["From Coq Require Import List NArith ZArith Bool.", "From Coq.Strings Require Import Byte.",
            "From MS Require Import Base.Bytes Base.Outcome Base.Cursor Base.Adapters Base.AdaptersSpec Base.Prog Base.StackReader "
            "Base.StackSpec Base.StackProofsTop Base.StackProofsMp4 Base.StackProofsWebp Mp4.San Webp.Container Props.C11.",
            "Import ListNotations.", "Open Scope N_scope."]
COQCHK = ["MS.Props.C11"]
THEOREMS = [
    ("C11_simulation", """forall (R1 R2 : Prog.reader) (rel : Prog.rst R1 -> Prog.rst R2 -> Prop),
      (forall o s1 s2, rel s1 s2 ->
         fst (Prog.rstep R1 o s1) = fst (Prog.rstep R2 o s2) /\\ rel (snd (Prog.rstep R1 o s1)) (snd (Prog.rstep R2 o s2))) ->
      forall (A : Type) (p : Prog.prog A) s1 s2, rel s1 s2 ->
        fst (Prog.run R1 p s1) = fst (Prog.run R2 p s2) /\\ rel (snd (Prog.run R1 p s1)) (snd (Prog.run R2 p s2))"""),
    ("C11_every_stack_lenient", """forall (ms : N) (st : stk), stk_ok st ->
      exists (abs : Adapters.rst (stk_reader ms st) -> cur) (Inv : Adapters.rst (stk_reader ms st) -> Prop),
        lrefines ms (stk_reader ms st) abs Inv /\\
        forall data, blen data <= I64MAX -> ms_ok (blen data) ms ->
          Inv (stk_init ms st data) /\\ abs (stk_init ms st data) = {| cdata := data; cpos := 0 |}"""),
    ("C11_stack_refines_cursor", """forall (own_cap : N) (stdf : bool) (ms : N) (st : stk) (data : bytes) (inp : input),
      1 <= own_cap -> stk_ok st -> blen data <= I64MAX -> ms_ok (blen data) ms -> inp_is inp data ->
      forall (A : Type) (p : Prog.prog A),
        fst (Prog.run (stack_reader own_cap stdf ms st) p (stack_init ms st data)) = fst (Prog.run (Prog.cursor inp true ms) p 0)"""),
    ("C11_mp4_view_is_model", """forall (cfg : config) (fuel : nat) (ms : N) (st : stk) (e : bool) (data : bytes) (inp : input),
      stk_ok st -> blen data <= I64MAX -> ms_ok (blen data) ms -> inp_is inp data ->
      fst (Prog.run (mp4_view e ms st) (sanitize_prog cfg fuel) (mp4_view_init e ms st data)) = mp4_sanitize cfg true ms inp fuel"""),
    ("C11_read_exact_chunking_independent", """forall (c : N) (f : bool) (ms : N) (st : stk) (sizes : list N) (data : bytes),
      1 <= c -> stk_ok st -> blen data <= I64MAX -> ms_ok (blen data) ms ->
      forall (A : Type) (p : Prog.prog A),
        fst (Prog.run (stack_reader c f ms (rechunk sizes st)) p (stack_init ms (rechunk sizes st) data)) =
        fst (Prog.run (stack_reader c f ms st) p (stack_init ms st data))"""),
    ("C11_same_result", """forall (c1 c2 : N) (f1 f2 : bool) (ms : N) (st1 st2 : stk) (data : bytes),
      1 <= c1 -> 1 <= c2 -> stk_ok st1 -> stk_ok st2 -> blen data <= I64MAX -> ms_ok (blen data) ms ->
      forall (A : Type) (p : Prog.prog A),
        fst (Prog.run (stack_reader c1 f1 ms st1) p (stack_init ms st1 data)) =
        fst (Prog.run (stack_reader c2 f2 ms st2) p (stack_init ms st2 data))"""),
    ("C11_same_result_mp4", """forall (cfg : config) (fuel : nat) (ms : N) (st1 st2 : stk) (e1 e2 : bool) (data : bytes),
      stk_ok st1 -> stk_ok st2 -> blen data <= I64MAX -> ms_ok (blen data) ms ->
      fst (Prog.run (mp4_view e1 ms st1) (sanitize_prog cfg fuel) (mp4_view_init e1 ms st1 data)) =
      fst (Prog.run (mp4_view e2 ms st2) (sanitize_prog cfg fuel) (mp4_view_init e2 ms st2 data))"""),
    ("C11_same_result_webp", """forall (lossless : N -> N -> bytes -> res unit) (allow_unknown : bool) (fuel : nat) (ms : N) (st1 st2 : stk) (data : bytes),
      stk_ok st1 -> stk_ok st2 -> blen data <= I64MAX -> ms_ok (blen data) ms ->
      fst (Prog.run (webp_view ms st1) (webp_prog lossless allow_unknown fuel) (webp_view_init ms st1 data)) =
      fst (Prog.run (webp_view ms st2) (webp_prog lossless allow_unknown fuel) (webp_view_init ms st2 data))"""),
    ("C11_webp_view_is_model", """forall (lossless : N -> N -> bytes -> res unit) (allow_unknown : bool) (fuel : nat) (ms : N) (st : stk) (data : bytes) (inp : input),
      stk_ok st -> blen data <= I64MAX -> ms_ok (blen data) ms -> inp_is inp data ->
      fst (Prog.run (webp_view ms st) (webp_prog lossless allow_unknown fuel) (webp_view_init ms st data)) =
      webp_sanitize lossless allow_unknown true ms inp fuel"""),
    ("C11_cursor_vs_file_refuted", """exists (data : bytes) (cfg : config) (fuel : nat) (st : stk),
      stk_ok st /\\ blen data <= I64MAX /\\ ms_ok (blen data) U64MAXN /\\ ms_ok (blen data) I64MAX /\\
      fst (Prog.run (mp4_view true U64MAXN st) (sanitize_prog cfg fuel) (mp4_view_init true U64MAXN st data)) = EParse TruncatedBox /\\
      fst (Prog.run (mp4_view true I64MAX st) (sanitize_prog cfg fuel) (mp4_view_init true I64MAX st data)) = EIo EInvalidInput"""),
]
_ATREQ = ["From Coq Require Import List NArith ZArith Bool.",
          "From MS Require Import Base.Bytes Base.Outcome Base.Cursor Base.Adapters Base.Prog Base.StackReader Base.StackSpec Mp4.San Props.C11at.",
          "Open Scope N_scope."]
THEOREMS = THEOREMS + [
    ("C11_stack_refines_cursor_at", """forall (own_cap : N) (stdf : bool) (ms : N) (st : stk) (data : bytes) (inp : input) (k : N),
  1 <= own_cap -> stk_ok st -> blen data <= I64MAX -> ms_ok (blen data) ms -> inp_is inp data -> k <= blen data ->
  forall (A : Type) (p : Prog.prog A),
    fst (Prog.run (stack_reader own_cap stdf ms st) p (stack_init_at k ms st data)) = fst (Prog.run (Prog.cursor inp true ms) p k)"""),
    ("C11_same_result_mp4_at", """forall (cfg : config) (fuel : nat) (ms : N) (st1 st2 : stk) (e1 e2 : bool) (data : bytes) (k : N),
  stk_ok st1 -> stk_ok st2 -> blen data <= I64MAX -> ms_ok (blen data) ms -> k <= blen data ->
  fst (Prog.run (mp4_view e1 ms st1) (sanitize_prog cfg fuel) (mp4_view_init_at k e1 ms st1 data)) =
  fst (Prog.run (mp4_view e2 ms st2) (sanitize_prog cfg fuel) (mp4_view_init_at k e2 ms st2 data))"""),
]
_DREQ = ["From Coq Require Import List NArith Bool.", "From Coq.Strings Require Import Byte.",
         "From MS Require Import Base.Bytes Base.Outcome Base.Prog Base.ProgSpec Base.Cursor Base.Adapters Base.AdaptersSpec Base.StackReader "
         "Base.StackSpec Mp4.Header Mp4.Box Mp4.San Mp4.Spec Webp.Container Props.C11d.",
         "Open Scope N_scope."]
# finding D11 in its exact shape (Props/C11d.v): the seek limit of a reader only ever ADDS Io(InvalidInput/InvalidData); the verdict never differs
THEOREMS = THEOREMS + [
    ("C11_max_seek_only_adds_io", """forall (A : Type) (T : perr -> Prop) (p : prog A), propagating T p ->
  forall (inp : input) (ms1 ms2 pos : N), ms1 <= ms2 ->
  fst (run (cursor inp true ms1) p pos) = fst (run (cursor inp true ms2) p pos) \\/
  exists e, (e = EInvalidInput \\/ e = EInvalidData) /\\ fst (run (cursor inp true ms1) p pos) = EIo e"""),
    ("C11_mp4_D11_is_all", """forall (cfg : config) (inp : input) (fuel : nat) (ms1 ms2 : N),
  ilen inp <= ms1 -> ms1 <= ms2 -> ms2 <= U64MAX ->
  (forall t, cumulative_mdat_box_size cfg = Some t -> t <= U32MAX) ->
  mp4_sanitize cfg true ms1 inp fuel = mp4_sanitize cfg true ms2 inp fuel \\/
  exists e, (e = EInvalidInput \\/ e = EInvalidData) /\\
            mp4_sanitize cfg true ms1 inp fuel = EIo e /\\ is_ok (mp4_sanitize cfg true ms2 inp fuel) = false"""),
    ("C11_webp_D11_is_all", """forall (lossless : N -> N -> bytes -> res unit) (allow : bool) (inp : input) (fuel : nat) (ms1 ms2 : N),
  ilen inp <= ms1 -> ms1 <= ms2 -> (N.to_nat (ilen inp / 8) < fuel)%nat ->
  webp_sanitize lossless allow true ms1 inp fuel = webp_sanitize lossless allow true ms2 inp fuel \\/
  exists e, (e = EInvalidInput \\/ e = EInvalidData) /\\
            webp_sanitize lossless allow true ms1 inp fuel = EIo e /\\ is_ok (webp_sanitize lossless allow true ms2 inp fuel) = false"""),
    ("C11_mp4_views_differ_only_by_D11", """forall (cfg : config) (fuel : nat) (ms1 ms2 : N) (st1 st2 : stk) (e1 e2 : bool) (data : bytes),
  stk_ok st1 -> stk_ok st2 -> blen data <= I64MAX -> ms_ok (blen data) ms1 -> ms_ok (blen data) ms2 -> ms1 <= ms2 ->
  (forall t, cumulative_mdat_box_size cfg = Some t -> t <= U32MAX) ->
  let r1 := fst (Prog.run (mp4_view e1 ms1 st1) (sanitize_prog cfg fuel) (mp4_view_init e1 ms1 st1 data)) in
  let r2 := fst (Prog.run (mp4_view e2 ms2 st2) (sanitize_prog cfg fuel) (mp4_view_init e2 ms2 st2 data)) in
  r1 = r2 \\/ exists e, (e = EInvalidInput \\/ e = EInvalidData) /\\ r1 = EIo e /\\ is_ok r2 = false"""),
]
REQUIRES_FOR = {"C11_stack_refines_cursor_at": _ATREQ, "C11_same_result_mp4_at": _ATREQ,
                "C11_max_seek_only_adds_io": _DREQ, "C11_mp4_D11_is_all": _DREQ, "C11_webp_D11_is_all": _DREQ,
                "C11_mp4_views_differ_only_by_D11": _DREQ}
COQ_TARGETS = COQ_TARGETS + ["theories/Props/C11at.vo", "theories/Props/C11d.vo"]
COQCHK = COQCHK + ["MS.Props.C11at", "MS.Props.C11d"]
TRUSTED = [
    "Coq 8.16.1 kernel (coqc; coqchk in the thorough tier); vm_compute for C11_cursor_vs_file_refuted and the Examples; no native_compute",
    "axioms: none (Print Assumptions = Closed under the global context for every theorem)",
    "hand-written models: Base/Adapters.v (std/futures BufReader, Cursor, SeekSkipAdapter, forwarding, AsyncInputAdapter; tied to the code by "
    "C15's batch), Base/StackReader.v (the sanitizer's own BufReader operations over a stack; chunking bottom), Mp4/San.v (the sanitizer "
    "programme; tied by the mp4 area's batch); all three tied again by this check: the extracted programme run through the extracted stack "
    "readers vs the real entry points over the real stacks",
    "the sync/async identity is by construction in the model (one programme; AsyncInputAdapter layer); that the Rust entry points are that one "
    "programme is what this batch samples; the compiler's async lowering is not modelled",
    "File is modelled as the same seek-style cursor with max_seek = the largest offset lseek accepts on the file system under /verif/build/tmp "
    "(probed on every run by the harness: `fsmax`)",
    "webpsan: the theorem C11_same_result_webp is about Webp/Container.v's programme; this batch does not run that model (its lossless "
    "validator belongs to another area): the webp views of the real code are compared with each other only (oracle)",
    "extraction (ExtrOcamlBasic only), OCaml 4.13.1, ocaml/views.ml; Rust harness harness/src/views.rs (stacks of depth >= 2 are handed to the "
    "sanitizer as &mut dyn; depth <= 1 instantiates the sanitizer at the stack's own type); rustc/cargo",
]
ASSUMPTIONS = [
    "in-memory inputs are shorter than 2^63 bytes; max_seek of the underlying object is at least the input length and at most 2^64-1",
    "BufReader capacities >= 1 (BufReader::with_capacity(0) never buffers and would report an empty stream)",
    "usize is 64 bits",
]
RULE = ("each case = one byte string + configuration seen through 10..120 views; view = entry point (sanitize, sanitize_with_config, "
        "sanitize_async, sanitize_async_with_config; webp: sanitize, sanitize_with_config) x adapter stack. Inputs: mp4props seed layouts, "
        "size-field pathologies, truncation at every byte of two seed files, overshoot (declared sizes beyond the input, up to 2^63+100 and 2^64-1), "
        "dense rewrite layouts, limit and cumulative-size lattices, big moovs (1.3 KB, 6 KB), declared sizes around the file system's seek limit "
        "and 2^63; 25 hand-made WebP files and their truncations. Views: (a) exhaustive on two mp4 inputs and one webp input: all 84 sync layer "
        "stacks of depth <= 3 over {buf, box, mut, dynbox} on Cursor, all 155 async stacks of depth <= 3 over {fbuf, box, mut, pin, dynbox} on "
        "futures Cursor, std and futures BufReader of every capacity 1..64 and default over Cursor / SeekSkipAdapter / File, two-level buffers, "
        "chunk sizes 1..n (n = input length) on the chunking base and under BufReader; (b) per input 14 (quick) / 40 (thorough) seeded random "
        "views over bases {Cursor, File, &File, chunking reader, SeekSkipAdapter over each, &mut Cursor; futures Cursor, SeekSkipAdapter over "
        "it, async chunking reader}, depth 0..3, capacities 1..64/default, fixed and random chunkings; (c) `viewsat k`: the same with every bottom "
        "reader ALREADY ADVANCED by k bytes (1..100) when the sanitizer receives it (a caller that read a prefix first), 7 mp4 inputs x 2 configurations "
        "and 4 webp inputs. Oracle: all views of one byte string give "
        "the same canonical result (error kinds compared). Non-trivial = at least 40 bytes and at least 2 views; distinct = distinct case lines.")
EXHAUSTIVE = {"quick": True, "thorough": True}
XCHECK_N = 12
NOTES = ["exhaustive = over the stated stack shapes, capacities and chunk sizes on three inputs; the theorems cover all stacks, capacities, "
         "chunkings and programmes"]

SYNC_LAYERS = ["buf", "box", "mut", "dynbox"]
ASYNC_LAYERS = ["fbuf", "box", "mut", "pin", "dynbox"]
SYNC_BASES = ["cursor", "cursor", "cursor", "file", "reffile", "chunk", "chunk", "seek(cursor)", "seek(file)", "seek(chunk)", "seek(mut(cursor))"]
ASYNC_BASES = ["fcursor", "fcursor", "seek(fcursor)", "seek(achunk)"]


def mkstack(layers, base, force_dyn=False):
    s = base
    for l in reversed(layers):
        s = "%s(%s)" % (l, s)
    if len(layers) >= 2 or force_dyn:
        s = "dyn(%s)" % s
    return s


def view(entry, layers, base, caps=(), chunks=(), force_dyn=False):
    return "%s/%s/%s/%s" % (entry, mkstack(layers, base, force_dyn), ".".join(map(str, caps)) or "-", ".".join(map(str, chunks)) or "-")


def rand_view(rng, entries, n, webp=False):
    e = rng.choice(entries)
    is_async = e in ("a", "ac")
    layers = [rng.choice(ASYNC_LAYERS if is_async else SYNC_LAYERS) for _ in range(rng.choice([0, 1, 1, 2, 2, 3]))]
    base = rng.choice(ASYNC_BASES if is_async else SYNC_BASES)
    caps = [rng.choice([0, 1, 2, 3, 7, 8, 9, 31, 32, 33, 64, rng.randint(1, 64)]) for l in layers if l in ("buf", "fbuf")]
    chunks = ()
    if "chunk" in base:
        k = rng.random()
        if k < 0.5:
            chunks = (rng.randint(1, max(1, min(n, 40))),)
        else:
            chunks = tuple(rng.randint(1, 9) if rng.random() < 0.8 else rng.randint(1, 70) for _ in range(rng.randint(2, 12)))
    return view(e, layers, base, caps, chunks, force_dyn=rng.random() < 0.2)


def norm(ln):
    """a `viewsat <k> ...` line as the `views ...` line it extends (token positions of the helpers below)"""
    if ln.startswith("viewsat "):
        return "views " + ln.split(" ", 2)[2]
    return ln


def line_at(k, kind, mx, cum, data, views, fsmax):
    return "viewsat %d " % k + line(kind, mx, cum, data, views, fsmax).split(" ", 1)[1]


def line(kind, mx, cum, data, views, fsmax):
    return "views %s %s %s %s %s %d" % (kind, "-" if mx is None else str(mx), "-" if cum is None else str(cum), data.hex() or "-",
                                        ",".join(views), fsmax)


def exhaustive_views(entry_sync, entry_async, n):
    """all stacks of depth <= 3, every capacity 1..64 and default, chunk sizes 1..n"""
    out = []
    caps_cycle = itertools.cycle([1, 2, 3, 5, 8, 13, 32, 64, 0])
    for d in range(0, 4):
        for ls in itertools.product(SYNC_LAYERS, repeat=d):
            out.append(view(entry_sync, list(ls), "cursor", [next(caps_cycle) for l in ls if l == "buf"]))
    if entry_async:
        for d in range(0, 4):
            for ls in itertools.product(ASYNC_LAYERS, repeat=d):
                out.append(view(entry_async, list(ls), "fcursor", [next(caps_cycle) for l in ls if l == "fbuf"]))
    for c in list(range(1, 65)) + [0]:
        out.append(view(entry_sync, ["buf"], "cursor", [c]))
        out.append(view(entry_sync, ["buf"], "seek(cursor)", [c]))
        out.append(view(entry_sync, ["buf", "buf"], "cursor", [c, 1 + (c * 7) % 64]))
        out.append(view(entry_sync, ["buf"], "chunk", [c], [1 + (c * 5) % 11]))
        if entry_async:
            out.append(view(entry_async, ["fbuf"], "fcursor", [c]))
            out.append(view(entry_async, ["fbuf"], "seek(fcursor)", [c]))
            out.append(view(entry_async, ["pin", "fbuf"], "seek(achunk)", [c], [1 + (c * 3) % 7]))
    for c in (1, 7, 32, 64, 0):
        out.append(view(entry_sync, ["buf"], "file", [c]))
        out.append(view(entry_sync, ["buf"], "seek(file)", [c]))
    for k in range(1, n + 1):
        out.append(view(entry_sync, [], "chunk", (), (k,)))
        out.append(view(entry_sync, ["buf"], "chunk", [1 + k % 9], (k,)))
        if entry_async:
            out.append(view(entry_async, [], "seek(achunk)", (), (k,)))
    return out


def dense_of(case_line_):
    """bytes actually present at the front of an mp4props case (a sparse tail is simply absent: the box is declared long)"""
    c = parse_case(case_line_)
    if not c["exts"]:
        return b"", c
    o, d = c["exts"][0]
    if o != 0 or len(c["exts"]) != 1:
        return None, c
    return d, c


def webp_inputs():
    def chunk(name, payload, size=None):
        n = len(payload) if size is None else size
        return name + struct.pack("<I", n) + payload + (b"\0" if len(payload) % 2 else b"")

    def riff(body, size=None):
        return b"RIFF" + struct.pack("<I", 4 + len(body) if size is None else size) + b"WEBP" + body
    vp8l = bytes.fromhex("2f00000000888808")
    good = riff(chunk(b"VP8L", vp8l))
    vp8 = chunk(b"VP8 ", bytes(range(1, 21)))
    vp8x = chunk(b"VP8X", bytes([0, 0, 0, 0, 0, 0, 0, 0, 0, 0]))
    out = [good, riff(vp8), riff(vp8x + vp8), riff(vp8x + chunk(b"VP8L", vp8l)), riff(vp8 + chunk(b"abcd", b"xyz")),
           riff(chunk(b"VP8 ", bytes(range(1, 20)))), riff(vp8, size=4 + len(vp8) + 1), riff(vp8, size=4 + len(vp8) - 1), riff(vp8) + b"x",
           riff(chunk(b"VP8 ", b"abcd", size=1000)), riff(chunk(b"VP8 ", b"abcd", size=2 ** 32 - 1), size=2 ** 32 - 9),
           riff(b""), b"RIFF", b"", b"RIFX" + good[4:], good[:8] + b"WEBQ" + good[12:], riff(chunk(b"ALPH", b"\0ab") + vp8),
           riff(vp8x + chunk(b"EXIF", b"ab") + vp8), riff(chunk(b"VP8X", bytes([0x10, 0, 0, 0, 0, 0, 0, 0, 0, 0])) + chunk(b"ALPH", b"\0" + b"a" * 1) + vp8),
           riff(chunk(b"VP8X", bytes([0x02, 0, 0, 0, 0, 0, 0, 0, 0, 0])) + chunk(b"ANIM", bytes(6)) + chunk(b"ANMF", bytes(16) + vp8)),
           riff(chunk(b"VP8L", bytes.fromhex("2f00000020888808"))), riff(chunk(b"VP8L", vp8l[:5])), riff(vp8 + vp8),
           riff(chunk(b"VP8X", bytes(9)) + vp8), riff(chunk(b"VP8 ", b""))]
    return out


def gen(run):
    rng = run.rng
    quick = run.tier == "quick"
    res = run.harness(["f fsmax"])
    try:
        fsmax = int(res.get("f", ""))
    except ValueError:
        fsmax = 2 ** 63 - 1
    m1 = P.simple_moov([(4, [20, 30])])
    md = box(b"mdat", b"abcdefg")
    nviews = 14 if quick else 40
    ALL = ["s", "sc", "a", "ac"]
    CFG = ["sc", "ac"]

    def views_for(entries, n, k=nviews):
        vs = [view(entries[0] if entries[0] in ("s", "sc") else "sc", [], "cursor")]
        vs += [rand_view(rng, entries, n) for _ in range(k)]
        return vs

    # corpus: the D11 witness and its neighbours, the unit-test shapes
    def long_mdat(sz):
        return P.F() + m1 + be32(1) + b"mdat" + be64(sz) + b"abc"
    fixed = ["sc/cursor/-/-", "sc/file/-/-", "sc/reffile/-/-", "sc/seek(file)/-/-", "sc/buf(file)/7/-", "s/cursor/-/-", "s/file/-/-",
             "a/fcursor/-/-", "ac/fbuf(seek(fcursor))/5/-", "sc/dyn(buf(box(buf(chunk))))/3.4/2.1.5", "sc/buf(cursor)/0/-",
             "ac/dyn(pin(fbuf(seek(achunk))))/9/1.2", "sc/dyn(mut(dynbox(seek(file))))/-/-"]
    hdr = len(P.F() + m1) + 16
    for sz in [2 ** 63 + 100, 2 ** 63 - hdr + 16, 2 ** 63 - hdr + 15, 2 ** 62, fsmax - hdr + 16 + 1, fsmax - hdr + 16, fsmax - hdr + 15,
               2 ** 32 + 5, 1000, 19, 2 ** 64 - 1, 2 ** 64 - hdr + 15]:
        yield line("mp4", None, None, long_mdat(sz), fixed, fsmax), "corpus-d11"
        yield line("mp4", None, None, P.F() + m1 + md + be32(1) + b"free" + be64(sz), fixed, fsmax), "corpus-d11"

    # (a) exhaustive stacks / capacities / chunk sizes on two mp4 inputs and one webp input
    ex_inputs = [P.F() + md + m1, P.F() + m1 + box(b"mdat", b"abc", form="eof"), (P.F() + md + m1)[:-5]]
    for d in ex_inputs[:2 if quick else 3]:
        vs = exhaustive_views("sc", "ac", len(d))
        for i in range(0, len(vs), 100):
            yield line("mp4", DEFAULT_MAX, None, d, ["sc/cursor/-/-"] + vs[i:i + 100], fsmax), "exhaustive"
        vs = exhaustive_views("s", "a", 0)[:400]
        for i in range(0, len(vs), 100):
            yield line("mp4", None, None, d, ["sc/cursor/-/-"] + vs[i:i + 100], fsmax), "exhaustive"
    w0 = webp_inputs()[0]
    vs = exhaustive_views("s", None, len(w0))
    for i in range(0, len(vs), 100):
        yield line("webp", None, None, w0, ["sc/cursor/-/-"] + vs[i:i + 100], fsmax), "exhaustive-webp"

    # (b) many inputs, random views
    for lay in P.seed_layouts(rng):
        d = b"".join(lay)
        yield line("mp4", None, None, d, views_for(ALL, len(d)), fsmax), "seed-layouts"
    seen = set()
    for cl, stream in itertools.chain(P.pathologies(rng, readers=("cursor",)),
                                      P.config_lattice(rng, readers=("cursor",)),
                                      P.rewrite_cases(rng, 150 if quick else 2500, readers=("cursor",), sparse=False)):
        d, c = dense_of(cl)
        if d is None or (d, c["max"], c["cum"]) in seen:
            continue
        seen.add((d, c["max"], c["cum"]))
        default = c["max"] == DEFAULT_MAX and c["cum"] is None
        k = 6 if stream == "truncation" and quick else nviews
        if default:
            yield line("mp4", None, None, d, views_for(ALL, len(d), k), fsmax), stream
        else:
            yield line("mp4", c["max"], c["cum"], d, views_for(CFG, len(d), k), fsmax), stream
    # many top-level boxes: anything periodic in the box loop (a yield, a flush) would differ between the blocking and the async entry points
    for nb in (130, 300):
        fill = b"".join(box(rng.choice([b"free", b"skip"]), b"") for _ in range(nb))
        for d in (P.F() + m1 + fill + md, P.F() + md + fill + m1):
            yield line("mp4", None, None, d, views_for(ALL, 64, 8), fsmax), "many-boxes"
    # big moovs: a default configuration that differs between entry points would show here
    for n_entries in (300, 1500):
        big = P.simple_moov([(4, list(range(100, 100 + n_entries)))])
        for d in (P.F() + md + big, P.F() + big + md):
            yield line("mp4", None, None, d, views_for(ALL, 64, 8), fsmax), "big-moov"
            yield line("mp4", len(big) - 9, None, d, views_for(CFG, 64, 4), fsmax), "big-moov"
    # readers that are already advanced when they are handed over (a caller that read a k-byte prefix first): positions stay the
    # reader's own, and the entry points and stacks still agree
    pre_inputs = [P.F() + md + m1, P.F() + m1 + md, P.F() + md + m1 + box(b"free", b"xy"), (P.F() + md + m1)[:-3], P.F() + m1 + box(b"mdat", b"abc", form="eof"),
                  P.F() + box(b"free", b"\0" * 3) + md + P.simple_moov([(8, [40, 2 ** 33])]), P.F() + md[:-2]]
    for d in pre_inputs:
        for k in ((1, 8, 64) if quick else (1, 2, 7, 8, 9, 31, 32, 33, 64, 100)):
            pre = bytes((37 * i + 11) % 256 for i in range(k))
            yield line_at(k, "mp4", None, None, pre + d, views_for(ALL, len(d), nviews), fsmax), "pre-advanced"
            yield line_at(k, "mp4", len(m1) - 8, None, pre + d, views_for(CFG, len(d), 6), fsmax), "pre-advanced"
    for w in webp_inputs()[:4]:
        for k in (1, 8, 13):
            yield line_at(k, "webp", None, None, bytes(k) + w, views_for(["s", "sc"], len(w), 8), fsmax), "pre-advanced-webp"
    # webp files whose lossless stream really decodes pixels (transforms, palettes, meta prefix images with non-trivial codes), through
    # readers that deliver 1, 2, 3 .. bytes per read: the bit reader's refills are where read chunking meets the validator
    from props import _c19_vp8l as V
    import webpgen as WG
    nll = 0
    while nll < (6 if quick else 80):
        W_, H_, body, _ = V.build_lossless(rng, rng.choice(["plain", "deep", "arbdeep"]), pixel_budget=300)
        if W_ > 16384 or H_ > 16384 or len(body) > 3000:
            continue
        nll += 1
        f = WG.riff(WG.chunk(b"VP8L", WG.vp8l_payload(W_, H_, body)))
        vs = ["sc/cursor/-/-"] + ["%s/%s/%s/%s" % (e, st, caps, ch) for e in ("s", "sc")
                                  for st, caps in (("chunk", "-"), ("seek(chunk)", "-"), ("buf(chunk)", "3"), ("dyn(buf(box(chunk)))", "8"))
                                  for ch in ("1", "2", "3", "1.7.2", "5")]
        yield line("webp", None, None, f, vs, fsmax), "webp-lossless-chunked"
    # webp
    for w in webp_inputs():
        yield line("webp", None, None, w, views_for(["s", "sc"], len(w)), fsmax), "webp"
    w = webp_inputs()[3]
    for k in range(len(w)):
        yield line("webp", None, None, w[:k], views_for(["s", "sc"], k, 6), fsmax), "webp-truncation"


def same(ln, impl, model):
    ln = norm(ln)
    if ln.split()[1] != "mp4":
        return True
    return impl == model


def classify(ln, impl):
    t = impl.split()
    if not t:
        return "missing"
    if t[0].startswith("all="):
        return "same-" + (t[1] if t[1] == "ok" else "-".join(t[1:4]).split(":")[0])
    return t[0]


def nontrivial(ln, impl):
    t = norm(ln).split()
    return len(t[4]) >= 80 and t[5].count(",") >= 1


def oracle(run, pairs):
    out = []
    for ln, impl in pairs:
        if impl.startswith("all="):
            out.append((True, "all views agree"))
        else:
            out.append((False, "views differ: " + impl[:300]))
    return out


def known_class(ln, impl):
    """D11: the views that differ are exactly File-based ones and answer Io(InvalidInput) where the in-memory views report a
    parse error (the seek target exceeds what lseek accepts)"""
    if not impl.startswith("diff "):
        return None
    parts = impl[5:].split(" ## ")
    first, diffs = parts[0], parts[1:]
    views = norm(ln).split()[5].split(",")
    if "file" in views[0]:
        return None
    file_views = [v for v in views if "file" in v]
    dv = [d.split(" => ")[0] for d in diffs]
    if sorted(dv) == sorted(file_views) and all(d.endswith("=> err io InvalidInput") for d in diffs) and not first.startswith("err io InvalidInput") \
            and first.startswith("err"):
        # C11_mp4_D11_is_all / C11_webp_D11_is_all: when the limited view answers Io the other one rejects too; an ACCEPTING in-memory view
        # next to a failing file view is outside the finding
        return "D11"
    return None


def search(run, disagreements):
    import random
    rng = random.Random(run.seed + 11)
    res = run.harness(["f fsmax"])
    try:
        fsmax = int(res.get("f", ""))
    except ValueError:
        fsmax = 2 ** 63 - 1
    ALL = ["s", "sc", "a", "ac"]
    for cl, stream in itertools.chain(P.rewrite_cases(rng, 1500, readers=("cursor",), sparse=False), P.pathologies(rng, readers=("cursor",))):
        d, c = dense_of(cl)
        if d is None:
            continue
        default = c["max"] == DEFAULT_MAX and c["cum"] is None
        vs = ["sc/cursor/-/-"] + [rand_view(rng, ALL if default else ["sc", "ac"], len(d)) for _ in range(40)]
        yield line("mp4", None if default else c["max"], None if default else c["cum"], d, vs, fsmax), "search"
    for w in webp_inputs():
        for k in range(len(w) + 1):
            vs = ["sc/cursor/-/-"] + [rand_view(rng, ["s", "sc"], k) for _ in range(30)]
            yield line("webp", None, None, w[:k], vs, fsmax), "search"


def _coq_stack(v, fsmax):
    entry, stack, caps, chunks = v.split("/")
    caps = [] if caps == "-" else [int(x) for x in caps.split(".")]
    sizes = [] if chunks == "-" else [int(x) for x in chunks.split(".")]
    names = stack.replace(")", "").split("(")
    ms = "U64MAXN"
    # base = trailing names
    for nb in (3, 2, 1):
        b = "(".join(names[-nb:])
        if b in ("seek(mut(cursor", "seek(cursor", "seek(file", "seek(chunk", "seek(fcursor", "seek(achunk", "cursor", "fcursor", "file", "reffile", "chunk"):
            layers = names[:-nb]
            break
    else:
        return None
    szs = "[" + "; ".join(map(str, sizes)) + "]" if "chunk" in b else "[]"
    term = ("(SSeek %s)" if b.startswith("seek") else "(SCursor %s)") % szs
    if "file" in b:
        ms = str(fsmax)
    caps = list(caps)
    for l in reversed(layers):
        pass
    def wrap(ls):
        if not ls:
            return term
        l = ls[0]
        if l in ("buf", "fbuf"):
            c = caps.pop(0)
            return "(%s %d %s)" % ("SBuf" if l == "buf" else "SFBuf", 8192 if c == 0 else c, wrap(ls[1:]))
        return "(SFwd %s)" % wrap(ls[1:])
    st = wrap(layers)
    return entry, ms, st


def coq_bool(ln, model_out):
    if ln.startswith("viewsat "):
        return None
    t = ln.split()
    if t[1] != "mp4" or len(t[4]) > 700 or not model_out.startswith("all="):
        return None
    res = model_out.split(" ", 1)[1]
    r = res.split()
    if r[0] == "ok" and r[1] == "none":
        pat = "Ok {| o_metadata := None; o_data := {| s_off := %s; s_len := %s |} |}" % (r[2], r[3])
    elif r[0] == "ok":
        pat = "Ok {| o_metadata := Some _; o_data := {| s_off := %s; s_len := %s |} |}" % (r[3], r[4])
    elif r[:2] == ["err", "io"]:
        pat = "EIo E%s" % r[2]
    elif r[:2] == ["err", "parse"]:
        k = r[2].split(":")[0]
        pat = "EParse %s" % (k if ":" not in r[2] else "(%s _)" % k)
    else:
        return None
    views = t[5].split(",")
    v = views[min(len(views) - 1, 3)]
    cs = _coq_stack(v, int(t[6]))
    if cs is None:
        return None
    entry, ms, st = cs
    data = bytes.fromhex(t[4]) if t[4] != "-" else b""
    with_cfg = entry in ("sc", "ac")
    mx = DEFAULT_MAX if (t[2] == "-" or not with_cfg) else int(t[2])
    cum = "None" if (t[3] == "-" or not with_cfg) else "(Some %s)" % t[3]
    cfg = "{| max_metadata_size := %d; cumulative_mdat_box_size := %s |}" % (mx, cum)
    sync = "true" if entry in ("s", "sc") else "false"
    dl = "[" + "; ".join("x%02x" % b for b in data) + "]"
    return ("match fst (Prog.run (mp4_view %s %s %s) (sanitize_prog %s %d) (mp4_view_init %s %s %s %s)) with %s => true | _ => false end"
            % (sync, ms, st, cfg, len(data) // 8 + 4, sync, ms, st, dl, pat))


LEVEL_TEXT = ("Theorems (Coq, unbounded): every adapter stack of any depth (SeekSkipAdapter, std/futures BufReader of any capacity >= 1, &mut/Box/Pin, "
              "AsyncInputAdapter) over a cursor with ANY short-read oracle refines the lenient seek-style cursor on all operations (also skips that "
              "leave the stream or are refused above max_seek, with the error kind); the sanitizer's own BufReader over such a stack simulates the "
              "ideal cursor operation by operation; by a generic simulation lemma (induction on the programme) EVERY programme - in particular "
              "the MP4 sanitizer model, through its synchronous or asynchronous entry - gives the same result through any two views of the same "
              "bytes with equal max_seek, for every chunking. Across different max_seek (io::Cursor vs File) the statement is REFUTED "
              "(C11_cursor_vs_file_refuted, finding D11). Plus correspondence: the extracted sanitizer programme run through the extracted stack "
              "models vs the real entry points over the real stacks, and the oracle 'all views agree' on every case. 'For all stacks, capacities, "
              "chunkings and inputs' is a universally quantified statement; the proof decides it, the batch ties the models to the code.")
LEVEL_NOTE = ("Trusted: Coq kernel; the adapter models (C15's batch), the stack-reader model of the sanitizer's own BufReader operations, the MP4 "
              "programme model (mp4 area's batch), all compared again here; the sync/async identity holds by construction in the model and is "
              "sampled on the code; File = seek-style cursor with the probed lseek limit; for webpsan the theorems C11_same_result_webp / "
              "C11_webp_view_is_model are about the container programme of Webp/Container.v (any lossless validator); in this batch the webp views are "
              "compared with each other only, the container model itself is tied to the code by C06's batch. "
              "Known finding D11 is reported as KNOWN-FINDING on every run. No axioms.")
TECHNIQUE = "Coq simulation proof (lenient refinement of every adapter, induction on stacks and on programmes) + differential check of extracted programme-through-stack vs real entry points + cross-view oracle"
DESIGN_REF = "DESIGN.md section 7 (C11), section 8 (D11), Appendix A"
