"""C07 - WebP: no lossless stream is accepted that the reference decoder rejects."""
from . import _c19_vp8l as V
from . import _c07_vp8l as G
from . import _vp8l_common as C

ID = "C07"
AREA = "vp8l"
COQ_TARGETS = ["theories/Props/C07.vo", "theories/Props/C07f.vo"]
REQUIRES = ["From Coq Require Import List NArith ZArith Bool.",
            "From Coq.Strings Require Import Byte.",
            "From MS Require Import Base.Bytes Base.Outcome Webp.Huffman Webp.HuffmanSpec Webp.BitBufSpec Webp.Vp8l Webp.Vp8lSpec "
            "Webp.Vp8lProofsTop Props.C07.",
            "Import ListNotations.", "Open Scope N_scope."]
COQCHK = ["MS.Props.C07", "MS.Props.C07f"]
from ._c07_theorems import THEOREMS_C07 as _T07      # pinned statements (one file for C07 and C08)
THEOREMS = list(_T07) + [
    ("C07_file_level", """forall (allow lenient : bool) (ms : N) (inp : input) (fuel : nat),
  webp_sanitize lossless_read allow lenient ms inp fuel = Ok tt -> webp_spec reference_ok allow inp = true"""),
    ("C07_grammar_monotone", """forall (lok1 lok2 : N -> N -> bytes -> bool) (allow : bool) (inp : input),
  (forall w h b, lok1 w h b = true -> lok2 w h b = true) ->
  webp_spec lok1 allow inp = true -> webp_spec lok2 allow inp = true"""),
]
_FREQ = ["From Coq Require Import List NArith Bool.", "From Coq.Strings Require Import Byte.",
         "From MS Require Import Base.Bytes Base.Outcome Base.Prog Webp.Container Webp.Grammar Webp.Vp8l Webp.Vp8lSpec Webp.WebpSpecProofs Props.C07f.",
         "Open Scope N_scope."]
REQUIRES_FOR = {"C07_file_level": _FREQ, "C07_grammar_monotone": _FREQ}
_TREQ = ["From Coq Require Import List NArith ZArith Bool.",
         "From MS Require Import Base.Bytes Base.Outcome Webp.Huffman Webp.Vp8l Gen.WebpTables Webp.TableProofs Props.C07t.",
         "Import ListNotations.", "Open Scope N_scope."]
THEOREMS = THEOREMS + [
    ("C07_color_index_block_is_src", """forall len,
  color_index_block len = lookup_range COLOR_INDEX_BLOCKS_SRC COLOR_INDEX_BLOCK_DEFAULT_SRC len"""),
    ("C07_alphabet_size_is_src", """forall k cache_len,
  alphabet_size k cache_len =
  match k with
  | KGreen => ALPHABET_GREEN_BASE_SRC + ALPHABET_GREEN_LEN_SRC + cache_len
  | KArb => ALPHABET_ARB_SRC
  | KDist => ALPHABET_DIST_SRC
  end"""),
    ("C07_tables_taken_from_source", """DISTANCE_MAP_Z = DISTANCE_MAP_SRC /\\ DISTANCE_MAP_LEN = DISTANCE_MAP_LEN_SRC /\\ CODE_ORDER = CODE_ORDER_SRC /\\
  N.of_nat (length DISTANCE_MAP_SRC) = DISTANCE_MAP_LEN_SRC /\\ length CODE_ORDER_SRC = 19%nat"""),
    ("C07_literals_match_source", """TRANSFORM_CODES_SRC = [0; 1; 2; 3] /\\ COLOR_CACHE_MAX_ORDER_SRC = 11 /\\
  REPEAT_CODES_SRC = [(16, (3, 2)); (17, (3, 3)); (18, (11, 7))] /\\
  BACKREF_SYMBOLS_SRC = (256, 279) /\\ ALPHABET_GREEN_BASE_SRC + ALPHABET_GREEN_LEN_SRC = 280 /\\
  VP8L_SIGNATURE_SRC = 47 /\\ LZ77_MAX_SYMBOL_SRC = 39 /\\ LZ77_MAX_LEN_SRC = 18"""),
]
REQUIRES_FOR = dict(REQUIRES_FOR, **{n: _TREQ for n in ("C07_color_index_block_is_src", "C07_alphabet_size_is_src",
                                                         "C07_tables_taken_from_source", "C07_literals_match_source")})
COQ_TARGETS = COQ_TARGETS + ["theories/Props/C07t.vo"]
COQCHK = COQCHK + ["MS.Props.C07t"]

TRUSTED = [
    "Coq 8.16.1 kernel (coqc; coqchk in the thorough tier); vm_compute only in Examples and the table equality C07_distance_map_eq; no native_compute",
    "axioms: none (Print Assumptions of every theorem = Closed under the global context)",
    "hand-written model Webp/Vp8l.v of webpsan/src/parse/lossless.rs (LosslessImage::read and everything below it) over the ideal LSB-first bit source; "
    "tied to the code by the correspondence batch on every run (exact error kinds, through LosslessImage::read on a 4096-byte BitBufReader AND through "
    "webpsan::sanitize on RIFF/WEBP/VP8L files); the buffered reader is C19's subject (C19_verdict_capacity_independent transports the ideal-source model "
    "to BitBufReader for every capacity >= 16), the prefix-code trees are C18's (Webp/Huffman.v)",
    "the specification Webp/Vp8lSpec.v (materialising header-phase decoder transcribed from the WebP lossless specification and libwebp 1.3.1 "
    "vp8l_dec.c / huffman_utils.c; prefix-code validity = Kraft equality of HuffmanSpec.v; canonical code table) - compared with libwebp's own header "
    "decoder on every case of every run",
    "REFERENCE DECODER: libwebp 1.3.1 as vendored and statically linked by libwebp-sys 0.9.6; its internal VP8LDecodeHeader / VP8LNew / VP8LDelete are "
    "declared by hand in harness/src/vp8l.rs together with the layout prefix of struct VP8LDecoder (status_, br_) and struct VP8Io; after the call the harness "
    "applies libwebp's own end-of-stream predicate (more bits consumed than present => reject), because VP8LDecodeHeader notices an overrun inside the very "
    "last code-length symbol only at its next refill (in the pixel phase); ALPH payloads are decoded by the same DecodeImageStream(w, h, level0), reached here "
    "by prefixing the 5-byte VP8L header with the plane's dimensions",
    "extraction (ExtrOcamlBasic only), OCaml 4.13.1, ocaml/vp8l.ml (text <-> numbers/bytes only)",
    "Rust harness harness/src/vp8l.rs; rustc/cargo; the stream writers lib/props/_c19_vp8l.py and _c07_vp8l.py; in-process WebPEncode for the encoder corpus",
]
ASSUMPTIONS = [
    "the first sentence of the property speaks about libwebp: libwebp is SAMPLED (every generated case: implementation accepts => libwebp's header decoder "
    "accepts; specification verdict = libwebp verdict), the theorems are about the model versus the transcribed specification",
    "theorem domain: 0 < w <= 2^24, 0 < h <= 2^24, w*h < 2^32 - what a VP8X canvas (24-bit one-based, product checked) or a 14-bit VP8L header can carry; "
    "outside it NonZeroU32::saturating_mul and the u32 product dy*width differ from unbounded arithmetic",
    "one construct libwebp tolerates is refused by the specification as written here (and by webpsan): a two-symbol simple DISTANCE code naming one symbol "
    ">= 40 next to a valid one (libwebp drops the outside symbol silently). The spec-vs-libwebp tie excuses exactly this direction "
    "(specification: symbol-outside-alphabet, libwebp: accept)",
    "documented strictness of webpsan (not violations of C07, subject of C08): predictor sub-image literals with green outside 0..13 (libwebp masks "
    "green & 15 and implements modes 14, 15), a code with a single used symbol of length != 1 (also for the 19-symbol code-length code)",
    "ANMF/ALPH dimension plumbing (finding D4b, repaired) is the container area's subject; here every lossless payload is checked with the dimensions "
    "its chunk header / canvas / frame gives",
]
RULE = ("streams for LosslessImage::read(w, h): (1) grammar-synthesised valid header phases (every transform order and subset - all 65 ordered selections -, "
        "colour-cache sizes 0..11, meta prefix image or not, simple and normal codes, max_symbol, repeat runs, mapped and linear back-reference distances, cache "
        "symbols, zero-length codes), image sizes from the lattice 1..16384; (2) the same with EACH rule violated in turn at a random place (duplicate transform, "
        "cache bits 0/12..15, max_symbol > alphabet, repeat overrun, incomplete / over-subscribed / empty code, symbol outside alphabet, back reference before "
        "the start / past the end, predictor > 13, single symbol of length != 1); (3) libwebp WebPEncode output in-process (lossless VP8L payloads and lossless "
        "ALPH planes of lossy images; sizes 1..512 and up to 16384 wide; methods 0..6, qualities, palettes, near-lossless, exact), pristine and under bit flips, "
        "splices and truncation at every byte (quick: every byte of the first 48, then sampled); (4) C19's deep-code / long-back-reference streams; (5) the "
        "regression corpus (D5, D12, D14 witnesses). Non-trivial = the stream is not rejected inside its first 2 bytes; distinct = distinct (w, h, bytes).")
EXHAUSTIVE = {"quick": False, "thorough": False}
XCHECK_N = 30
NOTES = [
    "repaired defects, each kept as a mutant witness in corpus/C07: D5 (88668f1) simple code naming a symbol outside its alphabet accepted; "
    "D12 (f312f55) two-symbol simple code naming one symbol twice read with one bit per use; D14 (72d7d8b) two-symbol simple code decoded by position "
    "instead of canonically (found by this area: `vp8l 4 4 dc008888c888880800`)",
    "webpsan's check `color_cache_index < color_cache.len()` and its InvalidLz77PrefixCode branch are unreachable: the green alphabet is exactly "
    "280 + cache size and the distance alphabet exactly 40 (both enforced when the code is read)",
]


def gen(run):
    rng = run.rng
    quick = run.tier == "quick"
    for l in C.corpus_lines("C07"):
        yield l, "corpus"
    # (1) grammar-synthesised valid streams, all transform orders
    for o in G.ORDERS:
        W, H, data, _ = G.build(rng, order=o)
        yield C.case(W, H, data), "valid-orders"
    n_valid = 250 if quick else 6000
    valid = []
    for i in range(n_valid):
        W, H, data, f = G.build(rng)
        valid.append((W, H, data))
        yield C.case(W, H, data), "valid-synth"
    for c in G.CORNERS:
        for i in range(6 if quick else 150):
            W, H, data = G.corner(rng, c)
            if c == "single-leaf" and quick and W * H > 1 << 18:
                continue
            yield C.case(W, H, data), "corner-" + c
    for i in range(2 if quick else 12):
        W, H, data, _ = G.build(rng, size=(rng.choice([2048, 4096, 16384]), rng.choice([1024, 2048, 16384])), big_fill=True)
        yield C.case(W, H, data), "valid-bigfill"
    # (2) each rule violated in turn
    for v in G.VIOLATIONS:
        for i in range(25 if quick else 800):
            W, H, data, _ = G.build(rng, violate=v)
            yield C.case(W, H, data), "violate-" + v
    # (4) C19's streams
    for i in range(30 if quick else 1500):
        style = "extrabits" if (i % 15 == 14) else rng.choice(["plain", "deep", "arbdeep"])
        W, H, data, _ = V.build_lossless(rng, style)
        valid.append((W, H, data))
        yield C.case(W, H, data), "valid-c19-" + style
    # mutations of synthesised streams
    for W, H, data in (valid if not quick else valid[::2]):
        if len(data) > 20000:
            continue
        for kind, d in C.mutations(rng, data, 2, 1, 2):
            yield C.case(W, H, d), "synth-" + kind
    for W, H, data in rng.sample(valid, 6 if quick else 60):
        if len(data) <= 400:
            for c in range(len(data)):
                yield C.case(W, H, data[:c]), "synth-cut-every-byte"
    # (3) encoder output
    n_enc = 60 if quick else 900
    elines = []
    for (w, h) in C.enc_sizes(rng, n_enc, 4 if quick else 30):
        elines.append(C.enc_line(rng, True, w, h))
    for (w, h) in C.enc_sizes(rng, n_enc // 3, 1 if quick else 6):
        elines.append(C.enc_line(rng, False, w, h, alpha=rng.choice([1, 2, 3, 4])))
    files = C.run_generators(run, elines)
    nfail = sum(1 for f in files if f is None)
    if nfail:
        run.notes.append("encoder corpus: %d of %d encodes failed" % (nfail, len(files)))
    npay = 0
    for f in files:
        if f is None:
            continue
        for kind, w, h, body in C.lossless_payloads(f):
            npay += 1
            yield C.case(w, h, body[:60000]), "enc-" + kind       # the header phase sits at the front; keep the cases small
            short = body[:8000]
            every = 48 if quick else (400 if npay % 10 == 0 else 48)
            for k2, d in C.mutations(rng, short, 6 if quick else 20, 2 if quick else 6, 2 if quick else 6, every_byte_upto=every):
                yield C.case(w, h, d), "enc-%s-%s" % (kind, k2)
            if kind == "ALPH" and rng.random() < (0.3 if quick else 0.6) and len(f) < 30000:
                yield "alphfile %s %s" % (C.hx(f), C.hx(body)), "alph-in-situ"
                for k2, d in C.mutations(rng, short, 2, 1, 1)[:3]:
                    yield "alphfile %s %s" % (C.hx(f), C.hx(d)), "alph-in-situ-" + k2


def same(line, impl, model):
    if line.startswith("alphfile"):
        return C.fields(impl).get("san") == C.fields(model).get("san")
    return C.same_vp8l(impl, model)


def classify(line, impl):
    if line.startswith("alphfile"):
        return "alph:" + C.fields(impl).get("san", "missing")
    return C.classify_vp8l(impl)


def nontrivial(line, impl):
    t = line.split()
    return t[0] == "vp8l" and len(t[3]) > 4


def oracle(run, pairs):
    """implementation accepts /\\ the reference decoder (libwebp) rejects => failing input; both entry points."""
    out = []
    for line, impl in pairs:
        a = C.fields(impl)
        if line.startswith("alphfile"):
            out.append((True, "correspondence only"))
            continue
        ref = a.get("ref")
        bad = ref == "reject" and (a.get("impl") == "ok" or a.get("san") == "ok")
        out.append((not bad, "webpsan %s/%s, libwebp header decoder: %s" % (a.get("impl"), a.get("san"), ref)))
    return out


def search(run, disagreements):
    rng = run.rng
    for line, a, b in disagreements[:40]:
        t = line.split()
        if t[0] != "vp8l":
            continue
        body = b"" if t[3] == "-" else bytes.fromhex(t[3])
        for kind, d in C.mutations(rng, body, 20, 5, 10):
            yield "vp8l %s %s %s" % (t[1], t[2], C.hx(d)), "search"
    for v in [None] + G.VIOLATIONS:
        for i in range(150):
            W, H, data, _ = G.build(rng, violate=v)
            yield C.case(W, H, data), "search"
            for kind, d in C.mutations(rng, data, 2, 1, 1):
                yield C.case(W, H, d), "search"
    for c in G.CORNERS:
        for i in range(100):
            W, H, data = G.corner(rng, c)
            if W * H <= 1 << 18:
                yield C.case(W, H, data), "search"


def coq_bool(line, model_out):
    return C.coq_bool_vp8l(line, model_out)


LEVEL_TEXT = ("At file level (C07_file_level = C06_sound + C07_model_sound + monotonicity of the grammar): if the modelled webpsan accepts an input, every VP8L chunk and "
              "every losslessly compressed ALPH chunk of it (still or in an animation frame) is decodable by the reference reading of the specification for the "
              "dimensions the container attaches to it. Stream level - theorems (Coq, all byte strings, all dimensions in the container's range, no bound): the model of LosslessImage::read accepts exactly the "
              "streams whose header phase the independent materialising specification decodes under webpsan's two documented strictness choices "
              "(C07_model_is_strict_spec: a simulation between the non-materialising validator and the materialising decoder), and every such stream is decoded "
              "by the reference reading of the specification (C07_model_sound, full statement, not partial); the nine violation classes of the property as "
              "corollaries, one per rule the specification reports (C07_no_*: the specification's first failing rule is X => not accepted); never a panic, never "
              "an I/O error, and the supplied fuel suffices (C07_model_total). The property's first sentence is about libwebp, which cannot be proved about: libwebp 1.3.1's own header decoder is run on every "
              "generated case and must (a) accept whatever the implementation accepts and (b) agree with the extracted specification - that is sampling, stated as such.")
LEVEL_NOTE = ("Trusted: Coq kernel; the hand-written model Vp8l.v (tied to the code by the correspondence batch, exact error kinds, two entry points); the "
              "specification Vp8lSpec.v (tied to libwebp by the same batch); libwebp 1.3.1 through hand-declared internals (VP8LDecodeHeader + its own "
              "end-of-stream predicate) as THE reference, sampled not proved; C18 (prefix codes) and C19 (bit buffer) as stated in their own evidence; extraction "
              "and the OCaml/Rust glue. One libwebp leniency (out-of-alphabet symbol in a two-symbol simple distance code) is refused by the specification and "
              "excused in the specification-vs-libwebp tie. Domain of the theorems: 0 < w,h <= 2^24, w*h < 2^32. No axioms.")
TECHNIQUE = "Coq proof (simulation between a validator and a materialising decoder) + differential check of extracted model vs Rust and of extracted specification vs libwebp"
DESIGN_REF = "DESIGN.md section 7 (C07), section 8 (D5, D12, D4b), Appendix B, Appendix E"
