"""Pinned theorem statements of Props/C07.v and Props/C08.v."""
THEOREMS_C07 = []
THEOREMS_C08 = []
