"""Pinned theorem statements of Props/C07.v and Props/C08.v (checked with `Check (name : statement).` on every run)."""

def _no(rule, strict="false"):
    return ("forall w h body, dims w h -> vp8l_spec_why %s w h body = Some %s -> lossless_read w h body <> Ok tt" % (strict, rule))

THEOREMS_C07 = [
    ("C07_model_sound", """forall w h body, dims w h ->
      lossless_read w h body = Ok tt -> vp8l_spec w h body = true"""),
    ("C07_model_is_strict_spec", """forall w h body, dims w h ->
      is_ok (lossless_read w h body) = vp8l_spec_strict w h body"""),
    ("C07_strict_implies_reference", """forall w h body, vp8l_spec_strict w h body = true -> vp8l_spec w h body = true"""),
    ("C07_model_total", """forall w h body, dims w h ->
      lossless_read w h body = Ok tt \\/ exists e, lossless_read w h body = EParse e"""),
    ("C07_no_duplicate_transform", _no("RDuplicateTransform")),
    ("C07_no_bad_cache_size", _no("RCacheBits")),
    ("C07_no_overlong_symbol_count", _no("RSymbolCount")),
    ("C07_no_repeat_overrun", _no("RRepeatOverrun")),
    ("C07_no_incomplete_code", """forall w h body, dims w h ->
      vp8l_spec_why false w h body = Some RCodeIncomplete \\/ vp8l_spec_why false w h body = Some RCodeOverSubscribed \\/
      vp8l_spec_why false w h body = Some RCodeEmpty -> lossless_read w h body <> Ok tt"""),
    ("C07_no_symbol_outside_alphabet", _no("RSymbolOutsideAlphabet")),
    ("C07_no_backref_before_start", _no("RBackrefBeforeStart")),
    ("C07_no_backref_past_end", _no("RBackrefPastEnd")),
    ("C07_no_invalid_predictor", _no("RStrictPredictor", "true")),
    ("C07_no_truncated", _no("RTruncated")),
    ("C07_distance_map_eq", """forall dcode width, 1 <= dcode -> width < 2 ^ 29 ->
      distance_of dcode width = Ok (plane_code_to_distance width dcode)"""),
    ("C07_accessors_are_ideal", """(forall w n s, rd w n s = of_ideal (ideal_read w n s)) /\\
      (forall s, rd_bit s = of_ideal (ideal_read_bit s)) /\\
      (forall c s, rd_lz77 c s = of_ideal (ideal_read_lz77 c s))"""),
]

THEOREMS_C08 = [
    ("C08_model_complete", """forall w h body, dims w h ->
      vp8l_spec w h body = true -> strict_exception w h body = false -> lossless_read w h body = Ok tt"""),
    ("C08_strict_exception_is_documented", """forall w h body, strict_exception w h body = true ->
      vp8l_spec_why false w h body = None /\\
      (vp8l_spec_why true w h body = Some RStrictPredictor \\/ vp8l_spec_why true w h body = Some RStrictSingleSymbol)"""),
    ("C08_model_is_strict_spec", """forall w h body, dims w h ->
      is_ok (lossless_read w h body) = vp8l_spec_strict w h body"""),
]
