"""C02 - MP4: returned metadata is self-contained; re-sanitizing metadata||media is a no-op."""
import mp4props as P
from props import _mp4family as fam


def gen(run):
    quick = run.tier == "quick"
    yield from P.standard_stream(run, 400 if quick else 8000, 60 if quick else 2000, 2 if quick else 4)


fam.make(globals(), "C02", ["C02"], gen, second_run=True)
COQ_TARGETS = ["theories/Props/C02.vo"]
REQUIRES = ["From Coq Require Import List NArith ZArith Bool.", "From Coq.Strings Require Import Byte.",
            "From MS Require Import Base.Bytes Base.Outcome Base.Prog Mp4.Header Mp4.Box Mp4.San Mp4.Spec Props.C02.",
            "Import ListNotations.", "Open Scope N_scope."]
COQCHK = ["MS.Props.C02"]
THEOREMS = [
    ("C02_metadata_is_boxes", """forall (cfg : config) (lenient : bool) (ms : N) (inp : input) (fuel : nat) (o : out) (md : bytes) (pad : N),
  mp4_sanitize cfg lenient ms inp fuel = Ok o -> o_metadata o = Some (md, pad) ->
  exists fp mp psz,
    metadata_shape (md_input md pad) = Some (fp, mp, psz) /\\
    explicit_sizes (md_input md pad) = true /\\
    ((psz = 0 /\\ pad = 0) \\/ psz = 8 + pad)"""),
    ("C02_metadata_is_boxes_of_input", """forall (cfg : config) (lenient : bool) (inp : input) (fuel : nat) (o : out) (md : bytes) (pad : N),
  ilen inp <= U64MAX -> (forall t, cumulative_mdat_box_size cfg = Some t -> t <= U32MAX) ->
  mp4_sanitize cfg lenient U64MAX' inp fuel = Ok o -> o_metadata o = Some (md, pad) ->
  exists bs f m mp psz,
    tiling (cumulative_mdat_box_size cfg) inp = Some bs /\\ the_ftyp bs = Some f /\\ last_moov bs = Some m /\\
    metadata_shape (md_input md pad) = Some (tb_payload inp f, mp, psz) /\\
    blen mp = blen (tb_payload inp m) /\\
    explicit_sizes (md_input md pad) = true /\\
    ((psz = 0 /\\ pad = 0) \\/ psz = 8 + pad)"""),
]
TRUSTED = fam.TRUSTED_COMMON + ["axioms: none (Print Assumptions of the two theorems = Closed under the global context)"]
ASSUMPTIONS = fam.ASSUMPTIONS_COMMON + [
    "part (b) (C02_fixpoint: sanitizing metadata||media again returns (None, |md|, len)) is NOT proved; it is checked on every generated "
    "case by a second run of the real implementation (and of the model) on the spliced input",
]
RULE = ("the standard MP4 stream (seed layouts, gap lattice incl. gaps 1..7 / 0 / 8.., structure-aware random rewrite layouts dense and sparse with "
        "several moov and mdat boxes, trailing boxes, until-EOF moov, 64-bit headers; size pathologies; truncations; tree mutations; config lattice; "
        "all top-level sequences up to length 2 (quick) / 4 (thorough)); every accepted case with metadata is spliced (metadata || input[span]) and "
        "sanitized a second time by the implementation. Non-trivial = at least 40 bytes present; distinct = distinct case line.")
LEVEL_TEXT = ("Part (a): theorems C02_metadata_is_boxes / C02_metadata_is_boxes_of_input (Coq, all inputs, configurations, readers, fuels): whenever the "
              "model returns metadata, the specification's recogniser reads it as exactly ftyp, moov and optionally one free box of zeros with "
              "explicit sizes tiling it completely, the ftyp payload being the input's and the moov payload having the length of the input's last "
              "moov payload. Part (b) (re-sanitizing is a no-op) is decided by testing only: second run of the implementation on every accepted "
              "case of the generated set, compared with the expected (None, |md|, len).")
LEVEL_NOTE = ("Trusted: Coq kernel; hand-written model and its correspondence batch; Spec.v metadata_shape/explicit_sizes as the reading of "
              "'sequence of boxes'; extraction + OCaml driver; Rust harness. No axioms. C02_fixpoint is not a theorem (sampled).")
TECHNIQUE = "Coq proof about a hand-written model (part a) + extracted-model/Rust differential check + second-run oracle (part b)"
DESIGN_REF = "DESIGN.md section 7 (C02)"
