"""C02 - MP4: returned metadata is self-contained; re-sanitizing metadata||media is a no-op."""
import mp4props as P
from props import _mp4family as fam


def gen(run):
    quick = run.tier == "quick"
    yield from P.standard_stream(run, 400 if quick else 40000, 60 if quick else 10000, 2 if quick else 4)


fam.make(globals(), "C02", ["C02"], gen, second_run=True)
COQ_TARGETS = ["theories/Props/C02.vo"]
REQUIRES = ["From Coq Require Import List NArith ZArith Bool.", "From Coq.Strings Require Import Byte.",
            "From MS Require Import Base.Bytes Base.Outcome Base.Prog Mp4.Header Mp4.Box Mp4.San Mp4.Spec Mp4.SpliceSpec Props.C02.",
            "Import ListNotations.", "Open Scope N_scope."]
COQCHK = ["MS.Props.C02"]
THEOREMS = [
    ("C02_metadata_is_boxes", """forall (cfg : config) (lenient : bool) (ms : N) (inp : input) (fuel : nat) (o : out) (md : bytes) (pad : N),
  mp4_sanitize cfg lenient ms inp fuel = Ok o -> o_metadata o = Some (md, pad) ->
  exists fp mp psz,
    metadata_shape (md_input md pad) = Some (fp, mp, psz) /\\
    explicit_sizes (md_input md pad) = true /\\
    ((psz = 0 /\\ pad = 0) \\/ psz = 8 + pad)"""),
    ("C02_metadata_is_boxes_of_input", """forall (cfg : config) (lenient : bool) (inp : input) (fuel : nat) (o : out) (md : bytes) (pad : N),
  ilen inp <= U64MAX -> (forall t, cumulative_mdat_box_size cfg = Some t -> t <= U32MAX) ->
  mp4_sanitize cfg lenient U64MAX' inp fuel = Ok o -> o_metadata o = Some (md, pad) ->
  exists bs f m mp psz,
    tiling (cumulative_mdat_box_size cfg) inp = Some bs /\\ the_ftyp bs = Some f /\\ last_moov bs = Some m /\\
    metadata_shape (md_input md pad) = Some (tb_payload inp f, mp, psz) /\\
    blen mp = blen (tb_payload inp m) /\\
    explicit_sizes (md_input md pad) = true /\\
    ((psz = 0 /\\ pad = 0) \\/ psz = 8 + pad)"""),
    ("C02_fixpoint", """forall (cfg : config) (lenient lenient2 : bool) (inp : input) (fuel fuel2 : nat) (o : out) (md : bytes) (pad : N),
  max_metadata_size cfg < 4294967296 -> ilen inp <= U64MAX ->
  (forall t, cumulative_mdat_box_size cfg = Some t -> t <= U32MAX) ->
  mp4_sanitize cfg lenient U64MAX' inp fuel = Ok o -> o_metadata o = Some (md, pad) ->
  let J := splice md pad inp (s_off (o_data o)) (s_len (o_data o)) in
  ilen J <= U64MAX -> (N.to_nat (ilen J / 8) < fuel2)%nat ->
  mp4_sanitize cfg lenient2 U64MAX' J fuel2 =
  Ok {| o_metadata := None; o_data := {| s_off := blen md + pad; s_len := s_len (o_data o) |} |}"""),
]
TRUSTED = fam.TRUSTED_COMMON + ["axioms: none (Print Assumptions of the three theorems = Closed under the global context)",
                                "Mp4/SpliceSpec.v: splice, the reading of `metadata followed by the media span` as an input"]
ASSUMPTIONS = fam.ASSUMPTIONS_COMMON + [
    "C02_fixpoint: max_metadata_size < 2^32 (through C05's moov lemma), input length <= u64::MAX, the spliced file has a u64 length, the second "
    "run uses the same configuration (either Skip behaviour) and at least ilen/8+1 units of fuel",
]
RULE = ("the standard MP4 stream (seed layouts, gap lattice incl. gaps 1..7 / 0 / 8.., structure-aware random rewrite layouts dense and sparse with "
        "several moov and mdat boxes, trailing boxes, until-EOF moov, 64-bit headers; size pathologies; truncations; tree mutations; config lattice; "
        "all top-level sequences up to length 2 (quick) / 4 (thorough)); every accepted case with metadata is spliced (metadata || input[span]) and "
        "sanitized a second time by the implementation. Non-trivial = at least 40 bytes present; distinct = distinct case line.")
LEVEL_TEXT = ("Theorems, Coq, no axioms, all inputs / configurations / readers / fuels. (a) C02_metadata_is_boxes, C02_metadata_is_boxes_of_input: "
              "whenever the model returns metadata, the specification's recogniser reads it as exactly ftyp, moov and optionally one free box of "
              "zeros with explicit sizes tiling it completely, the ftyp payload being the input's and the moov payload having the length of the "
              "input's last moov payload. (b) C02_fixpoint: sanitizing metadata || media-span again (same configuration, either reader) returns "
              "(None, |metadata|, len) -- proved from the closed form of the loop: the tiling of the spliced file is [ftyp; moov; (free)] followed "
              "by the relocated media boxes (an until-EOF box denotes `to the end` in both files), the rewritten moov payload still has its tables "
              "(shift_spec) and now precedes the media. The second run of the real implementation on every accepted generated case is the oracle.")
LEVEL_NOTE = ("Trusted: Coq kernel; hand-written model and its correspondence batch; Spec.v metadata_shape/explicit_sizes and SpliceSpec.v splice as "
              "the reading of the property text; extraction + OCaml driver; Rust harness. No axioms. (b) needs limit < 2^32 and a u64 spliced length.")
TECHNIQUE = "Coq proof about a hand-written model (part a) + extracted-model/Rust differential check + second-run oracle (part b)"
DESIGN_REF = "DESIGN.md section 7 (C02)"
