"""C14 - Config options change exactly what they document; parts (a) max_metadata_size, (b) cumulative_mdat_box_size
of mp4san, and (c) allow_unknown_chunks of webpsan (webp area: `webp ...` case lines).

The oracle is PAIRWISE: every case is re-run by the real implementation under a lattice of limits and of
cumulative sizes derived from the input itself, and the pairs of implementation outputs are compared as the property
demands.  The box walker below is plain Python arithmetic over the (sparse) input, independent of the model."""
import mp4props as P
import webpgen as W
from props import _mp4family as fam
from mp4gen import *

U64 = 2**64 - 1
U32 = 2**32 - 1


def walk(sb, cum):
    """top-level boxes reached from offset 0 (ISO 14496-12 header syntax); stops at the first header that cannot be
    read, size below the header length, or box reaching past the end (that last box is still listed)."""
    p, out = 0, []
    while p < sb.len:
        h = sb.get(p, 32)
        if len(h) < 8:
            return out, "trunc"
        sz, ty, hl = int.from_bytes(h[:4], "big"), h[4:8], 8
        if sz == 1:
            if len(h) < 16:
                return out, "trunc"
            size, hl = int.from_bytes(h[8:16], "big"), 16
        elif sz == 0:
            size = None
        else:
            size = sz
        if ty == b"uuid":
            if len(h) < hl + 16:
                return out, "trunc"
            ty = ty + h[hl:hl + 16]
            hl += 16
        eof = size is None
        if eof:
            size = cum if (cum is not None and ty == b"mdat") else sb.len - p
        if size < hl:
            return out, "small"
        out.append({"off": p, "type": ty, "hl": hl, "size": size, "eof": eof})
        p += size
    return out, ("ok" if p == sb.len else "past-end")


def patch_exts(exts, off, data):
    """extents with bytes [off, off+len(data)) replaced by data (no overlaps in the result)"""
    out = []
    end = off + len(data)
    for o, d in exts:
        e = o + len(d)
        if e <= off or o >= end:
            out.append((o, d))
            continue
        if o < off:
            out.append((o, d[:off - o]))
        if e > end:
            out.append((end, d[end - o:]))
    out.append((off, data))
    return sorted(out)


def limits_for(c, boxes):
    L = {0, 2**30, U64, c["max"]}
    sizes = [b["size"] - b["hl"] for b in boxes if b["type"] == b"moov"]
    for s in sizes:
        L.update({max(0, s - 1), s, s + 1})
    # never ask the implementation to allocate more than 1 GiB for a moov payload (an allocation failure aborts the
    # harness process): drop the limits that would admit a moov payload above 2^30
    return sorted(m for m in L if m == c["max"] or not any(2**30 < s <= m for s in sizes))


def cums_for(c, boxes_none):
    C = [None, 0, 1, 7, 8, 9, 16, U32, c["cum"]]
    for b in boxes_none:
        if b["type"] == b"mdat" and b["eof"]:
            ex = c["len"] - b["off"]
            C += [ex - 1, ex, ex + 1, ex + 100]
    seen, out = set(), []
    for x in C:
        if x is not None and not (0 <= x <= U32):
            continue
        if x not in seen:
            seen.add(x)
            out.append(x)
    return out


def gen(run):
    rng = run.rng
    quick = run.tier == "quick"
    yield from P.config_lattice(rng)
    for lay in P.seed_layouts(rng):
        yield case_dense("strict", DEFAULT_MAX, None, b"".join(lay)), "seed-layouts"
    m1 = P.simple_moov([(4, [20, 30])])
    m2 = P.simple_moov([(8, [5]), (4, [1, 2, 3])])
    body = b"abcdefghij"
    # until-EOF mdat in every position, several moov boxes of different sizes, truncations
    shapes = [
        [P.F(), m1, box(b"mdat", body, form="eof")], [P.F(), box(b"mdat", body, form="eof")],
        [P.F(), box(b"mdat", body, form="eof"), m1], [P.F(), m1, box(b"mdat", body, form="eof"), box(b"free", b"")],
        [P.F(), m1, m2, box(b"mdat", body)], [P.F(), box(b"mdat", body), m2, m1], [P.F(), box(b"mdat", body), m1, box(b"moov", m2[8:], form="eof")],
        [P.F(), box(b"mdat", body[:3], form="eof"), box(b"mdat", body, form="eof"), m1],
        [box(b"mdat", body, form="eof"), P.F(), m1], [P.F(), box(b"mdat", body, form="eof", uuid=None), box(b"uuid", b"q", uuid=bytes(16))],
        [P.F(), m1, box(b"mdat", body, form="64")], [P.F(), m1, box(b"free", body, form="eof")],
        # SEVERAL until-EOF mdat headers of the same declared-by-option size: the option applies to every one of them
        [P.F(), box(b"mdat", body, form="eof"), box(b"mdat", body, form="eof"), m1],
        [P.F(), m1, box(b"mdat", body, form="eof"), box(b"mdat", body, form="eof"), box(b"junk", b"xy")],
        [P.F(), box(b"mdat", body, form="eof"), box(b"mdat", body, form="eof"), box(b"mdat", body, form="eof"), m1, box(b"free", b"")],
        [P.F(), box(b"mdat", body, form="eof"), box(b"mdat", body), box(b"mdat", body, form="eof"), m1],
    ]
    # SIZED mdat boxes whose declared size is below their own header length (32-bit sizes 2..7, 64-bit sizes 0..15): not until-EOF, so
    # the option must not touch them - the verdict (InvalidInput) is the same for every cumulative size, the true size included
    for bad in ([be32(k) + b"mdat" + body for k in (2, 3, 7)] + [be32(1) + b"mdat" + be64(v) + body for v in (0, 1, 8, 15)]):
        shapes.append([P.F(), m1, bad])
        shapes.append([P.F(), bad, m1])
    for sh in shapes:
        data = b"".join(sh)
        for rd in ("strict", "cursor"):
            yield case_dense(rd, DEFAULT_MAX, None, data), "cumulative-shapes"
            yield case_dense(rd, DEFAULT_MAX, 8 + len(body), data), "cumulative-shapes"
            if not quick:
                for k in range(0, len(data), 3):
                    yield case_dense(rd, DEFAULT_MAX, 12, data[:k]), "cumulative-truncated"
    yield from P.rewrite_cases(rng, 60 if quick else 6000)
    yield from P.tree_mutations(rng, 30 if quick else 3000)
    if not quick:
        yield from P.pathologies(rng)
        yield from P.toplevel_sequences(3)


fam.make(globals(), "C14", ["C14"], gen, kinds=True)
COQ_TARGETS = ["theories/Props/C14.vo", "theories/Props/C14c.vo"]
REQUIRES = ["From Coq Require Import List NArith ZArith Bool.", "From Coq.Strings Require Import Byte.",
            "From MS Require Import Base.Bytes Base.Outcome Base.Prog Mp4.Header Mp4.Box Mp4.San Mp4.Spec Mp4.LoopProofs Props.C14.",
            "Import ListNotations.", "Open Scope N_scope."]
COQCHK = ["MS.Props.C14", "MS.Props.C14c"]
THEOREMS = [
    ("C14_limit_monotone", """forall (inp : input) (lenient : bool) (ms : N) (cum : option N) (m1 m2 : N) (fuel : nat),
  m1 <= m2 ->
  let san m := mp4_sanitize {| max_metadata_size := m; cumulative_mdat_box_size := cum |} lenient ms inp fuel in
  san m1 = san m2 \\/
  (san m1 = EParse InvalidInput /\\
   exists p n, p < ilen inp /\\
     (exists sh, shdr_of (window inp p) = Some sh /\\ sh_type sh = MOOV /\\
        let size := match sh_size sh with Some s => s | None => ilen inp - p end in
        sh_len sh <= size /\\ n = size - sh_len sh) /\\
     m1 < n <= m2)"""),
    ("C14_cumulative_is_declared_size", """forall (inp : input) (lenient : bool) (mx : N) (c1 c2 : option N),
  ilen inp <= U64MAX ->
  (forall t, c1 = Some t -> t <= U32MAX) -> (forall t, c2 = Some t -> t <= U32MAX) ->
  let san c fuel := mp4_sanitize {| max_metadata_size := mx; cumulative_mdat_box_size := c |} lenient U64MAX' inp fuel in
  ((forall p, p < ilen inp ->
      ~ exists sh, shdr_of (window inp p) = Some sh /\\ sh_type sh = MDAT /\\ sh_size sh = None) ->
   forall fuel, san c1 fuel = san c2 fuel) /\\
  (forall bs fuel fuel', tiling c1 inp = Some bs -> tiling c2 inp = Some bs ->
     san c1 fuel <> OutOfFuel -> san c2 fuel' <> OutOfFuel -> san c1 fuel = san c2 fuel') /\\
  (forall fuel, tiling c1 inp = None -> is_ok (san c1 fuel) = false)"""),
    ("C14_tiling_size_under_cumulative", """forall (t : N) (inp : input) (off : N) (h : shdr),
  resolve (Some t) inp off h =
  match sh_size h with
  | None => if beq (sh_type h) MDAT then t else resolve None inp off h
  | Some _ => resolve None inp off h
  end"""),
    ("C14_cumulative_declared_size_inputs", """forall (inp inp' : input) (lenient : bool) (mx t : N) (bs : list tbox) (fuel fuel' : nat),
  ilen inp <= U64MAX -> ilen inp' <= U64MAX -> t <= U32MAX ->
  tiling (Some t) inp = Some bs -> tiling None inp' = Some bs ->
  (forall b, In b bs -> is FTYP b || is MOOV b = true -> tb_payload inp b = tb_payload inp' b) ->
  let r := mp4_sanitize {| max_metadata_size := mx; cumulative_mdat_box_size := Some t |} lenient U64MAX' inp fuel in
  let r' := mp4_sanitize {| max_metadata_size := mx; cumulative_mdat_box_size := None |} lenient U64MAX' inp' fuel' in
  r <> OutOfFuel -> r' <> OutOfFuel -> r = r'"""),
    ("C14_unknown_chunks_only", """forall (lossless : N -> N -> bytes -> res unit) (lenient : bool) (ms : N) (inp : input) (fuel : nat),
  let off := webp_sanitize lossless false lenient ms inp fuel in
  let on := webp_sanitize lossless true lenient ms inp fuel in
  (off = Ok tt -> on = Ok tt)
  /\\ (is_unsupported_chunk off = false -> on = off)
  /\\ (on = Ok tt -> off = Ok tt \\/ exists t, off = EParse (UnsupportedChunk t))"""),
    ("C14_unknown_chunks_only_any_reader", """forall (R : reader) (lossless : N -> N -> bytes -> res unit) (fuel : nat) (s : rst R),
  run R (webp_prog lossless false fuel) s = run R (webp_prog lossless true fuel) s
  \\/ exists t s', run R (webp_prog lossless false fuel) s = (EParse (UnsupportedChunk t), s')"""),
    ("C14_known_chunk_never_out_of_place", """forall (lossless : N -> N -> bytes -> res unit) (lenient : bool) (ms : N) (inp : input) (fuel : nat),
  webp_sanitize lossless true lenient ms inp fuel = Ok tt ->
  webp_spec (fun w h b => is_ok (lossless w h b)) true inp = true"""),
]
THEOREMS.append(("C14_unsupported_chunk_names_unknown", """forall (R : reader) (lossless : N -> N -> bytes -> res unit) (allow : bool) (fuel : nat) (s : rst R) (t : bytes),
  (forall w h b t', lossless w h b <> EParse (UnsupportedChunk t')) ->
  fst (run R (webp_prog lossless allow fuel) s) = EParse (UnsupportedChunk t) -> known t = false"""))
_WREQ = ["From Coq Require Import List NArith Bool.", "From Coq.Strings Require Import Byte.",
         "From MS Require Import Base.Bytes Base.Outcome Base.Prog Webp.Container Webp.Grammar Webp.ContainerProofsAllow Props.C14c.",
         "Open Scope N_scope."]
REQUIRES_FOR = {n: _WREQ for n in ("C14_unknown_chunks_only", "C14_unknown_chunks_only_any_reader", "C14_known_chunk_never_out_of_place", "C14_unsupported_chunk_names_unknown")}
# the known chunk names of the two trailing-chunk loops, regenerated from webpsan/src/lib.rs (Gen/WebpKnown.v; Props/C14k.v)
_KREQ = ["From Coq Require Import List NArith Bool.", "From Coq.Strings Require Import Byte.",
         "From MS Require Import Base.Bytes Base.Outcome Base.Prog Webp.Container Gen.WebpKnown Props.C14k.", "Import ListNotations."]
THEOREMS.append(("C14_known_names_file_are_source", "forall n : bytes, known_after_image n || teq n ANMF = existsb (teq n) KNOWN_TRAILING_FILE_SRC"))
THEOREMS.append(("C14_known_names_frame_are_source", "forall n : bytes, known_after_image n || teq n ANMF = existsb (teq n) KNOWN_TRAILING_FRAME_SRC"))
REQUIRES_FOR["C14_known_names_file_are_source"] = _KREQ
REQUIRES_FOR["C14_known_names_frame_are_source"] = _KREQ
COQ_TARGETS = COQ_TARGETS + ["theories/Props/C14k.vo"]
COQCHK = COQCHK + ["MS.Props.C14k"]
TRUSTED = fam.TRUSTED_COMMON + ["axioms: none (Print Assumptions of every theorem = Closed under the global context)",
                                "part (c): hand-written model Webp/Container.v and grammar Webp/Grammar.v (see C06), harness/src/webp.rs, ocaml/webp.ml"]
ASSUMPTIONS = fam.ASSUMPTIONS_COMMON + [
    "(b) is stated on the decoded header through the specification's tiling (Spec.tile reads an until-EOF mdat under Some t as a box of "
    "declared size t); the byte-level corollary (size field 0 replaced by t >= 2) is exercised by the pairwise oracle, not proved",
    "part (c): the lossless validator is a parameter of the model; in the correspondence batch it is the implementation's own verdict",
]
RULE = ("base inputs: limit/cumulative lattices of mp4props, seed layouts, until-EOF mdat in every position (first/middle/last/before ftyp/twice), "
        "several moov boxes of different payload sizes, until-EOF moov, random rewrite layouts, moov tree mutations (thorough: size pathologies, "
        "truncations, all sequences up to length 3). Each base input is re-run by the implementation under limits {0, s-1, s, s+1 for every "
        "moov payload size s, 2^30, u64::MAX} and cumulative sizes {None, 0, 1, 7, 8, 9, 16, exact, exact+-1, exact+100, u32::MAX} and all "
        "pairs are compared. Part (c): webp seed files, boundary cases, mutations and all chunk sequences up to length 3 (4 thorough), each run by "
        "the implementation under both values of allow_unknown_chunks; the pair is compared as the property demands and an accepted input is "
        "judged by the extracted grammar with the option set. Non-trivial = at least 40 bytes present; distinct = distinct case line.")
LEVEL_TEXT = ("Theorems C14_limit_monotone (all inputs, readers, limits m1 <= m2, any fuel: same result, or InvalidInput under the smaller "
              "limit with a moov payload size in (m1, m2] in the input) and C14_cumulative_is_declared_size (no until-EOF mdat header => the "
              "option has no effect; two settings with the same specification tiling give the same result; not tiled under Some t => rejected; "
              "the tiling gives an until-EOF mdat the size t) about the hand-written model, from the closed form of the loop; plus the "
              "differential check and a pairwise oracle that re-runs the real implementation under config lattices, including the byte-level "
              "reading (size field 0 replaced by t) of part (b). Part (c): C14_unknown_chunks_only (for every input, reader kind and fuel: accepted without "
              "the option => accepted with it; rejected for another reason than UnsupportedChunk => identical result; accepted with it => accepted or "
              "UnsupportedChunk without it), C14_unknown_chunks_only_any_reader (the same simulation for every Read+Skip behaviour), "
              "C14_known_chunk_never_out_of_place (accepted with the option => the grammar of C06 holds, whose tail admits only unknown chunks).")
LEVEL_NOTE = ("Trusted: Coq kernel; hand-written model and its correspondence batch; Spec.v tiling as the reading of 'declared size t'; extraction + "
              "OCaml driver; Rust harness; the Python top-level box walker of the pairwise oracle. No axioms.")
TECHNIQUE = ("Coq proof about a hand-written model (the known-chunk lists of the trailing-chunk loops regenerated from the source) + extracted-model/Rust "
             "differential check + pairwise implementation oracle over config lattices")
DESIGN_REF = "DESIGN.md section 7 (C14)"


def _line(c, mx, cum, exts=None):
    return case_line(c["reader"], mx, cum, c["len"], c["exts"] if exts is None else exts)


def oracle(run, pairs):
    """pairwise comparison of implementation outputs under the config lattices"""
    jobs, plans = [], []
    for idx, (line, out) in enumerate(pairs):
        c = parse_case(line)
        sb = SparseBytes(c["len"], c["exts"])
        boxes, _ = walk(sb, c["cum"])
        boxes_none, _ = walk(sb, None)
        lims = limits_for(c, boxes)
        cums = cums_for(c, boxes_none)
        plan = {"c": c, "boxes": boxes, "lims": {}, "cums": {}, "patched": {}, "sb": sb}
        for m in lims:
            if m == c["max"]:
                continue
            k = "v%d" % len(jobs)
            jobs.append("%s %s" % (k, _line(c, m, c["cum"])))
            plan["lims"][m] = k
        for t in cums:
            if t == c["cum"]:
                continue
            k = "v%d" % len(jobs)
            jobs.append("%s %s" % (k, _line(c, c["max"], t)))
            plan["cums"][t] = k
        # byte-level reading of (b): size field 0 of every reached until-EOF mdat replaced by t (t >= 2), run with None
        for t in cums:
            if t is None or t < 2:
                continue
            # the until-EOF mdat headers are located with the plain reading (under a size below the header length the
            # walk under `t` stops before listing the box); the first one is what the override applies to
            ex = c["exts"]
            hit = False
            if t >= 8:
                # every until-EOF mdat header reached when each of them is read with the size t (there may be several)
                for b in walk(sb, t)[0]:
                    if b["type"] == b"mdat" and b["eof"]:
                        ex = patch_exts(ex, b["off"], be32(t))
                        hit = True
            else:
                for b in boxes_none:
                    if b["type"] == b"mdat" and b["eof"]:
                        ex = patch_exts(ex, b["off"], be32(t))
                        hit = True
                        break
            if hit:
                k = "v%d" % len(jobs)
                jobs.append("%s %s" % (k, _line(c, c["max"], None, ex)))
                plan["patched"][t] = k
        plans.append(plan)
    res = run.harness(jobs) if jobs else {}
    outs = []
    for (line, out), plan in zip(pairs, plans):
        c = plan["c"]
        bad = []
        canon = lambda o: o
        # ---- (a) limits
        by_lim = {c["max"]: out}
        for m, k in plan["lims"].items():
            by_lim[m] = res.get(k, "missing")
        sizes = [b["size"] - b["hl"] for b in plan["boxes"] if b["type"] == b"moov"]
        ms = sorted(by_lim)
        for i in range(len(ms)):
            for j in range(i + 1, len(ms)):
                a, b_ = by_lim[ms[i]], by_lim[ms[j]]
                if a == b_:
                    continue
                if a == "err parse InvalidInput" and any(ms[i] < s <= ms[j] for s in sizes):
                    continue
                bad.append("limit %d -> %s but limit %d -> %s (moov payload sizes %s)" % (ms[i], a[:50], ms[j], b_[:50], sizes))
        # a limit smaller than a moov payload must reject: success under limit m means every moov payload is <= m
        for m, o in by_lim.items():
            if o.startswith("ok") and any(sz > m for sz in sizes):
                bad.append("limit %d accepted (%s) although a moov payload has %s bytes" % (m, o[:40], [z for z in sizes if z > m]))
        # ---- (b) cumulative
        by_cum = {c["cum"]: out}
        for t, k in plan["cums"].items():
            by_cum[t] = res.get(k, "missing")
        tilings = {t: walk(plan["sb"], t) for t in by_cum}
        reached_eof_mdat = any(b["type"] == b"mdat" and b["eof"] for b in tilings[None][0]) if None in tilings else True
        ts = list(by_cum)
        for i in range(len(ts)):
            for j in range(i + 1, len(ts)):
                a, b_ = by_cum[ts[i]], by_cum[ts[j]]
                if a == b_:
                    continue
                if not reached_eof_mdat:
                    bad.append("no until-EOF mdat is reached, yet cumulative %s -> %s and %s -> %s" % (ts[i], a[:50], ts[j], b_[:50]))
                elif tilings[ts[i]] == tilings[ts[j]] and tilings[ts[i]][1] == "ok":
                    bad.append("same tiling under cumulative %s and %s, yet %s vs %s" % (ts[i], ts[j], a[:50], b_[:50]))
        for t, o in by_cum.items():
            if tilings[t][1] != "ok" and o.startswith("ok"):
                bad.append("cumulative %s: input not tiled by complete boxes (%s) yet accepted" % (t, tilings[t][1]))
        for t, o in by_cum.items():
            if t is not None and t < 8 and reached_eof_mdat and o.startswith("ok"):
                bad.append("cumulative size %d is below the 8-byte header length, an until-EOF mdat is reached, yet accepted: %s" % (t, o[:40]))
        for t, k in plan["patched"].items():
            a, b_ = by_cum.get(t), res.get(k, "missing")
            if a is not None and a != b_:
                bad.append("cumulative %d -> %s but the same input with that size written into the mdat header -> %s" % (t, a[:50], b_[:50]))
        outs.append((not bad, "; ".join(bad[:3])))
    return outs


# ---------------------------------------------------------------------- part (c): webp area
AREAS = ["mp4", "webp"]
_mp4 = dict(gen=gen, same=same, classify=classify, nontrivial=nontrivial, oracle=oracle, coq_bool=coq_bool, search=search)


def area_of(line):
    return "webp" if line.startswith("webp ") else "mp4"


def _is_webp(line):
    return line.startswith("webp ")


def gen(run):
    yield from _mp4["gen"](run)
    quick = run.tier == "quick"
    run.use_area("webp")
    raw = []
    for f in W.valid_files():
        raw.append((W.case_line("cursor", False, f), "webp-valid-seeds"))
        for name in (b"UNKN", b"EXIF", b"ANMF", b"VP8 ", b"ALPH"):       # a trailing chunk, unknown or known, after a valid file
            body = f[12:] + W.mk(name)
            raw.append((W.case_line("cursor", False, W.riff(body)), "webp-trailing-chunk"))
            raw.append((W.case_line("strict", False, W.riff(body + W.mk(b"UNKN", odd=True))), "webp-trailing-chunk"))
    raw += [(l, "webp-" + s_) for l, s_ in W.boundary_cases("cursor")]
    raw += [(l, "webp-" + s_) for l, s_ in W.mutations(run.rng, 300 if quick else 10000)]
    flagsets = [0, W.ICCP, W.ALPHA, W.ANIM, W.ANIM | W.ALPHA, W.EXIF | W.XMP]
    raw += [(l, "webp-" + s_) for l, s_ in W.sequences(3 if quick else 4, flagsets, allows=(False,))]
    raw += [(l, "webp-" + s_) for l, s_ in W.frame_sequences(2 if quick else 3, [0, W.ALPHA], allows=(False,))]
    lines = W.with_tables(run, [l for l, _ in raw])
    run.use_area("mp4")
    for l, (_, s_) in zip(lines, raw):
        yield l, s_


def same(line, impl, model):
    if _is_webp(line):
        return impl.split(" need ")[0] == model.split(" need ")[0]
    return _mp4["same"](line, impl, model)


def classify(line, impl):
    if _is_webp(line):
        t = impl.split()
        return "webp-" + (t[0] if t and t[0] != "err" else ("err-" + t[2].split(":")[0] if len(t) > 2 else "missing"))
    return _mp4["classify"](line, impl)


def nontrivial(line, impl):
    if _is_webp(line):
        return W.parse_case(line)["len"] >= 40
    return _mp4["nontrivial"](line, impl)


def coq_bool(line, model_out):
    return None if _is_webp(line) else _mp4["coq_bool"](line, model_out)


KNOWN_NAMES = {b"ALPH", b"ANIM", b"ANMF", b"EXIF", b"ICCP", b"VP8 ", b"VP8L", b"VP8X", b"XMP "}


def _strip_region(b):
    """chunks of a region with the unknown ones (and their pad bytes) removed; None if the region is not tiled by chunks"""
    p, out = 0, b""
    while p < len(b):
        if p + 8 > len(b):
            return None
        name, n = b[p:p + 4], int.from_bytes(b[p + 4:p + 8], "little")
        end = p + 8 + n + (n & 1)
        if end > len(b):
            return None
        body = b[p + 8:p + 8 + n]
        if name == b"ANMF" and n >= 16:
            inner = _strip_region(body[16:])
            if inner is None:
                return None
            body = body[:16] + inner
            out += name + len(body).to_bytes(4, "little") + body + (b"\0" if len(body) & 1 else b"")
        elif name in KNOWN_NAMES:
            out += b[p:end]
        p = end
    return out


def strip_unknown(f):
    if len(f) < 12 or f[:4] != b"RIFF" or f[8:12] != b"WEBP":
        return None
    n = int.from_bytes(f[4:8], "little")
    if 8 + n + (n & 1) != len(f) or n < 4:
        return None
    body = _strip_region(f[12:8 + n])
    if body is None:
        return None
    return b"RIFF" + (4 + len(body)).to_bytes(4, "little") + b"WEBP" + body


def _flip(line):
    t = line.split(" ")
    t[2] = "0" if t[2] == "1" else "1"
    return " ".join(t)


def _webp_oracle(run, pairs):
    run.use_area("webp")
    other = run.harness(["f%d %s" % (i, _flip(l)) for i, (l, _) in enumerate(pairs)])
    # files accepted only with the option: the same file with every unknown chunk removed (top level and inside frames)
    stripped, sl = {}, []
    for i, (l, o) in enumerate(pairs):
        o2 = other.get("f%d" % i, "missing")
        off, on = (o, o2) if l.split(" ")[2] == "0" else (o2, o)
        if on == "ok" and off != "ok":
            c = W.parse_case(l)
            if len(c["exts"]) == 1 and c["exts"][0][0] == 0 and len(c["exts"][0][1]) == c["len"]:
                f2 = strip_unknown(c["exts"][0][1])
                if f2 is not None:
                    stripped[i] = f2
                    sl.append("h%d %s" % (i, W.case_line(c["reader"], False, f2)))
    strip_res = run.harness(sl) if sl else {}
    run.use_area("mp4")
    out = []
    for i, (l, o) in enumerate(pairs):
        o2 = other.get("f%d" % i, "missing")
        off, on = (o, o2) if l.split(" ")[2] == "0" else (o2, o)
        bad = []
        if off.startswith(("panic", "timeout", "missing")) or on.startswith(("panic", "timeout", "missing")):
            bad.append("implementation: off=%s on=%s" % (off, on))
        else:
            uns = off.startswith("err parse UnsupportedChunk")
            if off == "ok" and on != "ok":
                bad.append("accepted without allow_unknown_chunks but with it: %s" % on)
            if not uns and on != off:
                bad.append("without the option: %s (not UnsupportedChunk), with it: %s" % (off, on))
            if on == "ok" and not (off == "ok" or uns):
                bad.append("accepted with the option, without it: %s" % off)
            if uns:
                nm = bytes.fromhex(off.split(":")[1]) if ":" in off else b""
                if nm in KNOWN_NAMES:
                    bad.append("UnsupportedChunk reported for the known chunk %r" % nm)
            # the option made the difference (accepted only with it): then the same file WITHOUT its unknown chunks must be
            # accepted without the option - otherwise something other than an unknown chunk was admitted
            if on == "ok" and off != "ok" and i in stripped:
                o3 = strip_res.get("h%d" % i, "missing")
                if o3 != "ok":
                    bad.append("accepted only with the option, but the file without its unknown chunks is rejected without the option (%s): "
                               "a known chunk out of place was admitted" % o3)
        out.append((not bad, "; ".join(bad)))
    return out


def oracle(run, pairs):
    wi = [i for i, (l, _) in enumerate(pairs) if _is_webp(l)]
    mi = [i for i, (l, _) in enumerate(pairs) if not _is_webp(l)]
    res = [None] * len(pairs)
    if mi:
        for i, r in zip(mi, _mp4["oracle"](run, [pairs[i] for i in mi])):
            res[i] = r
    if wi:
        for i, r in zip(wi, _webp_oracle(run, [pairs[i] for i in wi])):
            res[i] = r
    return res


def search(run, disagreements):
    yield from _mp4["search"](run, disagreements)
    run.use_area("webp")
    raw = [l for l, _ in W.mutations(run.rng, 20000)] + [l for l, _ in W.sequences(4, [0, W.ICCP, W.ALPHA, W.ANIM, W.EXIF | W.XMP], allows=(False,))]
    lines = W.with_tables(run, raw)
    run.use_area("mp4")
    for l in lines:
        yield l, "webp-search"
