"""Builders and generators for WebP container inputs, the lossless-verdict table protocol, and the
specification-side oracle for C06 / C14(c)."""
import itertools, struct

LL_OK = bytes.fromhex("888808")          # lossless body valid for every dimension (all codes single-symbol)
LL_BAD = [bytes.fromhex("ffffff"), b"\x88", b""]


def le32(n):
    return struct.pack("<I", n & 0xFFFFFFFF)


def le24(n):
    return struct.pack("<I", n & 0xFFFFFF)[:3]


def chunk(name, payload=b"", pad=0, length=None):
    """pad: byte value written after an odd payload, or None to omit it; length: declared length override"""
    if isinstance(name, str):
        name = name.encode().ljust(4)
    n = len(payload) if length is None else length
    out = name + le32(n) + payload
    if len(payload) % 2 == 1 and pad is not None:
        out += bytes([pad])
    return out


def vp8l_payload(w=1, h=1, body=LL_OK, sig=0x2f, version=0, alpha=0):
    v = (w - 1) | ((h - 1) << 14) | (alpha << 28) | (version << 29)
    return bytes([sig]) + le32(v) + body


def vp8x_payload(flags, w=1, h=1, reserved=b"\0\0\0"):
    return bytes([flags]) + reserved + le24(w - 1) + le24(h - 1)


def anmf_payload(inner, x=0, y=0, w=1, h=1, dur=0, flags=0):
    return le24(x) + le24(y) + le24(w - 1) + le24(h - 1) + le24(dur) + bytes([flags]) + inner


def riff(body, size=None, tag=b"WEBP", name=b"RIFF", trail=b""):
    n = 4 + len(body) if size is None else size
    return name + le32(n) + tag + body + trail


ICCP, ALPHA, EXIF, XMP, ANIM = 0x20, 0x10, 0x08, 0x04, 0x02


def case_line(reader, allow, data=None, length=None, exts=None, table="-"):
    if data is not None:
        exts = [(0, data)] if data else []
        length = len(data)
    e = ",".join("%d:%s" % (o, d.hex()) for o, d in exts if d) or "-"
    return "webp %s %d %d %s %s" % (reader, 1 if allow else 0, length, e, table)


def parse_case(line):
    t = line.split()
    exts = []
    if t[4] != "-":
        for e in t[4].split(","):
            o, h = e.split(":")
            exts.append((int(o), bytes.fromhex(h)))
    return {"reader": t[1], "allow": t[2] == "1", "len": int(t[3]), "exts": exts, "table": t[5] if len(t) > 5 else "-"}


# ---------------------------------------------------------------------- lossless verdict tables
def with_tables(run, lines):
    """two-pass: ask the model which lossless verdicts it needs, obtain them from the implementation's own
    LosslessImage::read (harness kind `lossless`), return the lines with their tables filled in"""
    r1 = run.driver(["a%d %s" % (i, l) for i, l in enumerate(lines)])
    r2 = run.driver(["b%d %s" % (i, l.replace("webp ", "wspec ", 1)) for i, l in enumerate(lines)])
    needs, per = {}, []
    for i, l in enumerate(lines):
        ks = []
        for r in (r1.get("a%d" % i, ""), r2.get("b%d" % i, "")):
            if " need " in r:
                ks += r.split(" need ", 1)[1].split(";")
        ks = list(dict.fromkeys(ks))
        per.append(ks)
        for k in ks:
            needs[k] = None
    keys = list(needs)
    q = run.harness(["l%d lossless %s" % (i, k.replace(",", " ")) for i, k in enumerate(keys)])
    for i, k in enumerate(keys):
        v = q.get("l%d" % i, "missing")
        needs[k] = "ok" if v == "ok" else (v.split()[-1] if v.startswith("err parse") else "InvalidInput")
    out = []
    for l, ks in zip(lines, per):
        if ks:
            t = ";".join("%s=%s" % (k, needs[k]) for k in ks)
            l = l.rsplit(" ", 1)[0] + " " + t
        out.append(l)
    return out


# ---------------------------------------------------------------------- generators
NAMES = [b"VP8 ", b"VP8L", b"VP8X", b"ALPH", b"ANIM", b"ANMF", b"ICCP", b"EXIF", b"XMP ", b"UNKN"]


def mk(name, cw=2, ch=3, flags=0, inner=None, ll=LL_OK, odd=False):
    """a plausible chunk of each kind (dims are the canvas/frame dims the VP8L must match)"""
    if name == b"VP8 ":
        return chunk(name, b"\x01\x02\x03" if odd else b"\x01\x02")
    if name == b"VP8L":
        return chunk(name, vp8l_payload(cw, ch, ll))
    if name == b"VP8X":
        return chunk(name, vp8x_payload(flags, cw, ch))
    if name == b"ALPH":
        return chunk(name, b"\0\x55" if not odd else b"\0")
    if name == b"ANIM":
        return chunk(name, b"\1\2\3\4\5\6")
    if name == b"ANMF":
        return chunk(name, anmf_payload(inner if inner is not None else chunk(b"VP8 ", b"\1\2"), w=cw, h=ch))
    if name in (b"ICCP", b"EXIF", b"XMP ", b"UNKN"):
        return chunk(name, b"meta" if not odd else b"met")
    raise ValueError(name)


def sequences(maxlen, flagsets, allows=(False, True), reader="cursor", sample=None, rng=None):
    """all chunk sequences up to a length at file level over the chunk alphabet x VP8X flag sets"""
    for n in range(0, maxlen + 1):
        for seq in itertools.product(NAMES, repeat=n):
            fs = flagsets if (b"VP8X" in seq[:1]) else [0]
            for f in fs:
                if sample is not None and rng.random() > sample:
                    continue
                body = b"".join(mk(nm, flags=f) for nm in seq)
                for allow in allows:
                    yield case_line(reader, allow, riff(body)), "exhaustive-seq-%d" % n


def frame_sequences(maxlen, flagsets, allows=(False, True), reader="cursor"):
    """all chunk sequences up to a length inside one ANMF frame"""
    for n in range(0, maxlen + 1):
        for seq in itertools.product(NAMES, repeat=n):
            for f in flagsets:
                inner = b"".join(mk(nm, flags=f) for nm in seq)
                body = mk(b"VP8X", flags=f | ANIM) + mk(b"ANIM") + chunk(b"ANMF", anmf_payload(inner, w=2, h=3))
                for allow in allows:
                    yield case_line(reader, allow, riff(body)), "exhaustive-frame-%d" % n


def frame_orders(maxframes, allows=(False, True), reader="cursor"):
    """all sequences of up to maxframes animation frames over the frame kinds (lossy, lossless, lossy with uncompressed / lossless
    alpha, lossy + unknown chunk, and the invalid alpha + lossless), under the animation flag with and without the alpha flag: what a
    frame may contain must not depend on the frames before it"""
    kinds = [mk(b"VP8 "), chunk(b"VP8L", vp8l_payload(2, 3)), mk(b"ALPH") + mk(b"VP8 "), chunk(b"ALPH", b"\1" + LL_OK) + mk(b"VP8 "),
             mk(b"VP8 ") + chunk(b"UNKN", b"xy"), mk(b"ALPH") + chunk(b"VP8L", vp8l_payload(2, 3))]
    for n in range(1, maxframes + 1):
        for seq in itertools.product(range(len(kinds)), repeat=n):
            frames = b"".join(chunk(b"ANMF", anmf_payload(kinds[k], w=2, h=3)) for k in seq)
            for f in (ANIM, ANIM | ALPHA):
                body = mk(b"VP8X", flags=f) + mk(b"ANIM") + frames
                for allow in allows:
                    yield case_line(reader, allow, riff(body)), "frame-orders-%d" % n


def empty_trailers(allows=(False, True), reader="cursor"):
    """zero-length chunks in every place a chunk can follow: after a still image, after the last animation frame, inside a frame
    after its image - as the very last bytes of the container and followed by another chunk"""
    fr = chunk(b"ANMF", anmf_payload(mk(b"VP8 "), w=2, h=3))
    for name in NAMES:
        z = chunk(name, b"")
        for f in (0, EXIF, XMP, EXIF | XMP, ICCP):
            bodies = [mk(b"VP8X", flags=f | ANIM) + mk(b"ANIM") + fr + z,
                      mk(b"VP8X", flags=f | ANIM) + mk(b"ANIM") + fr + fr + z,
                      mk(b"VP8X", flags=f | ANIM) + mk(b"ANIM") + fr + z + mk(b"UNKN"),
                      mk(b"VP8X", flags=f | ANIM) + mk(b"ANIM") + chunk(b"ANMF", anmf_payload(mk(b"VP8 ") + z, w=2, h=3)),
                      mk(b"VP8X", flags=f) + mk(b"VP8 ") + z,
                      mk(b"VP8X", flags=f) + mk(b"VP8 ") + z + z]
            if f == 0:
                bodies += [mk(b"VP8 ") + z, mk(b"VP8L") + z]
            for body in bodies:
                for allow in allows:
                    yield case_line(reader, allow, riff(body)), "empty-trailers"


def dim_mismatch(reader="cursor"):
    """a VP8L image inside VP8X whose declared dimensions DIFFER from the canvas / frame dimensions by every kind of near miss: +-1, a
    multiple of 2^14 (the width of the VP8L field), of 2^16, of 2^24 - 1; swapped; equal only in one coordinate"""
    for (vw, vh) in ((1, 1), (2, 3), (16384, 1), (5, 16384)):
        for dw, dh in ((0, 0), (1, 0), (0, 1), (16384, 0), (0, 16384), (65536, 0), (0, 65536), (65536, 65536), (2 * 65536, 0), (255 * 65536, 0)):
            cw, ch = vw + dw, vh + dh
            if cw > 2 ** 24 or ch > 2 ** 24 or cw * ch >= 2 ** 32:
                continue
            v = chunk(b"VP8L", vp8l_payload(vw, vh))
            yield case_line(reader, False, riff(mk(b"VP8X", cw=cw, ch=ch) + v)), "dims-mismatch-still"
            yield case_line(reader, False, riff(mk(b"VP8X", flags=ANIM, cw=min(cw, 4096), ch=min(ch, 4096)) + mk(b"ANIM") +
                                                chunk(b"ANMF", anmf_payload(v, w=cw, h=ch)))), "dims-mismatch-frame"


def vp8x_fields(reader="cursor"):
    """the fixed fields of VP8X beyond the flags: every pattern of reserved bytes with one, two or three non-zero bytes (equal bytes,
    bytes summing to 256, to 255), and canvas dimensions whose product sits on the 2^32 limit (2^32 - 1 = 65537 x 65535, 2^32, one more)"""
    pats = [bytes(p) for p in ((1, 0, 0), (0, 1, 0), (0, 0, 1), (0x80, 0x80, 0), (0, 0x80, 0x80), (0x80, 0, 0x80), (0xff, 0x01, 0),
                               (0x01, 0xff, 0), (7, 7, 0), (7, 0, 7), (0xaa, 0xaa, 0), (0x55, 0xaa, 0x01), (0xff, 0xff, 0x02), (0xff, 0xff, 0xff))]
    for r in pats:
        body = chunk(b"VP8X", vp8x_payload(0, 2, 3, reserved=r)) + mk(b"VP8 ")
        yield case_line(reader, False, riff(body)), "vp8x-reserved"
    for cw, ch in ((65537, 65535), (65535, 65537), (65536, 65536), (65536, 65535), (2 ** 24, 256), (2 ** 24, 255), (4294967295, 1),
                   (1, 2 ** 24), (2 ** 16 + 1, 2 ** 16 - 1), (2 ** 24, 257), (3, 1431655765), (16777215, 257)):
        if cw > 2 ** 24 or ch > 2 ** 24:
            continue
        body = chunk(b"VP8X", vp8x_payload(0, cw, ch)) + mk(b"VP8 ")
        yield case_line(reader, False, riff(body)), "vp8x-canvas-product"


def valid_files(rng=None):
    """a set of valid files of every shape (used as seeds for mutation/truncation)"""
    out = []
    out.append(riff(mk(b"VP8 ")))
    out.append(riff(mk(b"VP8L")))
    out.append(riff(mk(b"VP8 ", odd=True)))
    out.append(riff(mk(b"VP8X", flags=0) + mk(b"VP8 ")))
    out.append(riff(mk(b"VP8X", flags=0) + mk(b"VP8L")))
    out.append(riff(mk(b"VP8X", flags=ALPHA) + mk(b"ALPH") + mk(b"VP8 ")))
    out.append(riff(mk(b"VP8X", flags=ALPHA) + chunk(b"ALPH", b"\1" + LL_OK) + mk(b"VP8 ")))
    out.append(riff(mk(b"VP8X", flags=ICCP | EXIF | XMP) + mk(b"ICCP") + mk(b"VP8 ") + mk(b"EXIF", odd=True) + mk(b"XMP ")))
    fr1 = chunk(b"ANMF", anmf_payload(mk(b"VP8 "), w=2, h=3))
    fr2 = chunk(b"ANMF", anmf_payload(chunk(b"VP8L", vp8l_payload(1, 2)), w=1, h=2))          # frame smaller than the canvas
    fr3 = chunk(b"ANMF", anmf_payload(mk(b"ALPH") + mk(b"VP8 ", odd=True), w=2, h=2))
    fr4 = chunk(b"ANMF", anmf_payload(chunk(b"ALPH", b"\1" + LL_OK) + mk(b"VP8 "), w=1, h=1))
    out.append(riff(mk(b"VP8X", flags=ANIM) + mk(b"ANIM") + fr1))
    out.append(riff(mk(b"VP8X", flags=ANIM) + mk(b"ANIM") + fr1 + fr2))
    out.append(riff(mk(b"VP8X", flags=ANIM | ALPHA) + mk(b"ANIM") + fr3 + fr1 + fr4))
    out.append(riff(mk(b"VP8X", flags=ANIM | ALPHA | EXIF | XMP | ICCP) + mk(b"ICCP") + mk(b"ANIM") + fr2 + fr3 + mk(b"EXIF") + mk(b"XMP ")))
    return out


def boundary_cases(reader="cursor"):
    v = valid_files()
    # pad byte values / missing pads
    for pad in (0, 1, None):
        for allow in (False, True):
            yield case_line(reader, allow, riff(chunk(b"VP8 ", b"\1\2\3", pad=pad))), "pad-byte"
            yield case_line(reader, allow, riff(mk(b"VP8X", flags=EXIF) + mk(b"VP8 ") + chunk(b"EXIF", b"abc", pad=pad))), "pad-byte"
            yield case_line(reader, allow, riff(mk(b"VP8 ") + chunk(b"UNKN", b"abc", pad=pad))), "pad-byte"
            inner = chunk(b"VP8 ", b"\1\2\3", pad=pad)
            yield case_line(reader, allow, riff(mk(b"VP8X", flags=ANIM) + mk(b"ANIM") + chunk(b"ANMF", anmf_payload(inner)))), "pad-byte"
    # RIFF size field relative to the true length
    for f in v[:6]:
        true = len(f) - 8
        for sz in (true - 2, true - 1, true, true + 1, true + 2, 0, 3, 4, 5):
            d = f[:4] + le32(sz) + f[8:]
            for extra in (b"", b"\0", b"\0\0", b"x"):
                yield case_line(reader, False, d + extra), "riff-size"
    # tags
    yield case_line(reader, False, riff(mk(b"VP8 "), name=b"RIFX")), "tags"
    yield case_line(reader, False, riff(mk(b"VP8 "), tag=b"WEBQ")), "tags"
    yield case_line(reader, False, b""), "tags"
    # VP8X / ANIM exact sizes, reserved bits, canvas product
    for ln in (9, 10, 11, 12):
        pl = vp8x_payload(0) + b"\0\0"
        yield case_line(reader, True, riff(chunk(b"VP8X", pl[:ln]) + mk(b"VP8 "))), "exact-size"
    for ln in (5, 6, 7, 8):
        pl = b"\1\2\3\4\5\6\7\x08"
        yield case_line(reader, True, riff(mk(b"VP8X", flags=ANIM) + chunk(b"ANIM", pl[:ln]) + chunk(b"ANMF", anmf_payload(mk(b"VP8 "))))), "exact-size"
    for ln in (15, 16, 17):
        pl = anmf_payload(b"")[:ln] if ln <= 16 else anmf_payload(b"x")
        yield case_line(reader, True, riff(mk(b"VP8X", flags=ANIM) + mk(b"ANIM") + chunk(b"ANMF", pl))), "exact-size"
    for fl in (0x01, 0x40, 0x80, 0xC1, 0x3E, 0xFF):
        yield case_line(reader, True, riff(chunk(b"VP8X", vp8x_payload(fl)) + mk(b"VP8 "))), "reserved"
    for rs in (b"\1\0\0", b"\0\1\0", b"\0\0\1"):
        yield case_line(reader, True, riff(chunk(b"VP8X", vp8x_payload(0, reserved=rs)) + mk(b"VP8 "))), "reserved"
    for fl in (0x01, 0x02, 0x04, 0x10, 0x20, 0x40, 0x80, 0x1D, 0x1F):
        yield case_line(reader, True, riff(mk(b"VP8X", flags=ALPHA) + chunk(b"ALPH", bytes([fl]) + LL_OK) + mk(b"VP8 "))), "reserved"
    for fl in (0, 1, 2, 3, 4, 0x80):
        body = mk(b"VP8X", flags=ANIM) + mk(b"ANIM") + chunk(b"ANMF", anmf_payload(mk(b"VP8 "), flags=fl))
        yield case_line(reader, True, riff(body)), "reserved"
    for (w, h) in ((2**24, 2**24), (2**24, 256), (2**24, 255), (65536, 65536), (65536, 65535), (1, 2**24)):
        yield case_line(reader, True, riff(chunk(b"VP8X", vp8x_payload(0, w, h)) + mk(b"VP8 "))), "canvas"
    # VP8L header and dimension rules
    for (w, h) in ((2, 3), (3, 2), (1, 1), (2, 2)):
        yield case_line(reader, False, riff(mk(b"VP8X", cw=2, ch=3) + chunk(b"VP8L", vp8l_payload(w, h)))), "vp8l-dims"
        body = mk(b"VP8X", flags=ANIM, cw=4, ch=4) + mk(b"ANIM") + chunk(b"ANMF", anmf_payload(chunk(b"VP8L", vp8l_payload(w, h)), w=2, h=3))
        yield case_line(reader, False, riff(body)), "vp8l-dims"
        body = mk(b"VP8X", flags=ANIM | ALPHA, cw=4, ch=4) + mk(b"ANIM") + chunk(b"ANMF", anmf_payload(chunk(b"ALPH", b"\1" + LL_OK) + mk(b"VP8 "), w=w, h=h))
        yield case_line(reader, False, riff(body)), "vp8l-dims"
    for sig, ver in ((0x2e, 0), (0x2f, 1), (0x2f, 7), (0x30, 0)):
        yield case_line(reader, False, riff(chunk(b"VP8L", vp8l_payload(1, 1, sig=sig, version=ver)))), "vp8l-header"
    for ll in LL_BAD:
        yield case_line(reader, False, riff(chunk(b"VP8L", vp8l_payload(1, 1, ll)))), "vp8l-body"
        yield case_line(reader, False, riff(mk(b"VP8X", flags=ALPHA) + chunk(b"ALPH", b"\1" + ll) + mk(b"VP8 "))), "vp8l-body"
    for k in range(0, 6):
        yield case_line(reader, False, riff(chunk(b"VP8L", vp8l_payload(1, 1)[:k]))), "vp8l-header"
    # nested chunk longer than its parent
    body = mk(b"VP8X", flags=ANIM) + mk(b"ANIM") + chunk(b"ANMF", anmf_payload(chunk(b"VP8 ", b"\1\2", length=100)))
    yield case_line(reader, False, riff(body)), "nested-overrun"
    yield case_line(reader, False, riff(chunk(b"VP8 ", b"\1\2", length=100))), "nested-overrun"
    yield case_line(reader, False, riff(chunk(b"VP8 ", b"\1\2", length=100), size=4 + 8 + 100)), "declared-longer-than-input"
    yield case_line(reader, False, riff(mk(b"VP8 "), size=1000)), "declared-longer-than-input"


def truncations(reader="cursor"):
    for f in valid_files():
        for k in range(len(f) + 1):
            yield case_line(reader, True, f[:k]), "truncation"


def sparse_sizes():
    """RIFF size fields near 2^32 on sparse streams"""
    for total in (2**32 - 12, 2**32 - 4, 2**32 - 3, 2**32 - 2, 2**32 - 1, 2**32, 2**32 + 2):
        size = total - 8
        if size > 2**32 - 1:
            continue
        odd = size % 2
        vlen = size - 4 - 8 - odd * 0
        head = b"RIFF" + le32(size) + b"WEBP" + b"VP8 " + le32(vlen)
        for rd in ("strict", "lenient"):
            yield case_line(rd, False, length=total + (1 if odd else 0), exts=[(0, head)]), "near-2^32"
            yield case_line(rd, False, length=total - 2, exts=[(0, head)]), "near-2^32"


def mutations(rng, n, reader="cursor"):
    seeds = valid_files()
    for _ in range(n):
        d = bytearray(rng.choice(seeds))
        for _ in range(rng.choice([1, 1, 2, 3])):
            k = rng.random()
            i = rng.randrange(len(d))
            if k < 0.5:
                d[i] = rng.choice([0, 1, 0xff, d[i] ^ (1 << rng.randrange(8))])
            elif k < 0.7:
                del d[i:i + rng.choice([1, 2, 4, 8])]
            else:
                d[i:i] = d[i:i + rng.choice([1, 2, 8])]
        yield case_line(reader, rng.random() < 0.5, bytes(d)), "mutation"


def dim_sensitive(rng, n, reader="cursor"):
    """lossless payloads whose validity depends on the dimensions they are read with (transforms / meta prefix images sized from
    width and height), in every place a lossless stream can stand: still VP8L, still ALPH, VP8L and ALPH inside ANMF frames smaller
    than the canvas; each with the stream built for the right dimensions and for the wrong ones (canvas instead of frame ...)"""
    from props import _c07_vp8l as G
    for _ in range(n):
        cw, ch = rng.randint(8, 64), rng.randint(8, 64)
        fw, fh = rng.randint(1, cw - 1), rng.randint(1, ch - 1)
        order = rng.choice([[0], [1], [0, 1], [1, 0], [3, 0], [0, 3], []])
        def stream(w, h):
            return G.build(rng, size=(w, h), order=order, pixel_budget=300, meta=(True if not order else None))[2]
        for (sw, sh), tag in (((fw, fh), "frame"), ((cw, ch), "canvas"), ((fh, fw), "swapped")):
            body = stream(sw, sh)
            f = riff(mk(b"VP8X", flags=ANIM | ALPHA, cw=cw, ch=ch) + mk(b"ANIM") +
                     chunk(b"ANMF", anmf_payload(chunk(b"ALPH", b"\1" + body) + mk(b"VP8 "), w=fw, h=fh)))
            yield case_line(reader, False, f), "dims-anmf-alph-" + tag
            f = riff(mk(b"VP8X", flags=ANIM, cw=cw, ch=ch) + mk(b"ANIM") +
                     chunk(b"ANMF", anmf_payload(chunk(b"VP8L", vp8l_payload(fw, fh, body)), w=fw, h=fh)))
            yield case_line(reader, False, f), "dims-anmf-vp8l-" + tag
        for (sw, sh), tag in (((cw, ch), "canvas"), ((fw, fh), "other")):
            body = stream(sw, sh)
            yield case_line(reader, False, riff(mk(b"VP8X", flags=ALPHA, cw=cw, ch=ch) + chunk(b"ALPH", b"\1" + body) + mk(b"VP8 "))), "dims-still-alph-" + tag
            yield case_line(reader, False, riff(mk(b"VP8X", cw=cw, ch=ch) + chunk(b"VP8L", vp8l_payload(cw, ch, body)))), "dims-still-vp8l-" + tag
