"""Shared generators and specification-side oracles for the MP4 properties (C01-C05, C09, C10, C13, C14).
The oracles evaluate the EXTRACTED Mp4/Spec.v functions (driver kinds `spec`, `specmd`) on the implementation's
outputs; nothing here consults the sanitizer model."""
import itertools, random
from mp4gen import *

KINDS_SENSITIVE = False


def canon(out, kinds=False):
    """canonical observation for comparison; error kinds only matter where a property speaks about them"""
    if out.startswith("err parse"):
        return out if kinds else "err parse"
    return out


def parse_out(out):
    t = out.split()
    if t[:2] == ["ok", "none"]:
        return {"ok": True, "md": None, "off": int(t[2]), "len": int(t[3])}
    if t[:2] == ["ok", "some"]:
        h, z = t[2].split("z")
        return {"ok": True, "md": (bytes.fromhex(h), int(z)), "off": int(t[3]), "len": int(t[4])}
    return {"ok": False, "err": " ".join(t[1:])}


def parse_spec(s):
    d = {}
    for kv in s.split():
        if "=" in kv:
            k, v = kv.split("=", 1)
            d[k] = v
    return d


def parse_tables(s):
    if s in ("none", "na"):
        return None
    if s == "-":
        return []
    out = []
    for t in s.split(";"):
        w, es = t.split(":")
        out.append((int(w), [int(e) for e in es.split(",")] if es else []))
    return out


def spec_for(run, lines):
    """run the extracted specification on each mp4 case line; returns list of dicts"""
    res = run.driver(["q%d %s" % (i, l.replace("mp4 ", "spec ", 1)) for i, l in enumerate(lines)])
    return [parse_spec(res.get("q%d" % i, "")) for i in range(len(lines))]


def specmd_for(run, mds):
    res = run.driver(["m%d specmd %sz%d" % (i, h.hex(), z) for i, (h, z) in enumerate(mds)])
    return [parse_spec(res.get("m%d" % i, "")) for i in range(len(mds))]


# ====================================================================== generators
def F(brands=(b"isom",), **kw):
    return ftyp(brands=brands, **kw)


def simple_moov(tables, form="32"):
    return moov([trak(stco(e) if w == 4 else co64(e)) for w, e in tables], form=form)


def seed_layouts(rng):
    """small hand-made valid and invalid layouts (the unit-test shapes and their neighbours)"""
    m1 = simple_moov([(4, [20, 30])])
    m2 = simple_moov([(8, [20, 2**40]), (4, [1, 2, 3])])
    md = box(b"mdat", b"abcdefg")
    fr = box(b"free", b"\0" * 5)
    out = [
        [F(), md, m1], [F(), m1, md], [F(), fr, md, m2], [fr, F(), md, m1], [F(), md, fr, md, m1],
        [F(), md, m1, md], [F(), md, m1, m2], [F(), m1, md, m2], [md, F(), m1], [F(), md], [F(), m1], [m1, md],
        [F(), F(), md, m1], [F(), md, box(b"meta", b"xy"), box(b"meco", b""), md, m1], [F(), md, box(b"abcd", b"q"), m1],
        [F(), md, box(b"uuid", b"q", uuid=bytes(16)), m1], [F((b"mp41",)), md, m1], [F((b"mp42", b"isom")), md, m1],
        [F(tail=b"xy"), md, m1], [ftyp(brands=()), md, m1], [box(b"ftyp", b"isom\0\0\0"), md, m1],
        [box(b"ftyp", b"isom\0\0\0\0" + b"isom" * 254), md, m1], [box(b"ftyp", b"isom\0\0\0\0" + b"isom" * 254 + b"x"), md, m1],
        [F(form="64"), md, simple_moov([(4, [5])], form="64")], [F(), md, simple_moov([(4, [5])], form="eof")],
        [F(), m1, box(b"mdat", b"abc", form="eof")], [F(), box(b"mdat", b"abc", form="64"), m1],
        [F(), md, moov([])], [F(), md, moov([box(b"trak", b"")])], [F(), md, moov([trak(stco([1]) + co64([2]))])],
        [F(), md, moov([trak(stco([1]) + stco([2]))])], [F(), md, moov([trak(b"")])],
        [F(), md, moov([trak(box(b"stco", b"\1\0\0\0" + be32(0)))])], [F(), md, moov([trak(box(b"stco", b"\0\0\0\1" + be32(0)))])],
        [F(), md, moov([trak(box(b"stco", b"\0\0\0\0" + be32(2) + be32(7)))])],
        [F(), md, moov([trak(box(b"stco", b"\0\0\0\0" + be32(1) + be32(7) + b"x"))])],
        [F(), md, moov([trak(box(b"stco", b"\0\0\0\0" + be32(2**30) + be32(7)))])],
        [F(), md, moov([trak(box(b"co64", b"\0\0\0\0" + be32(2**29) + be64(7)))])],
        # entry counts whose byte length equals the bytes present only modulo 2^32 (a count of 2^30 + k stco entries or
        # 2^29 + k co64 entries with k present): must be refused, whatever integer width the length is computed in
        [F(), md, moov([trak(box(b"stco", b"\0\0\0\0" + be32(2**30)))])],
        [F(), md, moov([trak(box(b"stco", b"\0\0\0\0" + be32(2**30 + 1) + be32(7)))])],
        [F(), md, moov([trak(box(b"stco", b"\0\0\0\0" + be32(2**31 + 2) + be32(7) + be32(9)))])],
        [F(), md, moov([trak(box(b"stco", b"\0\0\0\0" + be32(3 * 2**30 + 1) + be32(7)))])],
        [F(), md, moov([trak(box(b"co64", b"\0\0\0\0" + be32(2**29)))])],
        [F(), md, moov([trak(box(b"co64", b"\0\0\0\0" + be32(2**29 + 1) + be64(7)))])],
        [F(), md, moov([trak(box(b"co64", b"\0\0\0\0" + be32(7 * 2**29 + 2) + be64(7) + be64(8)))])],
        [F(), moov([trak(box(b"stco", b"\0\0\0\0" + be32(2**30 + 1) + be32(7)))]), md],
    ]
    # every single bit of the version/flags word of a table, and a few mixed words (a table header other than version 0, flags 0 is
    # refused; were it accepted, the constant header written back would change a byte outside the entry table)
    for w in [1 << b for b in range(32)] + [0x00010001, 0x00ffff00, 0x00800000, 0xff000000, 0x0000ff00]:
        out.append([F(), md, moov([trak(box(b"stco", be32(w) + be32(1) + be32(7)))])])
        out.append([F(), md, moov([trak(box(b"co64", be32(w) + be32(1) + be64(7)))])])
    return out


def mutate_tree(rng, payload):
    """point mutations of a moov payload: flip a byte, truncate, duplicate or delete a 8-byte aligned chunk"""
    p = bytearray(payload)
    k = rng.random()
    if not p:
        return bytes(p)
    if k < 0.4:
        i = rng.randrange(len(p))
        p[i] = rng.choice([0, 1, 0xff, p[i] ^ (1 << rng.randrange(8))])
    elif k < 0.6:
        del p[rng.randrange(len(p)):]
    elif k < 0.8:
        i = rng.randrange(0, len(p), 4)
        p[i:i] = p[i:i + 8]
    else:
        i = rng.randrange(0, len(p), 4)
        del p[i:i + 8]
    return bytes(p)


GAPS = [0, 1, 3, 7, 8, 9, 100]


def rewrite_cases(rng, n, readers=("cursor", "strict", "lenient"), sparse=True, huge=0.5):
    """accepted-mostly inputs whose moov follows the media: varied gaps, headers, tables (C01/C02/C04 focus)"""
    for _ in range(n):
        L = Layout()
        f = F(brands=rng.choice([(b"isom",), (b"mp42", b"isom"), (b"isom", b"iso2", b"avc1")]),
              tail=rng.choice([b"", b"", b"x", b"xyz"]), form=rng.choice(["32", "32", "64"]))
        L.add(f)
        # filler before media (gap control happens through it)
        nfill = rng.choice([0, 0, 1, 2])
        for _ in range(nfill):
            t = rng.choice([b"free", b"skip"])
            L.add(box(t, b"\0" * rng.choice([0, 1, 5, 12, 40]), form=rng.choice(["32", "64"])))
        big_gap = sparse and rng.random() < 0.15
        if big_gap:
            # (before the D6 repair gaps of 2^31..2^32 made the sanitizer return a multi-GiB padding box)
            g = rng.choice([2**31 - 1, 2**31, 2**31 + 1, 2**32 - 9, 2**32 - 8]) if rng.random() < huge else rng.choice([2**32 + 4096, 2**20, 2**33, 2**16])
            L.add(box(b"free", b"", form="64", size=g), virtual=g)
        media_start = L.total()
        nmd = rng.choice([1, 1, 2, 3])
        for i in range(nmd):
            if sparse and rng.random() < 0.1:
                sz = rng.choice([2**32 + 17, 2**33, 10**6])
                L.add(box(b"mdat", b"", form="64", size=sz), virtual=sz)
            else:
                L.add(box(b"mdat", bytes(rng.randrange(256) for _ in range(rng.choice([0, 3, 7, 20]))), form=rng.choice(["32", "32", "64"])))
            if rng.random() < 0.3:
                L.add(box(rng.choice([b"free", b"skip", b"meta", b"meco"]), b"\0" * rng.choice([0, 4])))
        nmoov = rng.choice([1, 1, 1, 2])
        for i in range(nmoov):
            pl = rand_moov(rng, media_start)
            last = (i == nmoov - 1)
            form = rng.choice(["32", "32", "64", "eof"]) if last else rng.choice(["32", "64"])
            mv = box(b"moov", pl, form=form)
            L.add(mv)
            if form == "eof":
                break
            if rng.random() < 0.2:
                L.add(box(rng.choice([b"free", b"skip", b"meta"]), b"\0" * 3))
        rd = rng.choice(readers)
        dense_ok = all(len(d) == v for d, v in L.parts)
        if rd == "cursor" and not dense_ok:
            rd = "lenient"
        mx = rng.choice([DEFAULT_MAX, DEFAULT_MAX, 4096, 2**30, 2**40])
        yield case_line(rd, mx, None, L.total(), L.exts()), "rewrite"


def gap_lattice(rng, readers=("cursor", "strict")):
    """exact control of gap = media offset - metadata length, including 1..7 (no padding fits) and 0"""
    for gap in [-20, -5, -1, 0, 1, 2, 3, 4, 5, 6, 7, 8, 9, 16, 100]:
        for w in (4, 8):
            for ents in ([0], [1, 50], [2**31 - 1, 2**31, 2**32 - 1] if w == 4 else [2**63, 2**64 - 1, 2**32], [19, 20, 21]):
                f = F()
                mv = simple_moov([(w, ents)])
                mdlen = len(f) + len(mv)
                L = Layout().add(f)
                pre = mdlen + gap - len(f)      # bytes between ftyp and the media
                if pre < 0:
                    continue
                if pre >= 8:
                    L.add(box(b"free", b"\0" * (pre - 8)))
                elif pre > 0:
                    continue
                L.add(box(b"mdat", b"abcdefg")).add(mv)
                for rd in readers:
                    yield case_line(rd, DEFAULT_MAX, None, L.total(), L.exts()), "gap-lattice"
    # gaps 1..7 need the media to start < 8 bytes after where the metadata would end: use a moov placed later
    for gap in range(1, 8):
        for w in (4, 8):
            f = F()
            ents = [20 + gap, 7, 2**32 - 1 if w == 4 else 2**64 - 1, 0]
            mv = simple_moov([(w, ents)])
            fill = len(mv) + gap     # free box standing where the moov will go
            if fill < 8:
                continue
            L = Layout().add(f).add(box(b"free", b"\0" * (fill - 8))).add(box(b"mdat", b"abcdefg")).add(mv)
            for rd in readers:
                yield case_line(rd, DEFAULT_MAX, None, L.total(), L.exts()), "gap-1to7"


def huge_gap_lattice(readers=("strict", "lenient", "vseek")):
    """the media displaced by 2^31 .. nearly 2^64 bytes on sparse streams (a 64-bit free box before the mdat, the moov last):
    the displacement -(gap) does not fit an i32 and the rewrite must be refused - in whatever integer width, wrapping or not,
    the difference is computed; small entries, so that no per-entry overflow hides a wrong shift"""
    for g in [2**31 + 64, 2**32 + 64, 2**33, 2**62, 2**63 - 64, 2**63, 2**63 + 64, 2**64 - 2**32, 2**64 - 2**31 - 64, 2**64 - 2**31,
              2**64 - 2**31 + 64, 2**64 - 2**20, 2**64 - 4096, 2**64 - 400]:
        for w, ents in ((4, [20, 30]), (8, [5]), (4, [0]), (8, [2**40])):
            f = F()
            mv = simple_moov([(w, ents)])
            md = box(b"mdat", b"abcdefg")
            if len(f) + g + len(md) + len(mv) > 2**64 - 1:
                continue
            L = Layout().add(f).add(box(b"free", b"", form="64", size=g), virtual=g).add(md).add(mv)
            for rd in readers:
                yield case_line(rd, DEFAULT_MAX, None, L.total(), L.exts()), "huge-gap"


ALPHABET = None


def alphabet():
    global ALPHABET
    if ALPHABET is None:
        m = simple_moov([(4, [20])])
        ALPHABET = [F(), m, box(b"mdat", b"abc"), box(b"free", b"\0\0"), box(b"skip", b""), box(b"meta", b"m"),
                    box(b"meco", b""), box(b"abcd", b"zz"), box(b"uuid", b"u", uuid=bytes(range(16)))]
    return ALPHABET


def toplevel_sequences(maxlen, readers=("strict",), sample=None, rng=None):
    """all top-level sequences up to a length over {ftyp, moov, mdat, free, skip, meta, meco, abcd, uuid}"""
    A = alphabet()
    for n in range(0, maxlen + 1):
        for seq in itertools.product(range(len(A)), repeat=n):
            if sample is not None and rng.random() > sample:
                continue
            data = b"".join(A[i] for i in seq)
            for rd in readers:
                yield case_dense(rd, DEFAULT_MAX, None, data), "exhaustive-seq-%d" % n


def pathologies(rng, readers=("strict", "cursor")):
    """size-field pathologies and truncation at every byte of seed files"""
    m1 = simple_moov([(4, [20, 30])])
    md = box(b"mdat", b"abcdefg")
    base = [F(), md, m1]
    for rd in readers:
        for i, nm in enumerate([b"ftyp", b"mdat", b"moov", b"free", b"abcd"]):
            for sz in [0, 1, 2, 3, 7, 8, 9, 15, 16, 17, 2**31, 2**32 - 1]:
                for form in ("32", "64"):
                    pl = {b"ftyp": b"isom\0\0\0\0isom", b"moov": m1[8:], b"mdat": b"abcdefg"}.get(nm, b"zz")
                    b_ = box(nm, pl, form=form, size=sz)
                    seq = {b"ftyp": [b_, md, m1], b"mdat": [F(), b_, m1], b"moov": [F(), md, b_],
                           b"free": [F(), b_, md, m1], b"abcd": [F(), md, b_, m1]}[nm]
                    yield case_dense(rd, DEFAULT_MAX, None, b"".join(seq)), "size-pathology"
                    yield case_dense(rd, DEFAULT_MAX, None, b"".join(seq[:seq.index(b_) + 1])), "size-pathology"
        # 64-bit size with short/odd extended sizes
        for ext in [0, 1, 8, 15, 16, 17, 24, 2**63, 2**64 - 1]:
            yield case_dense(rd, DEFAULT_MAX, None, F() + be32(1) + b"mdat" + be64(ext) + b"abc" + m1), "size-pathology"
            yield case_dense(rd, DEFAULT_MAX, None, F() + be32(1) + b"free" + be64(ext)), "size-pathology"
        data = b"".join(base)
        for k in range(len(data) + 1):
            yield case_dense(rd, DEFAULT_MAX, None, data[:k]), "truncation"
        data2 = F() + m1 + md + box(b"free", b"\0" * 9)
        for k in range(len(data2) + 1):
            yield case_dense(rd, DEFAULT_MAX, None, data2[:k]), "truncation"
        # a moov with several children as the LAST box, cut at every byte: a cut that falls exactly between two children (after a
        # complete trak, after udta) leaves a shorter but well-formed child sequence - only the declared size tells it is truncated
        udta = box(b"udta", b"hello")
        m3 = moov([trak(stco([20, 30])), udta, trak(co64([2 ** 33]), extra_trak=(udta,)), box(b"free", b"")])
        data3 = F() + md + m3
        for k in range(len(F() + md), len(data3) + 1):
            yield case_dense(rd, DEFAULT_MAX, None, data3[:k]), "truncation"
        # ... and the same bytes with the moov size field inflated past the end of the input
        for extra in (1, 8, 100):
            infl = F() + md + box(b"moov", m3[8:], size=len(m3) + extra)
            yield case_dense(rd, DEFAULT_MAX, None, infl), "truncation"
        # declared sizes beyond the input (sparse): overshoot by 1, by 2^32, up to 2^64-1
        for over in [1, 2, 100, 2**32, 2**62, 2**63 + 100]:
            for nm in (b"mdat", b"free", b"meta", b"abcd"):
                L = Layout().add(F()).add(m1).add(box(b"mdat", b"abc"))
                L.add(box(nm, b"xyz", form="64", size=16 + 3 + over))
                yield case_line("lenient" if rd == "cursor" else rd, DEFAULT_MAX, None, L.total(), L.exts()), "overshoot"
        # a truncated filler/unknown box that is NOT adjacent to the media run (after the moov, or before the ftyp's
        # successor): only the end-of-input position check can catch it on seek-style readers
        for over in [1, 84, 2**32, 2**63 + 100]:
            for nm in (b"free", b"skip", b"meta", b"meco"):
                for lay in ([F(), box(b"mdat", b"abc"), m1], [F(), m1, box(b"mdat", b"abc"), simple_moov([(4, [1])])]):
                    L = Layout()
                    for b_ in lay:
                        L.add(b_)
                    L.add(box(nm, b"xyz", form="64", size=16 + 3 + over))
                    yield case_line("lenient" if rd == "cursor" else rd, DEFAULT_MAX, None, L.total(), L.exts()), "overshoot-nonadjacent"
                    if over < 1000 and rd == "cursor":
                        yield case_line("cursor", DEFAULT_MAX, None, L.total(), L.exts()), "overshoot-nonadjacent"
        L = Layout().add(F()).add(m1).add(be32(1) + b"mdat" + be64(2**64 - 1) + b"abc")
        yield case_line("lenient" if rd == "cursor" else rd, DEFAULT_MAX, None, L.total(), L.exts()), "overshoot"


def tree_mutations(rng, n, readers=("strict", "cursor")):
    for _ in range(n):
        pl = rand_moov(rng, 50)
        for _ in range(rng.choice([1, 1, 2])):
            pl = mutate_tree(rng, pl)
        data = F() + box(b"mdat", b"abcdefg") + box(b"moov", pl)
        yield case_dense(rng.choice(readers), DEFAULT_MAX, None, data), "tree-mutation"
    # systematic delete / duplicate / insert at each of the five levels
    tab = stco([9])
    def build(level, op):
        extra = box(b"udta", b"")
        def lv(name, inner, i):
            if level == i and op == "dup":
                inner = inner + inner
            if level == i and op == "del":
                inner = b""
            if level == i and op == "ins":
                inner = extra + inner + extra
            return box(name, inner)
        t = lv(b"stbl", tab if not (level == 4 and op == "dup") else tab + tab if op == "dup" else tab, 4) if False else None
        s = tab
        if level == 4:
            s = {"dup": tab + tab, "del": b"", "ins": extra + tab + extra}[op]
        stbl = box(b"stbl", s)
        if level == 3:
            stbl = {"dup": stbl + stbl, "del": b"", "ins": extra + stbl + extra}[op]
        minf = box(b"minf", stbl)
        if level == 2:
            minf = {"dup": minf + minf, "del": b"", "ins": extra + minf + extra}[op]
        mdia = box(b"mdia", minf)
        if level == 1:
            mdia = {"dup": mdia + mdia, "del": b"", "ins": extra + mdia + extra}[op]
        tr = box(b"trak", mdia)
        if level == 0:
            tr = {"dup": tr + tr, "del": b"", "ins": extra + tr + extra}[op]
        return box(b"moov", tr)
    for level in range(5):
        for op in ("dup", "del", "ins"):
            for rd in readers:
                yield case_dense(rd, DEFAULT_MAX, None, F() + box(b"mdat", b"abcdefg") + build(level, op)), "tree-level-ops"


def config_lattice(rng, readers=("strict", "cursor")):
    m1 = simple_moov([(4, [20, 30])])
    pl = len(m1) - 8
    for rd in readers:
        for mx in [0, pl - 1, pl, pl + 1, 4096, 2**30, 2**64 - 1]:
            for data in (F() + box(b"mdat", b"abc") + m1, F() + m1 + box(b"mdat", b"abc"),
                         F() + box(b"mdat", b"abc") + m1 + simple_moov([(4, [1])]),
                         F() + box(b"mdat", b"abc") + box(b"moov", m1[8:], form="eof"),
                         F() + box(b"mdat", b"abc") + box(b"moov", m1[8:], form="64"),
                         F() + m1 + box(b"mdat", b"abc") + box(b"moov", m1[8:], form="eof")):
                yield case_dense(rd, mx, None, data), "limit-lattice"
        # the limit is about the moov payload only: an ftyp payload LARGER than the moov payload with limits between the two
        bigf = F(brands=(b"isom",) + tuple(bytes([65 + i % 26]) * 4 for i in range(40)))
        for mx in [pl - 1, pl, pl + 1, 100, len(bigf) - 9, len(bigf) - 8, len(bigf)]:
            for data in (bigf + box(b"mdat", b"abc") + m1, bigf + m1 + box(b"mdat", b"abc")):
                yield case_dense(rd, mx, None, data), "limit-lattice"
        body = b"abcdefghij"
        for cum in [None, 0, 1, 7, 8, 9, 8 + len(body), 8 + len(body) + 1, 8 + len(body) - 1, 10**6, 2**32 - 1]:
            for data in (F() + m1 + box(b"mdat", body, form="eof"), F() + box(b"mdat", body, form="eof"),
                         F() + m1 + box(b"mdat", body), F() + box(b"mdat", body, form="eof") + m1,
                         F() + m1 + box(b"mdat", body, form="eof") + box(b"free", b""),
                         # the option is about mdat only: an until-EOF free / skip / meta / unknown box keeps running to the end
                         F() + m1 + box(b"mdat", body) + box(b"free", body + body, form="eof"),
                         F() + box(b"mdat", body) + m1 + box(b"skip", box(b"moov", m1[8:]) + body, form="eof"),
                         F() + m1 + box(b"mdat", body) + box(b"meta", body, form="eof"),
                         F() + box(b"mdat", body) + m1 + box(b"abcd", body, form="eof")):
                yield case_dense(rd, DEFAULT_MAX, cum, data), "cumulative-lattice"


def huge_pad_cases():
    """the padding-box boundary: gap = 2^32-9 (largest padded), 2^32-8 (first displaced => refused), 2^31"""
    f = F(); mv = simple_moov([(4, [1])])
    for g in (2**32 - 9 - len(f) - len(mv), 2**32 - 8 - len(f) - len(mv) ):
        L = Layout().add(f).add(box(b"free", b"", form="64", size=g + len(mv)), virtual=g + len(mv)).add(box(b"mdat", b"abc")).add(mv)
        yield case_line("strict", DEFAULT_MAX, None, L.total(), L.exts()), "huge-pad"


def displacement_boundary():
    """gap exactly 2^31 - 1, 2^31, 2^31 + 1 with entries that can / cannot absorb the backward shift (sparse)"""
    f = F()
    for gap in (2**31 - 1, 2**31, 2**31 + 1):
        for w, ents in ((8, [2**31 + 5]), (8, [2**31 - 1, 2**40]), (4, [2**31 + 7, 2**32 - 1]), (4, [5])):
            mv = simple_moov([(w, ents)])
            fill = gap + len(mv)
            L = Layout().add(f).add(box(b"free", b"", form="64", size=fill), virtual=fill).add(box(b"mdat", b"abc")).add(mv)
            for rd in ("strict", "lenient"):
                yield case_line(rd, DEFAULT_MAX, None, L.total(), L.exts()), "displacement-boundary"


def u64_edge_cases():
    """sparse streams of up to 2^64-1 bytes through the real SeekSkipAdapter (reader `vseek`) and the sparse
    Skip readers: boxes ending at, just below and beyond 2^64-1"""
    m1 = simple_moov([(4, [20, 30])])
    f = F()
    for total in (2**64 - 1, 2**64 - 2, 2**63 + 5):
        for end in (2**64 - 1, 2**64 - 2, 2**64, 2**64 + 7, 2**63, total, total + 1):
            head = len(f) + len(m1)
            size = end - head
            if size < 16 or size > 2**64 - 1:
                continue
            for nm in (b"mdat", b"free"):
                L = Layout().add(f).add(m1).add(be32(1) + nm + be64(size) + b"abcd")
                for rd in ("vseek", "lenient", "strict"):
                    yield case_line(rd, DEFAULT_MAX, None, total, L.exts()), "u64-edge"


def big_box_truncations(readers=("cursor", "strict", "lenient")):
    """a moov / ftyp-following box whose payload is far larger than any internal piece size (64 KiB multiples), complete and cut at points
    around those multiples: the whole payload is ONE read whose short end is a parse error (TruncatedBox), whatever its size (sparse
    inputs: only the headers and the trak are materialised, the large child is zero bytes)"""
    f = F()
    trak = simple_moov([(4, [20, 30])])[8:]
    md = box(b"mdat", b"abcdefg")
    for n in (70000, 140000, 300000):
        udta_hdr = be32(8 + n) + b"udta"
        for udta_first in (False, True):
            pl_present = (udta_hdr if udta_first else trak + udta_hdr)
            pl_len = len(trak) + 8 + n
            moov_hdr = be32(8 + pl_len) + b"moov"
            for moov_last in (True, False):
                head = f + md if moov_last else f
                base = len(head) + 8                                  # offset of the moov payload
                exts = [(0, head + moov_hdr + pl_present)]
                if udta_first:
                    exts.append((base + 8 + n, trak))
                full = base + pl_len
                tail = b"" if moov_last else md
                if tail:
                    exts.append((full, tail))
                cuts = {full + len(tail)}
                for m in (65536, 131072, 262144):
                    if m < pl_len:
                        cuts |= {base + m - 1, base + m, base + m + 1}
                cuts |= {full - 1, base + 40}
                for total in sorted(cuts):
                    ex = [(o, d[: max(0, total - o)]) for o, d in exts if o < total]
                    for rd in readers:
                        yield case_line(rd, DEFAULT_MAX, None, total, ex), "big-box-truncation"


def big_table_cases(readers=("cursor", "strict")):
    """chunk-offset tables with thousands of entries (dense), in layouts that need the rewrite (moov after mdat) and that do not; entries
    near the end and the start carry the boundary values.  Not larger: Spec.entries slices the payload once per entry (a specification,
    written for reading), so the oracle's cost is quadratic in the entry count - 70000 entries took more than ten minutes"""
    f = F()
    md = box(b"mdat", b"abcdefgh" * 4)
    for w, n in ((4, 5000), (8, 3000)):
        top = 2**32 - 1 if w == 4 else 2**64 - 1
        es = [len(f) + 8 + (i % 32) for i in range(n)]
        for special in (None, (n - 1, top), (0, top), (n // 2, 0)):
            e2 = list(es)
            if special:
                e2[special[0]] = special[1]
            m = simple_moov([(w, e2), (4, [len(f) + 9])])
            for lay in (f + md + m, f + m + md, f + box(b"free", b"\0" * 24) + md + m):
                for rd in readers:
                    yield case_dense(rd, DEFAULT_MAX, None, lay), "big-table"


def multi_moov_cases(rng, n_random=12, readers=("cursor", "strict")):
    """several top-level moov boxes of which ONE is malformed - first, middle or last: every moov must be well formed, not only the one
    whose tables are rewritten (the last)"""
    f = F()
    md = box(b"mdat", b"abcdefg")
    good = simple_moov([(4, [20, 30])])
    good2 = simple_moov([(8, [21])])
    udta = box(b"udta", b"x")
    stbl2 = box(b"stbl", stco([1]) + co64([2]))
    bads = [box(b"moov", b""), box(b"moov", udta), box(b"moov", box(b"trak", udta)),
            box(b"moov", box(b"trak", box(b"mdia", box(b"minf", stbl2)))),
            box(b"moov", box(b"trak", box(b"mdia", box(b"minf", box(b"stbl", stco([1]) + stco([2])))))),
            box(b"moov", box(b"trak", box(b"mdia", box(b"minf", box(b"stbl", box(b"stco", b"\1\0\0\0" + be32(0))))))),
            box(b"moov", box(b"trak", box(b"mdia", box(b"minf", box(b"stbl", box(b"stco", b"\0\0\0\0" + be32(5) + be32(1))))))),
            box(b"moov", box(b"trak", box(b"mdia", box(b"minf", box(b"stbl", box(b"stco", b"\0\0\0\0" + be32(0) + b"zz")))))),
            box(b"moov", good[8:] + box(b"trak", box(b"mdia", b""))), box(b"moov", good[8:-3] + b"\0\0\0"),
            box(b"moov", box(b"trak", box(b"mdia", box(b"minf", b"")) + box(b"mdia", box(b"minf", b""))))]
    for _ in range(n_random):
        bads.append(box(b"moov", mutate_tree(rng, good[8:])))
    for bad in bads:
        for lay in (f + bad + md + good, f + bad + good + md, f + md + bad + good, f + good + md + bad, f + md + good + bad,
                    f + good + bad + good2 + md, f + md + good + bad + good2):
            for rd in readers:
                yield case_dense(rd, DEFAULT_MAX, None, lay), "multi-moov"


def standard_stream(run, rewrite_n, mut_n, seq_len, seq_sample=None):
    rng = run.rng
    yield from u64_edge_cases()
    yield from multi_moov_cases(rng, 6 if run.tier == "quick" else 200, ("cursor",) if run.tier == "quick" else ("cursor", "strict"))
    yield from big_table_cases(("cursor",) if run.tier == "quick" else ("cursor", "strict"))
    yield from big_box_truncations(("cursor", "strict") if run.tier == "quick" else ("cursor", "strict", "lenient"))
    yield from huge_pad_cases()
    yield from displacement_boundary()
    for lay in seed_layouts(rng):
        for rd in ("cursor", "strict"):
            yield case_dense(rd, DEFAULT_MAX, None, b"".join(lay)), "seed-layouts"
    yield from gap_lattice(rng)
    yield from huge_gap_lattice()
    yield from rewrite_cases(rng, rewrite_n)
    yield from pathologies(rng)
    yield from tree_mutations(rng, mut_n)
    yield from config_lattice(rng)
    yield from toplevel_sequences(seq_len, sample=seq_sample, rng=rng)


# ====================================================================== oracles (specification side)
def shift_tables(tabs, delta):
    out = []
    for w, es in tabs:
        r = []
        for e in es:
            v = e + delta
            if not (0 <= v < 2 ** (8 * w)):
                return None
            r.append(v)
        out.append((w, r))
    return out


def judge(case, out, spec, mdspec, second=None):
    """returns dict property -> (ok, why) for one case, given the implementation output `out`, the spec view of the
    input `spec`, the spec view of the returned metadata `mdspec` (or None)."""
    c = parse_case(case)
    o = parse_out(out)
    res = {}
    strict = c["reader"] == "strict"
    tiled = spec.get("tiling", "none") != "none"
    accept = spec.get("accept") == "true"
    overflow = spec.get("overflow") == "true"
    big = c["max"] >= 2**32            # C05 is stated for limits below 2^32
    panic = out.startswith(("panic", "timeout", "missing"))
    res["C09"] = (not panic, "panic/timeout observed" if panic else "")
    # C05
    want_ok = accept and not overflow
    if not panic and not big:
        ok5 = (o["ok"] == want_ok)
        why = "spec accept=%s overflow=%s but implementation %s" % (accept, overflow, out[:60])
        if ok5 and o["ok"]:
            none_expected = spec.get("plan") == "norewrite"
            ok5 = ((o["md"] is None) == none_expected)
            why = "metadata None=%s but spec plan=%s" % (o["md"] is None, spec.get("plan"))
        res["C05"] = (ok5, why)
    # C03
    if not panic:
        if o["ok"]:
            run_ = spec.get("run", "none")
            ok3 = tiled and run_ == "%d,%d" % (o["off"], o["len"]) and o["off"] + o["len"] <= c["len"] and spec.get("mdat_inside") == "true"
            res["C03"] = (ok3, "span %d+%d vs spec media run %s, input length %d, tiled=%s" % (o["off"], o["len"], run_, c["len"], tiled))
        else:
            res["C03"] = (True, "")
        if not tiled and o["ok"]:
            res["C03"] = (False, "input is not a sequence of complete boxes (a declared box extends past the end) yet accepted")
    # C01 / C02 / C04 need returned metadata
    if o.get("ok") and o["md"] is not None and mdspec is not None:
        mdlen = len(o["md"][0]) + o["md"][1]
        delta = mdlen - o["off"]
        tin = parse_tables(spec.get("tables", "none"))
        tout = parse_tables(mdspec.get("tables", "none"))
        shape = mdspec.get("shape") == "ok"
        want = shift_tables(tin, delta) if tin is not None else None
        res["C01"] = (shape and want is not None and tout == want,
                      "delta=%d in=%s out=%s" % (delta, tin, tout))
        ok2 = shape and mdspec.get("explicit") == "true"
        why2 = "metadata is not ftyp,moov[,free] with explicit sizes: %s" % mdspec
        if ok2 and second is not None:
            want2 = "ok none %d %d" % (mdlen, o["len"])
            ok2 = (second == want2)
            why2 = "re-sanitizing metadata||media gave %s, expected %s" % (second, want2)
        res["C02"] = (ok2, why2)
        fp_in, fp_out = spec.get("ftyp"), mdspec.get("ftyp")
        mp_in, mp_out = spec.get("moov"), mdspec.get("moov")
        ok4 = shape and fp_in == fp_out and mp_in is not None and mp_out is not None and len(mp_in) == len(mp_out)
        why4 = "ftyp payload changed or moov length changed"
        if ok4 and tin is not None:
            # bytes outside the entry tables identical: compare after masking both with the spec's regions = replace
            # each table by the same placeholder, using the table shapes
            ok4 = masked_equal(bytes.fromhex(mp_in), bytes.fromhex(mp_out))
            why4 = "moov payload differs outside stco/co64 entry tables"
        res["C04"] = (ok4, why4)
    elif o.get("ok") and o["md"] is None:
        pass
    # C01 refusal side: spec says overflow => implementation must not succeed (already part of C05)
    if accept and overflow and not panic:
        res["C01r"] = (not o["ok"], "overflow case accepted: %s" % out[:80])
    return res


def find_tables(p, off=0, end=None, depth=0, path=()):
    """independent little walker used only for masking in C04: yields (start, end) of entry tables on the
    moov>trak>mdia>minf>stbl>(stco|co64) path"""
    end = len(p) if end is None else end
    want = [b"trak", b"mdia", b"minf", b"stbl"]
    while off + 8 <= end:
        sz = int.from_bytes(p[off:off + 4], "big")
        ty = p[off + 4:off + 8]
        hl = 8
        if sz == 1:
            if off + 16 > end:
                return
            sz = int.from_bytes(p[off + 8:off + 16], "big")
            hl = 16
        elif sz == 0:
            sz = end - off
        if ty == b"uuid":
            hl += 16
        if sz < hl or off + sz > end:
            return
        if depth < 4 and ty == want[depth]:
            yield from find_tables(p, off + hl, off + sz, depth + 1)
        elif depth == 4 and ty in (b"stco", b"co64"):
            yield (off + hl + 8, off + sz)
        off += sz


def masked_equal(a, b):
    if len(a) != len(b):
        return False
    regs = list(find_tables(a))
    ma, mb = bytearray(a), bytearray(b)
    for s, e in regs:
        ma[s:e] = b"\0" * (e - s)
        mb[s:e] = b"\0" * (e - s)
    return ma == mb


def splice_case(case, out):
    """metadata || input[span] as a new (sparse) case for the fixpoint half of C02"""
    c = parse_case(case)
    o = parse_out(out)
    if not (o["ok"] and o["md"] is not None):
        return None
    if o["off"] + o["len"] > c["len"]:
        return None
    md = o["md"][0] + b"\0" * min(o["md"][1], 64)
    mdlen = len(o["md"][0]) + o["md"][1]
    exts = [(0, md)] if md else []
    if o["md"][1] > 64:
        pass    # the rest of the padding is zero background
    for eo, d in c["exts"]:
        a, b = max(eo, o["off"]), min(eo + len(d), o["off"] + o["len"])
        if a < b:
            exts.append((mdlen + a - o["off"], d[a - eo:b - eo]))
    rd = c["reader"] if c["reader"] != "cursor" or o["md"][1] <= 64 else "lenient"
    return case_line(rd, c["max"], c["cum"], mdlen + o["len"], exts)
