"""Structure-aware builders and generators for MP4 inputs (dense or sparse), shared by the mp4 properties."""
import struct

U32 = 2**32 - 1
U64 = 2**64 - 1


def be32(n):
    return struct.pack(">I", n & U32)


def be64(n):
    return struct.pack(">Q", n & U64)


def box(typ, payload=b"", form="32", size=None, uuid=None):
    """form: '32' | '64' | 'eof'; size overrides the declared *box* size (for pathologies / virtual payloads).
    typ: 4 bytes; uuid: 16 bytes => typ 'uuid' + extended type."""
    if isinstance(typ, str):
        typ = typ.encode()
    ext = b""
    if uuid is not None:
        typ, ext = b"uuid", uuid
    hl = 8 + (8 if form == "64" else 0) + len(ext)
    total = hl + len(payload) if size is None else size
    if form == "32":
        return be32(total) + typ + ext + payload
    if form == "64":
        return be32(1) + typ + be64(total) + ext + payload
    return be32(0) + typ + ext + payload


def ftyp(major=b"isom", minor=0, brands=(b"isom",), tail=b"", **kw):
    return box(b"ftyp", major + be32(minor) + b"".join(brands) + tail, **kw)


def stco(entries, **kw):
    return box(b"stco", b"\0\0\0\0" + be32(len(entries)) + b"".join(be32(e) for e in entries), **kw)


def co64(entries, **kw):
    return box(b"co64", b"\0\0\0\0" + be32(len(entries)) + b"".join(be64(e) for e in entries), **kw)


def trak(table, extra_stbl=(), extra_minf=(), extra_mdia=(), extra_trak=(), forms=("32", "32", "32", "32")):
    stbl = box(b"stbl", b"".join(extra_stbl[:1]) + table + b"".join(extra_stbl[1:]), form=forms[3])
    minf = box(b"minf", b"".join(extra_minf[:1]) + stbl + b"".join(extra_minf[1:]), form=forms[2])
    mdia = box(b"mdia", b"".join(extra_mdia[:1]) + minf + b"".join(extra_mdia[1:]), form=forms[1])
    return box(b"trak", b"".join(extra_trak[:1]) + mdia + b"".join(extra_trak[1:]), form=forms[0])


def moov(traks, extra=(), **kw):
    return box(b"moov", b"".join(extra[:1]) + b"".join(traks) + b"".join(extra[1:]), **kw)


class Layout:
    """A top-level layout as a list of (bytes_present, virtual_len): virtual_len >= len(bytes) lets a box
    declare a large payload of which only the header is materialised (sparse stream, zero background)."""

    def __init__(self):
        self.parts = []

    def add(self, data, virtual=None):
        self.parts.append((data, len(data) if virtual is None else virtual))
        return self

    def total(self):
        return sum(v for _, v in self.parts)

    def offsets(self):
        o, out = 0, []
        for d, v in self.parts:
            out.append(o)
            o += v
        return out

    def exts(self):
        o, out = 0, []
        for d, v in self.parts:
            if d:
                out.append((o, d))
            o += v
        # merge adjacent
        merged = []
        for off, d in out:
            if merged and merged[-1][0] + len(merged[-1][1]) == off:
                merged[-1] = (merged[-1][0], merged[-1][1] + d)
            else:
                merged.append((off, d))
        return merged

    def dense(self):
        assert all(len(d) == v for d, v in self.parts)
        return b"".join(d for d, _ in self.parts)


def case_line(reader, maxmd, cum, total_len, exts):
    e = ",".join("%d:%s" % (o, d.hex()) for o, d in exts if d) or "-"
    return "mp4 %s %d %s %d %s" % (reader, maxmd, "-" if cum is None else str(cum), total_len, e)


def case_dense(reader, maxmd, cum, data):
    return case_line(reader, maxmd, cum, len(data), [(0, data)] if data else [])


def parse_case(line):
    t = line.split()
    assert t[0] == "mp4"
    exts = []
    if t[5] != "-":
        for e in t[5].split(","):
            o, h = e.split(":")
            exts.append((int(o), bytes.fromhex(h)))
    return {"reader": t[1], "max": int(t[2]), "cum": None if t[3] == "-" else int(t[3]), "len": int(t[4]), "exts": exts}


class SparseBytes:
    """read-only view of a sparse input for the Python-side oracles"""

    def __init__(self, length, exts):
        self.len, self.exts = length, exts

    def get(self, off, n):
        n = max(0, min(n, self.len - off))
        out = bytearray(n)
        for o, d in self.exts:
            a, b = max(off, o), min(off + n, o + len(d))
            if a < b:
                out[a - off:b - off] = d[a - o:b - o]
        return bytes(out)


# ---------------------------------------------------------------------- random structure-aware generation
DEFAULT_MAX = 1024 * 1024 * 1024


def rand_entries(rng, width, media_start, n=None):
    n = rng.randint(0, 6) if n is None else n
    top = U32 if width == 4 else U64
    pool = [0, 1, max(0, media_start - 1), media_start, media_start + 1, 2**31 - 1, 2**31, 2**31 + 1, U32 - 1, U32]
    if width == 8:
        pool += [2**32, 2**63, U64 - 1, U64]
    out = []
    for _ in range(n):
        if rng.random() < 0.6:
            out.append(min(top, rng.choice(pool)))
        else:
            out.append(rng.randint(0, min(top, 4000)))
    return out


def rand_unknown(rng):
    t = rng.choice([b"udta", b"mvhd", b"tkhd", b"abcd", b"stsd", b"free", b"skip"])
    pl = bytes(rng.randrange(256) for _ in range(rng.choice([0, 1, 4, 9, 20])))
    f = rng.choice(["32", "32", "32", "64"])
    if rng.random() < 0.1:
        return box(b"uuid", pl, form=f, uuid=bytes(range(16)))
    return box(t, pl, form=f)


def rand_moov(rng, media_start=100, widths=None, last_eof_child=False):
    ntr = rng.randint(1, 4)
    traks = []
    for i in range(ntr):
        w = (widths[i] if widths else rng.choice([4, 8]))
        ents = rand_entries(rng, w, media_start)
        tab = stco(ents) if w == 4 else co64(ents)
        ex = lambda p=0.3: (rand_unknown(rng),) * (rng.random() < p) + (rand_unknown(rng),) * (rng.random() < p / 2)
        forms = tuple(rng.choice(["32", "32", "32", "64"]) for _ in range(4))
        traks.append(trak(tab, ex(), ex(), ex(), ex(), forms=forms))
    extra = tuple(rand_unknown(rng) for _ in range(rng.randint(0, 2)))
    return b"".join(extra[:1]) + b"".join(traks) + b"".join(extra[1:])   # payload of moov
