"""Shared machinery of /verif/check: regenerate, build, audit, run both runners, verdict, evidence."""
import hashlib, itertools, json, os, random, re, subprocess, sys, time

VERIF = os.path.dirname(os.path.dirname(os.path.abspath(__file__)))
BUILD = os.path.join(VERIF, "build")
COQ = os.path.join(VERIF, "coq")
GUARD = "signalapp_mp4san_verif"

AXIOM_ALLOW = set()  # names of axioms any theorem may depend on (expected: none)

BANNED = re.compile(r"\b(Admitted|admit|Axiom|Axioms|Parameter|Parameters|Conjecture|Hypothesis|Hypotheses|Variable|Variables|"
                    r"Unset\s+Guard|bypass_check|Admit\s+Obligations|type-in-type|impredicative-set|Unset\s+Universe|"
                    r"Unset\s+Positivity)\b")


def sh(cmd, cwd=None, timeout=None, env=None, inp=None):
    e = dict(os.environ)
    e.update({"CARGO_NET_OFFLINE": "true", "LC_ALL": "C"})
    if env:
        e.update(env)
    try:
        p = subprocess.run(cmd, cwd=cwd, shell=isinstance(cmd, str), capture_output=True, text=True,
                           timeout=timeout, env=e, input=inp)
        return p.returncode, p.stdout, p.stderr
    except subprocess.TimeoutExpired as ex:
        return 124, (ex.stdout or b"").decode() if isinstance(ex.stdout, bytes) else (ex.stdout or ""), "TIMEOUT"


class Run:
    def __init__(self, prop, tier, seed, repo="/repo"):
        self.prop, self.tier, self.seed, self.repo = prop, tier, seed, repo
        self.t0 = time.time()
        self.broken = []      # [(kind, name, detail)]  proof / pin / audit / translator / build / correspondence
        self.notes = []
        self.rng = random.Random(seed)
        self.obligations = []  # [(name, ok, detail)]
        self.axioms = {}
        os.makedirs(BUILD, exist_ok=True)
        self.area = None
        self.harness_bin = self.driver_bin = None
        self.timings = {}

    def use_area(self, a):
        if getattr(self, "bins", None) and a in self.bins:
            self.harness_bin, self.driver_bin = self.bins[a]
            self.area = a

    def log(self, *a):
        print("[%s %6.1fs]" % (self.prop, time.time() - self.t0), *a, flush=True)

    # ------------------------------------------------------------------ regenerate from source
    def regen(self):
        t = time.time()
        gen = os.path.join(COQ, "theories", "Gen")
        os.makedirs(gen, exist_ok=True)
        rc, out, err = sh([sys.executable, os.path.join(VERIF, "tools", "gen_kernels.py"), self.repo,
                           os.path.join(gen, "Kernels.v"), os.path.join(gen, "Lz77Kernel.v")])
        if rc != 0:
            self.broken.append(("translator", "gen_kernels", err.strip()))
        rc, out, err = sh([sys.executable, os.path.join(VERIF, "tools", "gen_consts.py"), self.repo,
                           os.path.join(gen, "Consts.v"), os.path.join(gen, "WebpTables.v")])
        if rc != 0:
            self.broken.append(("translator", "gen_consts", err.strip()))
        # the arms of the MP4 top-level match (Props/C05d.v): a match the translator cannot read is C05's broken tie, nobody else's
        disp = os.path.join(gen, "Mp4Dispatch.v")
        rc, out, err = sh([sys.executable, os.path.join(VERIF, "tools", "gen_consts.py"), "--dispatch", self.repo, disp])
        if rc != 0:
            for stale in (disp, disp + "o", disp[:-2] + ".glob", disp + "os", disp + "ok"):     # the stale compiled file must not satisfy a Require
                if os.path.exists(stale):
                    os.remove(stale)
            if self.prop == "C05":
                self.broken.append(("translator", "gen_consts --dispatch", err.strip()))
        ss = os.path.join(gen, "Mp4ShiftSites.v")
        rc, out, err = sh([sys.executable, os.path.join(VERIF, "tools", "gen_consts.py"), "--shift-sites", self.repo, ss])
        if rc != 0:
            for stale in (ss, ss + "o", ss[:-2] + ".glob", ss + "os", ss + "ok"):     # the stale compiled file must not satisfy a Require
                if os.path.exists(stale):
                    os.remove(stale)
            if self.prop == "C01":
                self.broken.append(("translator", "gen_consts --shift-sites", err.strip()))
        bt = os.path.join(gen, "Mp4BoxTypes.v")
        rc, out, err = sh([sys.executable, os.path.join(VERIF, "tools", "gen_consts.py"), "--box-types", self.repo, bt])
        if rc != 0:
            for stale in (bt, bt + "o", bt[:-2] + ".glob", bt + "os", bt + "ok"):     # the stale compiled file must not satisfy a Require
                if os.path.exists(stale):
                    os.remove(stale)
            if self.prop == "C05":
                self.broken.append(("translator", "gen_consts --box-types", err.strip()))
        # the known chunk names of webpsan's two trailing-chunk loops (Props/C14k.v): C14's tie
        known = os.path.join(gen, "WebpKnown.v")
        rc, out, err = sh([sys.executable, os.path.join(VERIF, "tools", "gen_consts.py"), "--webp-known", self.repo, known])
        if rc != 0:
            for stale in (known, known + "o", known[:-2] + ".glob", known + "os", known + "ok"):     # the stale compiled file must not satisfy a Require
                if os.path.exists(stale):
                    os.remove(stale)
            if self.prop == "C14":
                self.broken.append(("translator", "gen_consts --webp-known", err.strip()))
        sh(["sh", os.path.join(COQ, "mk_project.sh")])
        self.timings["regen"] = time.time() - t

    # ------------------------------------------------------------------ Coq
    def coq_make(self, targets, timeout=1500):
        t = time.time()
        rc, out, err = sh(["make", "-k", "-j16"] + targets, cwd=COQ, timeout=timeout)
        self.timings["coq_make"] = time.time() - t
        log = out + err
        open(os.path.join(BUILD, "coq_%s.log" % self.prop), "w").write(log)
        if rc != 0:
            m = re.search(r'File "([^"]+)", line (\d+)[^\n]*\n(Error:[^\n]*(?:\n[^\n]*){0,4})', log)
            detail = ("%s:%s %s" % (m.group(1), m.group(2), m.group(3))) if m else log[-600:]
            self.broken.append(("proof", "make " + " ".join(targets), detail))
            return False
        return True

    def closure(self, targets):
        """.v files in the dependency closure of the given .vo targets (from coq_makefile's .Makefile.d)"""
        deps = {}
        try:
            for line in open(os.path.join(COQ, ".Makefile.d")):
                if ":" not in line:
                    continue
                lhs, rhs = line.split(":", 1)
                for t in lhs.split():
                    if t.endswith(".vo"):
                        deps[t] = [x for x in rhs.split() if x.endswith(".vo")]
        except OSError:
            return None
        seen, todo = set(), [t for t in targets]
        while todo:
            t = todo.pop()
            if t in seen:
                continue
            seen.add(t)
            todo += deps.get(t, [])
        return {os.path.join(COQ, t[:-1]) for t in seen}

    def source_scan(self, targets=None):
        """No Admitted/admit/Axiom/Parameter/... in the development this property depends on (the dependency closure
        of its theorem files plus the extraction file; comments stripped). The whole tree is scanned when the closure
        cannot be computed; `./check ALL` style global scans are done by tools/scan_all.py."""
        bad = []
        only = self.closure(targets) if targets else None
        for root, _, files in os.walk(os.path.join(COQ)):
            for f in files:
                if not f.endswith(".v"):
                    continue
                p = os.path.join(root, f)
                if only is not None and p not in only and not root.endswith("extraction"):
                    continue
                txt = open(p).read()
                txt = strip_comments(txt)
                txt = re.sub(r'"[^"]*"', '""', txt)
                # Variables/Hypotheses are allowed inside Sections only
                depth = 0
                for ln, line in enumerate(txt.split("\n"), 1):
                    if re.match(r"\s*Section\b", line):
                        depth += 1
                    for m in BANNED.finditer(line):
                        w = m.group(1)
                        if w.startswith(("Variable", "Hypothes")) and depth > 0:
                            continue
                        bad.append("%s:%d %s" % (os.path.relpath(p, VERIF), ln, w))
                    if re.match(r"\s*End\b", line) and depth > 0:
                        depth -= 1
        ok = not bad
        self.obligations.append(("source-scan: no Admitted/admit/Axiom/Parameter/Conjecture/unguarded Variable/kernel-check switches",
                                 ok, "; ".join(bad[:5])))
        if bad:
            self.broken.append(("audit", "source-scan", "; ".join(bad[:5])))
        return ok

    def audit(self, theorems, requires, requires_for=None):
        """Pin each theorem's statement with `Check name : stmt.` and collect Print Assumptions."""
        t = time.time()
        d = os.path.join(BUILD, "audit")
        os.makedirs(d, exist_ok=True)
        allok = True
        for name, stmt in theorems:
            src = "".join("%s\n" % r for r in (requires_for or {}).get(name, requires))
            src += "Check (%s : %s).\nPrint Assumptions %s.\n" % (name, stmt, name)
            fn = os.path.join(d, "Audit_%s_%s.v" % (self.prop, name))
            open(fn, "w").write(src)
            rc, out, err = sh(["coqc", "-noglob", "-Q", os.path.join(COQ, "theories"), "MS", fn], cwd=d, timeout=300)
            for ext in (".vo", ".vok", ".vos", ".glob"):
                try:
                    os.remove(fn[:-2] + ext)
                except OSError:
                    pass
            if rc != 0:
                self.obligations.append(("theorem %s (pinned statement)" % name, False, (err or out)[-400:]))
                self.broken.append(("pin", name, (err or out).strip()[-400:]))
                allok = False
                continue
            if "Closed under the global context" in out:
                ax = []
            else:
                m = re.search(r"Axioms:\s*\n(.*)", out, re.S)
                ax = re.findall(r"^(\S+)\s*:", m.group(1), re.M) if m else ["<unparsed>"]
            self.axioms[name] = ax
            extra = [a for a in ax if a not in AXIOM_ALLOW]
            ok = not extra
            self.obligations.append(("theorem %s (pinned statement, kernel-checked, axioms=%s)" % (name, ax or "none"), ok,
                                     "" if ok else "unexpected axioms: %s" % extra))
            if not ok:
                self.broken.append(("audit", name, "unexpected axioms %s" % extra))
                allok = False
        self.timings["audit"] = time.time() - t
        return allok

    def coqchk(self, modules):
        t = time.time()
        rc, out, err = sh(["coqchk", "-silent", "-o", "-Q", os.path.join(COQ, "theories"), "MS"] + modules,
                          cwd=COQ, timeout=3000)
        self.timings["coqchk"] = time.time() - t
        txt = out + err
        m = re.search(r"\* Axioms:\s*(.*?)\n\s*\n", txt + "\n\n", re.S)
        ax = (m.group(1).strip() if m else "?")
        ok = rc == 0 and ("<none>" in ax)
        self.obligations.append(("coqchk -o re-check of %s (axioms: %s)" % (" ".join(modules), " ".join(ax.split())), ok,
                                 "" if ok else txt[-400:]))
        if not ok:
            self.broken.append(("audit", "coqchk", txt[-400:]))
        return ok

    # ------------------------------------------------------------------ runners
    def build_driver(self, area=None):
        area = area or self.area
        t = time.time()
        d = os.path.join(BUILD, "ocaml", area)
        os.makedirs(d, exist_ok=True)
        self.driver_bin = os.path.join(d, "driver")
        ext = os.path.join(COQ, "extraction", "Extract_%s.v" % area)
        srcs = [ext, os.path.join(VERIF, "ocaml", "prelude.ml"), os.path.join(VERIF, "ocaml", area + ".ml")]
        h = hashlib.sha256()
        for root, _, files in os.walk(os.path.join(COQ, "theories")):
            for f in sorted(files):
                if f.endswith(".v") and "Proofs" not in f and not root.endswith("Props"):
                    h.update(open(os.path.join(root, f), "rb").read())
        for s_ in srcs:
            h.update(open(s_, "rb").read())
        stamp = os.path.join(d, "stamp")
        if os.path.exists(self.driver_bin) and os.path.exists(stamp) and open(stamp).read() == h.hexdigest():
            self.timings["driver"] = time.time() - t
            return True
        rc, out, err = sh(["coqc", "-noglob", "-Q", os.path.join(COQ, "theories"), "MS", ext,
                           "-o", os.path.join(d, "Extract_%s.vo" % area)], cwd=d, timeout=900)
        if rc != 0:
            self.broken.append(("build", "extraction", (err or out)[-600:]))
            return False
        open(os.path.join(d, "driver.ml"), "w").write(open(srcs[1]).read() + "\n" + open(srcs[2]).read())
        rc, out, err = sh("ulimit -s unlimited 2>/dev/null; "
                          "ocamlfind ocamlopt -package zarith,str -linkpkg -O3 -w -a model.mli model.ml driver.ml -o driver",
                          cwd=d, timeout=900)
        if rc != 0:
            self.broken.append(("build", "ocaml driver", (err or out)[-600:]))
            return False
        open(stamp, "w").write(h.hexdigest())
        self.timings["driver"] = time.time() - t
        return True

    def build_harness(self, area=None):
        area = area or self.area
        t = time.time()
        # the tree under test is /repo unless --repo is given; other trees get their own build directory so that
        # concurrent checks of different trees do not disturb each other
        sub = "" if self.repo == "/repo" else "alt_" + hashlib.sha256(self.repo.encode()).hexdigest()[:8]
        cov = bool(os.environ.get("VERIF_COV"))       # development aid (tools/coverage.sh): line coverage of /repo by the case sets
        if cov:
            sub = "cov"
        d = os.path.join(BUILD, sub, "harness")
        tgt = os.path.join(BUILD, sub, "target")
        os.makedirs(d, exist_ok=True)
        self.harness_bin = os.path.join(tgt, "release", "h_" + area)
        bins = ""
        for f in sorted(os.listdir(os.path.join(VERIF, "harness", "src"))):
            if f.endswith(".rs") and f not in ("common.rs",) and not f.startswith("lib_"):
                bins += '[[bin]]\nname = "h_%s"\npath = "%s/harness/src/%s"\n\n' % (f[:-3], VERIF, f)
        tmpl = open(os.path.join(VERIF, "harness", "Cargo.toml.in")).read()
        toml = tmpl.replace("@BINS@", bins).replace("@REPO@", self.repo).replace("@VERIF@", VERIF)
        p = os.path.join(d, "Cargo.toml")
        if not os.path.exists(p) or open(p).read() != toml:
            open(p, "w").write(toml)
        lock = os.path.join(d, "Cargo.lock")
        if not os.path.exists(lock):
            sh(["cp", os.path.join(self.repo, "Cargo.lock"), lock])
        flags = "--cfg " + GUARD
        try:
            libsrc = open(os.path.join(self.repo, "webpsan", "src", "lib.rs")).read()
            if "verif_set_bitbuf_capacity" in libsrc:
                flags += " --cfg verif_caphook"      # the C19 capacity hook is present in the tree under test
            if "pub mod verif_reader" in libsrc:
                flags += " --cfg verif_readerhook"   # the C15 chunk-reader hook is present in the tree under test
        except OSError:
            pass
        if cov:
            flags += " -C instrument-coverage"
        env = {"CARGO_TARGET_DIR": tgt, "RUSTFLAGS": flags}
        cmd = ["cargo"] + (["+nightly"] if cov else []) + ["build", "--release", "--offline", "-q", "--bin", "h_" + area]
        rc, out, err = sh(cmd, cwd=d, timeout=1500, env=env)
        if rc != 0:
            sh(["cp", os.path.join(self.repo, "Cargo.lock"), lock])
            rc, out, err = sh(cmd, cwd=d, timeout=1500, env=env)
        self.timings["harness"] = time.time() - t
        if rc != 0:
            self.broken.append(("build", "rust harness", err[-800:]))
            return False
        return True

    def _run_sharded(self, binary, lines, shards=16, timeout=None, env=None):
        if not lines:
            return {}
        if timeout is None:
            # a shard of the quick tier normally ends within a minute or two: a change that makes the code READ a multi-GiB virtual box
            # (or loop) must not hold the check for the better part of an hour; the cases of a killed shard come back as `missing`
            timeout = 600 if getattr(self, "tier", "quick") == "quick" else 3000
        n = max(1, min(shards, len(lines) // 200 + 1))
        chunks = [lines[i::n] for i in range(n)]
        procs = []
        e = dict(os.environ)
        if env:
            e.update(env)
        if os.environ.get("VERIF_COV"):
            os.makedirs(os.path.join(BUILD, "cov", "prof"), exist_ok=True)
            e["LLVM_PROFILE_FILE"] = os.path.join(BUILD, "cov", "prof", "%s-%%p-%%m.profraw" % self.prop)
        for c in chunks:
            p = subprocess.Popen("ulimit -s unlimited 2>/dev/null; exec " + binary, shell=True, stdin=subprocess.PIPE,
                                 stdout=subprocess.PIPE, stderr=subprocess.DEVNULL, text=True, env=e)
            procs.append((p, "\n".join(c) + "\n"))
        out = {}
        import threading
        results = [None] * len(procs)

        def work(i):
            p, data = procs[i]
            try:
                o, _ = p.communicate(data, timeout=timeout)
            except subprocess.TimeoutExpired:
                p.kill()
                o, _ = p.communicate()
            results[i] = o

        ths = [threading.Thread(target=work, args=(i,)) for i in range(len(procs))]
        for th in ths:
            th.start()
        for th in ths:
            th.join()
        for o in results:
            for ln in (o or "").split("\n"):
                if ln:
                    i, _, r = ln.partition(" ")
                    out[i] = r
        return out

    def harness(self, lines, **kw):
        t = time.time()
        r = self._run_sharded(self.harness_bin, lines, **kw)
        self.timings["impl_run"] = self.timings.get("impl_run", 0) + time.time() - t
        return r

    def driver(self, lines, **kw):
        t = time.time()
        r = self._run_sharded(self.driver_bin, lines, **kw)
        self.timings["model_run"] = self.timings.get("model_run", 0) + time.time() - t
        return r

    def coq_eval_bools(self, exprs, requires, timeout=600):
        """Evaluate Gallina boolean expressions inside Coq with vm_compute (cross-check of the extraction)."""
        if not exprs:
            return []
        d = os.path.join(BUILD, "audit")
        os.makedirs(d, exist_ok=True)
        fn = os.path.join(d, "Cases_%s.v" % self.prop)
        src = "".join("%s\n" % r for r in requires)
        src += "Definition cases : list bool := (\n  %s\n  :: nil)%%list.\n" % "\n  :: ".join("(%s)" % e for e in exprs)
        src += ("Eval vm_compute in (List.length cases, List.map fst (List.filter (fun p => negb (snd p)) "
                "(List.combine (List.seq 0 (List.length cases)) cases))).\n")
        open(fn, "w").write(src)
        rc, out, err = sh(["coqc", "-noglob", "-Q", os.path.join(COQ, "theories"), "MS", fn], cwd=d, timeout=timeout)
        for ext in (".vo", ".vok", ".vos", ".glob"):
            try:
                os.remove(fn[:-2] + ext)
            except OSError:
                pass
        m = re.search(r"=\s*\(\s*(\d+)(?:%nat)?\s*,\s*(.*?)\)\s*:\s*nat", out, re.S)
        if rc != 0 or not m:
            self.broken.append(("build", "in-Coq evaluation", (err or out)[-500:]))
            return None
        n = int(m.group(1))
        bad = [int(x) for x in re.findall(r"\d+", m.group(2))]
        return [i not in bad for i in range(n)]


def strip_comments(txt):
    out, depth, i = [], 0, 0
    while i < len(txt):
        if txt.startswith("(*", i):
            depth += 1
            i += 2
        elif txt.startswith("*)", i) and depth:
            depth -= 1
            i += 2
        else:
            if depth == 0:
                out.append(txt[i])
            elif txt[i] == "\n":
                out.append("\n")
            i += 1
    return "".join(out)


# ---------------------------------------------------------------------- known findings
def load_known(prop):
    known, fixed = [], []
    p = os.path.join(VERIF, "known_findings.txt")
    if os.path.exists(p):
        for line in open(p):
            line = line.strip()
            m = re.match(r"known:\s+property=(\S+)\s+id=(\S+)\s+(.*)", line)
            if m and m.group(1) == prop:
                known.append((m.group(2), m.group(3)))
            m = re.match(r"fixed:\s+property=(\S+)\s+(.*)", line)
            if m and m.group(1) == prop:
                fixed.append(m.group(2))
    return known, fixed


def corpus_cases(prop):
    """committed regression corpus corpus/<id>/*.txt: minimised past disagreements and the failing inputs found for seeded
    changes; run first by both tiers (one case line per text line, `#` comments)"""
    d = os.path.join(VERIF, "corpus", prop)
    if not os.path.isdir(d):
        return
    for f in sorted(os.listdir(d)):
        if f.endswith(".txt"):
            for line in open(os.path.join(d, f)):
                line = line.split("#")[0].strip()
                if line:
                    yield line, "corpus"


# ---------------------------------------------------------------------- the generic check
def execute(mod, tier, seed, replay=None, repo="/repo"):
    run = Run(mod.ID, tier, seed, repo)
    run.area = mod.AREA
    known, fixed = load_known(mod.ID)
    known_ids = {k for k, _ in known}
    run.log("tier=%s seed=%d repo=%s" % (tier, seed, repo))

    # 1. regenerate + prove
    run.regen()
    if hasattr(mod, "pregen"):
        mod.pregen(run)          # property-specific regeneration from the source (before make)
    coq_ok = run.coq_make(mod.COQ_TARGETS)
    run.source_scan(mod.COQ_TARGETS)
    if coq_ok:
        run.audit(mod.THEOREMS, mod.REQUIRES, getattr(mod, "REQUIRES_FOR", None))
        if tier == "thorough" and getattr(mod, "COQCHK", None):
            run.coqchk(mod.COQCHK)
    else:
        # part of the development does not build: a theorem is still re-checked when every Props file its pinned statement
        # requires is up to date (`make -q`: built from the current sources in this run); a file that failed to build may have
        # left an older .vo behind, which must not be consulted
        fresh = {}

        def up_to_date(props_mod):
            if props_mod not in fresh:
                rc_, _, _ = sh(["make", "-q", "theories/Props/%s.vo" % props_mod], cwd=COQ, timeout=600)
                fresh[props_mod] = (rc_ == 0)
            return fresh[props_mod]
        ok_thms = []
        for name, stmt in mod.THEOREMS:
            req = (getattr(mod, "REQUIRES_FOR", None) or {}).get(name, mod.REQUIRES)
            mods = re.findall(r"Props\.(\w+)", " ".join(req))
            if mods and all(up_to_date(m) for m in mods):
                ok_thms.append((name, stmt))
            else:
                run.obligations.append(("theorem %s" % name, False, "development does not build"))
        if ok_thms:
            run.audit(ok_thms, mod.REQUIRES, getattr(mod, "REQUIRES_FOR", None))
    run.log("coq: %d/%d obligations discharged" % (sum(1 for o in run.obligations if o[1]), len(run.obligations)))

    # 2. runners (a property may span several areas: mod.AREAS + mod.area_of(case line))
    areas = getattr(mod, "AREAS", [mod.AREA])
    bins = {}
    drv_ok = har_ok = True
    for a in areas:
        d_ok = run.build_driver(a)
        h_ok = run.build_harness(a)
        bins[a] = (run.harness_bin, run.driver_bin)
        drv_ok, har_ok = drv_ok and d_ok, har_ok and h_ok
    run.bins = bins
    run.harness_bin, run.driver_bin = bins[areas[0]]
    if not har_ok:
        run.log("rust harness does not build against the tree under test")

    # 3. cases
    cases = []   # (id, line, stream)
    seen = set()
    if replay:
        rp = json.load(open(replay))
        src = [(c, "replay") for c in rp.get("cases", [])]
    else:
        src = itertools.chain(corpus_cases(mod.ID), mod.gen(run))
    for line, stream in src:
        if line in seen:
            continue
        seen.add(line)
        cases.append(("k%d" % len(cases), line, stream))
    run.log("cases: %d" % len(cases))
    impl, model = {}, {}
    for a in areas:
        sel = [c for c in cases if len(areas) == 1 or mod.area_of(c[1]) == a]
        lines = ["%s %s" % (i, l) for i, l, _ in sel]
        run.use_area(a)
        if har_ok:
            impl.update(run.harness(lines))
        if drv_ok:
            model.update(run.driver(lines))
    run.use_area(areas[0])

    # 4. compare + oracle
    disagreements, violations, known_seen = [], [], {}
    dist = {}
    ev = mod.Evaluator(run) if hasattr(mod, "Evaluator") else None
    oracle_in = []
    for i, line, stream in cases:
        a, b = impl.get(i, "missing"), model.get(i, "missing")
        cls = mod.classify(line, a)
        dist.setdefault(stream, {}).setdefault(cls, 0)
        dist[stream][cls] += 1
        if har_ok and drv_ok and not mod.same(line, a, b):
            disagreements.append((line, a, b))
        oracle_in.append((line, a))
    oracle_out = mod.oracle(run, oracle_in) if har_ok else []
    for (line, a), (ok, why) in zip(oracle_in, oracle_out):
        if ok:
            continue
        kid = mod.known_class(line, a) if hasattr(mod, "known_class") else None
        if kid and kid in known_ids:
            known_seen.setdefault(kid, []).append((line, a, why))
        else:
            violations.append((line, a, why))
    run.log("disagreements=%d oracle-violations=%d known=%s" % (len(disagreements), len(violations),
                                                              {k: len(v) for k, v in known_seen.items()}))
    if disagreements:
        run.broken.append(("correspondence", "model vs implementation",
                           "%d of %d cases differ; first: %s | impl=%s | model=%s" % (
                               len(disagreements), len(cases), disagreements[0][0][:200], disagreements[0][1][:200],
                               disagreements[0][2][:200])))

    # in-Coq cross-check of the extraction on a sample
    xcheck = None
    if drv_ok and coq_ok and hasattr(mod, "coq_bool") and not replay:
        sample = [c for c in cases if c[0] in model][:: max(1, len(cases) // mod.XCHECK_N)][:mod.XCHECK_N]
        exprs = [mod.coq_bool(l, model[i]) for i, l, _ in sample]
        exprs = [e for e in exprs if e]
        res = run.coq_eval_bools(exprs, mod.REQUIRES)
        if res is not None:
            xcheck = (len(res), sum(res))
            if len(res) != len(exprs) or not all(res):
                run.broken.append(("correspondence", "extraction vs in-Coq evaluation", "%s" % (xcheck,)))
            run.obligations.append(("extracted model = vm_compute in Coq on %d sampled cases" % len(exprs),
                                    len(res) == len(exprs) and all(res), ""))

    # 5. extended search when a tie is broken but no failing input is known yet
    searched = 0
    if run.broken and not violations and har_ok and hasattr(mod, "search") and not replay:
        run.log("broken tie(s): %s -- extended search for a failing input" % [b[:2] for b in run.broken])
        extra = []
        for line, stream in mod.search(run, disagreements):
            if line not in seen:
                seen.add(line)
                extra.append(("s%d" % len(extra), line, stream))
        searched = len(extra)
        ximpl = {}
        for a in areas:
            run.use_area(a)
            xl = ["%s %s" % (i, l) for i, l, _ in extra if len(areas) == 1 or mod.area_of(l) == a]
            ximpl.update(run.harness(xl))
        run.use_area(areas[0])
        xin = [(l, ximpl.get(i, "missing")) for i, l, _ in extra]
        for (line, a), (ok, why) in zip(xin, mod.oracle(run, xin)):
            if not ok:
                kid = mod.known_class(line, a) if hasattr(mod, "known_class") else None
                if kid and kid in known_ids:
                    known_seen.setdefault(kid, []).append((line, a, why))
                else:
                    violations.append((line, a, why))
        run.log("extended search: %d more cases, violations now %d" % (searched, len(violations)))

    # 6. verdict
    os.makedirs(os.path.join(BUILD, "replay"), exist_ok=True)
    exit_code = 0
    for kid, desc in known:
        if kid in known_seen:
            print("KNOWN-FINDING: property=%s %s: %s [witness: %s -> %s]" % (
                mod.ID, kid, desc, known_seen[kid][0][0][:160], known_seen[kid][0][1][:80]))
        else:
            run.notes.append("known finding %s not reproduced by this run (stale?)" % kid)
            print("NOTE: known finding %s of %s was not reproduced in this run" % (kid, mod.ID))
    if violations:
        violations.sort(key=lambda v: len(v[0]))
        rp = os.path.join(BUILD, "replay", "%s_violation.json" % mod.ID)
        json.dump({"property": mod.ID, "kind": "failing-input", "cases": [v[0] for v in violations[:20]],
                   "implementation_output": [v[1] for v in violations[:20]],
                   "oracle": [v[2] for v in violations[:20]],
                   "broken": run.broken,
                   "how": "./check %s --replay %s" % (mod.ID, rp)}, open(rp, "w"), indent=1)
        print("VIOLATION property=%s replay=%s" % (mod.ID, rp))
        exit_code = 1
    elif run.broken:
        rp = os.path.join(BUILD, "replay", "%s_broken.json" % mod.ID)
        json.dump({"property": mod.ID, "kind": "no-failing-input-found",
                   "no_longer_checks": [{"kind": k, "name": n, "detail": d} for k, n, d in run.broken],
                   "cases": [d[0] for d in disagreements[:20]],
                   "searched_cases": len(cases) + searched}, open(rp, "w"), indent=1)
        for k, n, d in run.broken:
            run.log("BROKEN %s %s: %s" % (k, n, d[:300]))
        print("VIOLATION property=%s replay=%s no-failing-input-found" % (mod.ID, rp))
        exit_code = 1

    # 7. evidence
    nontrivial = set()
    for i, line, stream in cases:
        if mod.nontrivial(line, impl.get(i, "")):
            nontrivial.add(line)
    obligations = run.obligations + [("correspondence: implementation = extracted model on %d cases" % len(cases),
                                      har_ok and drv_ok and not disagreements, "")]
    obligations.append(("property oracle holds on every implementation output (%d evaluated)" % (len(oracle_in) + searched),
                        not violations, ""))
    evid = {
        "property_id": mod.ID, "tier": tier, "seed": seed, "level": "proof",
        "coverage": {
            "obligations": len(obligations),
            "discharged": sum(1 for o in obligations if o[1]),
            "obligation_list": [{"what": o[0], "ok": o[1], "detail": o[2]} for o in obligations],
            "checker_cmd": "cd /verif/coq && make %s ; coqc build/audit/Audit_%s_*.v (Check <thm> : <pinned statement>. Print Assumptions <thm>.)" % (
                " ".join(mod.COQ_TARGETS), mod.ID),
            "trusted_base": mod.TRUSTED,
            "axioms_reported": run.axioms,
            "theorems": [{"name": n, "statement": " ".join(s.split())} for n, s in mod.THEOREMS],
            "evaluations": len(cases) + searched,
            "distinct_nontrivial": len(nontrivial),
            "rule": mod.RULE,
            "samples": [{"case": l, "implementation": impl.get(i, ""), "model": model.get(i, "")}
                        for i, l, _ in (cases[:: max(1, len(cases) // 8)][:8])],
            "distribution": dist,
            "disagreements": len(disagreements),
            "extraction_crosscheck_in_coq": xcheck,
            "known_findings_seen": {k: len(v) for k, v in known_seen.items()},
            "fixed_findings": fixed,
            "exhaustive": bool(getattr(mod, "EXHAUSTIVE", {}).get(tier, False)),
            "timings_s": {k: round(v, 1) for k, v in run.timings.items()},
            "notes": run.notes + list(getattr(mod, "NOTES", [])),
        },
        "assumptions": mod.ASSUMPTIONS,
        "wall_s": round(time.time() - run.t0, 1),
        "violations": len(violations) + (1 if (run.broken and not violations) else 0),
    }
    for o in obligations:
        if not o[1]:
            run.log("UNDISCHARGED obligation: %s %s" % (o[0][:200], o[2][:200]))
    # evidence/<id>.json describes runs against /repo only; a run against another tree (--repo, seeded changes) keeps
    # its record under build/ so that it can never replace the committed evidence
    evdir = (os.path.join(VERIF, "evidence") if repo == "/repo" and not replay and not os.environ.get("VERIF_COV")
             else os.path.join(BUILD, "evidence_other"))
    os.makedirs(evdir, exist_ok=True)
    json.dump(evid, open(os.path.join(evdir, "%s.json" % mod.ID), "w"), indent=1)
    run.log("done exit=%d wall=%.1fs" % (exit_code, time.time() - run.t0))
    return exit_code
