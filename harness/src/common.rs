//! Shared by every harness binary (included with #[path]): runs the REAL crates (path deps on the tree
//! under test) on case lines. stdin: one case per line `<id> <kind> <args...>`; stdout: `<id> <observation>`.
#![allow(dead_code)]

use std::io::{BufRead, Write};
use std::panic::{catch_unwind, AssertUnwindSafe};

pub fn hex(b: &[u8]) -> String {
    let mut s = String::with_capacity(b.len() * 2);
    for x in b {
        s.push_str(&format!("{:02x}", x));
    }
    s
}

pub fn unhex(s: &str) -> Vec<u8> {
    if s == "-" {
        return vec![];
    }
    (0..s.len() / 2).map(|i| u8::from_str_radix(&s[2 * i..2 * i + 2], 16).unwrap()).collect()
}

pub fn main_loop(dispatch: impl Fn(&str, &[&str]) -> String) {
    std::panic::set_hook(Box::new(|_| {}));
    let stdin = std::io::stdin();
    let stdout = std::io::stdout();
    let mut out = std::io::BufWriter::new(stdout.lock());
    for line in stdin.lock().lines() {
        let line = line.unwrap();
        let toks: Vec<&str> = line.split_whitespace().collect();
        if toks.len() < 2 {
            continue;
        }
        let (id, kind, args) = (toks[0], toks[1], &toks[2..]);
        let res = catch_unwind(AssertUnwindSafe(|| dispatch(kind, args)));
        let res = match res {
            Ok(r) => r,
            Err(_) => "panic".to_string(),
        };
        writeln!(out, "{id} {res}").unwrap();
    }
}
