//! verif-harness: runs the REAL crates (path deps on the tree under test) on case lines.
//! stdin: one case per line `<id> <kind> <args...>`; stdout: `<id> <canonical observation>`.
#![allow(clippy::all)]

use std::io::{BufRead, Write};
use std::panic::{catch_unwind, AssertUnwindSafe};

mod add;

pub fn hex(b: &[u8]) -> String {
    let mut s = String::with_capacity(b.len() * 2);
    for x in b {
        s.push_str(&format!("{:02x}", x));
    }
    s
}

pub fn unhex(s: &str) -> Vec<u8> {
    if s == "-" {
        return vec![];
    }
    (0..s.len() / 2).map(|i| u8::from_str_radix(&s[2 * i..2 * i + 2], 16).unwrap()).collect()
}

fn dispatch(kind: &str, args: &[&str]) -> String {
    match kind {
        "add" => add::run(args),
        "addsweep" => add::sweep(args),
        _ => format!("unknown-kind {kind}"),
    }
}

fn main() {
    std::panic::set_hook(Box::new(|_| {}));
    let stdin = std::io::stdin();
    let stdout = std::io::stdout();
    let mut out = std::io::BufWriter::new(stdout.lock());
    for line in stdin.lock().lines() {
        let line = line.unwrap();
        let toks: Vec<&str> = line.split_whitespace().collect();
        if toks.len() < 2 {
            continue;
        }
        let (id, kind, args) = (toks[0], toks[1], &toks[2..]);
        let res = catch_unwind(AssertUnwindSafe(|| dispatch(kind, args)));
        let res = match res {
            Ok(r) => r,
            Err(_) => "panic".to_string(),
        };
        writeln!(out, "{id} {res}").unwrap();
    }
}
