//! Area "views" (C11): the same bytes through every entry point and every provided adapter stack.
//!
//!   views <mp4|webp> <max|-> <cum|-> <hexdata|-> <view,view,...>
//!   view  = <entry>/<stack>/<caps|->/<chunks|->
//!   entry = s  sanitize                     sc sanitize_with_config          (Read + Skip)
//!           a  sanitize_async               ac sanitize_async_with_config    (AsyncRead + AsyncSkip; mp4 only)
//!   stack = [dyn(] L(L(L(base))) [)]
//!           sync layers  buf (std BufReader, capacity from <caps>, 0 = BufReader::new), box, mut (&mut), dynbox (Box<dyn>)
//!           sync bases   cursor | file | reffile (&File) | chunk | seek(cursor) | seek(file) | seek(chunk) | seek(mut(cursor))
//!           async layers fbuf (futures BufReader), box, mut, pin (Pin<Box<_>>), dynbox
//!           async bases  fcursor | seek(fcursor) | seek(achunk)
//!           `dyn(..)`: the finished stack is handed to the sanitizer as `&mut dyn (Read + Skip)` / `&mut dyn (AsyncRead + AsyncSkip + Unpin)`
//!           (one instantiation of the sanitizer for all deep stacks; the stack itself has exactly the named types)
//!   chunks = c1.c2...: the chunk base answers its i-th read with at most c_(i mod k) bytes (at least 1)
//! Output: `all=<n> <result>` when every view gives the same canonical result, else
//!         `diff <result of view 0> ## <view> => <result> ## ...` listing the views that differ from view 0.
#[path = "common.rs"]
mod common;
#[path = "lib_readers.rs"]
mod lib_readers;

use std::future::Future;
use std::io::{self, Read, Seek, SeekFrom};
use std::pin::{pin, Pin};
use std::sync::atomic::{AtomicU64, Ordering};
use std::task::{Context, Poll};

use futures_util::io::{AsyncRead, AsyncSeek};
use lib_readers::io_kind;
use mediasan_common::{AsyncSkip, SeekSkipAdapter, Skip};

fn main() {
    common::main_loop(|kind, args| match kind {
        "views" => views(args),
        // viewsat <k> <mp4|webp> ...: as `views`, every bottom reader already advanced by k bytes (a caller that read a prefix first)
        "viewsat" => {
            PRE.with(|p| p.set(args[0].parse().unwrap()));
            let r = views(&args[1..]);
            PRE.with(|p| p.set(0));
            r
        }
        "fsmax" => fsmax(),
        _ => format!("unknown-kind {kind}"),
    });
}

// ------------------------------------------------------------------------------------------------ canonical results
// (same text as harness/src/mp4.rs `show`)

fn show_type(t: &mp4san::parse::BoxType) -> String {
    match t {
        mp4san::parse::BoxType::FourCC(f) => common::hex(&f.value),
        mp4san::parse::BoxType::Uuid(u) => common::hex(&u.value),
    }
}

fn show_md(md: &[u8]) -> String {
    let mut n = md.len();
    while n > 0 && md[n - 1] == 0 {
        n -= 1;
    }
    format!("{}z{}", common::hex(&md[..n]), md.len() - n)
}

fn show_mp4(r: Result<mp4san::SanitizedMetadata, mp4san::Error>) -> String {
    use mp4san::parse::ParseError;
    match r {
        Ok(s) => match s.metadata {
            None => format!("ok none {} {}", s.data.offset, s.data.len),
            Some(md) => format!("ok some {} {} {}", show_md(&md), s.data.offset, s.data.len),
        },
        Err(mp4san::Error::Io(e)) => format!("err io {}", io_kind(e.kind())),
        Err(mp4san::Error::Parse(rep)) => {
            let k = match rep.get_ref() {
                ParseError::InvalidBoxLayout => "InvalidBoxLayout".to_string(),
                ParseError::InvalidInput => "InvalidInput".to_string(),
                ParseError::MissingRequiredBox(t) => format!("MissingRequiredBox:{}", show_type(t)),
                ParseError::TruncatedBox => "TruncatedBox".to_string(),
                ParseError::UnsupportedBox(t) => format!("UnsupportedBox:{}", show_type(t)),
                ParseError::UnsupportedBoxLayout => "UnsupportedBoxLayout".to_string(),
                ParseError::UnsupportedFormat(f) => format!("UnsupportedFormat:{}", common::hex(&f.value)),
            };
            format!("err parse {k}")
        }
    }
}

fn show_webp(r: Result<(), webpsan::Error>) -> String {
    use webpsan::parse::ParseError;
    match r {
        Ok(()) => "ok".into(),
        Err(webpsan::Error::Io(e)) => format!("err io {}", io_kind(e.kind())),
        Err(webpsan::Error::Parse(rep)) => {
            let k = match rep.get_ref() {
                ParseError::InvalidChunkLayout => "InvalidChunkLayout".to_string(),
                ParseError::InvalidInput => "InvalidInput".to_string(),
                ParseError::InvalidVp8lPrefixCode => "InvalidVp8lPrefixCode".to_string(),
                ParseError::MissingRequiredChunk(t) => format!("MissingRequiredChunk:{}", common::hex(&t.value)),
                ParseError::TruncatedChunk => "TruncatedChunk".to_string(),
                ParseError::UnsupportedChunk(t) => format!("UnsupportedChunk:{}", common::hex(&t.value)),
                ParseError::UnsupportedVp8lVersion(_) => "UnsupportedVp8lVersion".to_string(),
            };
            format!("err parse {k}")
        }
    }
}

// ------------------------------------------------------------------------------------------------ chunking readers

/// Read + Seek over a Cursor; the i-th call of read returns at most sizes[i mod k] (at least 1) bytes
struct Chunked {
    cur: io::Cursor<Vec<u8>>,
    sizes: Vec<usize>,
    idx: usize,
}

impl Chunked {
    fn limit(&mut self, k: usize) -> usize {
        let lim = if self.sizes.is_empty() { k } else { k.min(self.sizes[self.idx % self.sizes.len()].max(1)) };
        self.idx += 1;
        lim
    }
}

impl Read for Chunked {
    fn read(&mut self, buf: &mut [u8]) -> io::Result<usize> {
        let lim = self.limit(buf.len());
        self.cur.read(&mut buf[..lim])
    }
}
impl Seek for Chunked {
    fn seek(&mut self, pos: SeekFrom) -> io::Result<u64> {
        self.cur.seek(pos)
    }
    fn stream_position(&mut self) -> io::Result<u64> {
        Seek::stream_position(&mut self.cur)
    }
}
/// like mediasan's `skip_via_adapter!` for Cursor
impl Skip for Chunked {
    fn skip(&mut self, amount: u64) -> io::Result<()> {
        SeekSkipAdapter(self).skip(amount)
    }
    fn stream_position(&mut self) -> io::Result<u64> {
        SeekSkipAdapter(self).stream_position()
    }
    fn stream_len(&mut self) -> io::Result<u64> {
        SeekSkipAdapter(self).stream_len()
    }
}

/// AsyncRead + AsyncSeek with the same short-read rule
struct AChunked(Chunked);
impl AsyncRead for AChunked {
    fn poll_read(mut self: Pin<&mut Self>, _cx: &mut Context<'_>, buf: &mut [u8]) -> Poll<io::Result<usize>> {
        Poll::Ready(self.0.read(buf))
    }
}
impl AsyncSeek for AChunked {
    fn poll_seek(mut self: Pin<&mut Self>, _cx: &mut Context<'_>, pos: SeekFrom) -> Poll<io::Result<u64>> {
        Poll::Ready(self.0.cur.seek(pos))
    }
}

// ------------------------------------------------------------------------------------------------ jobs

trait RS: Read + Skip {}
impl<T: Read + Skip + ?Sized> RS for T {}
trait ARS: AsyncRead + AsyncSkip {}
impl<T: AsyncRead + AsyncSkip + ?Sized> ARS for T {}

trait SyncJob {
    fn run<R: Read + Skip + Unpin>(self, r: R) -> String;
}
trait AsyncJob {
    fn run<R: AsyncRead + AsyncSkip + Unpin>(self, r: R) -> String;
}

fn drive<F: Future>(f: F) -> F::Output {
    let mut f = pin!(f);
    let waker = futures_util::task::noop_waker();
    let mut cx = Context::from_waker(&waker);
    loop {
        if let Poll::Ready(v) = f.as_mut().poll(&mut cx) {
            return v;
        }
    }
}

#[derive(Clone)]
struct San {
    webp: bool,
    with_config: bool,
    max: Option<u64>,
    cum: Option<u32>,
}

impl San {
    fn mp4_config(&self) -> mp4san::Config {
        let mut b = mp4san::Config::builder();
        if let Some(m) = self.max {
            b.max_metadata_size(m);
        }
        if self.cum.is_some() {
            b.cumulative_mdat_box_size(self.cum);
        }
        b.build()
    }
    fn sync<R: Read + Skip + Unpin>(&self, r: R) -> String {
        if self.webp {
            if self.with_config {
                show_webp(webpsan::sanitize_with_config(r, webpsan::Config::default()))
            } else {
                show_webp(webpsan::sanitize(r))
            }
        } else if self.with_config {
            show_mp4(mp4san::sanitize_with_config(r, self.mp4_config()))
        } else {
            show_mp4(mp4san::sanitize(r))
        }
    }
    fn asyn<R: AsyncRead + AsyncSkip + Unpin>(&self, r: R) -> String {
        if self.webp {
            "no-async-webp".into()
        } else if self.with_config {
            show_mp4(drive(mp4san::sanitize_async_with_config(r, self.mp4_config())))
        } else {
            show_mp4(drive(mp4san::sanitize_async(r)))
        }
    }
}

/// the sanitizer instantiated at the stack's own type
struct Direct(San);
impl SyncJob for Direct {
    fn run<R: Read + Skip + Unpin>(self, r: R) -> String {
        self.0.sync(r)
    }
}
impl AsyncJob for Direct {
    fn run<R: AsyncRead + AsyncSkip + Unpin>(self, r: R) -> String {
        self.0.asyn(r)
    }
}
/// the finished stack handed over as a trait object
struct ViaDyn(San);
impl SyncJob for ViaDyn {
    fn run<R: Read + Skip + Unpin>(self, mut r: R) -> String {
        let d: &mut dyn RS = &mut r;
        self.0.sync(d)
    }
}
impl AsyncJob for ViaDyn {
    fn run<R: AsyncRead + AsyncSkip + Unpin>(self, mut r: R) -> String {
        let d: &mut (dyn ARS + Unpin) = &mut r;
        self.0.asyn(d)
    }
}

// ------------------------------------------------------------------------------------------------ layers (depth <= 3)

fn std_buf<R: Read>(cap: usize, r: R) -> io::BufReader<R> {
    if cap == 0 {
        io::BufReader::new(r)
    } else {
        io::BufReader::with_capacity(cap, r)
    }
}
fn fut_buf<R: AsyncRead>(cap: usize, r: R) -> futures_util::io::BufReader<R> {
    if cap == 0 {
        futures_util::io::BufReader::new(r)
    } else {
        futures_util::io::BufReader::with_capacity(cap, r)
    }
}

/// layers are listed innermost first; each level is its own generic function so that instantiation is finite
macro_rules! sync_level {
    ($name:ident, $next:expr) => {
        fn $name<B: Read + Skip + Unpin, J: SyncJob>(layers: &[(String, usize)], mut b: B, job: J) -> String {
            let Some(((l, cap), rest)) = layers.split_first() else { return job.run(b) };
            #[allow(clippy::redundant_closure_call)]
            match l.as_str() {
                "buf" => $next(rest, std_buf(*cap, b), job),
                "box" => $next(rest, Box::new(b), job),
                "mut" => $next(rest, &mut b, job),
                "dynbox" => $next(rest, Box::new(b) as Box<dyn RS + '_>, job),
                _ => "unknown-stack".into(),
            }
        }
    };
}
fn sync_l0<B: Read + Skip + Unpin, J: SyncJob>(layers: &[(String, usize)], b: B, job: J) -> String {
    if layers.is_empty() {
        job.run(b)
    } else {
        "stack-too-deep".into()
    }
}
sync_level!(sync_l1, sync_l0);
sync_level!(sync_l2, sync_l1);
sync_level!(sync_l3, sync_l2);

macro_rules! async_level {
    ($name:ident, $next:expr) => {
        fn $name<B: AsyncRead + AsyncSkip + Unpin, J: AsyncJob>(layers: &[(String, usize)], mut b: B, job: J) -> String {
            let Some(((l, cap), rest)) = layers.split_first() else { return job.run(b) };
            match l.as_str() {
                "fbuf" => $next(rest, fut_buf(*cap, b), job),
                "box" => $next(rest, Box::new(b), job),
                "mut" => $next(rest, &mut b, job),
                "pin" => $next(rest, Box::pin(b), job),
                "dynbox" => $next(rest, Box::new(b) as Box<dyn ARS + Unpin + '_>, job),
                _ => "unknown-stack".into(),
            }
        }
    };
}
fn async_l0<B: AsyncRead + AsyncSkip + Unpin, J: AsyncJob>(layers: &[(String, usize)], b: B, job: J) -> String {
    if layers.is_empty() {
        job.run(b)
    } else {
        "stack-too-deep".into()
    }
}
async_level!(async_l1, async_l0);
async_level!(async_l2, async_l1);
async_level!(async_l3, async_l2);

// ------------------------------------------------------------------------------------------------ stacks

static COUNTER: AtomicU64 = AtomicU64::new(0);

fn temp_file(data: &[u8]) -> io::Result<std::fs::File> {
    let dir = std::env::var("VERIF_TMP").unwrap_or_else(|_| "/verif/build/tmp".into());
    std::fs::create_dir_all(&dir)?;
    let path = format!("{dir}/views_{}_{}", std::process::id(), COUNTER.fetch_add(1, Ordering::Relaxed));
    std::fs::write(&path, data)?;
    let f = std::fs::File::open(&path);
    let _ = std::fs::remove_file(&path);
    f
}

const SYNC_BASES: &[&str] =
    &["seek(mut(cursor))", "seek(cursor)", "seek(file)", "seek(chunk)", "cursor", "reffile", "file", "chunk"];
const ASYNC_BASES: &[&str] = &["seek(fcursor)", "seek(achunk)", "fcursor"];

/// "L1(L2(base))" -> ([L2, L1] innermost first with capacities assigned outermost first, base)
fn parse_stack<'a>(stack: &str, bases: &[&'a str], caps: &[usize]) -> Option<(Vec<(String, usize)>, &'a str)> {
    for base in bases {
        let Some(i) = stack.find(base) else { continue };
        let prefix = &stack[..i];
        let depth = prefix.matches('(').count();
        if stack[i + base.len()..] != ")".repeat(depth) || !(prefix.is_empty() || prefix.ends_with('(')) {
            continue;
        }
        let mut caps = caps.iter().copied();
        let mut layers: Vec<(String, usize)> = prefix
            .split('(')
            .filter(|s| !s.is_empty())
            .map(|l| (l.to_string(), if l == "buf" || l == "fbuf" { caps.next().expect("missing capacity") } else { 0 }))
            .collect();
        layers.reverse();
        return Some((layers, base));
    }
    None
}

thread_local! {
    /// `viewsat`: every bottom reader is advanced to this position before the sanitizer sees it
    static PRE: std::cell::Cell<u64> = const { std::cell::Cell::new(0) };
}
fn std_cur(data: &[u8]) -> io::Cursor<Vec<u8>> {
    let mut c = io::Cursor::new(data.to_vec());
    c.set_position(PRE.with(|p| p.get()));
    c
}
fn fut_cur(data: &[u8]) -> futures_util::io::Cursor<Vec<u8>> {
    let mut c = futures_util::io::Cursor::new(data.to_vec());
    c.set_position(PRE.with(|p| p.get()));
    c
}

fn run_view(san: &San, data: &[u8], view: &str) -> String {
    let parts: Vec<&str> = view.split('/').collect();
    if parts.len() != 4 {
        return "bad-view".into();
    }
    let (entry, stack) = (parts[0], parts[1]);
    let caps: Vec<usize> = if parts[2] == "-" { vec![] } else { parts[2].split('.').map(|x| x.parse().unwrap()).collect() };
    let sizes: Vec<usize> = if parts[3] == "-" { vec![] } else { parts[3].split('.').map(|x| x.parse().unwrap()).collect() };
    let mut san = san.clone();
    san.with_config = entry == "sc" || entry == "ac";
    let is_async = entry == "a" || entry == "ac";
    let (stack, via_dyn) = match stack.strip_prefix("dyn(") {
        Some(s) => (&s[..s.len() - 1], true),
        None => (stack, false),
    };
    // the sanitizer is instantiated at the stack's own type only for stacks of depth <= 1 (finite, cheap to compile);
    // deeper stacks must be written dyn(...)
    macro_rules! go {
        (async_l3, $layers:expr, $base:expr) => {
            if via_dyn {
                async_l3($layers, $base, ViaDyn(san))
            } else {
                async_l1($layers, $base, Direct(san))
            }
        };
        (sync_l3, $layers:expr, $base:expr) => {
            if via_dyn {
                sync_l3($layers, $base, ViaDyn(san))
            } else {
                sync_l1($layers, $base, Direct(san))
            }
        };
    }
    if is_async {
        let Some((layers, base)) = parse_stack(stack, ASYNC_BASES, &caps) else { return "unknown-stack".into() };
        let chunked = || AChunked(Chunked { cur: std_cur(data), sizes: sizes.clone(), idx: 0 });
        match base {
            "fcursor" => go!(async_l3, &layers, fut_cur(data)),
            "seek(fcursor)" => go!(async_l3, &layers, SeekSkipAdapter(fut_cur(data))),
            "seek(achunk)" => go!(async_l3, &layers, SeekSkipAdapter(chunked())),
            _ => "unknown-stack".into(),
        }
    } else {
        let Some((layers, base)) = parse_stack(stack, SYNC_BASES, &caps) else { return "unknown-stack".into() };
        let chunked = || Chunked { cur: std_cur(data), sizes: sizes.clone(), idx: 0 };
        match base {
            "cursor" => go!(sync_l3, &layers, std_cur(data)),
            "seek(cursor)" => go!(sync_l3, &layers, SeekSkipAdapter(std_cur(data))),
            "seek(mut(cursor))" => {
                let mut c = std_cur(data);
                go!(sync_l3, &layers, SeekSkipAdapter(&mut c))
            }
            "chunk" => go!(sync_l3, &layers, chunked()),
            "seek(chunk)" => go!(sync_l3, &layers, SeekSkipAdapter(chunked())),
            "file" | "reffile" | "seek(file)" => {
                let mut f = match temp_file(data) {
                    Ok(f) => f,
                    Err(e) => return format!("tempfile-error {e}"),
                };
                if let Err(e) = f.seek(SeekFrom::Start(PRE.with(|p| p.get()))) {
                    return format!("tempfile-error {e}");
                }
                match base {
                    "file" => go!(sync_l3, &layers, f),
                    "reffile" => go!(sync_l3, &layers, &f),
                    _ => go!(sync_l3, &layers, SeekSkipAdapter(f)),
                }
            }
            _ => "unknown-stack".into(),
        }
    }
}

fn views(args: &[&str]) -> String {
    let san = San {
        webp: args[0] == "webp",
        with_config: false,
        max: if args[1] == "-" { None } else { Some(args[1].parse().unwrap()) },
        cum: if args[2] == "-" { None } else { Some(args[2].parse().unwrap()) },
    };
    let data = common::unhex(args[3]);
    let views: Vec<&str> = args[4].split(',').collect();
    let results: Vec<String> = views.iter().map(|v| run_view(&san, &data, v)).collect();
    let first = &results[0];
    let diffs: Vec<String> =
        views.iter().zip(&results).filter(|(_, r)| *r != first).map(|(v, r)| format!("{v} => {r}")).collect();
    if diffs.is_empty() {
        format!("all={} {first}", results.len())
    } else {
        format!("diff {first} ## {}", diffs.join(" ## "))
    }
}

/// the largest offset a File under the scratch directory can be positioned at (binary search on lseek)
fn fsmax() -> String {
    let f = match temp_file(b"x") {
        Ok(f) => f,
        Err(e) => return format!("tempfile-error {e}"),
    };
    let mut f = f;
    let (mut lo, mut hi) = (0u64, i64::MAX as u64);
    if f.seek(SeekFrom::Start(hi)).is_ok() {
        return format!("{hi}");
    }
    while hi - lo > 1 {
        let mid = lo + (hi - lo) / 2;
        if f.seek(SeekFrom::Start(mid)).is_ok() {
            lo = mid;
        } else {
            hi = mid;
        }
    }
    format!("{lo}")
}
