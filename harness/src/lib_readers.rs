//! Test readers shared by harness binaries (included with #[path]).
#![allow(dead_code)]
use mediasan_common::Skip;
use std::io::{self, Read};

/// Sparse virtual stream: extents over a zero background; strict or lenient (seek-style) skip.
#[derive(Clone)]
pub struct Sparse {
    pub exts: Vec<(u64, Vec<u8>)>,
    pub len: u64,
    pub pos: u64,
    pub strict: bool,
    /// largest absolute position reachable by a lenient skip (u64::MAX in memory, i64::MAX for files)
    pub max_seek: u64,
}

impl Sparse {
    pub fn new(len: u64, exts: Vec<(u64, Vec<u8>)>, strict: bool) -> Self {
        Sparse { exts, len, pos: 0, strict, max_seek: u64::MAX }
    }
    pub fn byte_at(&self, off: u64) -> u8 {
        for (o, d) in &self.exts {
            if off >= *o && off - *o < d.len() as u64 {
                return d[(off - *o) as usize];
            }
        }
        0
    }
    pub fn parse_exts(s: &str) -> Vec<(u64, Vec<u8>)> {
        if s == "-" {
            return vec![];
        }
        s.split(',')
            .map(|e| {
                let (o, h) = e.split_once(':').unwrap();
                (o.parse::<u64>().unwrap(), crate::common::unhex(h))
            })
            .collect()
    }
    /// dense copy (only for small streams)
    pub fn dense(&self) -> Vec<u8> {
        let mut v = vec![0u8; self.len as usize];
        for (o, d) in &self.exts {
            for (i, b) in d.iter().enumerate() {
                let p = *o as usize + i;
                if p < v.len() {
                    v[p] = *b;
                }
            }
        }
        v
    }
}

impl Read for Sparse {
    fn read(&mut self, buf: &mut [u8]) -> io::Result<usize> {
        if self.pos >= self.len {
            return Ok(0);
        }
        let n = (buf.len() as u64).min(self.len - self.pos) as usize;
        // fast path: fill with zeros then overlay extents
        for b in buf[..n].iter_mut() {
            *b = 0;
        }
        let (start, end) = (self.pos, self.pos + n as u64);
        for (o, d) in &self.exts {
            let (eo, ee) = (*o, *o + d.len() as u64);
            let (a, b) = (start.max(eo), end.min(ee));
            if a < b {
                buf[(a - start) as usize..(b - start) as usize].copy_from_slice(&d[(a - eo) as usize..(b - eo) as usize]);
            }
        }
        self.pos += n as u64;
        Ok(n)
    }
}

impl Skip for Sparse {
    fn skip(&mut self, amount: u64) -> io::Result<()> {
        if self.strict {
            match self.pos.checked_add(amount) {
                Some(p) if p <= self.len => {
                    self.pos = p;
                    Ok(())
                }
                _ => Err(io::ErrorKind::UnexpectedEof.into()),
            }
        } else {
            match self.pos.checked_add(amount) {
                Some(p) if p <= self.max_seek => {
                    self.pos = p;
                    Ok(())
                }
                None if amount > i64::MAX as u64 => Err(io::Error::new(io::ErrorKind::InvalidData, "seek past u64::MAX")),
                _ => Err(io::ErrorKind::InvalidInput.into()),
            }
        }
    }
    fn stream_position(&mut self) -> io::Result<u64> {
        Ok(self.pos)
    }
    fn stream_len(&mut self) -> io::Result<u64> {
        Ok(self.len)
    }
}

pub fn io_kind(k: io::ErrorKind) -> &'static str {
    use io::ErrorKind::*;
    match k {
        Other => "Other",
        PermissionDenied => "PermissionDenied",
        TimedOut => "TimedOut",
        WouldBlock => "WouldBlock",
        InvalidData => "InvalidData",
        UnexpectedEof => "UnexpectedEof",
        InvalidInput => "InvalidInput",
        Interrupted => "Interrupted",
        _ => "OtherKind",
    }
}

/// Sparse virtual `Read + Seek` stream (io::Cursor seek semantics) to be wrapped in mediasan's SeekSkipAdapter.
pub struct SparseSeek(pub Sparse);

impl Read for SparseSeek {
    fn read(&mut self, buf: &mut [u8]) -> io::Result<usize> {
        self.0.read(buf)
    }
}

impl io::Seek for SparseSeek {
    fn seek(&mut self, from: io::SeekFrom) -> io::Result<u64> {
        let bad = || io::Error::new(io::ErrorKind::InvalidInput, "invalid seek to a negative or overflowing position");
        let new = match from {
            io::SeekFrom::Start(n) => Some(n),
            io::SeekFrom::End(d) => mediasan_common::util::checked_add_signed(self.0.len, d),
            io::SeekFrom::Current(d) => mediasan_common::util::checked_add_signed(self.0.pos, d),
        };
        match new {
            Some(n) => {
                self.0.pos = n;
                Ok(n)
            }
            None => Err(bad()),
        }
    }
}
