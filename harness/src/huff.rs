//! C18: webpsan::parse::CanonicalHuffmanTree::{new, from_symbols, longest_code_len} + BitBufReader::read_huffman,
//! and bitstream-io's compile_read_tree / BitReader::read_huffman directly (error kinds of the trie builder).
//!
//! huff     <len0,len1,...|-> <bits|-> <n>        new(&mut [(i, len_i)]) then up to n read_huffman calls
//! huffsym  <sym:code;sym:code;...|-> <bits|-> <n> from_symbols(vec![(sym, code)]) then the same
//! hufftree <sym:code;...|-> <bits|-> <n>          bitstream_io::huffman::compile_read_tree + BitReader<LE>::read_huffman
//!
//! observation: `ok <longest_code_len> <sym,sym,...|-> <bits consumed>` | `err parse <Kind>` | `err tree <Kind>`
//! A symbol is reported only if it ended inside the given bit string (the string is zero-padded to whole bytes).
#[path = "common.rs"]
mod common;

use std::cell::Cell;
use std::io::{Cursor, Read};
use std::rc::Rc;

use bitstream_io::huffman::{compile_read_tree, HuffmanTreeError};
use bitstream_io::{BitRead, BitReader, HuffmanRead, LittleEndian};
use webpsan::parse::{BitBufReader, CanonicalHuffmanTree, ParseError};

// counting allocator: bytes currently allocated (for `tabmem`: the heap a compiled read tree retains)
struct CountingAlloc;
static CUR: std::sync::atomic::AtomicUsize = std::sync::atomic::AtomicUsize::new(0);
unsafe impl std::alloc::GlobalAlloc for CountingAlloc {
    unsafe fn alloc(&self, l: std::alloc::Layout) -> *mut u8 {
        let p = std::alloc::System.alloc(l);
        if !p.is_null() {
            CUR.fetch_add(l.size(), std::sync::atomic::Ordering::Relaxed);
        }
        p
    }
    unsafe fn dealloc(&self, p: *mut u8, l: std::alloc::Layout) {
        std::alloc::System.dealloc(p, l);
        CUR.fetch_sub(l.size(), std::sync::atomic::Ordering::Relaxed);
    }
    unsafe fn realloc(&self, p: *mut u8, l: std::alloc::Layout, new: usize) -> *mut u8 {
        let q = std::alloc::System.realloc(p, l, new);
        if !q.is_null() {
            if new >= l.size() {
                CUR.fetch_add(new - l.size(), std::sync::atomic::Ordering::Relaxed);
            } else {
                CUR.fetch_sub(l.size() - new, std::sync::atomic::Ordering::Relaxed);
            }
        }
        q
    }
}
#[global_allocator]
static GLOBAL: CountingAlloc = CountingAlloc;

/// tabmem <lens>: heap retained by CanonicalHuffmanTree::new, in 256-entry tables
fn tabmem(args: &[&str]) -> String {
    let mut code_lengths = parse_lens(args[0]);
    let entry = std::mem::size_of::<bitstream_io::huffman::ReadHuffmanTree<LittleEndian, u16>>();
    let before = CUR.load(std::sync::atomic::Ordering::Relaxed);
    let r = CanonicalHuffmanTree::<LittleEndian, u16>::new(&mut code_lengths);
    let after = CUR.load(std::sync::atomic::Ordering::Relaxed);
    match r {
        Ok(tree) => {
            let kept = after.saturating_sub(before);
            let out = format!("tables={} rem={}", kept / (256 * entry), kept % (256 * entry));
            drop(tree);
            out
        }
        Err(_) => "reject".into(),
    }
}

fn main() {
    common::main_loop(|kind, args| match kind {
        "tabmem" => tabmem(args),
        "huff" => huff(args),
        "huffl" => huffl(args),
        // huffc <cap> <lens> <bits> <n>: as `huff`, through a BitBufReader of that capacity (many refills)
        "huffc" => {
            CAP.with(|c| c.set(args[0].parse().unwrap()));
            let r = huff(&args[1..]);
            CAP.with(|c| c.set(4096));
            r
        }
        "huffsym" => huffsym(args),
        "hufftree" => hufftree(args),
        _ => format!("unknown-kind {kind}"),
    });
}

struct Counting {
    inner: Cursor<Vec<u8>>,
    pulled: Rc<Cell<u64>>,
}

impl Read for Counting {
    fn read(&mut self, buf: &mut [u8]) -> std::io::Result<usize> {
        let n = self.inner.read(buf)?;
        self.pulled.set(self.pulled.get() + n as u64);
        Ok(n)
    }
}

fn parse_lens(s: &str) -> Vec<(u16, u8)> {
    if s == "-" {
        return vec![];
    }
    s.split(',').enumerate().map(|(i, l)| (i as u16, l.parse::<u8>().unwrap())).collect()
}

fn parse_bits(s: &str) -> Vec<bool> {
    if s == "-" {
        return vec![];
    }
    s.bytes().map(|b| b == b'1').collect()
}

fn parse_syms(s: &str) -> Vec<(u16, Vec<u8>)> {
    if s == "-" {
        return vec![];
    }
    s.split(';')
        .map(|e| {
            let (sym, code) = e.split_once(':').unwrap();
            (sym.parse::<u16>().unwrap(), code.bytes().map(|b| b - b'0').collect())
        })
        .collect()
}

/// little-endian bit packing: bit i of the string is bit (i % 8) of byte i / 8
fn pack(bits: &[bool]) -> Vec<u8> {
    let mut out = vec![0u8; (bits.len() + 7) / 8];
    for (i, &b) in bits.iter().enumerate() {
        if b {
            out[i / 8] |= 1 << (i % 8);
        }
    }
    out
}

fn kind_of(err: &webpsan::Error) -> String {
    match err {
        webpsan::Error::Io(e) => format!("err io {:?}", e.kind()),
        webpsan::Error::Parse(r) => {
            let k = match r.get_ref() {
                ParseError::InvalidChunkLayout => "InvalidChunkLayout",
                ParseError::InvalidInput => "InvalidInput",
                ParseError::InvalidVp8lPrefixCode => "InvalidVp8lPrefixCode",
                ParseError::MissingRequiredChunk(_) => "MissingRequiredChunk",
                ParseError::TruncatedChunk => "TruncatedChunk",
                ParseError::UnsupportedChunk(_) => "UnsupportedChunk",
                ParseError::UnsupportedVp8lVersion(_) => "UnsupportedVp8lVersion",
            };
            format!("err parse {k}")
        }
    }
}

fn fmt_syms(syms: &[u16]) -> String {
    if syms.is_empty() {
        "-".into()
    } else {
        syms.iter().map(|s| s.to_string()).collect::<Vec<_>>().join(",")
    }
}

thread_local! {
    /// capacity of the BitBufReader the decoding goes through (`huffc <cap> ...` sets it; 4096 as in webpsan otherwise)
    static CAP: Cell<usize> = const { Cell::new(4096) };
}

fn decode_with(tree: &CanonicalHuffmanTree<LittleEndian, u16>, bits: &[bool], n: usize) -> String {
    let nbits = bits.len() as u64;
    let pulled = Rc::new(Cell::new(0u64));
    let input = Counting { inner: Cursor::new(pack(bits)), pulled: pulled.clone() };
    let mut reader = BitBufReader::<_, LittleEndian>::with_capacity(input, CAP.with(|c| c.get()));
    let mut syms = vec![];
    let mut consumed = 0u64;
    for _ in 0..n {
        match reader.read_huffman(tree) {
            Ok(s) => {
                let pos = pulled.get() * 8 - reader.buf_bits();
                if pos > nbits {
                    break;
                }
                consumed = pos;
                syms.push(s);
            }
            Err(e) => {
                let k = kind_of(&e);
                if k != "err parse TruncatedChunk" {
                    return format!("decode-{k}");
                }
                break;
            }
        }
    }
    format!("ok {} {} {}", tree.longest_code_len(), fmt_syms(&syms), consumed)
}

pub fn huff(args: &[&str]) -> String {
    let mut code_lengths = parse_lens(args[0]);
    let bits = parse_bits(args[1]);
    let n: usize = args[2].parse().unwrap();
    match CanonicalHuffmanTree::<LittleEndian, u16>::new(&mut code_lengths) {
        Ok(tree) => decode_with(&tree, &bits, n),
        Err(e) => kind_of(&e),
    }
}

/// huffl <sym:len,sym:len,...> <bits> <n>: `new` on the pairs IN THE ORDER LISTED (each symbol once); the code must not depend on it
pub fn huffl(args: &[&str]) -> String {
    let mut pairs: Vec<(u16, u8)> = if args[0] == "-" {
        vec![]
    } else {
        args[0]
            .split(',')
            .map(|p| {
                let (s, l) = p.split_once(':').unwrap();
                (s.parse().unwrap(), l.parse().unwrap())
            })
            .collect()
    };
    let bits = parse_bits(args[1]);
    let n: usize = args[2].parse().unwrap();
    match CanonicalHuffmanTree::<LittleEndian, u16>::new(&mut pairs) {
        Ok(tree) => decode_with(&tree, &bits, n),
        Err(e) => kind_of(&e),
    }
}

pub fn huffsym(args: &[&str]) -> String {
    let symbols = parse_syms(args[0]);
    let bits = parse_bits(args[1]);
    let n: usize = args[2].parse().unwrap();
    match CanonicalHuffmanTree::<LittleEndian, u16>::from_symbols(symbols) {
        Ok(tree) => decode_with(&tree, &bits, n),
        Err(e) => kind_of(&e),
    }
}

pub fn hufftree(args: &[&str]) -> String {
    let symbols = parse_syms(args[0]);
    let bits = parse_bits(args[1]);
    let n: usize = args[2].parse().unwrap();
    match compile_read_tree::<LittleEndian, u16>(symbols) {
        Err(e) => format!(
            "err tree {}",
            match e {
                HuffmanTreeError::InvalidBit => "InvalidBit",
                HuffmanTreeError::MissingLeaf => "MissingLeaf",
                HuffmanTreeError::DuplicateLeaf => "DuplicateLeaf",
                HuffmanTreeError::OrphanedLeaf => "OrphanedLeaf",
            }
        ),
        Ok(tree) => {
            let nbits = bits.len() as u64;
            let mut reader = BitReader::endian(Cursor::new(pack(&bits)), LittleEndian);
            let mut syms = vec![];
            let mut consumed = 0u64;
            for _ in 0..n {
                match reader.read_huffman(&tree) {
                    Ok(s) => {
                        let pos = reader.position_in_bits().unwrap();
                        if pos > nbits {
                            break;
                        }
                        consumed = pos;
                        syms.push(s);
                    }
                    Err(_) => break,
                }
            }
            format!("ok - {} {}", fmt_syms(&syms), consumed)
        }
    }
}
