//! webp container area: runs the real webpsan on case lines
//!   webp <reader> <allow:0|1> <len> <off:hex,...|-> [table ignored]
//!   lossless <w> <h> <hex>          -> verdict of LosslessImage::read over the given body bytes
//!   wcount <reader> <allow> <len> <exts>                 -> n=<inner operations of the fault-free run> <result>
//!   wfault <k> <kind> <reader> <allow> <len> <exts>      -> result when the k-th inner operation fails with <kind>
//!   wmeter <reader> <allow> <len> <exts>                 -> <result> | heap=<peak heap of the call> read=<bytes read> maxreq=<largest read request>
//! (inner operations = read / skip / stream_position / stream_len calls on the input, below webpsan's own BufReaders)
#[path = "common.rs"]
mod common;
#[path = "lib_readers.rs"]
mod lib_readers;

use bitstream_io::LE;
use lib_readers::{io_kind, Sparse};
use mediasan_common::Skip;
use std::alloc::{GlobalAlloc, Layout, System};
use std::io::{self, Read};
use std::sync::atomic::{AtomicUsize, Ordering};
use std::num::NonZeroU32;
use webpsan::parse::{BitBufReader, LosslessImage, ParseError};
use webpsan::{Config, Error};

// ---------------------------------------------------------------------------------------------- counting allocator
struct Counting;
static CUR: AtomicUsize = AtomicUsize::new(0);
static PEAK: AtomicUsize = AtomicUsize::new(0);

unsafe impl GlobalAlloc for Counting {
    unsafe fn alloc(&self, l: Layout) -> *mut u8 {
        let p = System.alloc(l);
        if !p.is_null() {
            let c = CUR.fetch_add(l.size(), Ordering::Relaxed) + l.size();
            PEAK.fetch_max(c, Ordering::Relaxed);
        }
        p
    }
    unsafe fn dealloc(&self, p: *mut u8, l: Layout) {
        System.dealloc(p, l);
        CUR.fetch_sub(l.size(), Ordering::Relaxed);
    }
    unsafe fn alloc_zeroed(&self, l: Layout) -> *mut u8 {
        let p = System.alloc_zeroed(l);
        if !p.is_null() {
            let c = CUR.fetch_add(l.size(), Ordering::Relaxed) + l.size();
            PEAK.fetch_max(c, Ordering::Relaxed);
        }
        p
    }
    unsafe fn realloc(&self, p: *mut u8, l: Layout, new: usize) -> *mut u8 {
        let q = System.realloc(p, l, new);
        if !q.is_null() {
            if new >= l.size() {
                let c = CUR.fetch_add(new - l.size(), Ordering::Relaxed) + (new - l.size());
                PEAK.fetch_max(c, Ordering::Relaxed);
            } else {
                CUR.fetch_sub(l.size() - new, Ordering::Relaxed);
            }
        }
        q
    }
}

#[global_allocator]
static GLOBAL: Counting = Counting;

/// Read+Skip wrapper that records how much is read and the largest single request
struct Meter {
    inner: Sparse,
    read: u64,
    maxreq: u64,
}

impl Read for Meter {
    fn read(&mut self, buf: &mut [u8]) -> io::Result<usize> {
        self.maxreq = self.maxreq.max(buf.len() as u64);
        let n = self.inner.read(buf)?;
        self.read += n as u64;
        Ok(n)
    }
}

impl Skip for Meter {
    fn skip(&mut self, amount: u64) -> io::Result<()> {
        self.inner.skip(amount)
    }
    fn stream_position(&mut self) -> io::Result<u64> {
        self.inner.stream_position()
    }
    fn stream_len(&mut self) -> io::Result<u64> {
        self.inner.stream_len()
    }
}

fn run_wmeter(args: &[&str]) -> String {
    let (rd, allow, len, exts) = (args[0], args[1], args[2], args[3]);
    let sp = Sparse::new(len.parse().unwrap(), Sparse::parse_exts(exts), rd == "strict");
    let cfg = Config::builder().allow_unknown_chunks(allow == "1").build();
    let mut m = Meter { inner: sp, read: 0, maxreq: 0 };
    let base = CUR.load(Ordering::Relaxed);
    PEAK.store(base, Ordering::Relaxed);
    let r = webpsan::sanitize_with_config(&mut m, cfg);
    let peak = PEAK.load(Ordering::Relaxed).saturating_sub(base);
    let res = show(r);
    format!("{res} | heap={peak} read={} maxreq={}", m.read, m.maxreq)
}

/// `wmeterrep <reader> <allow> <prefix hex> <unit hex> <count> <suffix hex>`: as `wmeter` on the dense input prefix ++ unit x count ++ suffix
/// (files made of very many chunks - animation frames, unknown trailing chunks - without a case line of that size)
fn run_wmeterrep(args: &[&str]) -> String {
    let (rd, allow) = (args[0], args[1]);
    let un = |h: &str| if h == "-" { vec![] } else { common::unhex(h) };
    let (pre, unit, count, suf) = (un(args[2]), un(args[3]), args[4].parse::<usize>().unwrap(), un(args[5]));
    let mut data = Vec::with_capacity(pre.len() + unit.len() * count + suf.len());
    data.extend_from_slice(&pre);
    for _ in 0..count {
        data.extend_from_slice(&unit);
    }
    data.extend_from_slice(&suf);
    let len = data.len() as u64;
    let sp = Sparse::new(len, vec![(0, data)], rd == "strict");
    let cfg = Config::builder().allow_unknown_chunks(allow == "1").build();
    let mut m = Meter { inner: sp, read: 0, maxreq: 0 };
    let base = CUR.load(Ordering::Relaxed);
    PEAK.store(base, Ordering::Relaxed);
    let r = webpsan::sanitize_with_config(&mut m, cfg);
    let peak = PEAK.load(Ordering::Relaxed).saturating_sub(base);
    let res = show(r);
    format!("{res} | heap={peak} read={} maxreq={}", m.read, m.maxreq)
}

pub fn show_err(e: Error) -> String {
    match e {
        Error::Io(e) => format!("err io {}", io_kind(e.kind())),
        Error::Parse(rep) => {
            let k = match rep.get_ref() {
                ParseError::InvalidChunkLayout => "InvalidChunkLayout".to_string(),
                ParseError::InvalidInput => "InvalidInput".to_string(),
                ParseError::InvalidVp8lPrefixCode => "InvalidVp8lPrefixCode".to_string(),
                ParseError::MissingRequiredChunk(t) => format!("MissingRequiredChunk:{}", common::hex(&t.value)),
                ParseError::TruncatedChunk => "TruncatedChunk".to_string(),
                ParseError::UnsupportedChunk(t) => format!("UnsupportedChunk:{}", common::hex(&t.value)),
                ParseError::UnsupportedVp8lVersion(_) => "UnsupportedVp8lVersion".to_string(),
            };
            format!("err parse {k}")
        }
    }
}

fn show(r: Result<(), Error>) -> String {
    match r {
        Ok(()) => "ok".into(),
        Err(e) => show_err(e),
    }
}

fn run_webp(args: &[&str]) -> String {
    let (rd, allow, len, exts) = (args[0], args[1], args[2], args[3]);
    let len: u64 = len.parse().unwrap();
    let exts = Sparse::parse_exts(exts);
    let cfg = Config::builder().allow_unknown_chunks(allow == "1").build();
    match rd {
        "strict" => show(webpsan::sanitize_with_config(Sparse::new(len, exts, true), cfg)),
        "lenient" => show(webpsan::sanitize_with_config(Sparse::new(len, exts, false), cfg)),
        "cursor" => {
            let v = Sparse::new(len, exts, false).dense();
            show(webpsan::sanitize_with_config(std::io::Cursor::new(v), cfg))
        }
        _ => format!("unknown-reader {rd}"),
    }
}

/// Read+Skip wrapper that counts the calls made on the input and fails the k-th with the given kind, without
/// touching the wrapped reader on that call
struct FaultMeter {
    inner: Sparse,
    count: u64,
    fault: Option<(u64, io::ErrorKind)>,
}

impl FaultMeter {
    fn tick(&mut self) -> Option<io::ErrorKind> {
        let k = self.count;
        self.count += 1;
        match self.fault {
            Some((i, kind)) if i == k => Some(kind),
            _ => None,
        }
    }
}

impl Read for FaultMeter {
    fn read(&mut self, buf: &mut [u8]) -> io::Result<usize> {
        match self.tick() {
            Some(k) => Err(io::Error::from(k)),
            None => self.inner.read(buf),
        }
    }
}

impl Skip for FaultMeter {
    fn skip(&mut self, amount: u64) -> io::Result<()> {
        match self.tick() {
            Some(k) => Err(io::Error::from(k)),
            None => self.inner.skip(amount),
        }
    }
    fn stream_position(&mut self) -> io::Result<u64> {
        match self.tick() {
            Some(k) => Err(io::Error::from(k)),
            None => self.inner.stream_position(),
        }
    }
    fn stream_len(&mut self) -> io::Result<u64> {
        match self.tick() {
            Some(k) => Err(io::Error::from(k)),
            None => self.inner.stream_len(),
        }
    }
}

fn kind_of(s: &str) -> io::ErrorKind {
    match s {
        "Other" => io::ErrorKind::Other,
        "PermissionDenied" => io::ErrorKind::PermissionDenied,
        "TimedOut" => io::ErrorKind::TimedOut,
        "WouldBlock" => io::ErrorKind::WouldBlock,
        "InvalidData" => io::ErrorKind::InvalidData,
        "UnexpectedEof" => io::ErrorKind::UnexpectedEof,
        "InvalidInput" => io::ErrorKind::InvalidInput,
        _ => panic!("kind"),
    }
}

fn run_wfault(k: Option<(u64, io::ErrorKind)>, args: &[&str]) -> (u64, String) {
    let (rd, allow, len, exts) = (args[0], args[1], args[2], args[3]);
    let sp = Sparse::new(len.parse().unwrap(), Sparse::parse_exts(exts), rd == "strict");
    let cfg = Config::builder().allow_unknown_chunks(allow == "1").build();
    let mut fm = FaultMeter { inner: sp, count: 0, fault: k };
    let r = show(webpsan::sanitize_with_config(&mut fm, cfg));
    (fm.count, r)
}

fn run_lossless(args: &[&str]) -> String {
    let w: u32 = args[0].parse().unwrap();
    let h: u32 = args[1].parse().unwrap();
    let body = common::unhex(args[2]);
    let (Some(w), Some(h)) = (NonZeroU32::new(w), NonZeroU32::new(h)) else { return "bad-dims".into() };
    let mut reader = BitBufReader::<_, LE>::with_capacity(&body[..], 4096);
    match LosslessImage::read(&mut reader, w, h) {
        Ok(_) => "ok".into(),
        Err(e) => show_err(e),
    }
}

fn main() {
    common::main_loop(|kind, args| match kind {
        "webp" => run_webp(args),
        "lossless" => run_lossless(args),
        "wmeter" => run_wmeter(args),
        "wmeterrep" => run_wmeterrep(args),
        "sizes" => format!(
            "entry_u8={} entry_u16={} entry_u32={}",
            std::mem::size_of::<bitstream_io::huffman::ReadHuffmanTree<LE, u8>>(),
            std::mem::size_of::<bitstream_io::huffman::ReadHuffmanTree<LE, u16>>(),
            std::mem::size_of::<bitstream_io::huffman::ReadHuffmanTree<LE, u32>>()
        ),
        "wcount" => {
            let (n, r) = run_wfault(None, args);
            format!("n={n} {r}")
        }
        "wfault" => run_wfault(Some((args[0].parse().unwrap(), kind_of(args[1]))), &args[2..]).1,
        _ => format!("unknown-kind {kind}"),
    });
}
