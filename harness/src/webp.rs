//! webp container area: runs the real webpsan on case lines
//!   webp <reader> <allow:0|1> <len> <off:hex,...|-> [table ignored]
//!   lossless <w> <h> <hex>          -> verdict of LosslessImage::read over the given body bytes
#[path = "common.rs"]
mod common;
#[path = "lib_readers.rs"]
mod lib_readers;

use bitstream_io::LE;
use lib_readers::{io_kind, Sparse};
use std::num::NonZeroU32;
use webpsan::parse::{BitBufReader, LosslessImage, ParseError};
use webpsan::{Config, Error};

pub fn show_err(e: Error) -> String {
    match e {
        Error::Io(e) => format!("err io {}", io_kind(e.kind())),
        Error::Parse(rep) => {
            let k = match rep.get_ref() {
                ParseError::InvalidChunkLayout => "InvalidChunkLayout".to_string(),
                ParseError::InvalidInput => "InvalidInput".to_string(),
                ParseError::InvalidVp8lPrefixCode => "InvalidVp8lPrefixCode".to_string(),
                ParseError::MissingRequiredChunk(t) => format!("MissingRequiredChunk:{}", common::hex(&t.value)),
                ParseError::TruncatedChunk => "TruncatedChunk".to_string(),
                ParseError::UnsupportedChunk(t) => format!("UnsupportedChunk:{}", common::hex(&t.value)),
                ParseError::UnsupportedVp8lVersion(_) => "UnsupportedVp8lVersion".to_string(),
            };
            format!("err parse {k}")
        }
    }
}

fn show(r: Result<(), Error>) -> String {
    match r {
        Ok(()) => "ok".into(),
        Err(e) => show_err(e),
    }
}

fn run_webp(args: &[&str]) -> String {
    let (rd, allow, len, exts) = (args[0], args[1], args[2], args[3]);
    let len: u64 = len.parse().unwrap();
    let exts = Sparse::parse_exts(exts);
    let cfg = Config::builder().allow_unknown_chunks(allow == "1").build();
    match rd {
        "strict" => show(webpsan::sanitize_with_config(Sparse::new(len, exts, true), cfg)),
        "lenient" => show(webpsan::sanitize_with_config(Sparse::new(len, exts, false), cfg)),
        "cursor" => {
            let v = Sparse::new(len, exts, false).dense();
            show(webpsan::sanitize_with_config(std::io::Cursor::new(v), cfg))
        }
        _ => format!("unknown-reader {rd}"),
    }
}

fn run_lossless(args: &[&str]) -> String {
    let w: u32 = args[0].parse().unwrap();
    let h: u32 = args[1].parse().unwrap();
    let body = common::unhex(args[2]);
    let (Some(w), Some(h)) = (NonZeroU32::new(w), NonZeroU32::new(h)) else { return "bad-dims".into() };
    let mut reader = BitBufReader::<_, LE>::with_capacity(&body[..], 4096);
    match LosslessImage::read(&mut reader, w, h) {
        Ok(_) => "ok".into(),
        Err(e) => show_err(e),
    }
}

fn main() {
    common::main_loop(|kind, args| match kind {
        "webp" => run_webp(args),
        "lossless" => run_lossless(args),
        _ => format!("unknown-kind {kind}"),
    });
}
