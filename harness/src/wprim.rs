//! C17: webpsan::parse WebmPrim / ParseChunk / ParsedChunk codecs.  Prints what the implementation computes
//! (parse result, re-serialisation, parse of the re-serialisation); the property is evaluated elsewhere.
#[path = "common.rs"]
mod common;
use bytes::BytesMut;
use common::{hex, unhex};
use webpsan::parse::{
    AlphChunk, AlphFlags, AnimChunk, AnmfChunk, AnmfFlags, ChunkHeader, FourCC, OneBasedU24, ParseChunk, ParseError,
    ParsedChunk, Reserved, Vp8xChunk, Vp8xFlags, WebmPrim, WebpChunk, U24,
};

fn main() {
    common::main_loop(|kind, args| match kind {
        "pparse" => pparse(args),
        "pput" => pput(args),
        "cparse" => cparse(args),
        _ => format!("unknown-kind {kind}"),
    });
}

fn kind_of(e: &ParseError) -> String {
    let s = format!("{:?}", e);
    s.split(|c: char| !c.is_alphanumeric()).next().unwrap_or("").to_string()
}

/// parse; if Ok: value, bytes left, put_buf output, and whether parse(put ++ rest) gives the same value and rest
fn prim_case<T: WebmPrim + PartialEq>(input: &[u8], show: impl Fn(&T) -> String) -> String {
    let mut cur = input;
    match T::parse(&mut cur) {
        Err(e) => format!("err parse {}", kind_of(e.get_ref())),
        Ok(v) => {
            let rest = cur.to_vec();
            let mut p = Vec::new();
            v.put_buf(&mut p);
            let mut all = p.clone();
            all.extend_from_slice(&rest);
            let mut c2 = &all[..];
            let back = match T::parse(&mut c2) {
                Ok(v2) => {
                    if v2 == v && c2 == &rest[..] {
                        "ok"
                    } else {
                        "differ"
                    }
                }
                Err(_) => "err",
            };
            format!("ok {} rem={} elen={} put={} back={}", show(&v), rest.len(), T::ENCODED_LEN, hex(&p), back)
        }
    }
}

/// put a constructed value, then parse what was written
fn put_case<T: WebmPrim + PartialEq>(v: T, show: impl Fn(&T) -> String) -> String {
    let mut p = Vec::new();
    v.put_buf(&mut p);
    let mut cur = &p[..];
    let back = match T::parse(&mut cur) {
        Ok(v2) => format!("ok:{}:{}", show(&v2), cur.len()),
        Err(e) => format!("err:{}", kind_of(e.get_ref())),
    };
    format!("put={} elen={} back={}", if p.is_empty() { "-".to_string() } else { hex(&p) }, T::ENCODED_LEN, back)
}

fn show_fourcc(f: &FourCC) -> String {
    hex(&f.value)
}
fn show_header(h: &ChunkHeader) -> String {
    format!("{}:{}", hex(&h.name.value), h.len)
}

fn pparse(args: &[&str]) -> String {
    let input = unhex(args[1]);
    let i = &input[..];
    match args[0] {
        "u8" => prim_case::<u8>(i, |v| v.to_string()),
        "u16" => prim_case::<u16>(i, |v| v.to_string()),
        "u32" => prim_case::<u32>(i, |v| v.to_string()),
        "u64" => prim_case::<u64>(i, |v| v.to_string()),
        "i8" => prim_case::<i8>(i, |v| v.to_string()),
        "i16" => prim_case::<i16>(i, |v| v.to_string()),
        "i32" => prim_case::<i32>(i, |v| v.to_string()),
        "i64" => prim_case::<i64>(i, |v| v.to_string()),
        "fourcc" => prim_case::<FourCC>(i, show_fourcc),
        "u24" => prim_case::<U24>(i, |v| v.get().to_string()),
        "ob24" => prim_case::<OneBasedU24>(i, |v| v.get().get().to_string()),
        "res0" => prim_case::<Reserved<0>>(i, |_| "-".into()),
        "res1" => prim_case::<Reserved<1>>(i, |_| "-".into()),
        "res2" => prim_case::<Reserved<2>>(i, |_| "-".into()),
        "res3" => prim_case::<Reserved<3>>(i, |_| "-".into()),
        "res4" => prim_case::<Reserved<4>>(i, |_| "-".into()),
        "res8" => prim_case::<Reserved<8>>(i, |_| "-".into()),
        "vp8xflags" => prim_case::<Vp8xFlags>(i, |v| v.bits().to_string()),
        "anmfflags" => prim_case::<AnmfFlags>(i, |v| v.bits().to_string()),
        "alphflags" => prim_case::<AlphFlags>(i, |v| v.bits().to_string()),
        "chunkheader" => prim_case::<ChunkHeader>(i, show_header),
        t => format!("unknown-type {t}"),
    }
}

fn pput(args: &[&str]) -> String {
    let a = args[1];
    macro_rules! int {
        ($t:ty) => {
            match a.parse::<$t>() {
                Ok(v) => put_case::<$t>(v, |v| v.to_string()),
                Err(_) => "novalue".into(),
            }
        };
    }
    macro_rules! flags {
        ($t:ty) => {
            match a.parse::<u8>().ok().and_then(<$t>::from_bits) {
                Some(v) => put_case::<$t>(v, |v| v.bits().to_string()),
                None => "novalue".into(),
            }
        };
    }
    match args[0] {
        "u8" => int!(u8),
        "u16" => int!(u16),
        "u32" => int!(u32),
        "u64" => int!(u64),
        "i8" => int!(i8),
        "i16" => int!(i16),
        "i32" => int!(i32),
        "i64" => int!(i64),
        "fourcc" => {
            let b = unhex(a);
            if b.len() != 4 {
                return "novalue".into();
            }
            put_case(FourCC { value: b[..].try_into().unwrap() }, show_fourcc)
        }
        "vp8xflags" => flags!(Vp8xFlags),
        "anmfflags" => flags!(AnmfFlags),
        "alphflags" => flags!(AlphFlags),
        "chunkheader" => {
            let (n, l) = a.split_once(':').unwrap();
            let b = unhex(n);
            match (b.len(), l.parse::<u32>()) {
                (4, Ok(len)) => put_case(ChunkHeader { name: FourCC { value: b[..].try_into().unwrap() }, len }, show_header),
                _ => "novalue".into(),
            }
        }
        t => format!("unknown-type {t}"),
    }
}

fn chunk_case<T: ParseChunk + ParsedChunk + PartialEq>(input: &[u8], show: impl Fn(&T) -> String) -> String {
    let mut buf = BytesMut::from(input);
    match T::parse(&mut buf) {
        Err(e) => format!("err parse {}", kind_of(e.get_ref())),
        Ok(v) => {
            let rest = buf.to_vec();
            let mut p: Vec<u8> = Vec::new();
            v.put_buf(&mut p);
            let mut all = p.clone();
            all.extend_from_slice(&rest);
            let mut b2 = BytesMut::from(&all[..]);
            let back = match T::parse(&mut b2) {
                Ok(v2) => {
                    if v2 == v && b2[..] == rest[..] {
                        "ok"
                    } else {
                        "differ"
                    }
                }
                Err(_) => "err",
            };
            format!("ok {} rem={} elen={} put={} back={}", show(&v), rest.len(), T::ENCODED_LEN, hex(&p), back)
        }
    }
}

/// the unsigned decimal numbers of a derived Debug text, in order (for structs without accessors)
fn debug_numbers<T: std::fmt::Debug>(v: &T) -> String {
    let d = format!("{:?}", v);
    let mut out: Vec<String> = vec![];
    let mut cur = String::new();
    let mut prev_alpha = false;
    for c in d.chars() {
        if c.is_ascii_digit() && (!cur.is_empty() || !prev_alpha) {
            cur.push(c);
        } else {
            if !cur.is_empty() {
                out.push(std::mem::take(&mut cur));
            }
            prev_alpha = c.is_alphanumeric() || c == '_';
        }
    }
    if !cur.is_empty() {
        out.push(cur);
    }
    out.join(",")
}

fn cparse(args: &[&str]) -> String {
    let input = unhex(args[1]);
    let i = &input[..];
    match args[0] {
        "vp8x" => chunk_case::<Vp8xChunk>(i, |v| format!("{},{},{}", v.flags.bits(), v.canvas_width(), v.canvas_height())),
        "anim" => chunk_case::<AnimChunk>(i, debug_numbers),
        "anmf" => chunk_case::<AnmfChunk>(i, |v| {
            format!("{},{},{},{},{},{}", v.x(), v.y(), v.width(), v.height(), v.duration(), v.flags.bits())
        }),
        "alph" => chunk_case::<AlphChunk>(i, |v| v.flags.bits().to_string()),
        "webp" => chunk_case::<WebpChunk>(i, |_| "-".into()),
        t => format!("unknown-type {t}"),
    }
}
