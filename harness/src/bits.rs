//! C19: drives the REAL webpsan::parse::BitBufReader<_, LE> (public API) over a reader with a prescribed short-read
//! pattern, and LosslessImage::read over a BitBufReader of arbitrary capacity (that is exactly what
//! Vp8lChunk::sanitize_image_data / AlphChunk::sanitize_image_data do with the literal 4096).
//!
//! seq <cap> <chunks> <hex> <s|c> [T<i>=sym:len,...]* <op>*
//!    ops: r<n> r8.<n> r16.<n> r32.<n> (read::<uW>(n)), b (read_bit), h<i> (read_huffman tree i), f (fill_buf),
//!         q (buf_bits), e<r> (`if buf_bits() < r { fill_buf()? }`, the loop-head check of EntropyCodedImage::read),
//!         br<n> br8.<n> br16.<n> br32.<n> bb bh<i> (buf_* variants), z<code> (buf_read_lz77)
//!    s: stop at the first error (a consumer aborts there); c: continue (model-vs-implementation only)
//! lossless <cap> <chunks> <w> <h> <hex>      LosslessImage::read verdict
//! insitu <cap> <hex of a .webp file>         webpsan::sanitize under the capacity hook (cfg verif_caphook), else `no-hook`
#[path = "common.rs"]
mod common;

use std::cell::Cell;
use std::io::Read;
use std::num::NonZeroU32;
use std::rc::Rc;

use bitstream_io::LE;
use webpsan::parse::{BitBufReader, CanonicalHuffmanTree, LosslessImage, ParseError};
use webpsan::Error;

struct ChunkedReader {
    data: Vec<u8>,
    pos: usize,
    sizes: Vec<usize>,
    idx: usize,
    calls: Rc<Cell<usize>>,
    /// `seqf`: the read call with this index (over the whole run, from 0) fails with this kind and has no effect
    fault: Option<(usize, std::io::ErrorKind)>,
}

impl Read for ChunkedReader {
    fn read(&mut self, buf: &mut [u8]) -> std::io::Result<usize> {
        if buf.is_empty() {
            return Ok(0);
        }
        if let Some((k, kind)) = self.fault {
            if self.calls.get() == k {
                self.calls.set(self.calls.get() + 1);
                self.idx += 1;
                return Err(kind.into());
            }
        }
        let want = self.sizes[self.idx % self.sizes.len()].max(1);
        self.idx += 1;
        self.calls.set(self.calls.get() + 1);
        let n = buf.len().min(want).min(self.data.len() - self.pos);
        buf[..n].copy_from_slice(&self.data[self.pos..self.pos + n]);
        self.pos += n;
        Ok(n)
    }
}

fn chunked(data: Vec<u8>, chunks: &str) -> (ChunkedReader, Rc<Cell<usize>>) {
    let sizes: Vec<usize> = chunks.split(',').map(|s| s.parse().unwrap()).collect();
    let calls = Rc::new(Cell::new(0));
    (ChunkedReader { data, pos: 0, sizes, idx: 0, calls: calls.clone(), fault: None }, calls)
}

thread_local! {
    static FAULT: Cell<Option<(usize, std::io::ErrorKind)>> = const { Cell::new(None) };
}

fn err_name(e: &Error) -> String {
    match e {
        Error::Io(e) => format!("io:{:?}", e.kind()),
        Error::Parse(r) => {
            let k = match r.get_ref() {
                ParseError::InvalidChunkLayout => "InvalidChunkLayout",
                ParseError::InvalidInput => "InvalidInput",
                ParseError::InvalidVp8lPrefixCode => "InvalidVp8lPrefixCode",
                ParseError::MissingRequiredChunk(_) => "MissingRequiredChunk",
                ParseError::TruncatedChunk => "TruncatedChunk",
                ParseError::UnsupportedChunk(_) => "UnsupportedChunk",
                ParseError::UnsupportedVp8lVersion(_) => "UnsupportedVp8lVersion",
            };
            format!("parse:{k}")
        }
    }
}

fn main() {
    common::main_loop(|kind, args| match kind {
        "seq" => seq(args),
        // seqf <k> <kind> <cap> <chunks> <hex> s <ops>: as `seq` (stop at the first error) with the k-th inner read failing
        "seqf" => {
            let kind = match args[1] {
                "Other" => std::io::ErrorKind::Other,
                "PermissionDenied" => std::io::ErrorKind::PermissionDenied,
                "TimedOut" => std::io::ErrorKind::TimedOut,
                "WouldBlock" => std::io::ErrorKind::WouldBlock,
                "InvalidData" => std::io::ErrorKind::InvalidData,
                "UnexpectedEof" => std::io::ErrorKind::UnexpectedEof,
                _ => return "bad-kind".into(),
            };
            FAULT.with(|f| f.set(Some((args[0].parse().unwrap(), kind))));
            let r = seq(&args[2..]);
            FAULT.with(|f| f.set(None));
            r
        }
        "lossless" => lossless(args),
        "insitu" => insitu(args),
        _ => format!("unknown-kind {kind}"),
    });
}

fn width_n(s: &str) -> (u32, u32) {
    match s.split_once('.') {
        Some((w, n)) => (w.parse().unwrap(), n.parse().unwrap()),
        None => (64, s.parse().unwrap()),
    }
}

fn seq(args: &[&str]) -> String {
    let cap: usize = args[0].parse().unwrap();
    let (mut src, calls) = chunked(common::unhex(args[2]), args[1]);
    src.fault = FAULT.with(|f| f.get());
    let cont = args[3] == "c";
    let mut trees: Vec<CanonicalHuffmanTree<LE, u16>> = Vec::new();
    let mut out: Vec<String> = Vec::new();
    let mut rd = BitBufReader::<_, LE>::with_capacity(src, cap);
    for tok in &args[4..] {
        if let Some(def) = tok.strip_prefix('T') {
            let (_, lens) = def.split_once('=').unwrap();
            let mut v: Vec<(u16, u8)> = lens
                .split(',')
                .filter(|s| !s.is_empty())
                .map(|p| {
                    let (s, l) = p.split_once(':').unwrap();
                    (s.parse().unwrap(), l.parse().unwrap())
                })
                .collect();
            match CanonicalHuffmanTree::<LE, u16>::new(&mut v) {
                Ok(t) => trees.push(t),
                Err(_) => return "bad-tree".into(),
            }
            continue;
        }
        let r: Result<String, Error> = (|| {
            Ok(if let Some(n) = tok.strip_prefix("br") {
                let (w, n) = width_n(n);
                match w {
                    8 => rd.buf_read::<u8>(n)?.to_string(),
                    16 => rd.buf_read::<u16>(n)?.to_string(),
                    32 => rd.buf_read::<u32>(n)?.to_string(),
                    _ => rd.buf_read::<u64>(n)?.to_string(),
                }
            } else if let Some(i) = tok.strip_prefix("bh") {
                rd.buf_read_huffman(&trees[i.parse::<usize>().unwrap()])?.to_string()
            } else if *tok == "bb" {
                (rd.buf_read_bit()? as u8).to_string()
            } else if *tok == "b" {
                (rd.read_bit()? as u8).to_string()
            } else if let Some(n) = tok.strip_prefix('r') {
                let (w, n) = width_n(n);
                match w {
                    8 => rd.read::<u8>(n)?.to_string(),
                    16 => rd.read::<u16>(n)?.to_string(),
                    32 => rd.read::<u32>(n)?.to_string(),
                    _ => rd.read::<u64>(n)?.to_string(),
                }
            } else if let Some(i) = tok.strip_prefix('h') {
                rd.read_huffman(&trees[i.parse::<usize>().unwrap()])?.to_string()
            } else if let Some(c) = tok.strip_prefix('z') {
                rd.buf_read_lz77(c.parse().unwrap())?.get().to_string()
            } else if *tok == "f" {
                rd.fill_buf()?;
                "ok".into()
            } else if *tok == "q" {
                format!("q={}", rd.buf_bits())
            } else if let Some(r) = tok.strip_prefix('e') {
                if rd.buf_bits() < r.parse::<u64>().unwrap() {
                    rd.fill_buf()?;
                }
                "ok".into()
            } else {
                "bad-op".into()
            })
        })();
        match r {
            Ok(s) => out.push(s),
            Err(e) => {
                out.push(format!("E:{}", err_name(&e)));
                if !cont {
                    break;
                }
            }
        }
    }
    out.push(format!("| calls {}", calls.get()));
    out.join(" ")
}

fn verdict(r: Result<(), Error>) -> String {
    match r {
        Ok(()) => "ok".into(),
        Err(e) => format!("err {}", err_name(&e).replace(':', " ")),
    }
}

fn lossless(args: &[&str]) -> String {
    let cap: usize = args[0].parse().unwrap();
    let (src, _calls) = chunked(common::unhex(args[4]), args[1]);
    let w = NonZeroU32::new(args[2].parse().unwrap()).unwrap();
    let h = NonZeroU32::new(args[3].parse().unwrap()).unwrap();
    let mut rd = BitBufReader::<_, LE>::with_capacity(src, cap);
    verdict(LosslessImage::read(&mut rd, w, h).map(|_| ()))
}

#[cfg(verif_caphook)]
fn insitu(args: &[&str]) -> String {
    let cap: usize = args[0].parse().unwrap();
    webpsan::verif_set_bitbuf_capacity(cap);
    let data = common::unhex(args[1]);
    let r = webpsan::sanitize(std::io::Cursor::new(data));
    webpsan::verif_set_bitbuf_capacity(4096);
    verdict(r)
}

#[cfg(not(verif_caphook))]
fn insitu(_args: &[&str]) -> String {
    "no-hook".into()
}
