//! Area vp8l (C07, C08): the REAL webpsan lossless validator, the REAL webpsan::sanitize, and libwebp 1.3.1
//! (libwebp-sys 0.9.6, vendored, statically linked) as the reference decoder.
//!
//! vp8l <w> <h> <hex body>
//!     impl = LosslessImage::read(&mut BitBufReader::with_capacity(body, 4096), w, h)        (public API)
//!     san  = webpsan::sanitize(Cursor(RIFF/WEBP/VP8L file built around header(w,h) ++ body)) (w, h <= 16384, else `na`)
//!     ref  = libwebp's header decoder VP8LDecodeHeader on header(w,h) ++ body                (w, h <= 16384, else `na`)
//!   prints `impl=<ok|err:Kind|panic> san=<..> ref=<accept|reject>`
//! alphfile <hex of a VP8X+ALPH+VP8 file> <hex of a replacement lossless ALPH payload>
//!     the ALPH chunk body becomes 0x01 (lossless, no filter) ++ payload; prints `san=<..>`
//! sanitize <hex file>   prints `san=<..> dec=<accept|reject>` (dec = libwebp WebPDecode / WebPAnimDecoder on the whole file)
//! enc / anim / mux / muxanim ...  produce files with libwebp's encoders and muxer; print `hex <file>` or `fail <why>`
//!
//! Reference verdict `ref` (trusted base): `VP8LDecodeHeader(dec, io)` is an internal function of libwebp (declared in
//! src/dec/vp8li_dec.h, compiled into the static library with hidden visibility, which does not prevent static linking);
//! it is declared here by hand together with the prefix of `struct VP8LDecoder` up to its bit reader and `struct VP8Io`
//! (src/webp/decode.h).  It reads the 5-byte VP8L header itself and then runs DecodeImageStream(w, h, is_level0 = 1):
//! transforms with their sub-images, colour cache, meta prefix image, all prefix-code groups; no level-0 pixel.
//! An ALPH lossless payload is decoded by libwebp with the very same DecodeImageStream(w, h, 1) (VP8LDecodeAlphaHeader),
//! so `ref` for an ALPH payload is obtained by prefixing the 5-byte header with the plane's dimensions.
//! libwebp's reader notices that a prefix-coded symbol ran past the end of the data only at its next refill; when that
//! symbol is the very last code length of the header this happens in the pixel phase.  `ref` therefore also applies
//! libwebp's own end-of-stream predicate (VP8LIsEndOfStream: more bits consumed than present) after the call.
#[path = "common.rs"]
mod common;

use std::ffi::{c_int, c_void, CString};
use std::io::Cursor;
use std::num::NonZeroU32;

use bitstream_io::LE;
use libwebp_sys as w;
use webpsan::parse::{BitBufReader, LosslessImage, ParseError};
use webpsan::Error;

// ---------------------------------------------------------------------------------------------- libwebp internals
#[repr(C)]
struct VP8Io {
    width: c_int,
    height: c_int,
    mb_y: c_int,
    mb_w: c_int,
    mb_h: c_int,
    y: *const u8,
    u: *const u8,
    v: *const u8,
    y_stride: c_int,
    uv_stride: c_int,
    opaque: *mut c_void,
    put: *const c_void,
    setup: *const c_void,
    teardown: *const c_void,
    fancy_upsampling: c_int,
    data_size: usize,
    data: *const u8,
    bypass_filtering: c_int,
    use_cropping: c_int,
    crop_left: c_int,
    crop_right: c_int,
    crop_top: c_int,
    crop_bottom: c_int,
    use_scaling: c_int,
    scaled_width: c_int,
    scaled_height: c_int,
    a: *const u8,
    _slack: [u64; 16],
}

#[repr(C)]
struct VP8LBitReader {
    val: u64,
    buf: *const u8,
    len: usize,
    pos: usize,
    bit_pos: c_int,
    eos: c_int,
}

/// prefix of `struct VP8LDecoder` (vp8li_dec.h)
#[repr(C)]
struct VP8LDecoderHead {
    status: c_int,
    state: c_int,
    io: *mut VP8Io,
    output: *const c_void,
    pixels: *mut u32,
    argb_cache: *mut u32,
    br: VP8LBitReader,
}

extern "C" {
    fn VP8LNew() -> *mut VP8LDecoderHead;
    fn VP8LDelete(dec: *mut VP8LDecoderHead);
    fn VP8LDecodeHeader(dec: *mut VP8LDecoderHead, io: *mut VP8Io) -> c_int;
}

fn vp8l_header(wd: u32, ht: u32) -> [u8; 5] {
    let v: u32 = (wd - 1) | ((ht - 1) << 14);
    [0x2f, v as u8, (v >> 8) as u8, (v >> 16) as u8, (v >> 24) as u8]
}

/// libwebp's header phase on header(w,h) ++ body
fn reference_header(wd: u32, ht: u32, body: &[u8]) -> String {
    let mut data = vp8l_header(wd, ht).to_vec();
    data.extend_from_slice(body);
    unsafe {
        let dec = VP8LNew();
        if dec.is_null() {
            return "oom".into();
        }
        let mut io: VP8Io = std::mem::zeroed();
        io.data = data.as_ptr();
        io.data_size = data.len();
        let ok = VP8LDecodeHeader(dec, &mut io);
        let r = if ok != 0 {
            let br = &(*dec).br;
            let window = br.len.min(8);
            let consumed = 8 * (br.pos as i64 - window as i64) + br.bit_pos as i64;
            if br.eos != 0 || consumed > 8 * br.len as i64 {
                "reject".to_string()
            } else if io.width != wd as c_int || io.height != ht as c_int {
                "bad-dims".to_string()
            } else {
                "accept".to_string()
            }
        } else {
            let st = (*dec).status;
            if st == 1 {
                "oom".to_string()
            } else {
                "reject".to_string()
            }
        };
        VP8LDelete(dec);
        r
    }
}

// ---------------------------------------------------------------------------------------------- webpsan
fn err_name(e: &Error) -> String {
    match e {
        Error::Io(e) => format!("err:io:{:?}", e.kind()),
        Error::Parse(r) => {
            let k = match r.get_ref() {
                ParseError::InvalidChunkLayout => "InvalidChunkLayout",
                ParseError::InvalidInput => "InvalidInput",
                ParseError::InvalidVp8lPrefixCode => "InvalidVp8lPrefixCode",
                ParseError::MissingRequiredChunk(_) => "MissingRequiredChunk",
                ParseError::TruncatedChunk => "TruncatedChunk",
                ParseError::UnsupportedChunk(_) => "UnsupportedChunk",
                ParseError::UnsupportedVp8lVersion(_) => "UnsupportedVp8lVersion",
            };
            format!("err:{k}")
        }
    }
}

fn guarded(f: impl FnOnce() -> String) -> String {
    match std::panic::catch_unwind(std::panic::AssertUnwindSafe(f)) {
        Ok(s) => s,
        Err(_) => "panic".into(),
    }
}

fn impl_lossless(wd: u32, ht: u32, body: &[u8]) -> String {
    guarded(|| {
        let (Some(wd), Some(ht)) = (NonZeroU32::new(wd), NonZeroU32::new(ht)) else {
            return "na".into();
        };
        let mut rd = BitBufReader::<_, LE>::with_capacity(body, 4096);
        match LosslessImage::read(&mut rd, wd, ht) {
            Ok(_) => "ok".into(),
            Err(e) => err_name(&e),
        }
    })
}

fn chunk(name: &[u8; 4], body: &[u8]) -> Vec<u8> {
    let mut v = name.to_vec();
    v.extend_from_slice(&(body.len() as u32).to_le_bytes());
    v.extend_from_slice(body);
    if body.len() % 2 == 1 {
        v.push(0);
    }
    v
}

fn riff(chunks: &[Vec<u8>]) -> Vec<u8> {
    let total: usize = chunks.iter().map(|c| c.len()).sum();
    let mut v = b"RIFF".to_vec();
    v.extend_from_slice(&((total + 4) as u32).to_le_bytes());
    v.extend_from_slice(b"WEBP");
    for c in chunks {
        v.extend_from_slice(c);
    }
    v
}

fn sanitize_bytes(file: &[u8]) -> String {
    let file = file.to_vec();
    guarded(move || match webpsan::sanitize(Cursor::new(file)) {
        Ok(()) => "ok".into(),
        Err(e) => err_name(&e),
    })
}

fn vp8l_case(args: &[&str]) -> String {
    let wd: u32 = args[0].parse().unwrap();
    let ht: u32 = args[1].parse().unwrap();
    let body = common::unhex(args[2]);
    let i = impl_lossless(wd, ht, &body);
    let (s, r) = if (1..=16384).contains(&wd) && (1..=16384).contains(&ht) {
        let mut payload = vp8l_header(wd, ht).to_vec();
        payload.extend_from_slice(&body);
        let file = riff(&[chunk(b"VP8L", &payload)]);
        (sanitize_bytes(&file), reference_header(wd, ht, &body))
    } else {
        ("na".to_string(), "na".to_string())
    };
    format!("impl={i} san={s} ref={r}")
}

/// (name, offset of the body, body length) of the top-level chunks of a RIFF/WEBP file
fn top_chunks(file: &[u8]) -> Vec<([u8; 4], usize, usize)> {
    let mut out = vec![];
    let mut p = 12;
    while p + 8 <= file.len() {
        let n = u32::from_le_bytes(file[p + 4..p + 8].try_into().unwrap()) as usize;
        let mut name = [0u8; 4];
        name.copy_from_slice(&file[p..p + 4]);
        if p + 8 + n > file.len() {
            break;
        }
        out.push((name, p + 8, n));
        p += 8 + n + (n & 1);
    }
    out
}

fn alphfile(args: &[&str]) -> String {
    let file = common::unhex(args[0]);
    let payload = common::unhex(args[1]);
    let mut chunks = vec![];
    for (name, off, n) in top_chunks(&file) {
        if &name == b"ALPH" {
            let mut b = vec![0x01u8];
            b.extend_from_slice(&payload);
            chunks.push(chunk(&name, &b));
        } else {
            chunks.push(chunk(&name, &file[off..off + n]));
        }
    }
    format!("san={}", sanitize_bytes(&riff(&chunks)))
}

// ---------------------------------------------------------------------------------------------- libwebp whole-file decode
fn libwebp_decode(file: &[u8]) -> String {
    unsafe {
        let mut feat: w::WebPBitstreamFeatures = std::mem::zeroed();
        let st = w::WebPGetFeatures(file.as_ptr(), file.len(), &mut feat);
        if st != w::VP8StatusCode::VP8_STATUS_OK {
            return "reject".into();
        }
        if feat.has_animation != 0 {
            let mut opt: w::WebPAnimDecoderOptions = std::mem::zeroed();
            if w::WebPAnimDecoderOptionsInit(&mut opt) == 0 {
                return "reject".into();
            }
            let data = w::WebPData { bytes: file.as_ptr(), size: file.len() };
            let dec = w::WebPAnimDecoderNew(&data, &opt);
            if dec.is_null() {
                return "reject".into();
            }
            let mut ok = true;
            let mut frames = 0;
            while w::WebPAnimDecoderHasMoreFrames(dec) != 0 {
                let mut buf: *mut u8 = std::ptr::null_mut();
                let mut ts: c_int = 0;
                if w::WebPAnimDecoderGetNext(dec, &mut buf, &mut ts) == 0 {
                    ok = false;
                    break;
                }
                frames += 1;
            }
            w::WebPAnimDecoderDelete(dec);
            if ok && frames > 0 {
                "accept".into()
            } else {
                "reject".into()
            }
        } else {
            let mut wd: c_int = 0;
            let mut ht: c_int = 0;
            let p = w::WebPDecodeRGBA(file.as_ptr(), file.len(), &mut wd, &mut ht);
            if p.is_null() {
                "reject".into()
            } else {
                w::WebPFree(p as *mut c_void);
                "accept".into()
            }
        }
    }
}

fn sanitize_case(args: &[&str]) -> String {
    let file = common::unhex(args[0]);
    format!("san={} dec={}", sanitize_bytes(&file), libwebp_decode(&file))
}

// ---------------------------------------------------------------------------------------------- images
struct Rng(u64);
impl Rng {
    fn next(&mut self) -> u64 {
        let mut x = self.0;
        x ^= x << 13;
        x ^= x >> 7;
        x ^= x << 17;
        self.0 = x;
        x
    }
    fn below(&mut self, n: u64) -> u64 {
        self.next() % n.max(1)
    }
}

/// RGBA pixels. pattern: 0 noise, 1 gradient, 2 flat, 3 palette of `colors` colours (noise), 4 photo-like, 5 repeated tiles,
/// 6 palette of `colors` colours in runs.  alpha: 0 opaque, 1 noise, 2 gradient, 3 binary blobs, 4 few levels
fn image(wd: usize, ht: usize, pattern: u32, colors: u32, alpha: u32, seed: u64) -> Vec<u8> {
    let mut r = Rng(seed.wrapping_mul(0x9E3779B97F4A7C15) | 1);
    for _ in 0..4 {
        r.next();
    }
    let pal: Vec<[u8; 3]> = (0..colors.max(1)).map(|_| [r.next() as u8, r.next() as u8, r.next() as u8]).collect();
    let tile: Vec<[u8; 3]> = (0..64).map(|_| [r.next() as u8, r.next() as u8, r.next() as u8]).collect();
    let flat = [r.next() as u8, r.next() as u8, r.next() as u8];
    let mut run = (0usize, 0usize);
    let mut px = vec![0u8; wd * ht * 4];
    for y in 0..ht {
        for x in 0..wd {
            let rgb: [u8; 3] = match pattern {
                0 => [r.next() as u8, r.next() as u8, r.next() as u8],
                1 => [(x * 255 / wd.max(1)) as u8, (y * 255 / ht.max(1)) as u8, ((x + y) & 255) as u8],
                2 => flat,
                3 => pal[r.below(pal.len() as u64) as usize],
                4 => {
                    let fx = x as f64 / 17.0;
                    let fy = y as f64 / 23.0;
                    let n = (r.below(7) as i32) - 3;
                    let c = |v: f64| ((v * 100.0 + 128.0) as i32 + n).clamp(0, 255) as u8;
                    [c(fx.sin() * fy.cos()), c((fx + fy).sin()), c((fx * 0.5).cos())]
                }
                5 => tile[(x % 8) + 8 * (y % 8)],
                _ => {
                    if run.0 == 0 {
                        run = (1 + r.below(40) as usize, r.below(pal.len() as u64) as usize);
                    }
                    run.0 -= 1;
                    pal[run.1]
                }
            };
            let a: u8 = match alpha {
                0 => 255,
                1 => r.next() as u8,
                2 => (x * 255 / wd.max(1)) as u8,
                3 => {
                    if ((x / 5) + (y / 3)) % 2 == 0 {
                        255
                    } else {
                        0
                    }
                }
                _ => [0u8, 85, 170, 255][r.below(4) as usize],
            };
            let o = (y * wd + x) * 4;
            px[o] = rgb[0];
            px[o + 1] = rgb[1];
            px[o + 2] = rgb[2];
            px[o + 3] = a;
        }
    }
    px
}

struct EncCfg {
    lossless: bool,
    method: i32,
    quality: f32,
    near_lossless: i32,
    exact: i32,
    alpha_filtering: i32,
    alpha_quality: i32,
    alpha_compression: i32,
}

fn make_config(c: &EncCfg) -> Option<w::WebPConfig> {
    let mut cfg = w::WebPConfig::new().ok()?;
    cfg.lossless = c.lossless as c_int;
    cfg.method = c.method;
    cfg.quality = c.quality;
    cfg.near_lossless = c.near_lossless;
    cfg.exact = c.exact;
    cfg.alpha_filtering = c.alpha_filtering;
    cfg.alpha_quality = c.alpha_quality;
    cfg.alpha_compression = c.alpha_compression;
    unsafe {
        if w::WebPValidateConfig(&cfg) == 0 {
            return None;
        }
    }
    Some(cfg)
}

fn encode(wd: usize, ht: usize, rgba: &[u8], c: &EncCfg) -> Result<Vec<u8>, String> {
    unsafe {
        let cfg = make_config(c).ok_or("config")?;
        let mut pic = w::WebPPicture::new().map_err(|_| "picinit")?;
        pic.use_argb = 1;
        pic.width = wd as c_int;
        pic.height = ht as c_int;
        if w::WebPPictureImportRGBA(&mut pic, rgba.as_ptr(), (wd * 4) as c_int) == 0 {
            w::WebPPictureFree(&mut pic);
            return Err("import".into());
        }
        let mut wr: w::WebPMemoryWriter = std::mem::zeroed();
        w::WebPMemoryWriterInit(&mut wr);
        pic.writer = Some(w::WebPMemoryWrite);
        pic.custom_ptr = &mut wr as *mut _ as *mut c_void;
        let ok = w::WebPEncode(&cfg, &mut pic);
        let out = if ok != 0 {
            Ok(std::slice::from_raw_parts(wr.mem, wr.size).to_vec())
        } else {
            Err(format!("encode:{:?}", pic.error_code))
        };
        w::WebPPictureFree(&mut pic);
        w::WebPMemoryWriterClear(&mut wr);
        out
    }
}

fn p<T: std::str::FromStr>(s: &str) -> T
where
    T::Err: std::fmt::Debug,
{
    s.parse().unwrap()
}

/// enc <lossless> <w> <h> <method> <quality> <pattern> <colors> <alpha> <seed> <near_lossless> <exact> <afilter> <aquality> <acomp>
fn enc_case(a: &[&str]) -> String {
    let (wd, ht): (usize, usize) = (p(a[1]), p(a[2]));
    let c = EncCfg {
        lossless: a[0] == "1",
        method: p(a[3]),
        quality: p(a[4]),
        near_lossless: p(a[9]),
        exact: p(a[10]),
        alpha_filtering: p(a[11]),
        alpha_quality: p(a[12]),
        alpha_compression: p(a[13]),
    };
    let rgba = image(wd, ht, p(a[5]), p(a[6]), p(a[7]), p(a[8]));
    match encode(wd, ht, &rgba, &c) {
        Ok(f) => format!("hex {}", common::hex(&f)),
        Err(e) => format!("fail {e}"),
    }
}

/// anim <cw> <ch> <frames> <lossless> <pattern> <alpha> <seed> <minimize_size> <allow_mixed> <method>
/// frames differ from the first one in a small rectangle, so the encoder emits frames smaller than the canvas
fn anim_case(a: &[&str]) -> String {
    let (cw, ch, n): (usize, usize, usize) = (p(a[0]), p(a[1]), p(a[2]));
    let lossless = a[3] == "1";
    let (pattern, alpha, seed): (u32, u32, u64) = (p(a[4]), p(a[5]), p(a[6]));
    unsafe {
        let mut opt: w::WebPAnimEncoderOptions = std::mem::zeroed();
        if w::WebPAnimEncoderOptionsInitInternal(&mut opt, w::WebPGetMuxABIVersion()) == 0 {
            return "fail optinit".into();
        }
        opt.minimize_size = p(a[7]);
        opt.allow_mixed = p(a[8]);
        let enc = w::WebPAnimEncoderNewInternal(cw as c_int, ch as c_int, &opt, w::WebPGetMuxABIVersion());
        if enc.is_null() {
            return "fail new".into();
        }
        let c = EncCfg {
            lossless,
            method: p(a[9]),
            quality: 75.0,
            near_lossless: 100,
            exact: 0,
            alpha_filtering: 1,
            alpha_quality: 100,
            alpha_compression: 1,
        };
        let Some(cfg) = make_config(&c) else { return "fail config".into() };
        let base = image(cw, ch, pattern, 8, alpha, seed);
        let mut r = Rng(seed ^ 0xABCDEF);
        let mut ok = true;
        for i in 0..n {
            let mut fr = base.clone();
            if i > 0 {
                let rw = 1 + r.below((cw as u64 / 2).max(1)) as usize;
                let rh = 1 + r.below((ch as u64 / 2).max(1)) as usize;
                let x0 = r.below((cw - rw + 1) as u64) as usize;
                let y0 = r.below((ch - rh + 1) as u64) as usize;
                for y in y0..y0 + rh {
                    for x in x0..x0 + rw {
                        let o = (y * cw + x) * 4;
                        fr[o] = r.next() as u8;
                        fr[o + 1] = r.next() as u8;
                        fr[o + 2] = (i * 40) as u8;
                        // frames smaller than the canvas with their own alpha plane (lossy frames then carry an ALPH chunk
                        // whose lossless stream is sized by the FRAME): smooth ramps so that the alpha encoder uses transforms
                        fr[o + 3] = match alpha {
                            0 => 255,
                            3 => r.next() as u8,
                            _ => (((x - x0) * 9 + (y - y0) * 5 + i * 31) % 256) as u8,
                        };
                    }
                }
            }
            let mut pic = w::WebPPicture::new().unwrap();
            pic.use_argb = 1;
            pic.width = cw as c_int;
            pic.height = ch as c_int;
            if w::WebPPictureImportRGBA(&mut pic, fr.as_ptr(), (cw * 4) as c_int) == 0 {
                ok = false;
            } else if w::WebPAnimEncoderAdd(enc, &mut pic, (i * 100) as c_int, &cfg) == 0 {
                ok = false;
            }
            w::WebPPictureFree(&mut pic);
            if !ok {
                break;
            }
        }
        let mut out = w::WebPData::default();
        if ok && w::WebPAnimEncoderAdd(enc, std::ptr::null_mut(), (n * 100) as c_int, std::ptr::null()) == 0 {
            ok = false;
        }
        if ok && w::WebPAnimEncoderAssemble(enc, &mut out) == 0 {
            ok = false;
        }
        let res = if ok {
            format!("hex {}", common::hex(std::slice::from_raw_parts(out.bytes, out.size)))
        } else {
            "fail anim".into()
        };
        w::WebPDataClear(&mut out);
        w::WebPAnimEncoderDelete(enc);
        res
    }
}

unsafe fn set_chunk(mux: *mut w::WebPMux, name: &str, data: &[u8]) -> bool {
    let cname = CString::new(name).unwrap();
    let d = w::WebPData { bytes: data.as_ptr(), size: data.len() };
    w::WebPMuxSetChunk(mux, cname.as_ptr(), &d, 1) == w::WebPMuxError::WEBP_MUX_OK
}

fn blob(r: &mut Rng, n: usize) -> Vec<u8> {
    (0..n).map(|_| r.next() as u8).collect()
}

/// mux <lossless> <w> <h> <pattern> <alpha> <seed> <icc len> <exif len> <xmp len> <method>
fn mux_case(a: &[&str]) -> String {
    let (wd, ht): (usize, usize) = (p(a[1]), p(a[2]));
    let c = EncCfg {
        lossless: a[0] == "1",
        method: p(a[9]),
        quality: 80.0,
        near_lossless: 100,
        exact: 0,
        alpha_filtering: 1,
        alpha_quality: 100,
        alpha_compression: 1,
    };
    let seed: u64 = p(a[5]);
    let rgba = image(wd, ht, p(a[3]), 6, p(a[4]), seed);
    let img = match encode(wd, ht, &rgba, &c) {
        Ok(f) => f,
        Err(e) => return format!("fail {e}"),
    };
    let mut r = Rng(seed ^ 0x1234567);
    unsafe {
        let mux = w::WebPMuxNew();
        if mux.is_null() {
            return "fail muxnew".into();
        }
        let d = w::WebPData { bytes: img.as_ptr(), size: img.len() };
        let mut ok = w::WebPMuxSetImage(mux, &d, 1) == w::WebPMuxError::WEBP_MUX_OK;
        let (icc, exif, xmp): (usize, usize, usize) = (p(a[6]), p(a[7]), p(a[8]));
        if ok && icc > 0 {
            ok = set_chunk(mux, "ICCP", &blob(&mut r, icc));
        }
        if ok && exif > 0 {
            ok = set_chunk(mux, "EXIF", &blob(&mut r, exif));
        }
        if ok && xmp > 0 {
            ok = set_chunk(mux, "XMP ", &blob(&mut r, xmp));
        }
        let mut out = w::WebPData::default();
        if ok {
            ok = w::WebPMuxAssemble(mux, &mut out) == w::WebPMuxError::WEBP_MUX_OK;
        }
        let res = if ok {
            format!("hex {}", common::hex(std::slice::from_raw_parts(out.bytes, out.size)))
        } else {
            "fail mux".into()
        };
        w::WebPDataClear(&mut out);
        w::WebPMuxDelete(mux);
        res
    }
}

/// muxanim <cw> <ch> <frames> <lossless> <alpha> <seed> <exif len>: frames encoded separately, each smaller than the canvas,
/// pushed at even offsets
fn muxanim_case(a: &[&str]) -> String {
    let (cw, ch, n): (usize, usize, usize) = (p(a[0]), p(a[1]), p(a[2]));
    let lossless = a[3] == "1";
    let alpha: u32 = p(a[4]);
    let seed: u64 = p(a[5]);
    let exif: usize = p(a[6]);
    let mut r = Rng(seed ^ 0x777);
    let c = EncCfg {
        lossless,
        method: 3,
        quality: 70.0,
        near_lossless: 100,
        exact: 0,
        alpha_filtering: 1,
        alpha_quality: 100,
        alpha_compression: 1,
    };
    unsafe {
        let mux = w::WebPMuxNew();
        if mux.is_null() {
            return "fail muxnew".into();
        }
        let mut ok = true;
        for i in 0..n {
            let fw = 1 + r.below(cw as u64) as usize;
            let fh = 1 + r.below(ch as u64) as usize;
            let x0 = 2 * (r.below(((cw - fw) / 2 + 1) as u64) as usize);
            let y0 = 2 * (r.below(((ch - fh) / 2 + 1) as u64) as usize);
            let rgba = image(fw, fh, (i % 6) as u32, 5, alpha, seed + i as u64);
            let Ok(img) = encode(fw, fh, &rgba, &c) else {
                ok = false;
                break;
            };
            let info = w::WebPMuxFrameInfo {
                bitstream: w::WebPData { bytes: img.as_ptr(), size: img.len() },
                x_offset: x0 as c_int,
                y_offset: y0 as c_int,
                duration: 50,
                id: w::WebPChunkId::WEBP_CHUNK_ANMF,
                dispose_method: if i % 2 == 0 {
                    w::WebPMuxAnimDispose::WEBP_MUX_DISPOSE_NONE
                } else {
                    w::WebPMuxAnimDispose::WEBP_MUX_DISPOSE_BACKGROUND
                },
                blend_method: if i % 3 == 0 { w::WebPMuxAnimBlend::WEBP_MUX_BLEND } else { w::WebPMuxAnimBlend::WEBP_MUX_NO_BLEND },
                pad: [0],
            };
            if w::WebPMuxPushFrame(mux, &info, 1) != w::WebPMuxError::WEBP_MUX_OK {
                ok = false;
                break;
            }
        }
        if ok {
            let prm = w::WebPMuxAnimParams { bgcolor: 0xff00ff00, loop_count: 2 };
            ok = w::WebPMuxSetAnimationParams(mux, &prm) == w::WebPMuxError::WEBP_MUX_OK
                && w::WebPMuxSetCanvasSize(mux, cw as c_int, ch as c_int) == w::WebPMuxError::WEBP_MUX_OK;
        }
        if ok && exif > 0 {
            ok = set_chunk(mux, "EXIF", &blob(&mut r, exif));
        }
        let mut out = w::WebPData::default();
        if ok {
            ok = w::WebPMuxAssemble(mux, &mut out) == w::WebPMuxError::WEBP_MUX_OK;
        }
        let res = if ok {
            format!("hex {}", common::hex(std::slice::from_raw_parts(out.bytes, out.size)))
        } else {
            "fail muxanim".into()
        };
        w::WebPDataClear(&mut out);
        w::WebPMuxDelete(mux);
        res
    }
}

fn main() {
    common::main_loop(|kind, args| match kind {
        "vp8l" => vp8l_case(args),
        "alphfile" => alphfile(args),
        "sanitize" => sanitize_case(args),
        "enc" => enc_case(args),
        "anim" => anim_case(args),
        "mux" => mux_case(args),
        "muxanim" => muxanim_case(args),
        _ => format!("unknown-kind {kind}"),
    });
}
