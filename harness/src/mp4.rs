//! mp4 area: runs the real mp4san sanitizer on case lines
//!   mp4 <reader> <max> <cum|-> <len> <off:hex,...|->
#[path = "common.rs"]
mod common;
#[path = "lib_readers.rs"]
mod lib_readers;

use lib_readers::{io_kind, Sparse};
use mp4san::parse::{BoxType, ParseError};
use mp4san::{Config, Error, SanitizedMetadata};

fn show_type(t: &BoxType) -> String {
    match t {
        BoxType::FourCC(f) => common::hex(&f.value),
        BoxType::Uuid(u) => common::hex(&u.value),
    }
}

pub fn show_md(md: &[u8]) -> String {
    let mut n = md.len();
    while n > 0 && md[n - 1] == 0 {
        n -= 1;
    }
    format!("{}z{}", common::hex(&md[..n]), md.len() - n)
}

pub fn show(r: Result<SanitizedMetadata, Error>) -> String {
    match r {
        Ok(s) => match s.metadata {
            None => format!("ok none {} {}", s.data.offset, s.data.len),
            Some(md) => format!("ok some {} {} {}", show_md(&md), s.data.offset, s.data.len),
        },
        Err(Error::Io(e)) => format!("err io {}", io_kind(e.kind())),
        Err(Error::Parse(rep)) => {
            let k = match rep.get_ref() {
                ParseError::InvalidBoxLayout => "InvalidBoxLayout".to_string(),
                ParseError::InvalidInput => "InvalidInput".to_string(),
                ParseError::MissingRequiredBox(t) => format!("MissingRequiredBox:{}", show_type(t)),
                ParseError::TruncatedBox => "TruncatedBox".to_string(),
                ParseError::UnsupportedBox(t) => format!("UnsupportedBox:{}", show_type(t)),
                ParseError::UnsupportedBoxLayout => "UnsupportedBoxLayout".to_string(),
                ParseError::UnsupportedFormat(f) => format!("UnsupportedFormat:{}", common::hex(&f.value)),
            };
            format!("err parse {k}")
        }
    }
}

pub fn config(mx: &str, cum: &str) -> Config {
    let mut b = Config::builder();
    b.max_metadata_size(mx.parse::<u64>().unwrap());
    if cum != "-" {
        b.cumulative_mdat_box_size(Some(cum.parse::<u32>().unwrap()));
    }
    b.build()
}

fn run_mp4(args: &[&str]) -> String {
    let (rd, mx, cum, len, exts) = (args[0], args[1], args[2], args[3], args[4]);
    let len: u64 = len.parse().unwrap();
    let exts = Sparse::parse_exts(exts);
    let cfg = config(mx, cum);
    match rd {
        "strict" => show(mp4san::sanitize_with_config(Sparse::new(len, exts, true), cfg)),
        "lenient" => show(mp4san::sanitize_with_config(Sparse::new(len, exts, false), cfg)),
        "vseek" => show(mp4san::sanitize_with_config(mp4san::SeekSkipAdapter(lib_readers::SparseSeek(Sparse::new(len, exts, false))), cfg)),
        "cursor" => {
            let v = Sparse::new(len, exts, false).dense();
            show(mp4san::sanitize_with_config(std::io::Cursor::new(v), cfg))
        }
        _ => format!("unknown-reader {rd}"),
    }
}

fn main() {
    common::main_loop(|kind, args| match kind {
        "mp4" => run_mp4(args),
        _ => format!("unknown-kind {kind}"),
    });
}
