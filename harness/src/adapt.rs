//! Area "adapt" (C15, C12): the REAL Skip / AsyncSkip adapters of mediasan-common, std::io::{Cursor, BufReader},
//! futures_util::io::{Cursor, BufReader}, the forwarding impls, AsyncInputAdapter, and mp4san::sanitize_async
//! under a Pending-injecting AsyncSeek / AsyncSkip driven by a manual poll loop.
//!
//! Case lines
//!   hist  <stack> <caps|-> <hexdata|-> <op;op;...>            every return value of the history
//!   sched <stack> <op> <amount> <pos> <len> <bits> [<caps> [<prefill>]]
//!                                                             one operation under a Pending schedule:
//!                                                             value, raw cursor position, stream_position after, polls
//!   sanasync <base> <hexinput> <bits>                          mp4san::sanitize (sync, Cursor) vs sanitize_async under the schedule
//! ops: r<k> read into a k-byte buffer, x<k> read_exact, s<a> skip, p stream_position, l stream_len.
//! bits: string of 0/1 (1 = this primitive poll answers Pending), `-` = empty, or `@i,j,k` = Pending at those poll indices.
#[path = "common.rs"]
mod common;

use std::cell::RefCell;
use std::future::Future;
use std::io::{self, Read, Seek, SeekFrom};
use std::pin::{pin, Pin};
use std::rc::Rc;
use std::task::{Context, Poll};

use futures_util::io::{AsyncRead, AsyncReadExt, AsyncSeek};
use mediasan_common::{AsyncSkip, AsyncSkipExt, SeekSkipAdapter, Skip};

fn main() {
    common::main_loop(|kind, args| match kind {
        "hist" => hist(args),
        "histsweep" => histsweep(args),
        "cdr" => cdr(args),
        "sched" => sched(args),
        "sanasync" => sanasync(args),
        _ => format!("unknown-kind {kind}"),
    });
}

// ------------------------------------------------------------------------------------------------ ops

#[derive(Clone, Copy, Debug)]
enum Op {
    Read(usize),
    ReadExact(usize),
    Skip(u64),
    Pos,
    Len,
}

fn parse_op(s: &str) -> Op {
    match s.as_bytes()[0] {
        b'r' => Op::Read(s[1..].parse().unwrap()),
        b'x' => Op::ReadExact(s[1..].parse().unwrap()),
        b's' => Op::Skip(s[1..].parse().unwrap()),
        b'p' => Op::Pos,
        b'l' => Op::Len,
        _ => panic!("bad op"),
    }
}

fn parse_ops(s: &str) -> Vec<Op> {
    if s == "-" {
        return vec![];
    }
    s.split(';').filter(|x| !x.is_empty()).map(parse_op).collect()
}

fn kind(e: &io::Error) -> &'static str {
    match e.kind() {
        io::ErrorKind::UnexpectedEof => "UnexpectedEof",
        io::ErrorKind::InvalidInput => "InvalidInput",
        io::ErrorKind::InvalidData => "InvalidData",
        io::ErrorKind::Interrupted => "Interrupted",
        io::ErrorKind::WouldBlock => "WouldBlock",
        io::ErrorKind::TimedOut => "TimedOut",
        io::ErrorKind::PermissionDenied => "PermissionDenied",
        _ => "Other",
    }
}

fn fmt_bytes(b: &[u8]) -> String {
    if b.is_empty() {
        "b:-".into()
    } else {
        format!("b:{}", common::hex(b))
    }
}
fn fmt_read(r: io::Result<usize>, buf: &[u8]) -> String {
    match r {
        Ok(n) => fmt_bytes(&buf[..n]),
        Err(e) => format!("e:{}", kind(&e)),
    }
}
fn fmt_exact(r: io::Result<()>, buf: &[u8]) -> String {
    match r {
        Ok(()) => fmt_bytes(buf),
        Err(e) => format!("e:{}", kind(&e)),
    }
}
fn fmt_unit(r: io::Result<()>) -> String {
    match r {
        Ok(()) => "u".into(),
        Err(e) => format!("e:{}", kind(&e)),
    }
}
fn fmt_num(r: io::Result<u64>) -> String {
    match r {
        Ok(n) => format!("n:{n}"),
        Err(e) => format!("e:{}", kind(&e)),
    }
}

fn sync_op<R: Read + Skip>(r: &mut R, op: Op) -> String {
    match op {
        Op::Read(k) => {
            let mut buf = vec![0u8; k];
            let res = r.read(&mut buf);
            fmt_read(res, &buf)
        }
        Op::ReadExact(k) => {
            let mut buf = vec![0u8; k];
            let res = r.read_exact(&mut buf);
            fmt_exact(res, &buf)
        }
        Op::Skip(a) => fmt_unit(r.skip(a)),
        Op::Pos => fmt_num(r.stream_position()),
        Op::Len => fmt_num(r.stream_len()),
    }
}

/// The executor: poll until Ready (the injected Pendings wake the task, so polling again is what an executor does).
fn drive<F: Future>(f: F) -> F::Output {
    let mut f = pin!(f);
    let waker = futures_util::task::noop_waker();
    let mut cx = Context::from_waker(&waker);
    let mut spins: u64 = 0;
    loop {
        if let Poll::Ready(v) = f.as_mut().poll(&mut cx) {
            return v;
        }
        spins += 1;
        assert!(spins < 10_000_000, "poll loop does not terminate");
    }
}

async fn async_op<R: AsyncRead + AsyncSkip + Unpin>(r: &mut R, op: Op) -> String {
    match op {
        Op::Read(k) => {
            let mut buf = vec![0u8; k];
            let res = r.read(&mut buf).await;
            fmt_read(res, &buf)
        }
        Op::ReadExact(k) => {
            let mut buf = vec![0u8; k];
            let res = r.read_exact(&mut buf).await;
            fmt_exact(res, &buf)
        }
        Op::Skip(a) => fmt_unit(r.skip(a).await),
        Op::Pos => fmt_num(r.stream_position().await),
        Op::Len => fmt_num(r.stream_len().await),
    }
}

// ------------------------------------------------------------------------------------------------ jobs over a stack

trait SyncJob {
    fn run<R: Read + Skip + Unpin>(self, r: R) -> String;
}
trait AsyncJob {
    fn run<R: AsyncRead + AsyncSkip + Unpin>(self, r: R) -> String;
}

trait RS: Read + Skip {}
impl<T: Read + Skip> RS for T {}
trait ARS: AsyncRead + AsyncSkip {}
impl<T: AsyncRead + AsyncSkip> ARS for T {}

type Caps<'a> = &'a mut dyn Iterator<Item = usize>;

/// wrappers over a Read + Skip base; `B` is the base
fn sync_layers<B: Read + Skip + Unpin, J: SyncJob>(layers: &str, mut b: B, c: Caps, job: J) -> String {
    use std::io::BufReader as Buf;
    macro_rules! cap {
        () => {
            c.next().expect("missing capacity")
        };
    }
    match layers {
        "B" => job.run(b),
        "buf(B)" => job.run(Buf::with_capacity(cap!(), b)),
        "box(B)" => job.run(Box::new(b)),
        "mut(B)" => job.run(&mut b),
        "dynbox(B)" => job.run(Box::new(b) as Box<dyn RS + '_>),
        "buf(buf(B))" => job.run(Buf::with_capacity(cap!(), Buf::with_capacity(cap!(), b))),
        "buf(box(B))" => job.run(Buf::with_capacity(cap!(), Box::new(b))),
        "box(buf(B))" => job.run(Box::new(Buf::with_capacity(cap!(), b))),
        "buf(mut(B))" => job.run(Buf::with_capacity(cap!(), &mut b)),
        "mut(buf(B))" => job.run(&mut Buf::with_capacity(cap!(), b)),
        "buf(dynbox(B))" => job.run(Buf::with_capacity(cap!(), Box::new(b) as Box<dyn RS + '_>)),
        "dynbox(buf(B))" => job.run(Box::new(Buf::with_capacity(cap!(), b)) as Box<dyn RS + '_>),
        "box(box(B))" => job.run(Box::new(Box::new(b))),
        "mut(mut(B))" => job.run(&mut &mut b),
        "buf(buf(buf(B)))" => {
            job.run(Buf::with_capacity(cap!(), Buf::with_capacity(cap!(), Buf::with_capacity(cap!(), b))))
        }
        "buf(box(buf(B)))" => job.run(Buf::with_capacity(cap!(), Box::new(Buf::with_capacity(cap!(), b)))),
        "mut(box(buf(B)))" => job.run(&mut Box::new(Buf::with_capacity(cap!(), b))),
        _ => "unknown-stack".into(),
    }
}

/// wrappers over an AsyncRead + AsyncSkip base
fn async_layers<B: AsyncRead + AsyncSkip + Unpin, J: AsyncJob>(layers: &str, mut b: B, c: Caps, job: J) -> String {
    use futures_util::io::BufReader as FBuf;
    macro_rules! cap {
        () => {
            c.next().expect("missing capacity")
        };
    }
    match layers {
        "B" => job.run(b),
        "fbuf(B)" => job.run(FBuf::with_capacity(cap!(), b)),
        "box(B)" => job.run(Box::new(b)),
        "mut(B)" => job.run(&mut b),
        "pin(B)" => job.run(Box::pin(b)),
        "pinmut(B)" => job.run(Pin::new(&mut b)),
        "dynbox(B)" => job.run(Box::new(b) as Box<dyn ARS + Unpin + '_>),
        "fbuf(fbuf(B))" => job.run(FBuf::with_capacity(cap!(), FBuf::with_capacity(cap!(), b))),
        "fbuf(box(B))" => job.run(FBuf::with_capacity(cap!(), Box::new(b))),
        "box(fbuf(B))" => job.run(Box::new(FBuf::with_capacity(cap!(), b))),
        "fbuf(pin(B))" => job.run(FBuf::with_capacity(cap!(), Box::pin(b))),
        "pin(fbuf(B))" => job.run(Box::pin(FBuf::with_capacity(cap!(), b))),
        "fbuf(mut(B))" => job.run(FBuf::with_capacity(cap!(), &mut b)),
        "mut(fbuf(B))" => job.run(&mut FBuf::with_capacity(cap!(), b)),
        "fbuf(dynbox(B))" => job.run(FBuf::with_capacity(cap!(), Box::new(b) as Box<dyn ARS + Unpin + '_>)),
        "dynbox(fbuf(B))" => job.run(Box::new(FBuf::with_capacity(cap!(), b)) as Box<dyn ARS + Unpin + '_>),
        "pin(pin(B))" => job.run(Box::pin(Box::pin(b))),
        "fbuf(fbuf(fbuf(B)))" => {
            job.run(FBuf::with_capacity(cap!(), FBuf::with_capacity(cap!(), FBuf::with_capacity(cap!(), b))))
        }
        "pin(box(fbuf(B)))" => job.run(Box::pin(Box::new(FBuf::with_capacity(cap!(), b)))),
        _ => "unknown-stack".into(),
    }
}

/// split `stack` = L1(L2(..(BASE)..)) into ("L1(L2(..(B)..))", BASE); `bases` lists longer names first
fn split_base<'a>(stack: &str, bases: &[&'a str]) -> Option<(String, &'a str)> {
    for base in bases {
        let Some(i) = stack.find(base) else { continue };
        let prefix = &stack[..i];
        let depth = prefix.matches('(').count();
        if stack[i + base.len()..] == ")".repeat(depth) && (prefix.is_empty() || prefix.ends_with('(')) {
            return Some((format!("{prefix}B{}", ")".repeat(depth)), base));
        }
    }
    None
}

const SYNC_BASES: &[&str] = &["seek(mut(cursor))", "seek(box(cursor))", "seek(cursor)", "seek(vcur)", "vcur", "cursor"];

fn sync_stack<J: SyncJob>(stack: &str, data: Vec<u8>, pos: u64, c: Caps, job: J) -> String {
    let Some((layers, base)) = split_base(stack, SYNC_BASES) else {
        return "unknown-stack".into();
    };
    let mut cur = io::Cursor::new(data);
    cur.set_position(pos);
    match base {
        "cursor" => sync_layers(&layers, cur, c, job),
        "seek(cursor)" => sync_layers(&layers, SeekSkipAdapter(cur), c, job),
        "seek(mut(cursor))" => sync_layers(&layers, SeekSkipAdapter(&mut cur), c, job),
        "seek(box(cursor))" => sync_layers(&layers, SeekSkipAdapter(Box::new(cur)), c, job),
        "vcur" => sync_layers(&layers, VCur::current(), c, job),
        "seek(vcur)" => sync_layers(&layers, SeekSkipAdapter(VCur::current()), c, job),
        _ => "unknown-stack".into(),
    }
}

const ASYNC_BASES: &[&str] = &["seek(mut(fcursor))", "seek(fcursor)", "fcursor", "seek(pc)", "native", "seek(avcur)"];

/// an async stack: layers over fcursor | seek(fcursor) | seek(pc) | native | ain(<sync stack>)
fn async_stack<J: AsyncJob>(stack: &str, data: Vec<u8>, pos: u64, sh: &Rc<RefCell<Shared>>, c: Caps, job: J) -> String {
    if let Some(i) = stack.find("ain(") {
        // layers( ain( <sync stack> ) )
        let outer = &stack[..i];
        let depth = outer.matches('(').count();
        let inner = &stack[i + 4..stack.len() - depth - 1];
        let mut layers = String::from(outer);
        layers.push('B');
        layers.push_str(&stack[stack.len() - depth..]);
        // capacities are listed outermost first: the async layers take theirs first
        let n_outer = outer.matches("fbuf(").count();
        let all: Vec<usize> = c.collect();
        let (co, ci) = all.split_at(n_outer.min(all.len()));
        let (co, ci) = (co.to_vec(), ci.to_vec());
        struct ViaAin<J> {
            layers: String,
            caps: Vec<usize>,
            job: J,
        }
        impl<J: AsyncJob> SyncJob for ViaAin<J> {
            fn run<R: Read + Skip + Unpin>(self, r: R) -> String {
                let ViaAin { layers, caps, job } = self;
                // mediasan_common::sync::sanitize is the only constructor of AsyncInputAdapter
                mediasan_common::sync::sanitize(r, |a| async move {
                    let mut it = caps.into_iter();
                    async_layers(&layers, a, &mut it, job)
                })
            }
        }
        let mut it = ci.into_iter();
        return sync_stack(inner, data, pos, &mut it, ViaAin { layers, caps: co, job });
    }
    let Some((layers, base)) = split_base(stack, ASYNC_BASES) else {
        return "unknown-stack".into();
    };
    let mut std_cur = io::Cursor::new(data.clone());
    std_cur.set_position(pos);
    match base {
        "fcursor" | "seek(fcursor)" | "seek(mut(fcursor))" => {
            let mut cur = futures_util::io::Cursor::new(data);
            cur.set_position(pos);
            match base {
                "fcursor" => async_layers(&layers, cur, c, job),
                "seek(fcursor)" => async_layers(&layers, SeekSkipAdapter(cur), c, job),
                _ => async_layers(&layers, SeekSkipAdapter(&mut cur), c, job),
            }
        }
        "seek(pc)" => async_layers(&layers, SeekSkipAdapter(PendingCursor { cur: std_cur, sh: sh.clone() }), c, job),
        "native" => async_layers(&layers, PendingNative { cur: std_cur, sh: sh.clone() }, c, job),
        "seek(avcur)" => async_layers(&layers, SeekSkipAdapter(AVCur(VCur::current())), c, job),
        _ => "unknown-stack".into(),
    }
}

fn is_async_stack(stack: &str) -> bool {
    stack.contains("fcursor") || stack.contains("ain(") || stack.contains("pc)") || stack.contains("native") || stack.contains("avcur")
}

fn parse_caps(s: &str) -> Vec<usize> {
    if s == "-" {
        vec![]
    } else {
        s.split(',').map(|x| x.parse().unwrap()).collect()
    }
}

// ------------------------------------------------------------------------------------------------ sparse virtual stream

thread_local! {
    static VSPEC: RefCell<Option<(u64, Vec<(u64, Vec<u8>)>)>> = const { RefCell::new(None) };
}

/// Read + Seek over `len` virtual bytes (up to u64::MAX): extents of real bytes over a zero background; seek semantics
/// of std::io::Cursor (Start: any u64; Current/End: checked_add_signed, failure = InvalidInput). Lets a skip of more
/// than i64::MAX bytes stay within the stream.
struct VCur {
    len: u64,
    exts: Vec<(u64, Vec<u8>)>,
    pos: u64,
}

impl VCur {
    fn current() -> VCur {
        let (len, exts) = VSPEC.with(|v| v.borrow().clone()).expect("no sparse stream given");
        VCur { len, exts, pos: 0 }
    }
}

impl Read for VCur {
    fn read(&mut self, buf: &mut [u8]) -> io::Result<usize> {
        if self.pos >= self.len {
            return Ok(0);
        }
        let n = (buf.len() as u64).min(self.len - self.pos) as usize;
        for (i, b) in buf[..n].iter_mut().enumerate() {
            let off = self.pos + i as u64;
            *b = self.exts.iter().find(|(o, d)| off >= *o && off - *o < d.len() as u64).map_or(0, |(o, d)| d[(off - *o) as usize]);
        }
        self.pos += n as u64;
        Ok(n)
    }
}

impl Seek for VCur {
    fn seek(&mut self, style: SeekFrom) -> io::Result<u64> {
        let (base, offset) = match style {
            SeekFrom::Start(n) => {
                self.pos = n;
                return Ok(n);
            }
            SeekFrom::End(n) => (self.len, n),
            SeekFrom::Current(n) => (self.pos, n),
        };
        match base.checked_add_signed(offset) {
            Some(n) => {
                self.pos = n;
                Ok(n)
            }
            None => Err(io::Error::new(io::ErrorKind::InvalidInput, "invalid seek to a negative or overflowing position")),
        }
    }
    fn stream_position(&mut self) -> io::Result<u64> {
        Ok(self.pos)
    }
}

/// like mediasan's `skip_via_adapter!` (what `impl Skip for Cursor/File` do)
impl Skip for VCur {
    fn skip(&mut self, amount: u64) -> io::Result<()> {
        SeekSkipAdapter(self).skip(amount)
    }
    fn stream_position(&mut self) -> io::Result<u64> {
        SeekSkipAdapter(self).stream_position()
    }
    fn stream_len(&mut self) -> io::Result<u64> {
        SeekSkipAdapter(self).stream_len()
    }
}

struct AVCur(VCur);
impl AsyncRead for AVCur {
    fn poll_read(mut self: Pin<&mut Self>, _cx: &mut Context<'_>, buf: &mut [u8]) -> Poll<io::Result<usize>> {
        Poll::Ready(self.0.read(buf))
    }
}
impl AsyncSeek for AVCur {
    fn poll_seek(mut self: Pin<&mut Self>, _cx: &mut Context<'_>, pos: SeekFrom) -> Poll<io::Result<u64>> {
        Poll::Ready(self.0.seek(pos))
    }
}

// ------------------------------------------------------------------------------------------------ hist

struct HistSync(Vec<Op>);
impl SyncJob for HistSync {
    fn run<R: Read + Skip + Unpin>(self, mut r: R) -> String {
        let out: Vec<String> = self.0.iter().map(|&op| sync_op(&mut r, op)).collect();
        out.join(";")
    }
}
struct HistAsync(Vec<Op>);
impl AsyncJob for HistAsync {
    fn run<R: AsyncRead + AsyncSkip + Unpin>(self, mut r: R) -> String {
        let mut out = vec![];
        for &op in &self.0 {
            out.push(drive(async_op(&mut r, op)));
        }
        out.join(";")
    }
}

fn hist(args: &[&str]) -> String {
    let (stack, caps, ops) = (args[0], parse_caps(args[1]), parse_ops(args[3]));
    // data: hex, or V<len>@<off>:<hex>@<off>:<hex>... for the sparse virtual stream (bases vcur / avcur)
    let data = match args[2].strip_prefix('V') {
        Some(spec) => {
            let mut it = spec.split('@');
            let len: u64 = it.next().unwrap().parse().unwrap();
            let exts = it
                .map(|e| {
                    let (o, h) = e.split_once(':').unwrap();
                    (o.parse::<u64>().unwrap(), common::unhex(h))
                })
                .collect();
            VSPEC.with(|v| *v.borrow_mut() = Some((len, exts)));
            vec![]
        }
        None => common::unhex(args[2]),
    };
    let mut it = caps.into_iter();
    if is_async_stack(stack) {
        let sh = Rc::new(RefCell::new(Shared::default()));
        async_stack(stack, data, 0, &sh, &mut it, HistAsync(ops))
    } else {
        sync_stack(stack, data, 0, &mut it, HistSync(ops))
    }
}

/// cdr <depth> <stack> <caps|-> <hexdata> <ops>: webpsan's ChunkDataReader driven directly (hook `webpsan::verif_reader`).
/// A ChunkReader (its own std BufReader(8)) over the sync stack reads the chunk header at the start of the data; with depth 2
/// a child ChunkReader over that chunk's data reads a nested header; the history then runs on the (innermost) data reader.
#[cfg(verif_readerhook)]
struct CdrJob(usize, Vec<Op>);
#[cfg(verif_readerhook)]
impl SyncJob for CdrJob {
    fn run<R: Read + Skip + Unpin>(self, r: R) -> String {
        use mediasan_common::parse::FourCC;
        use webpsan::verif_reader::ChunkReader;
        let mut top = ChunkReader::new(r, FourCC::from_str("RIFF"));
        if top.read_any_header().is_err() {
            return "hdr-err".into();
        }
        if self.0 <= 1 {
            let mut d = top.data_reader();
            let out: Vec<String> = self.1.iter().map(|&op| sync_op(&mut d, op)).collect();
            return out.join(";");
        }
        let mut child = top.child_reader();
        if child.read_any_header().is_err() {
            return "hdr-err".into();
        }
        let mut d = child.data_reader();
        let out: Vec<String> = self.1.iter().map(|&op| sync_op(&mut d, op)).collect();
        out.join(";")
    }
}
#[cfg(verif_readerhook)]
fn cdr(args: &[&str]) -> String {
    let depth: usize = args[0].parse().unwrap();
    let (stack, caps, data, ops) = (args[1], parse_caps(args[2]), common::unhex(args[3]), parse_ops(args[4]));
    let mut it = caps.into_iter();
    sync_stack(stack, data, 0, &mut it, CdrJob(depth, ops))
}
#[cfg(not(verif_readerhook))]
fn cdr(_args: &[&str]) -> String {
    "no-hook".into()
}

/// Rust-side exhaustive sweep (search aid / thorough tier): every operation sequence of length 1..=depth over
/// r/x/s with amounts {0,1,2,c,c+1,b,b+1} (b = buffered after r1) and p, l, on `stack` with capacity c over an
/// n-byte stream, each answer checked against an ideal cursor written here (independent of the Coq model).
fn histsweep(args: &[&str]) -> String {
    let stack = args[0];
    let c: usize = args[1].parse().unwrap();
    let n: usize = args[2].parse().unwrap();
    let depth: usize = args[3].parse().unwrap();
    let data: Vec<u8> = (0..n).map(|i| ((17 * i + 3) % 256) as u8).collect();
    let b = c.min(n).saturating_sub(1);
    let mut amounts = vec![0, 1, 2, c, c + 1, b, b + 1];
    amounts.sort();
    amounts.dedup();
    let mut alphabet = vec![Op::Pos, Op::Len];
    for &a in &amounts {
        alphabet.push(Op::Read(a));
        alphabet.push(Op::ReadExact(a));
        alphabet.push(Op::Skip(a as u64));
    }
    let ncaps = stack.matches("buf(").count();
    let mut count: u64 = 0;
    let mut idx = vec![0usize; depth];
    for len in 1..=depth {
        idx.iter_mut().for_each(|x| *x = 0);
        loop {
            let ops: Vec<Op> = idx[..len].iter().map(|&i| alphabet[i]).collect();
            let caps = vec![c; ncaps];
            let mut it = caps.into_iter();
            let out = if is_async_stack(stack) {
                let sh = Rc::new(RefCell::new(Shared::default()));
                async_stack(stack, data.clone(), 0, &sh, &mut it, HistAsync(ops.clone()))
            } else {
                sync_stack(stack, data.clone(), 0, &mut it, HistSync(ops.clone()))
            };
            if let Err(why) = ideal_check(&data, &ops, &out) {
                return format!("mismatch {ops:?} -> {out}: {why}");
            }
            count += 1;
            // next index vector
            let mut k = len;
            loop {
                if k == 0 {
                    break;
                }
                k -= 1;
                idx[k] += 1;
                if idx[k] < alphabet.len() {
                    break;
                }
                idx[k] = 0;
                if k == 0 {
                    k = usize::MAX;
                    break;
                }
            }
            if k == usize::MAX {
                break;
            }
        }
    }
    format!("ok {count}")
}

/// the ideal forward-only cursor: nothing is claimed after the first operation that leaves the stream
fn ideal_check(data: &[u8], ops: &[Op], out: &str) -> Result<(), String> {
    let outs: Vec<&str> = out.split(';').collect();
    if outs.len() != ops.len() {
        return Err("answer count".into());
    }
    let (mut pos, n) = (0usize, data.len());
    for (op, r) in ops.iter().zip(outs) {
        match *op {
            Op::Read(k) => {
                let Some(h) = r.strip_prefix("b:") else { return Err(format!("read failed {r}")) };
                let got = if h == "-" { vec![] } else { common::unhex(h) };
                if got.len() > k || pos + got.len() > n || data[pos..pos + got.len()] != got[..] {
                    return Err(format!("wrong bytes at {pos}"));
                }
                if got.is_empty() != (k == 0 || pos >= n) {
                    return Err(format!("early or late end of stream at {pos}"));
                }
                pos += got.len();
            }
            Op::ReadExact(k) => {
                if pos + k > n {
                    return Ok(());
                }
                if r != fmt_bytes(&data[pos..pos + k]) {
                    return Err(format!("read_exact at {pos}"));
                }
                pos += k;
            }
            Op::Skip(a) => {
                if pos + a as usize > n {
                    return Ok(());
                }
                if r != "u" {
                    return Err(format!("skip at {pos}"));
                }
                pos += a as usize;
            }
            Op::Pos => {
                if r != format!("n:{pos}") {
                    return Err(format!("position {r} ideal {pos}"));
                }
            }
            Op::Len => {
                if r != format!("n:{n}") {
                    return Err(format!("length {r} ideal {n}"));
                }
            }
        }
    }
    Ok(())
}

// ------------------------------------------------------------------------------------------------ Pending injection

#[derive(Default)]
struct Shared {
    bits: Vec<bool>,
    idx: usize,
    enabled: bool,
    polls: u64,
    raw_pos: u64,
    /// the last Ready seek was End(0) (the second seek of poll_stream_len)
    after_end0: bool,
    /// a Start(_) seek was answered Pending right after a Ready End(0): the restoring seek of
    /// SeekSkipAdapter::poll_stream_len was suspended (finding D7)
    d7: bool,
}

impl Shared {
    /// one primitive poll: does it answer Pending?
    fn pending_now(&mut self) -> bool {
        if !self.enabled {
            return false;
        }
        self.polls += 1;
        let b = self.bits.get(self.idx).copied().unwrap_or(false);
        self.idx += 1;
        b
    }
}

fn parse_bits(s: &str) -> Vec<bool> {
    if s == "-" {
        return vec![];
    }
    if let Some(list) = s.strip_prefix('@') {
        let idx: Vec<usize> = list.split(',').filter(|x| !x.is_empty()).map(|x| x.parse().unwrap()).collect();
        let n = idx.iter().copied().max().map_or(0, |m| m + 1);
        let mut v = vec![false; n];
        for i in idx {
            v[i] = true;
        }
        return v;
    }
    s.bytes().map(|b| b == b'1').collect()
}

/// AsyncRead + AsyncSeek over std::io::Cursor; answers Pending (after waking the task, making no progress)
/// whenever the schedule says so.
struct PendingCursor {
    cur: io::Cursor<Vec<u8>>,
    sh: Rc<RefCell<Shared>>,
}

impl AsyncRead for PendingCursor {
    fn poll_read(mut self: Pin<&mut Self>, cx: &mut Context<'_>, buf: &mut [u8]) -> Poll<io::Result<usize>> {
        let sh = self.sh.clone();
        let mut sh = sh.borrow_mut();
        if sh.pending_now() {
            cx.waker().wake_by_ref();
            return Poll::Pending;
        }
        sh.after_end0 = false;
        let r = self.cur.read(buf);
        sh.raw_pos = self.cur.position();
        Poll::Ready(r)
    }
}

impl AsyncSeek for PendingCursor {
    fn poll_seek(mut self: Pin<&mut Self>, cx: &mut Context<'_>, pos: SeekFrom) -> Poll<io::Result<u64>> {
        let sh = self.sh.clone();
        let mut sh = sh.borrow_mut();
        if sh.pending_now() {
            if sh.after_end0 && matches!(pos, SeekFrom::Start(_)) {
                sh.d7 = true;
            }
            cx.waker().wake_by_ref();
            return Poll::Pending;
        }
        sh.after_end0 = matches!(pos, SeekFrom::End(0));
        let r = self.cur.seek(pos);
        sh.raw_pos = self.cur.position();
        Poll::Ready(r)
    }
}

/// AsyncRead + AsyncSkip in its own right (every operation is one primitive poll) over std Cursor + mediasan's Skip for Cursor
struct PendingNative {
    cur: io::Cursor<Vec<u8>>,
    sh: Rc<RefCell<Shared>>,
}

impl PendingNative {
    fn gate(&mut self, cx: &mut Context<'_>) -> bool {
        let mut sh = self.sh.borrow_mut();
        if sh.pending_now() {
            cx.waker().wake_by_ref();
            return true;
        }
        false
    }
    fn note(&mut self) {
        self.sh.borrow_mut().raw_pos = self.cur.position();
    }
}

impl AsyncRead for PendingNative {
    fn poll_read(mut self: Pin<&mut Self>, cx: &mut Context<'_>, buf: &mut [u8]) -> Poll<io::Result<usize>> {
        if self.gate(cx) {
            return Poll::Pending;
        }
        let r = self.cur.read(buf);
        self.note();
        Poll::Ready(r)
    }
}

impl AsyncSkip for PendingNative {
    fn poll_skip(mut self: Pin<&mut Self>, cx: &mut Context<'_>, amount: u64) -> Poll<io::Result<()>> {
        if self.gate(cx) {
            return Poll::Pending;
        }
        let r = Skip::skip(&mut self.cur, amount);
        self.note();
        Poll::Ready(r)
    }
    fn poll_stream_position(mut self: Pin<&mut Self>, cx: &mut Context<'_>) -> Poll<io::Result<u64>> {
        if self.gate(cx) {
            return Poll::Pending;
        }
        let r = Skip::stream_position(&mut self.cur);
        self.note();
        Poll::Ready(r)
    }
    fn poll_stream_len(mut self: Pin<&mut Self>, cx: &mut Context<'_>) -> Poll<io::Result<u64>> {
        if self.gate(cx) {
            return Poll::Pending;
        }
        let r = Skip::stream_len(&mut self.cur);
        self.note();
        Poll::Ready(r)
    }
}

// ------------------------------------------------------------------------------------------------ sched

struct SchedJob {
    op: Op,
    bits: Vec<bool>,
    prefill: usize,
    sh: Rc<RefCell<Shared>>,
}

impl AsyncJob for SchedJob {
    fn run<R: AsyncRead + AsyncSkip + Unpin>(self, mut r: R) -> String {
        let SchedJob { op, bits, prefill, sh } = self;
        if prefill > 0 {
            // fill the buffer of the outermost BufReader and consume `prefill` bytes of it, every poll Ready
            let mut b = vec![0u8; prefill];
            let _ = drive(r.read(&mut b));
        }
        {
            let mut s = sh.borrow_mut();
            s.bits = bits;
            s.idx = 0;
            s.polls = 0;
            s.enabled = true;
            s.after_end0 = false;
            s.d7 = false;
        }
        let val = drive(async_op(&mut r, op));
        sh.borrow_mut().enabled = false;
        let sp = drive(async_op(&mut r, Op::Pos));
        let s = sh.borrow();
        format!("{val} pos={} sp={sp} polls={}", s.raw_pos, s.polls)
    }
}

fn pattern(len: usize) -> Vec<u8> {
    (0..len).map(|i| (i % 251) as u8).collect()
}

fn sched(args: &[&str]) -> String {
    let stack = args[0];
    let amount = args[2];
    let op = match args[1] {
        "p" | "l" => parse_op(args[1]),
        o => parse_op(&format!("{o}{amount}")),
    };
    let pos: u64 = args[3].parse().unwrap();
    let len: usize = args[4].parse().unwrap();
    let bits = parse_bits(args[5]);
    let caps = args.get(6).map_or(vec![], |s| parse_caps(s));
    let prefill: usize = args.get(7).map_or(0, |s| s.parse().unwrap());
    let sh = Rc::new(RefCell::new(Shared { raw_pos: pos, ..Shared::default() }));
    let mut it = caps.into_iter();
    async_stack(stack, pattern(len), pos, &sh, &mut it, SchedJob { op, bits, prefill, sh: sh.clone() })
}

// ------------------------------------------------------------------------------------------------ sanitizer level

fn canon(r: Result<mp4san::SanitizedMetadata, mp4san::Error>) -> String {
    match r {
        Ok(m) => match m.metadata {
            None => format!("ok none {} {}", m.data.offset, m.data.len),
            Some(md) => format!("ok some {} {} {}", common::hex(&md), m.data.offset, m.data.len),
        },
        Err(mp4san::Error::Io(e)) => format!("err io {}", kind(&e)),
        Err(mp4san::Error::Parse(e)) => {
            let d = format!("{:?}", e.get_ref());
            let name: String = d.chars().take_while(|c| c.is_alphanumeric()).collect();
            format!("err parse {name}")
        }
    }
}

fn sanasync(args: &[&str]) -> String {
    let (base, data, bits) = (args[0], common::unhex(args[1]), parse_bits(args[2]));
    let sync = canon(mp4san::sanitize(io::Cursor::new(data.clone())));
    let sh = Rc::new(RefCell::new(Shared { bits, enabled: true, ..Shared::default() }));
    let cur = io::Cursor::new(data);
    let asy = match base {
        "seek(pc)" => canon(drive(mp4san::sanitize_async(SeekSkipAdapter(PendingCursor { cur, sh: sh.clone() })))),
        "native" => canon(drive(mp4san::sanitize_async(PendingNative { cur, sh: sh.clone() }))),
        "pin(seek(pc))" => {
            canon(drive(mp4san::sanitize_async(Box::pin(SeekSkipAdapter(PendingCursor { cur, sh: sh.clone() })))))
        }
        "box(native)" => canon(drive(mp4san::sanitize_async(Box::new(PendingNative { cur, sh: sh.clone() })))),
        _ => return "unknown-stack".into(),
    };
    let s = sh.borrow();
    format!("sync=[{sync}] async=[{asy}] polls={} d7={}", s.polls, s.d7 as u8)
}
