//! C20: mediasan_common::util::checked_add_signed for every instantiated width.
#[path = "common.rs"]
mod common;
use mediasan_common::util::checked_add_signed;

fn main() {
    common::main_loop(|kind, args| match kind {
        "add" => run(args),
        "addsweep" => sweep(args),
        _ => format!("unknown-kind {kind}"),
    });
}

fn fmt<T: std::fmt::Display>(r: Option<T>) -> String {
    match r {
        Some(v) => format!("some {v}"),
        None => "none".into(),
    }
}

pub fn run(args: &[&str]) -> String {
    let (w, x, y) = (args[0], args[1], args[2]);
    macro_rules! go {
        ($u:ty, $i:ty) => {
            fmt(checked_add_signed::<$u>(x.parse::<$u>().unwrap(), y.parse::<$i>().unwrap()))
        };
    }
    match w {
        "8" => go!(u8, i8),
        "16" => go!(u16, i16),
        "32" => go!(u32, i32),
        "64" => go!(u64, i64),
        "128" => go!(u128, i128),
        "size" => go!(usize, isize),
        _ => "bad-width".into(),
    }
}

/// Exhaustive sweep of the 8- or 16-bit instance against wide arithmetic (search aid, Rust side only).
pub fn sweep(args: &[&str]) -> String {
    let mut n: u64 = 0;
    match args[0] {
        "8" => {
            for x in 0..=u8::MAX {
                for y in i8::MIN..=i8::MAX {
                    let s = x as i64 + y as i64;
                    let want = if (0..=u8::MAX as i64).contains(&s) { Some(s as u8) } else { None };
                    if checked_add_signed(x, y) != want {
                        return format!("mismatch {x} {y}");
                    }
                    n += 1;
                }
            }
        }
        "16" => {
            for x in 0..=u16::MAX {
                for y in i16::MIN..=i16::MAX {
                    let s = x as i64 + y as i64;
                    let want = if (0..=u16::MAX as i64).contains(&s) { Some(s as u16) } else { None };
                    if checked_add_signed(x, y) != want {
                        return format!("mismatch {x} {y}");
                    }
                    n += 1;
                }
            }
        }
        _ => return "bad-width".into(),
    }
    format!("ok {n}")
}
