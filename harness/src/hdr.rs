//! C16 (a,b): mp4san::parse::BoxHeader -- parse, put_buf, encoded_len, box_data_size, with_data_size,
//! with_u32_data_size.  Prints what the implementation computes; the property is evaluated elsewhere.
#[path = "common.rs"]
mod common;
use common::{hex, unhex};
use mp4san::parse::{BoxHeader, BoxType, BoxUuid, FourCC, ParseError};

fn main() {
    common::main_loop(|kind, args| match kind {
        "hdrparse" => hdrparse(args),
        "hdrmk" => hdrmk(args),
        _ => format!("unknown-kind {kind}"),
    });
}

fn kind_of(e: &ParseError) -> String {
    let s = format!("{:?}", e);
    s.split(|c: char| !c.is_alphanumeric()).next().unwrap_or("").to_string()
}

fn type_hex(t: BoxType) -> String {
    match t {
        BoxType::FourCC(f) => hex(&f.value),
        BoxType::Uuid(u) => hex(&u.value),
    }
}

/// Size form: the BoxSize field is private, so the variant is read off the derived Debug text
/// (`box_size: UntilEof | Size(n) | Ext(n)`); the number comes from box_size().
fn size_str(h: &BoxHeader) -> String {
    let d = format!("{:?}", h);
    match h.box_size() {
        None => "eof".into(),
        Some(n) => {
            if d.contains("Ext(") {
                format!("ext:{n}")
            } else if d.contains("Size(") {
                format!("size:{n}")
            } else {
                format!("unknown:{n}")
            }
        }
    }
}

fn data_str(h: &BoxHeader) -> String {
    match h.box_data_size() {
        Ok(None) => "none".into(),
        Ok(Some(n)) => format!("some:{n}"),
        Err(e) => format!("err:{}", kind_of(e.get_ref())),
    }
}

fn put(h: &BoxHeader) -> Vec<u8> {
    let mut out = Vec::new();
    h.put_buf(&mut out);
    out
}

/// parse (put h ++ rest) == (h, rest) ?
fn reparse(h: &BoxHeader, put: &[u8], rest: &[u8]) -> &'static str {
    let mut all = put.to_vec();
    all.extend_from_slice(rest);
    let mut cur = &all[..];
    match BoxHeader::parse(&mut cur) {
        Ok(h2) => {
            if h2 == *h && cur == rest {
                "ok"
            } else {
                "differ"
            }
        }
        Err(_) => "err",
    }
}

fn hdrparse(args: &[&str]) -> String {
    let input = unhex(args[0]);
    let mut cur = &input[..];
    match BoxHeader::parse(&mut cur) {
        Err(e) => format!("err parse {}", kind_of(e.get_ref())),
        Ok(h) => {
            let p = put(&h);
            let rest = cur.to_vec();
            format!(
                "ok t={} s={} elen={} rem={} data={} put={} re={}",
                type_hex(h.box_type()),
                size_str(&h),
                h.encoded_len(),
                rest.len(),
                data_str(&h),
                hex(&p),
                reparse(&h, &p, &rest)
            )
        }
    }
}

fn hdrmk(args: &[&str]) -> String {
    let tb = unhex(args[0]);
    let t = if tb.len() == 4 {
        BoxType::FourCC(FourCC { value: tb[..].try_into().unwrap() })
    } else if tb.len() == 16 {
        BoxType::Uuid(BoxUuid { value: tb[..].try_into().unwrap() })
    } else {
        return "bad-type".into();
    };
    let n: u64 = args[1].parse().unwrap();
    let u32s = if n <= u32::MAX as u64 {
        let h32 = BoxHeader::with_u32_data_size(t, n as u32);
        match BoxHeader::with_data_size(t, n) {
            Ok(h) if h == h32 => "same",
            _ => "differ",
        }
    } else {
        "na"
    };
    match BoxHeader::with_data_size(t, n) {
        Err(e) => format!("err parse {}", kind_of(e.get_ref())),
        Ok(h) => {
            let p = put(&h);
            format!(
                "ok t={} s={} elen={} data={} put={} re={} u32={}",
                type_hex(h.box_type()),
                size_str(&h),
                h.encoded_len(),
                data_str(&h),
                hex(&p),
                reparse(&h, &p, &[0xa5, 0x5a, 0x01]),
                u32s
            )
        }
    }
}
