//! C16 (a,b): mp4san::parse::BoxHeader (and (c): MoovBox / TrakBox / ... accessors, see `lazy`) -- parse, put_buf, encoded_len, box_data_size, with_data_size,
//! with_u32_data_size.  Prints what the implementation computes; the property is evaluated elsewhere.
#[path = "common.rs"]
mod common;
use common::{hex, unhex};
use bytes::BytesMut;
use mp4san::parse::{BoxHeader, BoxType, BoxUuid, FourCC, MoovBox, ParseBox, ParseError, ParsedBox};

fn main() {
    common::main_loop(|kind, args| match kind {
        "hdrparse" => hdrparse(args),
        "hdrmk" => hdrmk(args),
        "lazy" => lazy(args),
        "lazyedit" => lazyedit(args),
        "ftypbox" => ftypbox(args),
        _ => format!("unknown-kind {kind}"),
    });
}

fn kind_of(e: &ParseError) -> String {
    let s = format!("{:?}", e);
    s.split(|c: char| !c.is_alphanumeric()).next().unwrap_or("").to_string()
}

fn type_hex(t: BoxType) -> String {
    match t {
        BoxType::FourCC(f) => hex(&f.value),
        BoxType::Uuid(u) => hex(&u.value),
    }
}

/// Size form: the BoxSize field is private, so the variant is read off the derived Debug text
/// (`box_size: UntilEof | Size(n) | Ext(n)`); the number comes from box_size().
fn size_str(h: &BoxHeader) -> String {
    let d = format!("{:?}", h);
    match h.box_size() {
        None => "eof".into(),
        Some(n) => {
            if d.contains("Ext(") {
                format!("ext:{n}")
            } else if d.contains("Size(") {
                format!("size:{n}")
            } else {
                format!("unknown:{n}")
            }
        }
    }
}

fn data_str(h: &BoxHeader) -> String {
    match h.box_data_size() {
        Ok(None) => "none".into(),
        Ok(Some(n)) => format!("some:{n}"),
        Err(e) => format!("err:{}", kind_of(e.get_ref())),
    }
}

fn put(h: &BoxHeader) -> Vec<u8> {
    let mut out = Vec::new();
    h.put_buf(&mut out);
    out
}

/// parse (put h ++ rest) == (h, rest) ?
fn reparse(h: &BoxHeader, put: &[u8], rest: &[u8]) -> &'static str {
    let mut all = put.to_vec();
    all.extend_from_slice(rest);
    let mut cur = &all[..];
    match BoxHeader::parse(&mut cur) {
        Ok(h2) => {
            if h2 == *h && cur == rest {
                "ok"
            } else {
                "differ"
            }
        }
        Err(_) => "err",
    }
}

fn hdrparse(args: &[&str]) -> String {
    let input = unhex(args[0]);
    let mut cur = &input[..];
    match BoxHeader::parse(&mut cur) {
        Err(e) => format!("err parse {}", kind_of(e.get_ref())),
        Ok(h) => {
            let p = put(&h);
            let rest = cur.to_vec();
            format!(
                "ok t={} s={} elen={} rem={} data={} put={} re={}",
                type_hex(h.box_type()),
                size_str(&h),
                h.encoded_len(),
                rest.len(),
                data_str(&h),
                hex(&p),
                reparse(&h, &p, &rest)
            )
        }
    }
}

fn hdrmk(args: &[&str]) -> String {
    let tb = unhex(args[0]);
    let t = if tb.len() == 4 {
        BoxType::FourCC(FourCC { value: tb[..].try_into().unwrap() })
    } else if tb.len() == 16 {
        BoxType::Uuid(BoxUuid { value: tb[..].try_into().unwrap() })
    } else {
        return "bad-type".into();
    };
    let n: u64 = args[1].parse().unwrap();
    let u32s = if n <= u32::MAX as u64 {
        let h32 = BoxHeader::with_u32_data_size(t, n as u32);
        match BoxHeader::with_data_size(t, n) {
            Ok(h) if h == h32 => "same",
            _ => "differ",
        }
    } else {
        "na"
    };
    match BoxHeader::with_data_size(t, n) {
        Err(e) => format!("err parse {}", kind_of(e.get_ref())),
        Ok(h) => {
            let p = put(&h);
            format!(
                "ok t={} s={} elen={} data={} put={} re={} u32={}",
                type_hex(h.box_type()),
                size_str(&h),
                h.encoded_len(),
                data_str(&h),
                hex(&p),
                reparse(&h, &p, &[0xa5, 0x5a, 0x01]),
                u32s
            )
        }
    }
}

/// C16 (c): `lazy <moov payload hex> <ops>`: MoovBox::parse, then for every op `i.k`: iterate traks() up to the i-th trak
/// (stopping at the first error) and call the first k accessors of TrakBox::co_mut on it
/// (1 mdia_mut, 2 minf_mut, 3 stbl_mut, 4 co_mut + entry_count); finally put_buf / encoded_len of the moov value.
fn lazy(args: &[&str]) -> String {
    let payload = unhex(args[0]);
    let mut buf = BytesMut::from(&payload[..]);
    let mut moov = match MoovBox::parse(&mut buf) {
        Ok(m) => m,
        Err(e) => return format!("err parse {} step=parse", kind_of(e.get_ref())),
    };
    let mut failed: Option<(usize, String)> = None;
    if args[1] != "-" {
        for (step, op) in args[1].split(',').enumerate() {
            let (i, k) = op.split_once('.').unwrap();
            let (i, k): (usize, usize) = (i.parse().unwrap(), k.parse().unwrap());
            if let Err(e) = lazy_op(&mut moov, i, k) {
                failed = Some((step, kind_of(&e)));
                break;
            }
        }
    }
    let mut out = Vec::new();
    moov.put_buf(&mut out);
    let tail = format!("put={} elen={}", if out.is_empty() { "-".to_string() } else { hex(&out) }, moov.encoded_len());
    match failed {
        None => format!("ok {tail}"),
        Some((step, kind)) => format!("err parse {kind} step={step} {tail}"),
    }
}

/// C16 with a caller edit: `lazyedit <moov payload hex> <ops> <i> <m>`: as `lazy`, then the chunk-offset table of the i-th trak is
/// replaced by a fresh one with m entries 1..=m (`*stco = (1..=m).collect()`), which changes the payload length of the table and of
/// every ancestor; finally put_buf / encoded_len of the moov value.
fn lazyedit(args: &[&str]) -> String {
    use mp4san::parse::{Co64Box, StblCoMut, StcoBox};
    let payload = unhex(args[0]);
    let mut buf = BytesMut::from(&payload[..]);
    let mut moov = match MoovBox::parse(&mut buf) {
        Ok(m) => m,
        Err(e) => return format!("err parse {} step=parse", kind_of(e.get_ref())),
    };
    if args[1] != "-" {
        for (step, op) in args[1].split(',').enumerate() {
            let (i, k) = op.split_once('.').unwrap();
            let (i, k): (usize, usize) = (i.parse().unwrap(), k.parse().unwrap());
            if let Err(e) = lazy_op(&mut moov, i, k) {
                return format!("err parse {} step={step}", kind_of(&e));
            }
        }
    }
    let (i, m): (usize, u32) = (args[2].parse().unwrap(), args[3].parse().unwrap());
    let edit = |moov: &mut MoovBox| -> Result<(), ParseError> {
        for (j, trak) in moov.traks().enumerate() {
            let trak = trak.map_err(|e| e.into_inner())?;
            if j == i {
                match trak.co_mut().map_err(|e| e.into_inner())? {
                    StblCoMut::Stco(stco) => *stco = (1..=m).collect::<StcoBox>(),
                    StblCoMut::Co64(co64) => *co64 = (1..=u64::from(m)).collect::<Co64Box>(),
                }
                break;
            }
        }
        Ok(())
    };
    if let Err(e) = edit(&mut moov) {
        return format!("err parse {} step=edit", kind_of(&e));
    }
    let mut out = Vec::new();
    moov.put_buf(&mut out);
    format!("ok put={} elen={}", if out.is_empty() { "-".to_string() } else { hex(&out) }, moov.encoded_len())
}

/// `ftypbox <hex of one whole box> <0|1>`: Mp4Box::<FtypBox>::parse on the bytes, optionally the lazy parse of its payload
/// (`data.parse()`: major brand, minor version, the brand array that keeps ALL remaining bytes), then put_buf / encoded_len.
fn ftypbox(args: &[&str]) -> String {
    use mp4san::parse::{FtypBox, Mp4Box, Mp4Value};
    let bytes = unhex(args[0]);
    let mut buf = BytesMut::from(&bytes[..]);
    let mut b = match Mp4Box::<FtypBox>::parse(&mut buf) {
        Ok(b) => b,
        Err(e) => return format!("err parse {} step=parse", kind_of(e.get_ref())),
    };
    if args[1] == "1" {
        if let Err(e) = b.data.parse() {
            return format!("err parse {} step=0", kind_of(e.get_ref()));
        }
    }
    let mut out = Vec::new();
    b.put_buf(&mut out);
    format!("ok put={} elen={} rest={}", if out.is_empty() { "-".to_string() } else { hex(&out) }, b.encoded_len(), buf.len())
}

fn lazy_op(moov: &mut MoovBox, i: usize, k: usize) -> Result<(), ParseError> {
    for (j, trak) in moov.traks().enumerate() {
        let trak = trak.map_err(|e| e.into_inner())?;
        if j == i {
            match k {
                0 => {}
                1 => {
                    trak.mdia_mut().map_err(|e| e.into_inner())?;
                }
                2 => {
                    trak.mdia_mut().map_err(|e| e.into_inner())?.minf_mut().map_err(|e| e.into_inner())?;
                }
                3 => {
                    trak.mdia_mut()
                        .map_err(|e| e.into_inner())?
                        .minf_mut()
                        .map_err(|e| e.into_inner())?
                        .stbl_mut()
                        .map_err(|e| e.into_inner())?;
                }
                _ => {
                    let _ = trak.co_mut().map_err(|e| e.into_inner())?.entry_count();
                }
            }
            break;
        }
    }
    Ok(())
}
