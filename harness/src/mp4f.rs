//! mp4f area (C13 fault injection, C10 metering): runs the real mp4san sanitizer over a fault-injecting, metering
//! Read+Skip (and AsyncRead+AsyncSkip) wrapper around the sparse test stream, under a counting global allocator.
//!   fault <sync|async> <k|-> <Kind> <reader> <max> <cum|-> <len> <off:hex,...|->   -> result
//!   count <reader> <max> <cum|-> <len> <exts>                                       -> n=<inner ops> <result>
//!   meter <reader> <max> <cum|-> <len> <exts>                                       -> <result> | <inner trace> | heap=.. mdlen=..
//! Inner operations = calls of read / skip / stream_position / stream_len on the wrapped input, in order, 0-based.
#[path = "common.rs"]
mod common;
#[path = "lib_readers.rs"]
mod lib_readers;

use std::alloc::{GlobalAlloc, Layout, System};
use std::io::{self, Read};
use std::pin::Pin;
use std::sync::atomic::{AtomicUsize, Ordering};
use std::task::{Context, Poll};

use futures_util::io::AsyncRead;
use futures_util::FutureExt;
use lib_readers::{io_kind, Sparse};
use mediasan_common::{AsyncSkip, Skip};
use mp4san::parse::{BoxType, ParseError};
use mp4san::{Config, Error, SanitizedMetadata};

// ---------------------------------------------------------------------------------------------- counting allocator
struct Counting;
static CUR: AtomicUsize = AtomicUsize::new(0);
static PEAK: AtomicUsize = AtomicUsize::new(0);

unsafe impl GlobalAlloc for Counting {
    unsafe fn alloc(&self, l: Layout) -> *mut u8 {
        let p = System.alloc(l);
        if !p.is_null() {
            let c = CUR.fetch_add(l.size(), Ordering::Relaxed) + l.size();
            PEAK.fetch_max(c, Ordering::Relaxed);
        }
        p
    }
    unsafe fn dealloc(&self, p: *mut u8, l: Layout) {
        System.dealloc(p, l);
        CUR.fetch_sub(l.size(), Ordering::Relaxed);
    }
    unsafe fn alloc_zeroed(&self, l: Layout) -> *mut u8 {
        let p = System.alloc_zeroed(l);
        if !p.is_null() {
            let c = CUR.fetch_add(l.size(), Ordering::Relaxed) + l.size();
            PEAK.fetch_max(c, Ordering::Relaxed);
        }
        p
    }
    unsafe fn realloc(&self, p: *mut u8, l: Layout, new: usize) -> *mut u8 {
        let q = System.realloc(p, l, new);
        if !q.is_null() {
            if new >= l.size() {
                let c = CUR.fetch_add(new - l.size(), Ordering::Relaxed) + (new - l.size());
                PEAK.fetch_max(c, Ordering::Relaxed);
            } else {
                CUR.fetch_sub(l.size() - new, Ordering::Relaxed);
            }
        }
        q
    }
}

#[global_allocator]
static GLOBAL: Counting = Counting;

// ---------------------------------------------------------------------------------------------- the wrapper
#[derive(Clone, Copy)]
enum Ev {
    Read(u64, u64, Result<u64, io::ErrorKind>),
    Skip(u64, u64, Result<(), io::ErrorKind>),
    Pos(u64, Result<u64, io::ErrorKind>),
    Len(u64, Result<u64, io::ErrorKind>),
}

struct FaultMeter {
    inner: Sparse,
    count: u64,
    fault: Option<(u64, io::ErrorKind)>,
    record: bool,
    trace: Vec<Ev>,
}

impl FaultMeter {
    fn new(inner: Sparse, fault: Option<(u64, io::ErrorKind)>, record: bool) -> Self {
        FaultMeter { inner, count: 0, fault, record, trace: Vec::new() }
    }
    /// Some(kind) if this operation is the faulty one; counts the operation
    fn tick(&mut self) -> Option<io::ErrorKind> {
        let k = self.count;
        self.count += 1;
        match self.fault {
            Some((i, kind)) if i == k => Some(kind),
            _ => None,
        }
    }
    fn rec(&mut self, e: Ev) {
        if self.record {
            self.trace.push(e);
        }
    }
    fn do_read(&mut self, buf: &mut [u8]) -> io::Result<usize> {
        let off = self.inner.pos;
        let r = match self.tick() {
            Some(k) => Err(io::Error::from(k)),
            None => self.inner.read(buf),
        };
        self.rec(Ev::Read(off, buf.len() as u64, r.as_ref().map(|n| *n as u64).map_err(|e| e.kind())));
        r
    }
    fn do_skip(&mut self, amount: u64) -> io::Result<()> {
        let off = self.inner.pos;
        let r = match self.tick() {
            Some(k) => Err(io::Error::from(k)),
            None => self.inner.skip(amount),
        };
        self.rec(Ev::Skip(off, amount, r.as_ref().map(|_| ()).map_err(|e| e.kind())));
        r
    }
    fn do_pos(&mut self) -> io::Result<u64> {
        let off = self.inner.pos;
        let r = match self.tick() {
            Some(k) => Err(io::Error::from(k)),
            None => self.inner.stream_position(),
        };
        self.rec(Ev::Pos(off, r.as_ref().map(|n| *n).map_err(|e| e.kind())));
        r
    }
    fn do_len(&mut self) -> io::Result<u64> {
        let off = self.inner.pos;
        let r = match self.tick() {
            Some(k) => Err(io::Error::from(k)),
            None => self.inner.stream_len(),
        };
        self.rec(Ev::Len(off, r.as_ref().map(|n| *n).map_err(|e| e.kind())));
        r
    }
    fn show_trace(&self) -> String {
        if self.trace.is_empty() {
            return "-".to_string();
        }
        let mut out = Vec::with_capacity(self.trace.len());
        for e in &self.trace {
            out.push(match e {
                Ev::Read(o, n, Ok(r)) => format!("r{o}+{n}={r}"),
                Ev::Read(o, n, Err(k)) => format!("r{o}+{n}!{}", io_kind(*k)),
                Ev::Skip(o, n, Ok(())) => format!("s{o}+{n}"),
                Ev::Skip(o, n, Err(k)) => format!("s{o}+{n}!{}", io_kind(*k)),
                Ev::Pos(o, Ok(_)) => format!("p{o}"),
                Ev::Pos(o, Err(k)) => format!("p{o}!{}", io_kind(*k)),
                Ev::Len(o, Ok(l)) => format!("l{o}={l}"),
                Ev::Len(o, Err(k)) => format!("l{o}!{}", io_kind(*k)),
            });
        }
        out.join(",")
    }
}

impl Read for FaultMeter {
    fn read(&mut self, buf: &mut [u8]) -> io::Result<usize> {
        self.do_read(buf)
    }
}

impl Skip for FaultMeter {
    fn skip(&mut self, amount: u64) -> io::Result<()> {
        self.do_skip(amount)
    }
    fn stream_position(&mut self) -> io::Result<u64> {
        self.do_pos()
    }
    fn stream_len(&mut self) -> io::Result<u64> {
        self.do_len()
    }
}

/// the same wrapper as an always-ready AsyncRead + AsyncSkip (for `sanitize_async_with_config`)
struct AsyncFm<'a>(&'a mut FaultMeter);

impl AsyncRead for AsyncFm<'_> {
    fn poll_read(mut self: Pin<&mut Self>, _cx: &mut Context<'_>, buf: &mut [u8]) -> Poll<io::Result<usize>> {
        Poll::Ready(self.0.do_read(buf))
    }
}

impl AsyncSkip for AsyncFm<'_> {
    fn poll_skip(mut self: Pin<&mut Self>, _cx: &mut Context<'_>, amount: u64) -> Poll<io::Result<()>> {
        Poll::Ready(self.0.do_skip(amount))
    }
    fn poll_stream_position(mut self: Pin<&mut Self>, _cx: &mut Context<'_>) -> Poll<io::Result<u64>> {
        Poll::Ready(self.0.do_pos())
    }
    fn poll_stream_len(mut self: Pin<&mut Self>, _cx: &mut Context<'_>) -> Poll<io::Result<u64>> {
        Poll::Ready(self.0.do_len())
    }
}

// ---------------------------------------------------------------------------------------------- observations
fn show_type(t: &BoxType) -> String {
    match t {
        BoxType::FourCC(f) => common::hex(&f.value),
        BoxType::Uuid(u) => common::hex(&u.value),
    }
}

fn show_md(md: &[u8]) -> String {
    let mut n = md.len();
    while n > 0 && md[n - 1] == 0 {
        n -= 1;
    }
    format!("{}z{}", common::hex(&md[..n]), md.len() - n)
}

fn show(r: &Result<SanitizedMetadata, Error>) -> String {
    match r {
        Ok(s) => match &s.metadata {
            None => format!("ok none {} {}", s.data.offset, s.data.len),
            Some(md) => format!("ok some {} {} {}", show_md(md), s.data.offset, s.data.len),
        },
        Err(Error::Io(e)) => format!("err io {}", io_kind(e.kind())),
        Err(Error::Parse(rep)) => {
            let k = match rep.get_ref() {
                ParseError::InvalidBoxLayout => "InvalidBoxLayout".to_string(),
                ParseError::InvalidInput => "InvalidInput".to_string(),
                ParseError::MissingRequiredBox(t) => format!("MissingRequiredBox:{}", show_type(t)),
                ParseError::TruncatedBox => "TruncatedBox".to_string(),
                ParseError::UnsupportedBox(t) => format!("UnsupportedBox:{}", show_type(t)),
                ParseError::UnsupportedBoxLayout => "UnsupportedBoxLayout".to_string(),
                ParseError::UnsupportedFormat(f) => format!("UnsupportedFormat:{}", common::hex(&f.value)),
            };
            format!("err parse {k}")
        }
    }
}

fn config(mx: &str, cum: &str) -> Config {
    let mut b = Config::builder();
    b.max_metadata_size(mx.parse::<u64>().unwrap());
    if cum != "-" {
        b.cumulative_mdat_box_size(Some(cum.parse::<u32>().unwrap()));
    }
    b.build()
}

fn kind_of(s: &str) -> io::ErrorKind {
    use io::ErrorKind::*;
    match s {
        "Other" => Other,
        "PermissionDenied" => PermissionDenied,
        "TimedOut" => TimedOut,
        "WouldBlock" => WouldBlock,
        "InvalidData" => InvalidData,
        "UnexpectedEof" => UnexpectedEof,
        "InvalidInput" => InvalidInput,
        "Interrupted" => Interrupted,
        _ => panic!("kind"),
    }
}

fn sparse(rd: &str, len: &str, exts: &str) -> Sparse {
    Sparse::new(len.parse().unwrap(), Sparse::parse_exts(exts), rd == "strict")
}

fn run_sync(fm: &mut FaultMeter, cfg: Config) -> Result<SanitizedMetadata, Error> {
    mp4san::sanitize_with_config(fm, cfg)
}

fn run_async(fm: &mut FaultMeter, cfg: Config) -> Result<SanitizedMetadata, Error> {
    mp4san::sanitize_async_with_config(AsyncFm(fm), cfg)
        .now_or_never()
        .expect("the always-ready reader never yields")
}

fn run_fault(args: &[&str]) -> String {
    let (entry, k, kind, rd, mx, cum, len, exts) = (args[0], args[1], args[2], args[3], args[4], args[5], args[6], args[7]);
    let fault = if k == "-" { None } else { Some((k.parse::<u64>().unwrap(), kind_of(kind))) };
    let mut fm = FaultMeter::new(sparse(rd, len, exts), fault, false);
    let r = match entry {
        "sync" => run_sync(&mut fm, config(mx, cum)),
        "async" => run_async(&mut fm, config(mx, cum)),
        _ => return format!("unknown-entry {entry}"),
    };
    show(&r)
}

fn run_count(args: &[&str]) -> String {
    let (rd, mx, cum, len, exts) = (args[0], args[1], args[2], args[3], args[4]);
    let mut fm = FaultMeter::new(sparse(rd, len, exts), None, false);
    let r = run_sync(&mut fm, config(mx, cum));
    let mut fa = FaultMeter::new(sparse(rd, len, exts), None, false);
    let ra = run_async(&mut fa, config(mx, cum));
    if fa.count != fm.count || show(&ra) != show(&r) {
        return format!("sync-async-differ n={} {} / n={} {}", fm.count, show(&r), fa.count, show(&ra));
    }
    format!("n={} {}", fm.count, show(&r))
}

fn run_meter(args: &[&str]) -> String {
    let (rd, mx, cum, len, exts) = (args[0], args[1], args[2], args[3], args[4]);
    // first run: record the inner trace
    let mut fm = FaultMeter::new(sparse(rd, len, exts), None, true);
    let r = run_sync(&mut fm, config(mx, cum));
    let res = show(&r);
    let trace = fm.show_trace();
    let mdlen = match &r {
        Ok(SanitizedMetadata { metadata: Some(md), .. }) => md.len(),
        _ => 0,
    };
    drop(r);
    drop(fm);
    // second run: nothing recorded; peak heap of the call over the heap in use just before it
    let mut fm2 = FaultMeter::new(sparse(rd, len, exts), None, false);
    let cfg = config(mx, cum);
    let base = CUR.load(Ordering::Relaxed);
    PEAK.store(base, Ordering::Relaxed);
    let r2 = run_sync(&mut fm2, cfg);
    let peak = PEAK.load(Ordering::Relaxed).saturating_sub(base);
    let res2 = show(&r2);
    drop(r2);
    if res2 != res {
        return format!("nondeterministic {res} / {res2}");
    }
    format!("{res} | {trace} | heap={peak} mdlen={mdlen}")
}

fn main() {
    common::main_loop(|kind, args| match kind {
        "fault" => run_fault(args),
        "count" => run_count(args),
        "meter" | "meterx" => run_meter(args),
        _ => format!("unknown-kind {kind}"),
    });
}
