(* Extraction of the BitBufReader model (area bits, property C19) to OCaml.
   Only ExtrOcamlBasic is used (bool, option, unit, list, prod, sumbool, sumor; andb/orb inlined).
   Z / N / positive / nat / byte stay the extracted inductive types. No directive of our own. *)
From Coq Require Import Extraction ExtrOcamlBasic ZArith NArith List.
From MS Require Import Base.Bytes Base.Outcome Webp.BitBuf Webp.BitBufSpec Webp.BitBufRun Webp.BitBufFault.
Extraction Language OCaml.
Set Extraction KeepSingleton.

Extraction "model.ml"
  N.add Z.add Nat.add N.of_nat N.to_nat Z.of_N Z.to_N
  Bytes.n2b Bytes.b2n
  BitBufRun.run_seq BitBufFault.run_seq_f.
