(* Extraction of the C18 model (Webp/Huffman.v) and of the specification-side functions (Webp/HuffmanSpec.v).
   Only ExtrOcamlBasic is used; Z / N / positive / nat stay the extracted inductive types. *)
From Coq Require Import Extraction ExtrOcamlBasic ZArith NArith List.
From MS Require Import Base.Outcome Webp.Huffman Webp.HuffmanSpec.
Extraction Language OCaml.
Set Extraction KeepSingleton.

Extraction "model.ml"
  N.add Z.add Nat.add N.of_nat N.to_nat Z.of_N Z.to_N
  Huffman.symbols Huffman.compile Huffman.from_symbols Huffman.new Huffman.new_vec Huffman.index_from
  Huffman.decode Huffman.decode_many Huffman.read_huffman Huffman.observe Huffman.total_tables
  HuffmanSpec.spec_accepts HuffmanSpec.kraft_is_one HuffmanSpec.kraft_le_one HuffmanSpec.single_len1
  HuffmanSpec.canonical HuffmanSpec.rfc_table HuffmanSpec.table_decode HuffmanSpec.table_decode_many
  HuffmanSpec.spec_longest HuffmanSpec.spec_observation.
