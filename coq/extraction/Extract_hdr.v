(* Extraction of the MP4 box-header model (area hdr, property C16 a,b) and of the lazy box tree with its accessor call sequences (C16 c).  ExtrOcamlBasic only. *)
From Coq Require Import Extraction ExtrOcamlBasic ZArith NArith List.
From Coq.Strings Require Import Byte.
From MS Require Import Base.Bytes Base.Outcome Mp4.Header Mp4.Box Mp4.BoxLazy Mp4.BoxOps Mp4.BoxEdit Mp4.BoxFail.
Extraction Language OCaml.
Set Extraction KeepSingleton.

Extraction "model.ml"
  N.add Z.add Nat.add N.of_nat N.to_nat Z.of_N Z.to_N
  Byte.to_N Byte.of_N Bytes.b2n Bytes.n2b
  Header.hdr_read Header.hdr_put Header.encoded_len Header.box_size_of Header.box_data_size
  Header.with_u32_data_size Header.with_data_size Header.overwrite_size Header.hdr_wf Header.U32MAX
  Box.parse_moov Box.parse_boxes Box.parse_ftyp Box.put_node Box.put_nodes BoxLazy.nodes_encoded_len BoxOps.run_ops
  BoxEdit.edit_trak BoxEdit.puts_calc BoxEdit.lens_calc BoxFail.run_ops_st.
