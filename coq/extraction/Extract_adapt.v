(* Extraction of the adapter models (area "adapt": C15, C12) to OCaml.
   Only ExtrOcamlBasic is used; Z / N / positive / nat / byte stay the extracted inductive types. *)
From Coq Require Import Extraction ExtrOcamlBasic ZArith NArith List.
From MS Require Import Base.Bytes Base.Outcome Base.Cursor Base.Adapters Base.Async Base.AsyncSan Mp4.San Gen.Consts.
From MS Require Base.Prog.
Extraction Language OCaml.
Set Extraction KeepSingleton.

Extraction "model.ml"
  N.add Z.add Nat.add N.of_nat N.to_nat Z.of_N Z.to_N
  Bytes.n2b Bytes.b2n
  Cursor.blen Cursor.ideal_step
  Adapters.rstep Adapters.run_ops
  Adapters.std_cursor Adapters.seek_adapter Adapters.cursor_reader
  Adapters.std_buf Adapters.fut_buf Adapters.buf_init Adapters.fwd Adapters.async_input Adapters.fut_view
  Adapters.chunk_data Adapters.vcursor_seeker Adapters.seekable_reader
  Async.pending_seeker Async.pending_reader Async.aseek_adapter Async.afut_buf Async.afwd
  Async.drive_all Async.astep Async.run_sched Async.run_sync Async.len_sched_ok
  AsyncSan.run_san_sched AsyncSan.run_san_sync San.sanitize_prog Consts.BOXHEADER_MAX_SIZE Consts.DEFAULT_MAX_METADATA_SIZE.
