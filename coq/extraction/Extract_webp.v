(* Extraction for the webp container area. ExtrOcamlBasic only. *)
From Coq Require Import Extraction ExtrOcamlBasic ZArith NArith List.
From MS Require Import Base.Bytes Base.Outcome Base.Prog Webp.Container Webp.Grammar Webp.Vp8l.
Extraction Language OCaml.
Set Extraction KeepSingleton.
(* stable names for the driver (monolithic extraction renames clashing identifiers) *)
Definition x_b2n := Bytes.b2n.
Definition x_n2b := Bytes.n2b.
Definition x_input_of_exts := Prog.input_of_exts.
Definition x_webp_sanitize := Container.webp_sanitize.
Definition x_webp_spec_with := Grammar.webp_spec_with.
Definition x_lossless_read := Vp8l.lossless_read.
Extraction "model.ml" x_b2n x_n2b x_input_of_exts x_webp_sanitize x_webp_spec_with x_lossless_read
  N.add Z.add Nat.add N.of_nat N.to_nat Z.of_N Z.to_N
  Prog.input_of_exts Prog.run_fault Prog.run_trace Prog.op_count Prog.cursor
  Container.webp_sanitize Container.webp_prog Grammar.webp_spec Grammar.webp_spec_with Vp8l.lossless_read.
