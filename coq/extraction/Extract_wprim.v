(* Extraction of the WebP primitive / chunk codec models (area wprim, property C17).  ExtrOcamlBasic only. *)
From Coq Require Import Extraction ExtrOcamlBasic ZArith NArith List.
From Coq.Strings Require Import Byte.
From MS Require Import Base.Bytes Base.Outcome Webp.Prim Webp.Chunks.
Extraction Language OCaml.
Set Extraction KeepSingleton.

Extraction "model.ml"
  N.add Z.add Nat.add N.of_nat N.to_nat Z.of_N Z.to_N
  Byte.to_N Byte.of_N Bytes.b2n Bytes.n2b
  Prim.prim_parse Prim.prim_put Prim.prim_wf Prim.prim_len Prim.pval_eqb
  Chunks.chunk_parse Chunks.chunk_put Chunks.chunk_wf Chunks.chunk_len Chunks.pvals_eqb.
