(* Extraction for the mp4 area (sanitizer model + specification-side functions). ExtrOcamlBasic only. *)
From Coq Require Import Extraction ExtrOcamlBasic ZArith NArith List.
From Coq.Strings Require Import Byte.
From MS Require Import Base.Bytes Base.Outcome Base.Prog Mp4.Header Mp4.Box Mp4.San Mp4.Spec.
Extraction Language OCaml.
Set Extraction KeepSingleton.
Extraction "model.ml"
  N.add Z.add Nat.add N.of_nat N.to_nat Z.of_N Z.to_N Bytes.b2n Bytes.n2b
  Prog.input_of_exts San.mp4_sanitize San.sanitize_prog Prog.run_trace Prog.run_fault Prog.op_count Prog.cursor
  Header.hdr_read Header.hdr_put Box.parse_boxes Box.put_nodes Box.moov_check
  Spec.tile Spec.accept_boxes Spec.media_run Spec.plan_of Spec.overflow_case Spec.co_tables Spec.co_regions
  Spec.masked_eq Spec.md_input Spec.metadata_shape Spec.explicit_sizes Spec.last_moov Spec.first_mdat Spec.the_ftyp Spec.tb_payload
  Spec.inside Spec.shift Spec.is Spec.MDAT Spec.MOOV Spec.FTYP.
