(* Extraction for the "views" area (C11): the MP4 sanitizer programme run through adapter-stack readers. ExtrOcamlBasic only. *)
From Coq Require Import Extraction ExtrOcamlBasic ZArith NArith List.
From Coq.Strings Require Import Byte.
From MS Require Import Base.Bytes Base.Outcome Base.Cursor Base.Adapters Base.Prog Base.StackReader Mp4.Header Mp4.Box Mp4.San.
Extraction Language OCaml.
Set Extraction KeepSingleton.
Extraction "model.ml"
  N.add Z.add Nat.add N.of_nat N.to_nat Z.of_N Z.to_N Bytes.b2n Bytes.n2b
  Prog.run Prog.cursor Prog.input_of_exts San.sanitize_prog San.mp4_sanitize
  StackReader.stack_reader StackReader.stack_init StackReader.mp4_view StackReader.mp4_view_init StackReader.mp4_view_init_at.
