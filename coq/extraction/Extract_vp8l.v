(* Extraction of the lossless (VP8L / ALPH) header-phase model and of its independent specification
   (area vp8l, properties C07 and C08) to OCaml.
   Only ExtrOcamlBasic is used (bool, option, unit, list, prod, sumbool, sumor; andb/orb inlined).
   Z / N / positive / nat / byte stay the extracted inductive types. No directive of our own. *)
From Coq Require Import Extraction ExtrOcamlBasic ZArith NArith List.
From MS Require Import Base.Bytes Base.Outcome Webp.Vp8l Webp.Vp8lSpec.
Extraction Language OCaml.
Set Extraction KeepSingleton.

Extraction "model.ml"
  N.add Z.add Nat.add N.of_nat N.to_nat Z.of_N Z.to_N
  Bytes.n2b Bytes.b2n
  Vp8l.lossless_read
  Vp8lSpec.vp8l_spec_why.
