(* Extraction for the mp4f area (C13 fault injection, C10 metering): the sanitizer model over the Level-B reader,
   the abstract run with its allocation events, and the specification-side tiling. ExtrOcamlBasic only. *)
From Coq Require Import Extraction ExtrOcamlBasic ZArith NArith List.
From Coq.Strings Require Import Byte.
From MS Require Import Base.Bytes Base.Outcome Base.Prog Base.BufLevel Mp4.Header Mp4.Box Mp4.San Mp4.SanB Mp4.Spec.
Extraction Language OCaml.
Set Extraction KeepSingleton.
Extraction "model.ml"
  N.add Z.add Nat.add N.of_nat N.to_nat Z.of_N Z.to_N Bytes.b2n Bytes.n2b
  Prog.input_of_exts San.mp4_sanitize SanB.mp4_sanitize_b SanB.mp4_allocs
  Spec.tile Spec.tiling Spec.tb_payload Spec.is Spec.MDAT Spec.MOOV Spec.FTYP.
