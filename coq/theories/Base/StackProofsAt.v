(* C11 for readers that are ALREADY ADVANCED when they are handed to the sanitizer (the caller read a prefix first): every
   view started at position k of the data gives the result of the ideal cursor started at k - positions stay absolute, and
   the entry points / adapter stacks still agree.  Same proofs as StackProofsView.stk_lrefines / StackProofsTop
   .view_refines_cursor with the initial position generalised. *)
From Coq Require Import List NArith ZArith Bool Lia ZifyBool ZifyNat ZifyN.
From Coq.Strings Require Import Byte.
From MS Require Import Base.Bytes Base.Outcome Base.Cursor Base.Adapters Base.AdaptersSpec Base.AdaptersProofs
     Base.Prog Base.StackReader Base.StackSpec Base.StackProofs Base.StackProofsView Base.StackProofsTop Base.StackProofsMp4
     Mp4.San Gen.Consts.
Import ListNotations.
Open Scope N_scope.

Lemma stk_lrefines_at ms (st : stk) : stk_ok st ->
  exists (abs : Adapters.rst (stk_reader ms st) -> cur) (Inv : Adapters.rst (stk_reader ms st) -> Prop),
    lrefines ms (stk_reader ms st) abs Inv /\
    forall data k, blen data <= I64MAX -> ms_ok (blen data) ms -> k <= blen data ->
      Inv (stk_init_at k ms st data) /\ abs (stk_init_at k ms st data) = {| cdata := data; cpos := k |}.
Proof.
  induction st as [sizes|sizes|cap st IH|cap st IH|st IH|st IH]; intros Hok; cbn [stk_ok] in Hok.
  - exists (fun s : ccur => cc_cur s), (fun s : ccur => lwf ms (cc_cur s)). split; [apply bottom_lrefines_cursor|].
    intros data k Hd [Hm Hu] Hk. cbn [stk_init_at cc_cur]. split; [|reflexivity]. unfold lwf, clen. cbn [cdata cpos]. lia.
  - exists (fun s : ccur => cc_cur s), (fun s : ccur => lwf ms (cc_cur s)). split; [apply bottom_lrefines_seek|].
    intros data k Hd [Hm Hu] Hk. cbn [stk_init_at cc_cur]. split; [|reflexivity]. unfold lwf, clen. cbn [cdata cpos]. lia.
  - destruct Hok as [Hcap Hok]. destruct (IH Hok) as (abs & Inv & HR & Hinit).
    exists (buf_abs (stk_reader ms st) abs), (buf_inv (stk_reader ms st) abs Inv).
    split; [apply (std_buf_lrefines ms cap _ abs Inv Hcap HR)|].
    intros data k Hd Hm Hk. destruct (Hinit data k Hd Hm Hk) as [HI Ha]. cbn [stk_init_at stk_reader]. unfold buf_init.
    split; [apply empty_buf_inv, HI|]. rewrite empty_buf_abs. exact Ha.
  - destruct Hok as [Hcap Hok]. destruct (IH Hok) as (abs & Inv & HR & Hinit).
    exists (buf_abs (stk_reader ms st) abs), (buf_inv (stk_reader ms st) abs Inv).
    split; [apply (fut_buf_lrefines ms cap _ abs Inv Hcap HR)|].
    intros data k Hd Hm Hk. destruct (Hinit data k Hd Hm Hk) as [HI Ha]. cbn [stk_init_at stk_reader]. unfold buf_init.
    split; [apply empty_buf_inv, HI|]. rewrite empty_buf_abs. exact Ha.
  - destruct (IH Hok) as (abs & Inv & HR & Hinit). exists abs, Inv. split; [apply fwd_lrefines, HR|exact Hinit].
  - destruct (IH Hok) as (abs & Inv & HR & Hinit). exists abs, Inv. split; [apply async_input_lrefines, HR|exact Hinit].
Qed.

Lemma view_refines_cursor_at (own_cap : N) (stdf : bool) (ms : N) (st : stk) (data : bytes) (inp : input) (k : N) :
  1 <= own_cap -> stk_ok st -> blen data <= I64MAX -> ms_ok (blen data) ms -> inp_is inp data -> k <= blen data ->
  forall (A : Type) (p : Prog.prog A),
    fst (Prog.run (stack_reader own_cap stdf ms st) p (stack_init_at k ms st data)) = fst (Prog.run (Prog.cursor inp true ms) p k).
Proof.
  intros Hcap Hok Hd Hms Hinp Hk A p.
  destruct (stk_lrefines_at ms st Hok) as (abs & Inv & HR & Hinit). destruct (Hinit data k Hd Hms Hk) as [HI Ha].
  apply (run_sim (stack_reader own_cap stdf ms st) (Prog.cursor inp true ms) (view_rel (stk_reader ms st) abs Inv data)).
  - intros o s pos Hrel. apply (view_step ms own_cap stdf (stk_reader ms st) abs Inv Hcap HR data inp Hinp o s pos Hrel).
  - unfold stack_init_at, buf_init. split; [apply empty_buf_inv, HI|]. rewrite empty_buf_abs. exact Ha.
Qed.

(* the MP4 sanitizer handed a reader that stands at k: sync or async entry point, any stack - the run of the programme over
   the ideal cursor from k *)
Lemma mp4_view_is_cursor_at (cfg : config) (fuel : nat) (ms : N) (st : stk) (e : bool) (data : bytes) (inp : input) (k : N) :
  stk_ok st -> blen data <= I64MAX -> ms_ok (blen data) ms -> inp_is inp data -> k <= blen data ->
  fst (Prog.run (mp4_view e ms st) (sanitize_prog cfg fuel) (mp4_view_init_at k e ms st data)) =
  fst (Prog.run (Prog.cursor inp true ms) (sanitize_prog cfg fuel) k).
Proof.
  intros H1 Hd Hms Hinp Hk. unfold mp4_view, mp4_view_init_at.
  apply view_refines_cursor_at; auto using view_ok; lia.
Qed.

Lemma mp4_same_result_at (cfg : config) (fuel : nat) (ms : N) (st1 st2 : stk) (e1 e2 : bool) (data : bytes) (k : N) :
  stk_ok st1 -> stk_ok st2 -> blen data <= I64MAX -> ms_ok (blen data) ms -> k <= blen data ->
  fst (Prog.run (mp4_view e1 ms st1) (sanitize_prog cfg fuel) (mp4_view_init_at k e1 ms st1 data)) =
  fst (Prog.run (mp4_view e2 ms st2) (sanitize_prog cfg fuel) (mp4_view_init_at k e2 ms st2 data)).
Proof.
  intros H1 H2 Hd Hms Hk.
  rewrite (mp4_view_is_cursor_at cfg fuel ms st1 e1 data (input_of_list data) k H1 Hd Hms (input_of_list_is data) Hk).
  rewrite (mp4_view_is_cursor_at cfg fuel ms st2 e2 data (input_of_list data) k H2 Hd Hms (input_of_list_is data) Hk).
  reflexivity.
Qed.
