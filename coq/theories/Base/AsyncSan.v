(* The MP4 sanitizer's operation set over the futures BufReader it wraps its input in, at poll level (C12, sanitizer
   level).  [run_san_sched cap A p s sc] runs a programme of Base/Prog.v (fill_buf().is_empty(), read_exact, skip,
   stream_position, stream_len) over BufReader<A> with capacity cap, driving each operation's future to completion under
   the Pending schedule sc; [run_san_sync] is the same programme over the synchronous view of the same reader.
   The polls are those of Base/Async.v: poll_fill_buf, poll_read (bypass rule), futures' ReadExact (keeps its progress
   across Pending), mediasan's poll_skip / poll_stream_position / poll_stream_len.
   Definitions only (extracted: the adapt area runs them beside mp4san::sanitize_async); proofs in AsyncSanProofs.v. *)
From Coq Require Import List NArith ZArith Bool.
From MS Require Import Base.Bytes Base.Outcome Base.Cursor Base.Adapters Base.Async.
From MS Require Base.Prog.
Import ListNotations.
Open Scope N_scope.

Section San.
  Context (cap : N) (A : areader).
  Local Notation RI := (ard A).
  Local Notation st := (bst (rst (ard A))).

  Definition isnil (l : bytes) : bool := match l with [] => true | _ => false end.

  (* let empty = reader.fill_buf().await?.is_empty() *)
  Definition afill_empty : pf st (res bool) :=
    ptry (apoll_fill cap A) (fun _ s sc => (Ready (Ok (isnil (bbuf s))), s, sc)).
  Definition sfill_empty (s : st) : res bool * st :=
    sbind (buf_fill cap RI s) (fun _ s1 => (Ok (isnil (bbuf s1)), s1)).

  (* the answers of Base/Prog.v *)
  Definition resp_of {X} (f : X -> Prog.resp) (r : res X) : Prog.resp :=
    match r with
    | Ok x => f x
    | EIo e => Prog.RErr e
    | _ => Prog.RErr EOther            (* readers answer Ok or Io only *)
    end.

  (* one operation, synchronously: the futures BufReader over the synchronous view of A *)
  Definition sstep (o : Prog.op) (s : st) : Prog.resp * st :=
    match o with
    | Prog.OFillEmpty => let (r, s') := sfill_empty s in (resp_of Prog.RBool r, s')
    | Prog.OReadExact k => let (r, s') := read_exact_default false (buf_read cap RI) k s in (resp_of Prog.RBytes r, s')
    | Prog.OSkip a => let (r, s') := buf_skip RI a s in (resp_of (fun _ => Prog.RUnit) r, s')
    | Prog.OPos => let (r, s') := buf_pos RI s in (resp_of Prog.RNum r, s')
    | Prog.OLen => let (r, s') := buf_len RI s in (resp_of Prog.RNum r, s')
    | Prog.OAlloc _ => (Prog.RUnit, s)
    | Prog.OReadUpTo k => let (r, s') := buf_read cap RI k s in (resp_of Prog.RBytes r, s')   (* one read; not used by mp4san *)
    end.

  (* one operation, asynchronously, driven to completion under a schedule *)
  Definition astep_san (o : Prog.op) (s : st) (sc : sch) : option (Prog.resp * st * sch) :=
    match o with
    | Prog.OFillEmpty => match drive_all afill_empty s sc with
                         | Some (r, s', sc') => Some (resp_of Prog.RBool r, s', sc') | None => None end
    | Prog.OReadExact k => match drive_all (read_exact_future (apoll_read cap A)) (s, (k, [])) sc with
                           | Some (r, (s', _), sc') => Some (resp_of Prog.RBytes r, s', sc') | None => None end
    | Prog.OSkip a => match drive_all (abuf_poll_skip A a) s sc with
                      | Some (r, s', sc') => Some (resp_of (fun _ => Prog.RUnit) r, s', sc') | None => None end
    | Prog.OPos => match drive_all (abuf_poll_pos A) s sc with
                   | Some (r, s', sc') => Some (resp_of Prog.RNum r, s', sc') | None => None end
    | Prog.OLen => match drive_all (abuf_poll_len A) s sc with
                   | Some (r, s', sc') => Some (resp_of Prog.RNum r, s', sc') | None => None end
    | Prog.OAlloc _ => Some (Prog.RUnit, s, sc)
    | Prog.OReadUpTo k => match drive_all (apoll_read cap A k) s sc with
                          | Some (r, s', sc') => Some (resp_of Prog.RBytes r, s', sc') | None => None end
    end.

  Fixpoint run_san_sync {X} (p : Prog.prog X) (s : st) : res X * st :=
    match p with
    | Prog.Ret r => (r, s)
    | Prog.Do o k => let (a, s') := sstep o s in run_san_sync (k a) s'
    end.
  Fixpoint run_san_sched {X} (p : Prog.prog X) (s : st) (sc : sch) : option (res X * st * sch) :=
    match p with
    | Prog.Ret r => Some (r, s, sc)
    | Prog.Do o k => match astep_san o s sc with
                     | Some (a, s', sc') => run_san_sched (k a) s' sc'
                     | None => None
                     end
    end.

  Fixpoint no_len_prog {X} (p : Prog.prog X) : Prop :=
    match p with
    | Prog.Ret _ => True
    | Prog.Do o k => o <> Prog.OLen /\ forall a, no_len_prog (k a)
    end.

End San.
