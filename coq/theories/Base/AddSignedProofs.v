(* C20: proofs about the regenerated kernel Gen/Kernels.v (checked_add_signed). *)
From Coq Require Import ZArith Bool Lia.
From MS Require Import Gen.Kernels.
Open Scope Z_scope.

Lemma mod_plus a P : 0 < P -> -P <= a < 0 -> a mod P = a + P.
Proof. intros HP Ha. symmetry. apply (Z.mod_unique a P (-1) (a+P)); lia. Qed.
Lemma mod_minus a P : 0 < P -> P <= a < 2*P -> a mod P = a - P.
Proof. intros HP Ha. symmetry. apply (Z.mod_unique a P 1 (a-P)); lia. Qed.

Ltac elim_mod P :=
  repeat match goal with
  | |- context[?a mod P] =>
      first [ rewrite (Z.mod_small a P) by lia
            | rewrite (mod_plus a P) by lia
            | rewrite (mod_minus a P) by lia ]
  | Hyp : context[?a mod P] |- _ =>
      first [ rewrite (Z.mod_small a P) in Hyp by lia
            | rewrite (mod_plus a P) in Hyp by lia
            | rewrite (mod_minus a P) in Hyp by lia ]
  end.

Ltac split_bools :=
  repeat match goal with
  | |- context[?a <? ?b] => destruct (Z.ltb_spec a b)
  | |- context[?a <=? ?b] => destruct (Z.leb_spec a b)
  | |- context[?a >? ?b] => rewrite (Z.gtb_ltb a b)
  | |- context[?a >=? ?b] => rewrite (Z.geb_leb a b)
  | |- context[?a =? ?b] => destruct (Z.eqb_spec a b)
  end.

Definition exact_sum (w x y : Z) : option Z :=
  if (0 <=? x + y) && (x + y <? 2^w) then Some (x + y) else None.

Lemma checked_add_signed_exact : forall w x y,
  1 <= w -> 0 <= x < 2^w -> - 2^(w-1) <= y < 2^(w-1) ->
  checked_add_signed w x y = exact_sum w x y.
Proof.
  intros w x y Hw Hx Hy.
  assert (HP : 2^w = 2 * 2^(w-1)).
  { replace w with (Z.succ (w-1)) at 1 by lia. rewrite Z.pow_succ_r by lia. reflexivity. }
  assert (Hh : 0 < 2^(w-1)) by (apply Z.pow_pos_nonneg; lia).
  unfold checked_add_signed, exact_sum. cbv zeta.
  set (P := 2^w) in *. set (H := 2^(w-1)) in *. clearbody P H. subst P.
  destruct (Z.ltb_spec y 0) as [Hneg|Hpos]; elim_mod (2*H); split_bools; elim_mod (2*H);
    cbn [xorb andb orb negb Bool.eqb]; try reflexivity; try (f_equal; lia); try (exfalso; lia).
Qed.

(* non-vacuity and the boundary cases named by the property, evaluated *)
Example ex_u8_wrap_hi : checked_add_signed 8 255 1 = None.       Proof. reflexivity. Qed.
Example ex_u8_wrap_lo : checked_add_signed 8 0 (-1) = None.      Proof. reflexivity. Qed.
Example ex_u8_min     : checked_add_signed 8 128 (-128) = Some 0. Proof. reflexivity. Qed.
Example ex_u64_max    : checked_add_signed 64 (2^64-1) 0 = Some (2^64-1). Proof. reflexivity. Qed.
Example ex_u64_edge   : checked_add_signed 64 (2^63) (-2^63) = Some 0. Proof. reflexivity. Qed.
