(* C11, part 3: the sanitizer's own BufReader over a lenient stack simulates the lenient ideal cursor, operation by
   operation (fill_buf().is_empty(), read_exact, read-up-to, skip, position, length); the theorems of Props/C11.v. *)
From Coq Require Import List NArith ZArith Bool Lia ZifyBool ZifyNat ZifyN.
From Coq.Strings Require Import Byte.
From MS Require Import Base.Bytes Base.Outcome Base.Cursor Base.Adapters Base.AdaptersSpec Base.AdaptersProofs
     Base.Prog Base.StackReader Base.StackSpec Base.StackProofs Base.StackProofsView.
Import ListNotations.
Open Scope N_scope.
Arguments N.add : simpl never.
Arguments N.sub : simpl never.
Arguments N.mul : simpl never.
Arguments N.eqb : simpl never.
Arguments N.ltb : simpl never.
Arguments N.leb : simpl never.
Arguments N.min : simpl never.
Arguments N.max : simpl never.

(* ------------------------------------------------------------------------------------------------ *)
(* the read loops over any read that behaves as a lenient ideal read *)
Section Loops.
  Context {St : Type} (abs : St -> cur) (Inv : St -> Prop) (rd : N -> St -> res bytes * St).
  Context (Hrd : forall k s, Inv s -> exists l s',
     rd k s = (Ok l, s') /\ l = slice (cdata (abs s)) (cpos (abs s)) (blen l) /\ blen l <= k /\
     (blen l = 0 <-> (k = 0 \/ clen (abs s) <= cpos (abs s))) /\
     abs s' = cmove (abs s) (cpos (abs s) + blen l) /\ Inv s').

  Lemma lrx_ok (b : bool) : forall fuel k acc s, Inv s -> cpos (abs s) + k <= clen (abs s) -> (N.to_nat k < fuel)%nat ->
    exists s', read_exact_loop b rd fuel k acc s = (Ok (acc ++ slice (cdata (abs s)) (cpos (abs s)) k), s') /\
               abs s' = cmove (abs s) (cpos (abs s) + k) /\ Inv s'.
  Proof.
    induction fuel as [|fuel IH]; intros k acc s HI Hw Hf; [lia|].
    cbn [read_exact_loop]. destruct (N.eqb_spec k 0) as [->|Hk].
    - exists s. rewrite slice_0, app_nil_r, N.add_0_r, cmove_same. auto.
    - destruct (Hrd k s HI) as (l & s1 & E & Hl & Hle & Hz & Ha & HI1). rewrite E.
      destruct (N.eqb_spec (blen l) 0) as [Hz0|Hnz]; [apply Hz in Hz0; lia|].
      destruct (N.ltb_spec k (blen l)) as [Hlt|_]; [lia|].
      destruct (IH (k - blen l) (acc ++ l) s1 HI1) as (s2 & E2 & Ha2 & HI2).
      + rewrite Ha, cpos_cmove, clen_cmove. lia.
      + lia.
      + exists s2. rewrite E2, Ha. cbn [cmove cpos cdata]. split; [|split; [|exact HI2]].
        * f_equal. rewrite <- app_assoc. f_equal.
          replace k with (blen l + (k - blen l)) at 2 by lia. rewrite slice_app, <- Hl. reflexivity.
        * rewrite Ha2, Ha, cmove_cmove, cpos_cmove. f_equal. lia.
  Qed.

  (* not enough bytes left: everything up to the end is consumed, then UnexpectedEof *)
  Lemma lrx_eof (b : bool) : forall fuel k acc s, Inv s -> k <> 0 -> clen (abs s) < cpos (abs s) + k -> (N.to_nat k < fuel)%nat ->
    exists s', read_exact_loop b rd fuel k acc s = (EIo EUnexpectedEof, s') /\
               abs s' = cmove (abs s) (N.max (cpos (abs s)) (clen (abs s))) /\ Inv s'.
  Proof.
    induction fuel as [|fuel IH]; intros k acc s HI Hk Hw Hf; [lia|].
    cbn [read_exact_loop]. destruct (N.eqb_spec k 0) as [|_]; [contradiction|].
    destruct (Hrd k s HI) as (l & s1 & E & Hl & Hle & Hz & Ha & HI1). rewrite E.
    pose proof (slice_full_eq _ _ _ Hl) as Hfit. fold (clen (abs s)) in Hfit.
    destruct (N.eqb_spec (blen l) 0) as [Hz0|Hnz].
    - exists s1. split; [reflexivity|]. split; [|exact HI1]. rewrite Ha, Hz0, N.add_0_r.
      apply Hz in Hz0. destruct Hz0 as [|Hend]; [contradiction|]. f_equal. lia.
    - destruct (N.ltb_spec k (blen l)) as [Hlt|_]; [lia|].
      assert (Hin : cpos (abs s) < clen (abs s)).
      { destruct (N.lt_ge_cases (cpos (abs s)) (clen (abs s))) as [|Hge]; [assumption|].
        exfalso. apply Hnz, Hz. right. exact Hge. }
      destruct (IH (k - blen l) (acc ++ l) s1 HI1) as (s2 & E2 & Ha2 & HI2).
      + lia.
      + rewrite Ha, cpos_cmove, clen_cmove. lia.
      + lia.
      + exists s2. split; [exact E2|]. split; [|exact HI2].
        rewrite Ha2, Ha, cmove_cmove, cpos_cmove, clen_cmove. f_equal. lia.
  Qed.

  Lemma lupto : forall fuel n acc s, Inv s -> (N.to_nat n < fuel)%nat ->
    exists s', read_upto_loop rd fuel n acc s =
               (Ok (acc ++ slice (cdata (abs s)) (cpos (abs s)) (N.min n (clen (abs s) - cpos (abs s)))), s') /\
               abs s' = cmove (abs s) (cpos (abs s) + N.min n (clen (abs s) - cpos (abs s))) /\ Inv s'.
  Proof.
    induction fuel as [|fuel IH]; intros n acc s HI Hf; [lia|].
    cbn [read_upto_loop]. destruct (N.eqb_spec n 0) as [->|Hn].
    - exists s. rewrite N.min_0_l, slice_0, app_nil_r, N.add_0_r, cmove_same. auto.
    - destruct (Hrd n s HI) as (l & s1 & E & Hl & Hle & Hz & Ha & HI1). rewrite E.
      pose proof (slice_full_eq _ _ _ Hl) as Hfit. fold (clen (abs s)) in Hfit.
      destruct (N.eqb_spec (blen l) 0) as [Hz0|Hnz].
      + exists s1. apply Hz in Hz0 as Hend. destruct Hend as [|Hend]; [contradiction|].
        replace (N.min n (clen (abs s) - cpos (abs s))) with 0 by lia.
        rewrite slice_0, app_nil_r, Ha, Hz0. auto.
      + destruct (N.ltb_spec n (blen l)) as [Hlt|_]; [lia|].
        destruct (IH (n - blen l) (acc ++ l) s1 HI1) as (s2 & E2 & Ha2 & HI2); [lia|].
        exists s2. rewrite E2, Ha. rewrite cdata_cmove, cpos_cmove, clen_cmove. split; [|split; [|exact HI2]].
        * f_equal. rewrite <- app_assoc. f_equal.
          replace (N.min n (clen (abs s) - cpos (abs s)))
            with (blen l + N.min (n - blen l) (clen (abs s) - (cpos (abs s) + blen l))) by lia.
          rewrite slice_app, <- Hl. reflexivity.
        * rewrite Ha2, Ha, cmove_cmove, cpos_cmove, clen_cmove. f_equal. lia.
  Qed.
End Loops.

(* ------------------------------------------------------------------------------------------------ *)
Section Top.
  Context (ms cap : N) (stdf : bool) (R : Adapters.reader) (abs : Adapters.rst R -> cur) (Inv : Adapters.rst R -> Prop).
  Context (Hcap : 1 <= cap) (HR : lrefines ms R abs Inv).
  Context (data : bytes) (inp : input) (Hinp : inp_is inp data).

  Notation babs := (buf_abs R abs).
  Notation binv := (buf_inv R abs Inv).
  Notation rel := (view_rel R abs Inv data).

  Let Hread := lb_read ms cap R abs Inv Hcap HR.

  Lemma rel_intro s s' x : babs s = {| cdata := data; cpos := x |} -> forall y, babs s' = cmove (babs s) y -> binv s' -> rel s' y.
  Proof. intros Hs y Ha HB. split; [exact HB|]. rewrite Ha, Hs. reflexivity. Qed.

  Lemma rel_facts s pos : rel s pos ->
    binv s /\ cdata (babs s) = data /\ cpos (babs s) = pos /\ clen (babs s) = blen data /\ ilen inp = blen data.
  Proof. intros [HB Ha]. rewrite Ha. unfold clen. cbn [cdata cpos]. destruct Hinp as [Hl _]. auto. Qed.

  Lemma iread_is pos n : n = 0 \/ pos + n <= blen data -> iread inp pos (N.to_nat n) = slice data pos n.
  Proof.
    intros [->|H]; [reflexivity|]. apply (proj2 Hinp), H.
  Qed.

  (* read_exact: Ok with exactly the next n bytes; UnexpectedEof with the cursor at max(pos, len) *)
  Lemma top_read_exact n s pos : rel s pos ->
    (n = 0 \/ pos + n <= blen data ->
       exists s', (if stdf then buf_read_exact cap R n s else fbuf_read_exact cap R n s) = (Ok (slice data pos n), s') /\
                  rel s' (pos + n)) /\
    (n <> 0 -> blen data < pos + n ->
       exists s', (if stdf then buf_read_exact cap R n s else fbuf_read_exact cap R n s) = (EIo EUnexpectedEof, s') /\
                  rel s' (N.max pos (blen data))).
  Proof.
    intros Hrel. destruct (rel_facts s pos Hrel) as (HB & Hd & Hp & Hl & Hil). pose proof Hrel as [_ Habs].
    destruct (lb_facts ms cap R abs Inv Hcap HR s HB) as (HI & Hlw & Hb & Hd' & Hc & Hn & He & Hin). cbn zeta in *.
    assert (Hloop_ok : forall b, n = 0 \/ pos + n <= blen data ->
              exists s', read_exact_default b (buf_read cap R) n s = (Ok (slice data pos n), s') /\ rel s' (pos + n)).
    { intros b [->|Hw].
      - exists s. unfold read_exact_default. cbn [read_exact_loop]. rewrite N.eqb_refl, N.add_0_r. auto.
      - destruct (lrx_ok babs binv (buf_read cap R) Hread b (S (N.to_nat n)) n [] s HB) as (s' & E & Ha & HB'); [lia|lia|].
        exists s'. unfold read_exact_default. rewrite E, Hd, Hp. split; [reflexivity|].
        apply (rel_intro s s' pos Habs). { rewrite Ha, Hp. reflexivity. } exact HB'. }
    assert (Hloop_eof : forall b, n <> 0 -> blen data < pos + n ->
              exists s', read_exact_default b (buf_read cap R) n s = (EIo EUnexpectedEof, s') /\ rel s' (N.max pos (blen data))).
    { intros b Hn0 Hw.
      destruct (lrx_eof babs binv (buf_read cap R) Hread b (S (N.to_nat n)) n [] s HB Hn0) as (s' & E & Ha & HB'); [lia|lia|].
      exists s'. unfold read_exact_default. rewrite E. split; [reflexivity|].
      apply (rel_intro s s' pos Habs). { rewrite Ha, Hp, Hl. reflexivity. } exact HB'. }
    destruct stdf; [|split; [apply Hloop_ok|apply Hloop_eof]].
    unfold buf_read_exact. destruct (N.leb_spec n (blen (bbuf s))) as [Hin'|Hout]; [|split; [apply Hloop_ok|apply Hloop_eof]].
    (* std: served from the buffer *)
    assert (Hfit : n = 0 \/ pos + n <= blen data).
    { destruct (N.eq_dec n 0); [left; assumption|right]. assert (0 < blen (bbuf s)) by lia. unfold clen in *. lia. }
    split; [|intros Hn0 Hw; unfold clen in *; lia].
    intros _. eexists. split.
    - f_equal. rewrite He at 1. rewrite firstn_slice. rewrite <- Hd, Hd', <- Hp, Hc. do 2 f_equal. lia.
    - apply (rel_intro s _ pos Habs).
      + unfold buf_abs, buf_consume. cbn [bbuf binner]. rewrite blen_skipn, cmove_cmove. f_equal. lia.
      + unfold buf_inv, buf_consume. cbn [bbuf binner]. rewrite blen_skipn. split; [exact HI|]. split; [lia|].
        rewrite He at 1. rewrite skipn_slice. f_equal; lia.
  Qed.

  Lemma resp_of_io {A : Type} (f : A -> resp) e : resp_of f (EIo e) = RErr e.
  Proof. reflexivity. Qed.

  (* one operation of a programme: the view and the lenient ideal cursor answer the same and stay related *)
  Lemma view_step (o : Prog.op) s pos : rel s pos ->
    fst (top_step cap stdf R o s) = fst (cursor_step inp true ms o pos) /\
    rel (snd (top_step cap stdf R o s)) (snd (cursor_step inp true ms o pos)).
  Proof.
    intros Hrel. destruct (rel_facts s pos Hrel) as (HB & Hd & Hp & Hl & Hil). pose proof Hrel as [_ Habs].
    destruct (lb_facts ms cap R abs Inv Hcap HR s HB) as (HI & Hlw & Hb & Hd' & Hc & Hn & He & Hin). cbn zeta in *.
    destruct Hlw as (Hw1 & Hw2 & Hw3 & Hw4).
    destruct o as [|n|n| | |n|n]; cbn [top_step].
    - (* fill_buf().is_empty() *)
      unfold cursor_step. rewrite Hil. unfold buf_fill.
      destruct (bbuf s) as [|x bs] eqn:Ebuf.
      + assert (Es : s = {| bbuf := []; binner := binner s |}) by (destruct s; cbn in *; now subst).
        assert (Ea : babs s = abs (binner s)) by (rewrite Es; apply empty_buf_abs).
        destruct (proj1 (proj2 HR) cap (binner s) HI) as (l & i' & E & H1 & H2 & H3 & H4 & H5). rewrite E.
        destruct (lb_filled ms cap R abs Inv Hcap HR (binner s) l i' HI H1 H4 H5) as [HB1 Ea1].
        cbn [fst snd resp_of bbuf]. split.
        * f_equal. rewrite <- Ea, Hl, Hp in H3.
          destruct l as [|y l']; [|pose proof (blen_cons_pos y l')];
            destruct (N.leb_spec (blen data) pos); try reflexivity; exfalso; [|].
          -- assert (blen (@nil byte) = 0) as Hz by reflexivity. apply H3 in Hz. lia.
          -- assert (blen (y :: l') = 0) as Hz by (apply H3; right; assumption). lia.
        * split; [exact HB1|]. rewrite Ea1, <- Ea. exact Habs.
      + cbn [fst snd resp_of]. rewrite Ebuf. split; [|exact Hrel].
        f_equal. pose proof (blen_cons_pos x bs).
        destruct (N.leb_spec (blen data) pos); [unfold clen in *; lia|reflexivity].
    - (* read_exact *)
      destruct (top_read_exact n s pos Hrel) as [Hok Heof].
      unfold cursor_step. rewrite Hil.
      destruct (N.eq_dec n 0) as [->|Hn0].
      + destruct (Hok (or_introl eq_refl)) as (s' & E & Hrel'). rewrite E. cbn [fst snd resp_of].
        rewrite N.eqb_refl. cbn [orb fst snd]. auto.
      + destruct (N.eqb_spec n 0) as [|_]; [contradiction|]. cbn [orb].
        destruct (N.leb_spec (pos + n) (blen data)) as [Hfit|Hnot].
        * destruct (Hok (or_intror Hfit)) as (s' & E & Hrel'). rewrite E. cbn [fst snd resp_of].
          rewrite (iread_is pos n (or_intror Hfit)). auto.
        * destruct (Heof Hn0 Hnot) as (s' & E & Hrel'). rewrite E. cbn [fst snd resp_of]. auto.
    - (* skip *)
      unfold cursor_step.
      destruct (N.leb_spec (pos + n) ms) as [Hfit|Hnot].
      + destruct (lb_skip_ok ms cap R abs Inv Hcap HR n s HB) as (s' & E & Ha & HB'); [lia|]. rewrite E. cbn [fst snd resp_of].
        split; [reflexivity|]. apply (rel_intro s s' pos Habs); [rewrite Ha, Hp; reflexivity|exact HB'].
      + destruct (lb_skip_err ms cap R abs Inv Hcap HR n s HB) as (s' & E & Ha & HB'); [lia|]. rewrite E. cbn [fst snd].
        rewrite resp_of_io, Hp. split.
        * unfold skip_err. change I64MAX' with I64MAX. change U64MAX' with U64MAXN.
          destruct ((I64MAX <? n) && (U64MAXN <? pos + n)); reflexivity.
        * assert (Hst : snd (if (I64MAX' <? n) && (U64MAX' <? pos + n) then (RErr EInvalidData, pos) else (RErr EInvalidInput, pos)) = pos)
            by (destruct ((I64MAX' <? n) && (U64MAX' <? pos + n)); reflexivity).
          rewrite Hst. split; [exact HB'|]. rewrite Ha. exact Habs.
    - (* position *)
      destruct (lb_pos ms cap R abs Inv Hcap HR s HB) as (s' & E & Ha & HB'). rewrite E. cbn [fst snd resp_of cursor_step].
      rewrite Hp. split; [reflexivity|]. split; [exact HB'|]. rewrite Ha. exact Habs.
    - (* length *)
      destruct (lb_len ms cap R abs Inv Hcap HR s HB) as (s' & E & Ha & HB'). rewrite E. cbn [fst snd resp_of cursor_step].
      rewrite Hl, Hil. split; [reflexivity|]. split; [exact HB'|]. rewrite Ha. exact Habs.
    - (* alloc *)
      cbn [fst snd cursor_step]. auto.
    - (* read up to n *)
      destruct (lupto babs binv (buf_read cap R) Hread (S (N.to_nat n)) n [] s HB) as (s' & E & Ha & HB'); [lia|].
      rewrite E. cbn [fst snd resp_of cursor_step app]. rewrite Hd, Hp, Hl, Hil. rewrite Hp, Hl in Ha.
      set (k := N.min n (blen data - pos)) in *.
      split.
      + f_equal. symmetry. apply iread_is. destruct (N.eq_dec k 0); [left; assumption|right; lia].
      + apply (rel_intro s s' pos Habs); [rewrite Ha; reflexivity|exact HB'].
  Qed.
End Top.

(* ------------------------------------------------------------------------------------------------ *)
(* inputs *)
Definition input_of_list (data : bytes) : input :=
  {| ilen := blen data; iget := fun p => nth (N.to_nat p) data x00 |}.

Lemma skipn_nth_cons (l : bytes) : forall p, (p < length l)%nat -> skipn p l = nth p l x00 :: skipn (S p) l.
Proof.
  induction l as [|x l IH]; intros p Hp; cbn [length] in Hp; [lia|].
  destruct p as [|p]; [reflexivity|]. cbn [skipn nth]. apply IH. lia.
Qed.

Lemma input_of_list_is data : inp_is (input_of_list data) data.
Proof.
  split; [reflexivity|]. intros p n H. unfold slice.
  remember (N.to_nat n) as m eqn:Em. assert (Hm : (N.to_nat p + m <= length data)%nat) by (unfold blen in H; lia).
  clear H Em n. revert p Hm. induction m as [|m IH]; intros p Hm; [reflexivity|].
  cbn [iread firstn]. rewrite (skipn_nth_cons data (N.to_nat p)) by lia. cbn [firstn input_of_list iget]. f_equal.
  replace (S (N.to_nat p)) with (N.to_nat (p + 1)) by lia. apply IH. lia.
Qed.

(* ------------------------------------------------------------------------------------------------ *)
(* every view against the lenient ideal cursor Prog.cursor inp true max_seek, for every programme *)
Lemma view_refines_cursor (own_cap : N) (stdf : bool) (ms : N) (st : stk) (data : bytes) (inp : input) :
  1 <= own_cap -> stk_ok st -> blen data <= I64MAX -> ms_ok (blen data) ms -> inp_is inp data ->
  forall (A : Type) (p : Prog.prog A),
    fst (Prog.run (stack_reader own_cap stdf ms st) p (stack_init ms st data)) = fst (Prog.run (Prog.cursor inp true ms) p 0).
Proof.
  intros Hcap Hok Hd Hms Hinp A p.
  destruct (stk_lrefines ms st Hok) as (abs & Inv & HR & Hinit). destruct (Hinit data Hd Hms) as [HI Ha].
  apply (run_sim (stack_reader own_cap stdf ms st) (Prog.cursor inp true ms) (view_rel (stk_reader ms st) abs Inv data)).
  - intros o s pos Hrel. apply (view_step ms own_cap stdf (stk_reader ms st) abs Inv Hcap HR data inp Hinp o s pos Hrel).
  - unfold stack_init, buf_init. split; [apply empty_buf_inv, HI|]. rewrite empty_buf_abs. exact Ha.
Qed.

(* any two views of the same bytes (same max_seek): same result for every programme *)
Lemma same_result (c1 c2 : N) (f1 f2 : bool) (ms : N) (st1 st2 : stk) (data : bytes) :
  1 <= c1 -> 1 <= c2 -> stk_ok st1 -> stk_ok st2 -> blen data <= I64MAX -> ms_ok (blen data) ms ->
  forall (A : Type) (p : Prog.prog A),
    fst (Prog.run (stack_reader c1 f1 ms st1) p (stack_init ms st1 data)) =
    fst (Prog.run (stack_reader c2 f2 ms st2) p (stack_init ms st2 data)).
Proof.
  intros H1 H2 Hok1 Hok2 Hd Hms A p.
  rewrite (view_refines_cursor c1 f1 ms st1 data (input_of_list data) H1 Hok1 Hd Hms (input_of_list_is data) A p).
  rewrite (view_refines_cursor c2 f2 ms st2 data (input_of_list data) H2 Hok2 Hd Hms (input_of_list_is data) A p).
  reflexivity.
Qed.

(* the short-read oracle at the bottom does not matter *)
Fixpoint rechunk (sizes : list N) (st : stk) : stk :=
  match st with
  | SCursor _ => SCursor sizes
  | SSeek _ => SSeek sizes
  | SBuf c s => SBuf c (rechunk sizes s)
  | SFBuf c s => SFBuf c (rechunk sizes s)
  | SFwd s => SFwd (rechunk sizes s)
  | SAin s => SAin (rechunk sizes s)
  end.
Lemma rechunk_ok sizes st : stk_ok st -> stk_ok (rechunk sizes st).
Proof. induction st; cbn [stk_ok rechunk]; intuition. Qed.

Lemma chunking_independent (c : N) (f : bool) (ms : N) (st : stk) (sizes : list N) (data : bytes) :
  1 <= c -> stk_ok st -> blen data <= I64MAX -> ms_ok (blen data) ms ->
  forall (A : Type) (p : Prog.prog A),
    fst (Prog.run (stack_reader c f ms (rechunk sizes st)) p (stack_init ms (rechunk sizes st) data)) =
    fst (Prog.run (stack_reader c f ms st) p (stack_init ms st data)).
Proof. intros Hc Hok Hd Hms A p. apply same_result; auto using rechunk_ok. Qed.
