(* Executable models (definitions only) of the Skip / Read adapters of mediasan-common and of the third-party
   readers they wrap, as explicit state machines over an inner reader state.

     std_cursor            std::io::Cursor<T: AsRef<[u8]>>: Read (read, read_exact) + Seek (seek, stream_position)
     seek_adapter          mediasan_common::SeekSkipAdapter<T: Seek>  (common/src/skip.rs; async twin in async_skip.rs)
     cursor_reader         `impl Skip for Cursor<T>` (skip_via_adapter!) together with Cursor's own Read
     std_buf cap           std::io::BufReader<T> (read / fill_buf / consume / read_exact) + `impl Skip for BufReader<T>`
     fut_buf cap           futures_util::io::BufReader<R> (poll_read / poll_fill_buf / consume, ReadExact future) +
                           `impl AsyncSkip for BufReader<R>`, all polls Ready (the poll-level model is in Async.v)
     fwd                   the forwarding impls (&mut T, Box<T>, Pin<P>)
     async_input           mediasan_common::sync::AsyncInputAdapter<T>
     chunk_data            webpsan::reader::ChunkDataReader (the body of one chunk of a ChunkReader)

   u64/usize quantities are N; every place where Rust checks, saturates or would wrap is explicit.  *)
From Coq Require Import List NArith ZArith Bool.
From MS Require Import Base.Bytes Base.Outcome Base.Cursor.
Import ListNotations.
Open Scope N_scope.

(* `?` in a function that threads a state *)
Definition sbind {S A B} (m : res A * S) (k : A -> S -> res B * S) : res B * S :=
  match m with
  | (Ok a, s) => k a s
  | (EParse e, s) => (EParse e, s)
  | (EIo e, s) => (EIo e, s)
  | (Panic n, s) => (Panic n, s)
  | (OutOfFuel, s) => (OutOfFuel, s)
  end.

(* ------------------------------------------------------------------------------------------------ *)
(* Read + Skip *)
Record reader := {
  rst : Type;
  rread : N -> rst -> res bytes * rst;           (* Read::read with a k-byte buffer: the bytes stored *)
  rread_exact : N -> rst -> res bytes * rst;     (* Read::read_exact with a k-byte buffer *)
  rskip : N -> rst -> res unit * rst;            (* Skip::skip *)
  rpos : rst -> res N * rst;                     (* Skip::stream_position *)
  rlen : rst -> res N * rst                      (* Skip::stream_len *)
}.

Definition rstep (R : reader) (o : op) (s : rst R) : obs * rst R :=
  match o with
  | ORead k => let (r, s') := rread R k s in (rmap VBytes r, s')
  | OReadExact k => let (r, s') := rread_exact R k s in (rmap VBytes r, s')
  | OSkip a => let (r, s') := rskip R a s in (rmap (fun _ => VUnit) r, s')
  | OPos => let (r, s') := rpos R s in (rmap VNum r, s')
  | OLen => let (r, s') := rlen R s in (rmap VNum r, s')
  end.

Fixpoint run_ops (R : reader) (ops : list op) (s : rst R) : list obs * rst R :=
  match ops with
  | [] => ([], s)
  | o :: ops' => let (r, s1) := rstep R o s in let (rs, s2) := run_ops R ops' s1 in (r :: rs, s2)
  end.

(* Read + Seek *)
Record seeker := {
  sst : Type;
  s_read : N -> sst -> res bytes * sst;
  s_read_exact : N -> sst -> res bytes * sst;
  s_seek : seekfrom -> sst -> res N * sst;
  s_stream_position : sst -> res N * sst          (* Seek::stream_position (provided method, overridden by Cursor) *)
}.

(* std::io::default_read_exact (retry_intr = true) and futures_util::io::ReadExact (retry_intr = false):
     while !buf.is_empty() { match read(buf) { Ok(0) => UnexpectedEof, Ok(n) => buf = &mut buf[n..], ... } }
   [k] = bytes still wanted, [acc] = bytes stored so far.  A reader that claims more than it was offered makes
   the slice operation panic.  fuel: one unit per call of read. *)
Fixpoint read_exact_loop {S : Type} (retry_intr : bool) (rd : N -> S -> res bytes * S)
         (fuel : nat) (k : N) (acc : bytes) (s : S) : res bytes * S :=
  if k =? 0 then (Ok acc, s) else
  match fuel with
  | O => (OutOfFuel, s)
  | Datatypes.S fuel' =>
    match rd k s with
    | (Ok l, s') =>
        if blen l =? 0 then (EIo EUnexpectedEof, s')
        else if k <? blen l then (Panic 1, s')
        else read_exact_loop retry_intr rd fuel' (k - blen l) (acc ++ l) s'
    | (EIo EInterrupted, s') =>
        if retry_intr then read_exact_loop retry_intr rd fuel' k acc s' else (EIo EInterrupted, s')
    | (e, s') => (e, s')
    end
  end.
Definition read_exact_default {S : Type} (retry_intr : bool) (rd : N -> S -> res bytes * S) (k : N) (s : S) :=
  read_exact_loop retry_intr rd (Datatypes.S (N.to_nat k)) k [] s.

(* ------------------------------------------------------------------------------------------------ *)
(* std::io::Cursor over a byte string; the state is a [cur] whose position may lie beyond the end.
   [max_seek]: largest position the underlying object accepts (2^64-1 for Cursor; a File refuses
   targets above 2^63-1 with EINVAL = InvalidInput, finding D11). *)
Definition U64MAXN : N := 18446744073709551615.

(* Cursor::split: the remaining slice starts at min(pos, len) *)
Definition cur_remaining (c : cur) : bytes := skipn (N.to_nat (N.min (cpos c) (clen c))) (cdata c).

Definition cursor_read (k : N) (c : cur) : res bytes * cur :=
  let l := firstn (N.to_nat k) (cur_remaining c) in
  (Ok l, cmove c (cpos c + blen l)).

(* Cursor::read_exact: Ok => pos += k; Err => pos = len ("place the cursor at EOF") *)
Definition cursor_read_exact (k : N) (c : cur) : res bytes * cur :=
  let rem := cur_remaining c in
  if blen rem <? k then (EIo EUnexpectedEof, cmove c (clen c))
  else (Ok (firstn (N.to_nat k) rem), cmove c (cpos c + k)).

(* Cursor::seek: Start(n) sets any u64; Current/End: base.checked_add_signed(offset), None => InvalidInput *)
Definition cursor_seek (max_seek : N) (sf : seekfrom) (c : cur) : res N * cur :=
  match sf with
  | SStart n => if max_seek <? n then (EIo EInvalidInput, c) else (Ok n, cmove c n)
  | SCurrent d | SEnd d =>
      let base := match sf with SEnd _ => clen c | _ => cpos c end in
      let t := (Z.of_N base + d)%Z in
      if ((0 <=? t)%Z && (t <? Z.of_N U64)%Z && (t <=? Z.of_N max_seek)%Z)%bool
      then (Ok (Z.to_N t), cmove c (Z.to_N t))
      else (EIo EInvalidInput, c)
  end.

Definition cursor_stream_position (c : cur) : res N * cur := (Ok (cpos c), c).

Definition std_cursor (max_seek : N) : seeker :=
  {| sst := cur; s_read := cursor_read; s_read_exact := cursor_read_exact;
     s_seek := cursor_seek max_seek; s_stream_position := cursor_stream_position |}.

(* ------------------------------------------------------------------------------------------------ *)
(* SeekSkipAdapter<T: Seek>  (common/src/skip.rs) *)
Section SeekAdapter.
  Context (S : seeker).

  (* match amount.try_into() { Ok(0) => (), Ok(amount) => seek(Current(amount))?,
       Err(_) => { pos = stream_position()?; seek_pos = pos.checked_add(amount).ok_or(InvalidData)?; seek(Start(seek_pos))? } } *)
  Definition ssa_skip (amount : N) (s : sst S) : res unit * sst S :=
    if amount <=? I64MAX then
      if amount =? 0 then (Ok tt, s)
      else sbind (s_seek S (SCurrent (Z.of_N amount)) s) (fun _ s1 => (Ok tt, s1))
    else
      sbind (s_stream_position S s) (fun p s1 =>
        if U64 <=? p + amount then (EIo EInvalidData, s1)
        else sbind (s_seek S (SStart (p + amount)) s1) (fun _ s2 => (Ok tt, s2))).

  Definition ssa_pos (s : sst S) : res N * sst S := s_stream_position S s.

  (* let stream_pos = self.stream_position()?; let len = self.0.seek(End(0))?;
     if stream_pos != len { self.0.seek(Start(stream_pos))?; }  Ok(len) *)
  Definition ssa_len (s : sst S) : res N * sst S :=
    sbind (s_stream_position S s) (fun p s1 =>
    sbind (s_seek S (SEnd 0%Z) s1) (fun len s2 =>
      if p =? len then (Ok len, s2)
      else sbind (s_seek S (SStart p) s2) (fun _ s3 => (Ok len, s3)))).

  (* `impl Read for SeekSkipAdapter<T>` defines only `read`; read_exact is the default loop over it *)
  Definition seek_adapter : reader :=
    {| rst := sst S; rread := s_read S; rread_exact := read_exact_default true (s_read S);
       rskip := ssa_skip; rpos := ssa_pos; rlen := ssa_len |}.

  (* `impl Skip for Cursor<T>` = SeekSkipAdapter(self).{skip, stream_position, stream_len}; Read is the seeker's own *)
  Definition seekable_reader : reader :=
    {| rst := sst S; rread := s_read S; rread_exact := s_read_exact S;
       rskip := ssa_skip; rpos := ssa_pos; rlen := ssa_len |}.
End SeekAdapter.

Definition cursor_reader (max_seek : N) : reader := seekable_reader (std_cursor max_seek).

(* ------------------------------------------------------------------------------------------------ *)
(* std::io::BufReader<T> with capacity [cap]; state: the unconsumed part buf[pos..filled] and the inner reader *)
Record bst (I : Type) := { bbuf : bytes; binner : I }.
Arguments bbuf {I} _.
Arguments binner {I} _.

Section Buf.
  Context (cap : N) (R : reader).
  Let st := bst (rst R).

  (* Buffer::fill_buf: if pos >= filled { read into the whole buffer; pos = 0; filled = n; result? } *)
  Definition buf_fill (s : st) : res unit * st :=
    match bbuf s with
    | [] => match rread R cap (binner s) with
            | (Ok l, i') => (Ok tt, {| bbuf := l; binner := i' |})
            | (EParse e, i') => (EParse e, {| bbuf := []; binner := i' |})
            | (EIo e, i') => (EIo e, {| bbuf := []; binner := i' |})
            | (Panic n, i') => (Panic n, {| bbuf := []; binner := i' |})
            | (OutOfFuel, i') => (OutOfFuel, {| bbuf := []; binner := i' |})
            end
    | _ :: _ => (Ok tt, s)
    end.

  (* consume(amt): pos = min(pos + amt, filled) *)
  Definition buf_consume (amt : N) (s : st) : st :=
    {| bbuf := skipn (N.to_nat amt) (bbuf s); binner := binner s |}.

  (* copy out of the buffer: rem.read(buf) then consume(nread) *)
  Definition buf_copy (k : N) (s : st) : res bytes * st :=
    let n := N.min k (blen (bbuf s)) in
    (Ok (firstn (N.to_nat n) (bbuf s)), buf_consume n s).

  (* BufReader::read: if pos == filled && buf.len() >= capacity { discard_buffer(); return inner.read(buf) }
     let rem = self.fill_buf()?; let nread = rem.read(buf)?; self.consume(nread) *)
  Definition buf_read (k : N) (s : st) : res bytes * st :=
    match bbuf s with
    | [] => if cap <=? k
            then let (r, i') := rread R k (binner s) in (r, {| bbuf := []; binner := i' |})
            else sbind (buf_fill s) (fun _ s1 => buf_copy k s1)
    | _ :: _ => buf_copy k s
    end.

  (* BufReader::read_exact: if self.buf.consume_with(k, copy) { return Ok(()) }  default_read_exact(self, buf) *)
  Definition buf_read_exact (k : N) (s : st) : res bytes * st :=
    if k <=? blen (bbuf s) then (Ok (firstn (N.to_nat k) (bbuf s)), buf_consume k s)
    else read_exact_default true buf_read k s.

  (* futures_util::io::ReadExact over BufReader::poll_read (no shortcut, no retry) *)
  Definition fbuf_read_exact (k : N) (s : st) : res bytes * st := read_exact_default false buf_read k s.

  (* impl Skip for BufReader<T> / impl AsyncSkip for futures BufReader<R>  (common/src/skip.rs, async_skip.rs):
       let buf_len = self.buffer().len();
       if let Some(skip_amount) = amount.checked_sub(buf_len) { if skip_amount != 0 { inner.skip(skip_amount)?; } }
       self.consume(buf_len.min(amount as usize)); *)
  Definition buf_skip (amount : N) (s : st) : res unit * st :=
    let buf_len := blen (bbuf s) in
    let inner :=
      if buf_len <=? amount then
        if amount - buf_len =? 0 then (Ok tt, s)
        else let (r, i') := rskip R (amount - buf_len) (binner s) in (r, {| bbuf := bbuf s; binner := i' |})
      else (Ok tt, s) in
    sbind inner (fun _ s1 => (Ok tt, buf_consume (N.min buf_len amount) s1)).

  (* stream_position: inner.stream_position()?.saturating_sub(buffer().len()) *)
  Definition buf_pos (s : st) : res N * st :=
    let (r, i') := rpos R (binner s) in
    sbind (r, {| bbuf := bbuf s; binner := i' |}) (fun p s1 => (Ok (p - blen (bbuf s1)), s1)).

  (* stream_len: forwarded *)
  Definition buf_len (s : st) : res N * st :=
    let (r, i') := rlen R (binner s) in (r, {| bbuf := bbuf s; binner := i' |}).

  Definition std_buf : reader :=
    {| rst := st; rread := buf_read; rread_exact := buf_read_exact; rskip := buf_skip; rpos := buf_pos; rlen := buf_len |}.
  Definition fut_buf : reader :=
    {| rst := st; rread := buf_read; rread_exact := fbuf_read_exact; rskip := buf_skip; rpos := buf_pos; rlen := buf_len |}.

  Definition buf_init (i : rst R) : st := {| bbuf := []; binner := i |}.
End Buf.

(* ------------------------------------------------------------------------------------------------ *)
(* forwarding impls: &mut T, Box<T> (deref_skip!, std's Read for &mut R / Box<R> forward read and read_exact),
   Pin<P> / &mut R / Box<R> (deref_async_skip!; futures forwards poll_read) *)
Definition fwd (R : reader) : reader :=
  {| rst := rst R; rread := fun k s => rread R k s; rread_exact := fun k s => rread_exact R k s;
     rskip := fun a s => rskip R a s; rpos := fun s => rpos R s; rlen := fun s => rlen R s |}.

(* AsyncInputAdapter<T>: poll_read = self.0.read(buf); poll_skip/position/len = self.0.*; read_exact of the
   async side is futures' ReadExact over poll_read (it never calls T::read_exact) *)
Definition async_input (R : reader) : reader :=
  {| rst := rst R; rread := fun k s => rread R k s; rread_exact := read_exact_default false (rread R);
     rskip := fun a s => rskip R a s; rpos := fun s => rpos R s; rlen := fun s => rlen R s |}.

(* futures' ReadExact over any AsyncRead (e.g. futures Cursor, whose poll_read is std Cursor::read) *)
Definition fut_view (R : reader) : reader :=
  {| rst := rst R; rread := fun k s => rread R k s; rread_exact := read_exact_default false (rread R);
     rskip := fun a s => rskip R a s; rpos := fun s => rpos R s; rlen := fun s => rlen R s |}.

(* ------------------------------------------------------------------------------------------------ *)
(* webpsan::reader::ChunkDataReader over a ChunkReader { state, inner: BufReader<R> }.
   Only the part of the ChunkReader state the data reader looks at: Idle / ReadingPadding (no body),
   PeekingHeader (the data reader panics), ReadingBody { remaining : NonZeroU32 }. *)
Inductive cstate := CNoBody | CPeeking | CBody (remaining : N).
Record cdst (I : Type) := { cstate_of : cstate; cinner : I }.
Arguments cstate_of {I} _.
Arguments cinner {I} _.

Section ChunkData.
  Context (R : reader).     (* the ChunkReader's inner BufReader<R> as a reader *)
  Let st := cdst (rst R).

  Definition after_body (remaining n : N) : cstate := if remaining - n =? 0 then CNoBody else CBody (remaining - n).

  (* read: clipped to `remaining`; 0 outside a body *)
  Definition cd_read (k : N) (s : st) : res bytes * st :=
    match cstate_of s with
    | CNoBody => (Ok [], s)
    | CPeeking => (Panic 2, s)
    | CBody remaining =>
        let read_len := N.min k remaining in
        match rread R read_len (cinner s) with
        | (Ok l, i') =>
            if remaining <? blen l then (Panic 3, {| cstate_of := cstate_of s; cinner := i' |})   (* u32 underflow *)
            else (Ok l, {| cstate_of := after_body remaining (blen l); cinner := i' |})
        | (e, i') => (e, {| cstate_of := cstate_of s; cinner := i' |})
        end
    end.

  (* skip beyond `remaining` = UnexpectedEof; outside a body only skip(0) succeeds *)
  Definition cd_skip (amount : N) (s : st) : res unit * st :=
    match cstate_of s with
    | CNoBody => if amount =? 0 then (Ok tt, s) else (EIo EUnexpectedEof, s)
    | CPeeking => (Panic 2, s)
    | CBody remaining =>
        if remaining <? amount then (EIo EUnexpectedEof, s)
        else match rskip R amount (cinner s) with
             | (Ok _, i') => (Ok tt, {| cstate_of := after_body remaining amount; cinner := i' |})
             | (e, i') => (e, {| cstate_of := cstate_of s; cinner := i' |})
             end
    end.

  (* position and length are the parent's *)
  Definition cd_pos (s : st) : res N * st :=
    let (r, i') := rpos R (cinner s) in (r, {| cstate_of := cstate_of s; cinner := i' |}).
  Definition cd_len (s : st) : res N * st :=
    let (r, i') := rlen R (cinner s) in (r, {| cstate_of := cstate_of s; cinner := i' |}).

  Definition chunk_data : reader :=
    {| rst := st; rread := cd_read; rread_exact := read_exact_default true cd_read;
       rskip := cd_skip; rpos := cd_pos; rlen := cd_len |}.
End ChunkData.

(* ------------------------------------------------------------------------------------------------ *)
(* A sparse virtual Read + Seek stream with the seek semantics of std::io::Cursor: [v_len] bytes (up to 2^64-1), a few
   extents of real bytes over a zero background.  It exists so that skips of more than i64::MAX bytes can stay WITHIN
   the stream (harness: VCur in harness/src/adapt.rs). *)
Record vcur := { v_len : N; v_exts : list (N * bytes); v_pos : N }.

Fixpoint vbyte (exts : list (N * bytes)) (off : N) : Byte.byte :=
  match exts with
  | [] => Byte.x00
  | (o, l) :: r => if (o <=? off) && (off <? o + blen l) then nth (N.to_nat (off - o)) l Byte.x00 else vbyte r off
  end.
Fixpoint vread_bytes (exts : list (N * bytes)) (off : N) (n : nat) : bytes :=
  match n with
  | O => []
  | Datatypes.S m => vbyte exts off :: vread_bytes exts (off + 1) m
  end.

Definition vmove (s : vcur) (p : N) : vcur := {| v_len := v_len s; v_exts := v_exts s; v_pos := p |}.

Definition vcursor_read (k : N) (s : vcur) : res bytes * vcur :=
  let n := N.min k (v_len s - v_pos s) in
  (Ok (vread_bytes (v_exts s) (v_pos s) (N.to_nat n)), vmove s (v_pos s + n)).

Definition vcursor_seek (max_seek : N) (sf : seekfrom) (s : vcur) : res N * vcur :=
  match sf with
  | SStart n => if max_seek <? n then (EIo EInvalidInput, s) else (Ok n, vmove s n)
  | SCurrent d | SEnd d =>
      let base := match sf with SEnd _ => v_len s | _ => v_pos s end in
      let t := (Z.of_N base + d)%Z in
      if ((0 <=? t)%Z && (t <? Z.of_N U64)%Z && (t <=? Z.of_N max_seek)%Z)%bool
      then (Ok (Z.to_N t), vmove s (Z.to_N t))
      else (EIo EInvalidInput, s)
  end.

Definition vcursor_seeker (max_seek : N) : seeker :=
  {| sst := vcur; s_read := vcursor_read; s_read_exact := read_exact_default true vcursor_read;
     s_seek := vcursor_seek max_seek; s_stream_position := fun s => (Ok (v_pos s), s) |}.
