(* End to end, C11 + C12 at sanitizer level: mp4san::sanitize_async over an AsyncSkip-native reader that may answer
   Pending at every poll, wrapping ANY adapter stack of Base/StackReader.v over in-memory data, returns under EVERY Pending
   schedule what the abstract model [mp4_sanitize] returns - the function the theorems of C01-C05, C09, C10, C13 and C14
   are about.
     run_san_sched (poll level, any schedule)
       = run_san_sync                      (AsyncSanProofs.run_san_sched_sync: schedule independence)
       = run over StackReader.stack_reader (here: the same step function on every operation the sanitizer issues)
       = run over the ideal cursor         (StackProofsMp4.mp4_view_is_cursor)                                        *)
From Coq Require Import List NArith ZArith Bool Lia.
From MS Require Import Base.Bytes Base.Outcome Base.Cursor Base.Adapters Base.Async Base.AsyncSpec Base.AsyncProofs
  Base.AsyncSan Base.AsyncSanProofs Base.ProgOps Base.StackReader Base.StackSpec Base.StackProofsMp4
  Mp4.San Mp4.SanOpsProofs Gen.Consts.
From MS Require Base.Prog.
Import ListNotations.
Open Scope N_scope.

(* run_san_sync is Prog.run over the reader whose step is sstep *)
Lemma run_san_sync_is_run cap A {X} (p : Prog.prog X) s :
  run_san_sync cap A p s = Prog.run {| Prog.rst := bst (rst (ard A)); Prog.rstep := sstep cap A |} p s.
Proof.
  revert s. induction p as [r | o k IH]; intros s; cbn [run_san_sync Prog.run Prog.rstep]; [reflexivity|].
  destruct (sstep cap A o s) as [a s']. apply IH.
Qed.

(* on every operation but the plain read loop, the synchronous step of AsyncSan.v over the futures view of R is the step
   of the sanitizer's own futures BufReader over R in StackReader.v *)
Lemma sstep_is_top_step cap (R : reader) o s : not_upto o ->
  sstep cap (pending_reader R) o s = top_step cap false R o s.
Proof.
  intros Ho. destruct o as [| k | a | | | n | k]; cbn [sstep top_step pending_reader ard]; try reflexivity.
  - unfold sfill_empty. cbn [pending_reader ard].
    change (buf_fill cap (fut_view R) s) with (buf_fill cap R s).
    destruct (buf_fill cap R s) as [[u|e|e|m|] s']; reflexivity.
  - destruct Ho.
Qed.

Theorem mp4_async_native_is_model (cfg : config) (fuel : nat) (ms : N) (st : stk) (data : bytes) (inp : Prog.input) (sc : sch) :
  stk_ok st -> blen data <= I64MAX -> ms_ok (blen data) ms -> inp_is inp data ->
  exists s' sc',
    run_san_sched BOXHEADER_MAX_SIZE (pending_reader (stk_reader ms st)) (sanitize_prog cfg fuel) (stack_init ms st data) sc
    = Some (mp4_sanitize cfg true ms inp fuel, s', sc').
Proof.
  intros Hok Hd Hms Hinp.
  destruct (mp4_sanitizer_native_sched_indep cfg fuel (stk_reader ms st) (stack_init ms st data) sc) as (sc' & E).
  exists (snd (run_san_sync BOXHEADER_MAX_SIZE (pending_reader (stk_reader ms st)) (sanitize_prog cfg fuel) (stack_init ms st data))), sc'.
  rewrite E. f_equal. f_equal. f_equal.
  rewrite run_san_sync_is_run.
  rewrite (run_ops_in_eq not_upto _ (top_step BOXHEADER_MAX_SIZE false (stk_reader ms st)) _ (ops_sanitize cfg fuel)
             (fun o s H => sstep_is_top_step BOXHEADER_MAX_SIZE (stk_reader ms st) o s H)).
  exact (mp4_view_is_cursor cfg fuel ms st false data inp Hok Hd Hms Hinp).
Qed.
