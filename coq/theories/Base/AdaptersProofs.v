(* C15, part 1: byte-slice algebra, per-operation form of [refines], the default read_exact loop,
   std::io::Cursor and SeekSkipAdapter. *)
From Coq Require Import List NArith ZArith Bool Lia ZifyBool ZifyNat ZifyN.
From MS Require Import Base.Bytes Base.Outcome Base.Cursor Base.Adapters Base.AdaptersSpec.
Import ListNotations.
Open Scope N_scope.
Arguments N.add : simpl never.
Arguments N.sub : simpl never.
Arguments N.mul : simpl never.
Arguments N.div : simpl never.
Arguments N.modulo : simpl never.
Arguments N.pow : simpl never.
Arguments N.eqb : simpl never.
Arguments N.ltb : simpl never.
Arguments N.leb : simpl never.
Arguments N.min : simpl never.
Arguments N.max : simpl never.

(* ------------------------------------------------------------------------------------------------ *)
(* lists *)
Lemma firstn_firstn_min {A} (l : list A) i j : firstn i (firstn j l) = firstn (Nat.min i j) l.
Proof. apply firstn_firstn. Qed.

Lemma skipn_skipn_add {A} (l : list A) i j : skipn i (skipn j l) = skipn (j + i) l.
Proof.
  revert l; induction j as [|j IH]; intros l; cbn [skipn Nat.add]; [reflexivity|].
  destruct l as [|x l]; [now rewrite skipn_nil|apply IH].
Qed.

Lemma firstn_add_app {A} (l : list A) i j : firstn (i + j) l = firstn i l ++ firstn j (skipn i l).
Proof.
  revert l; induction i as [|i IH]; intros l; cbn [firstn skipn Nat.add app]; [reflexivity|].
  destruct l as [|x l]; [now rewrite firstn_nil|cbn [app]; f_equal; apply IH].
Qed.

Lemma skipn_firstn_sub {A} (l : list A) i j : skipn i (firstn j l) = firstn (j - i) (skipn i l).
Proof. apply skipn_firstn_comm. Qed.

Lemma firstn_ge_all {A} (l : list A) n : (length l <= n)%nat -> firstn n l = l.
Proof. apply firstn_all2. Qed.

(* ------------------------------------------------------------------------------------------------ *)
(* slices *)
Lemma blen_nil : blen [] = 0. Proof. reflexivity. Qed.
Lemma blen_app a b : blen (a ++ b) = blen a + blen b.
Proof. unfold blen. rewrite app_length. lia. Qed.
Lemma blen_0_nil l : blen l = 0 -> l = [].
Proof. unfold blen. destruct l; cbn [length]; [reflexivity|lia]. Qed.
Lemma blen_cons_pos (x : Byte.byte) l : 0 < blen (x :: l).
Proof. unfold blen; cbn [length]; lia. Qed.
Lemma blen_firstn n l : blen (firstn (N.to_nat n) l) = N.min n (blen l).
Proof. unfold blen. rewrite firstn_length. lia. Qed.
Lemma blen_skipn n l : blen (skipn (N.to_nat n) l) = blen l - n.
Proof. unfold blen. rewrite skipn_length. lia. Qed.

Lemma slice_len d p n : blen (slice d p n) = N.min n (blen d - p).
Proof. unfold slice. rewrite blen_firstn, blen_skipn. reflexivity. Qed.
Lemma slice_0 d p : slice d p 0 = [].
Proof. reflexivity. Qed.
Lemma slice_clip d p n : slice d p n = slice d p (N.min n (blen d - p)).
Proof.
  unfold slice.
  destruct (N.le_gt_cases n (blen d - p)) as [H|H].
  - now rewrite N.min_l by exact H.
  - rewrite N.min_r by lia.
    rewrite !firstn_ge_all; [reflexivity| |]; rewrite skipn_length; unfold blen in *; lia.
Qed.
Lemma slice_app d p a b : slice d p (a + b) = slice d p a ++ slice d (p + a) b.
Proof.
  unfold slice. replace (N.to_nat (a + b)) with (N.to_nat a + N.to_nat b)%nat by lia.
  rewrite firstn_add_app, skipn_skipn_add. do 3 f_equal. lia.
Qed.
Lemma firstn_slice d p n m : firstn (N.to_nat m) (slice d p n) = slice d p (N.min m n).
Proof. unfold slice. rewrite firstn_firstn_min. f_equal. lia. Qed.
Lemma skipn_slice d p n m : skipn (N.to_nat m) (slice d p n) = slice d (p + m) (n - m).
Proof.
  unfold slice. rewrite skipn_firstn_sub, skipn_skipn_add. f_equal; [lia|f_equal; lia].
Qed.
Lemma slice_full_eq d p l : l = slice d p (blen l) -> blen l <= blen d - p.
Proof. intros H. pose proof (slice_len d p (blen l)) as E. rewrite <- H in E. lia. Qed.

Lemma cmove_same c : cmove c (cpos c) = c.
Proof. destruct c; reflexivity. Qed.
Lemma cmove_cmove c p q : cmove (cmove c p) q = cmove c q.
Proof. reflexivity. Qed.
Lemma cdata_cmove c p : cdata (cmove c p) = cdata c. Proof. reflexivity. Qed.
Lemma cpos_cmove c p : cpos (cmove c p) = p. Proof. reflexivity. Qed.
Lemma clen_cmove c p : clen (cmove c p) = clen c. Proof. reflexivity. Qed.

(* ------------------------------------------------------------------------------------------------ *)
(* per-operation form of the refinement *)
Section Ops.
  Context {St : Type} (abs : St -> cur) (Inv : St -> Prop).

  Definition read_ok (rd : N -> St -> res bytes * St) : Prop :=
    forall k s, Inv s -> exists l s',
      rd k s = (Ok l, s') /\ l = slice (cdata (abs s)) (cpos (abs s)) (blen l) /\ blen l <= k /\
      (blen l = 0 <-> (k = 0 \/ cpos (abs s) = clen (abs s))) /\
      abs s' = cmove (abs s) (cpos (abs s) + blen l) /\ Inv s'.
  Definition read_exact_ok (rx : N -> St -> res bytes * St) : Prop :=
    forall k s, Inv s -> cpos (abs s) + k <= clen (abs s) -> exists s',
      rx k s = (Ok (slice (cdata (abs s)) (cpos (abs s)) k), s') /\
      abs s' = cmove (abs s) (cpos (abs s) + k) /\ Inv s'.
  Definition skip_ok (sk : N -> St -> res unit * St) : Prop :=
    forall a s, Inv s -> cpos (abs s) + a <= clen (abs s) -> exists s',
      sk a s = (Ok tt, s') /\ abs s' = cmove (abs s) (cpos (abs s) + a) /\ Inv s'.
  Definition pos_ok (f : St -> res N * St) : Prop :=
    forall s, Inv s -> exists s', f s = (Ok (cpos (abs s)), s') /\ abs s' = abs s /\ Inv s'.
  Definition len_ok (f : St -> res N * St) : Prop :=
    forall s, Inv s -> exists s', f s = (Ok (clen (abs s)), s') /\ abs s' = abs s /\ Inv s'.

  (* the default read_exact loop over an ideal read is an ideal read_exact *)
  Lemma read_exact_loop_ok (b : bool) rd : read_ok rd ->
    forall fuel k acc s, Inv s -> cpos (abs s) + k <= clen (abs s) -> (N.to_nat k < fuel)%nat ->
    exists s', read_exact_loop b rd fuel k acc s = (Ok (acc ++ slice (cdata (abs s)) (cpos (abs s)) k), s') /\
               abs s' = cmove (abs s) (cpos (abs s) + k) /\ Inv s'.
  Proof.
    intros Hrd fuel; induction fuel as [|fuel IH]; intros k acc s HI Hw Hf; [lia|].
    cbn [read_exact_loop].
    destruct (N.eqb_spec k 0) as [->|Hk].
    - exists s. rewrite slice_0, app_nil_r, N.add_0_r, cmove_same. auto.
    - destruct (Hrd k s HI) as (l & s1 & E & Hl & Hle & Hz & Ha & HI1).
      rewrite E.
      destruct (N.eqb_spec (blen l) 0) as [Hz0|Hnz].
      { apply Hz in Hz0. lia. }
      destruct (N.ltb_spec k (blen l)) as [Hlt|_]; [lia|].
      destruct (IH (k - blen l) (acc ++ l) s1 HI1) as (s2 & E2 & Ha2 & HI2).
      + rewrite Ha, cpos_cmove, clen_cmove. lia.
      + lia.
      + exists s2. rewrite E2, Ha. cbn [cmove cpos cdata]. split; [|split; [|exact HI2]].
        * f_equal. rewrite <- app_assoc. f_equal.
          replace k with (blen l + (k - blen l)) at 2 by lia.
          rewrite slice_app, <- Hl. reflexivity.
        * rewrite Ha2, Ha, cmove_cmove, cpos_cmove. f_equal. lia.
  Qed.

  Lemma read_exact_default_ok (b : bool) rd : read_ok rd -> read_exact_ok (read_exact_default b rd).
  Proof.
    intros Hrd k s HI Hw. unfold read_exact_default.
    destruct (read_exact_loop_ok b rd Hrd (S (N.to_nat k)) k [] s HI Hw) as (s' & E & H); [lia|].
    exists s'. rewrite E. auto.
  Qed.
End Ops.

Lemma refines_of_ops (R : reader) (abs : rst R -> cur) (Inv : rst R -> Prop) :
  (forall s, Inv s -> wf_cur (abs s)) ->
  read_ok abs Inv (rread R) -> read_exact_ok abs Inv (rread_exact R) -> skip_ok abs Inv (rskip R) ->
  pos_ok abs Inv (rpos R) -> len_ok abs Inv (rlen R) -> refines R abs Inv.
Proof.
  intros Hwf Hr Hx Hs Hp Hl. split; [exact Hwf|].
  intros o s HI Hw. destruct o as [k|k|a| |]; cbn [rstep within] in *.
  - destruct (Hr k s HI) as (l & s' & E & H1 & H2 & H3 & H4 & H5). rewrite E. cbn [fst snd rmap rbind accepts advance].
    split; [exists l; auto|]. rewrite H4. auto.
  - destruct (Hx k s HI Hw) as (s' & E & H1 & H2). rewrite E. cbn [fst snd rmap rbind accepts advance]. auto.
  - destruct (Hs a s HI Hw) as (s' & E & H1 & H2). rewrite E. cbn [fst snd rmap rbind accepts advance]. auto.
  - destruct (Hp s HI) as (s' & E & H1 & H2). rewrite E. cbn [fst snd rmap rbind accepts advance]. auto.
  - destruct (Hl s HI) as (s' & E & H1 & H2). rewrite E. cbn [fst snd rmap rbind accepts advance]. auto.
Qed.

Lemma rmap_ok_inv {A B} (f : A -> B) (r : res A) (b : B) : rmap f r = Ok b -> exists a, r = Ok a /\ b = f a.
Proof. destruct r; cbn; intros H; try discriminate. injection H as <-. eauto. Qed.

Lemma refines_ops (R : reader) (abs : rst R -> cur) (Inv : rst R -> Prop) : refines R abs Inv ->
  (forall s, Inv s -> wf_cur (abs s)) /\
  read_ok abs Inv (rread R) /\ read_exact_ok abs Inv (rread_exact R) /\ skip_ok abs Inv (rskip R) /\
  pos_ok abs Inv (rpos R) /\ len_ok abs Inv (rlen R).
Proof.
  intros [Hwf H]. split; [exact Hwf|]. repeat split.
  - intros k s HI. specialize (H (ORead k) s HI I). cbn [rstep] in H.
    destruct (rread R k s) as [r s'] eqn:E. cbn [fst snd accepts advance] in H.
    destruct H as ((l & Hr & H1 & H2 & H3) & Ha & HI').
    apply rmap_ok_inv in Hr as (l' & -> & Hv). injection Hv as <-.
    exists l, s'. cbn [rmap rbind] in Ha. auto 8.
  - intros k s HI Hw. specialize (H (OReadExact k) s HI Hw). cbn [rstep] in H.
    destruct (rread_exact R k s) as [r s'] eqn:E. cbn [fst snd accepts advance] in H.
    destruct H as (Hr & Ha & HI').
    apply rmap_ok_inv in Hr as (l' & -> & Hv). injection Hv as <-. exists s'. auto.
  - intros a s HI Hw. specialize (H (OSkip a) s HI Hw). cbn [rstep] in H.
    destruct (rskip R a s) as [r s'] eqn:E. cbn [fst snd accepts advance] in H.
    destruct H as (Hr & Ha & HI').
    apply rmap_ok_inv in Hr as (u & -> & _). destruct u. exists s'. auto.
  - intros s HI. specialize (H OPos s HI I). cbn [rstep] in H.
    destruct (rpos R s) as [r s'] eqn:E. cbn [fst snd accepts advance] in H.
    destruct H as (Hr & Ha & HI').
    apply rmap_ok_inv in Hr as (n & -> & Hv). injection Hv as <-. exists s'. auto.
  - intros s HI. specialize (H OLen s HI I). cbn [rstep] in H.
    destruct (rlen R s) as [r s'] eqn:E. cbn [fst snd accepts advance] in H.
    destruct H as (Hr & Ha & HI').
    apply rmap_ok_inv in Hr as (n & -> & Hv). injection Hv as <-. exists s'. auto.
Qed.

(* ------------------------------------------------------------------------------------------------ *)
(* std::io::Cursor is a lenient seek-style cursor *)
Lemma cur_remaining_wf c : cpos c <= clen c -> cur_remaining c = skipn (N.to_nat (cpos c)) (cdata c).
Proof. intros H. unfold cur_remaining. now rewrite N.min_l by exact H. Qed.

Lemma std_cursor_refines max_seek :
  seeker_refines max_seek (std_cursor max_seek) (fun c => c) (fun c => wf_cur c /\ clen c <= max_seek).
Proof.
  unfold seeker_refines. cbn [std_cursor sst s_read s_read_exact s_seek s_stream_position].
  split; [intros s H; exact H|]. split; [|split; [|split]].
  - intros k c [[Hp Hl] Hm]. unfold cursor_read. cbn [fst snd rmap rbind accepts advance].
    rewrite cur_remaining_wf by exact Hp. fold (slice (cdata c) (cpos c) k).
    pose proof (slice_len (cdata c) (cpos c) k) as HL. fold (clen c) in HL.
    split; [|split; [reflexivity|]].
    + eexists; split; [reflexivity|]. split; [|split].
      * rewrite HL. apply slice_clip.
      * lia.
      * rewrite HL. lia.
    + unfold wf_cur. rewrite cpos_cmove, !clen_cmove, HL. repeat split; lia.
  - intros k c [[Hp Hl] Hm] Hw. unfold cursor_read_exact.
    rewrite cur_remaining_wf by exact Hp. rewrite blen_skipn. fold (clen c).
    destruct (N.ltb_spec (clen c - cpos c) k) as [Hlt|_]; [lia|].
    cbn [fst snd]. fold (slice (cdata c) (cpos c) k). split; [reflexivity|]. split; [reflexivity|].
    unfold wf_cur. rewrite cpos_cmove, !clen_cmove. repeat split; lia.
  - intros sf c t [[Hp Hl] Hm] Ht Hle. unfold seek_target in Ht. unfold cursor_seek.
    destruct sf as [n|d|d].
    + destruct ((0 <=? Z.of_N n)%Z && (Z.of_N n <=? Z.of_N max_seek)%Z) eqn:E; [|discriminate].
      injection Ht as <-. rewrite N2Z.id in *.
      destruct (N.ltb_spec max_seek n) as [Hlt|_]; [lia|]. cbn [fst snd].
      split; [reflexivity|]. split; [reflexivity|].
      unfold wf_cur. rewrite cpos_cmove, !clen_cmove. repeat split; lia.
    + destruct ((0 <=? Z.of_N (cpos c) + d)%Z && (Z.of_N (cpos c) + d <=? Z.of_N max_seek)%Z) eqn:E; [|discriminate].
      injection Ht as <-.
      assert (Hc : ((0 <=? Z.of_N (cpos c) + d)%Z && (Z.of_N (cpos c) + d <? Z.of_N U64)%Z &&
                    (Z.of_N (cpos c) + d <=? Z.of_N max_seek)%Z) = true) by (unfold U64 in *; lia).
      rewrite Hc. cbn [fst snd]. split; [reflexivity|]. split; [reflexivity|].
      unfold wf_cur. rewrite cpos_cmove, !clen_cmove. repeat split; lia.
    + destruct ((0 <=? Z.of_N (clen c) + d)%Z && (Z.of_N (clen c) + d <=? Z.of_N max_seek)%Z) eqn:E; [|discriminate].
      injection Ht as <-.
      assert (Hc : ((0 <=? Z.of_N (clen c) + d)%Z && (Z.of_N (clen c) + d <? Z.of_N U64)%Z &&
                    (Z.of_N (clen c) + d <=? Z.of_N max_seek)%Z) = true) by (unfold U64 in *; lia).
      rewrite Hc. cbn [fst snd]. split; [reflexivity|]. split; [reflexivity|].
      unfold wf_cur. rewrite cpos_cmove, !clen_cmove. repeat split; lia.
  - intros c H. unfold cursor_stream_position. cbn [fst snd]. auto.
Qed.

(* ------------------------------------------------------------------------------------------------ *)
(* SeekSkipAdapter *)
Section SeekAdapterProofs.
  Context (max_seek : N) (S : seeker) (abs : sst S -> cur) (Inv : sst S -> Prop).
  Context (HS : seeker_refines max_seek S abs Inv).

  Let Hwf := proj1 HS.
  Let Hread := proj1 (proj2 HS).
  Let Hrx := proj1 (proj2 (proj2 HS)).
  Let Hseek := proj1 (proj2 (proj2 (proj2 HS))).
  Let Hpos := proj2 (proj2 (proj2 (proj2 HS))).

  Lemma s_read_ok : read_ok abs Inv (s_read S).
  Proof.
    intros k s HI. destruct (Hread k s HI) as ((l & Hr & H1 & H2 & H3) & Ha & HI').
    destruct (s_read S k s) as [r s'] eqn:E. cbn [fst snd] in *.
    apply rmap_ok_inv in Hr as (l' & -> & Hv). injection Hv as <-.
    exists l, s'. cbn [rmap rbind advance] in Ha. auto 8.
  Qed.

  Lemma s_read_exact_ok : read_exact_ok abs Inv (s_read_exact S).
  Proof.
    intros k s HI Hw. destruct (Hrx k s HI Hw) as (Hr & Ha & HI').
    destruct (s_read_exact S k s) as [r s'] eqn:E. cbn [fst snd] in *. subst r. exists s'. auto.
  Qed.

  Lemma seek_to (sf : seekfrom) s t : Inv s -> seek_target max_seek sf (abs s) = Some t -> t <= clen (abs s) ->
    exists s', s_seek S sf s = (Ok t, s') /\ abs s' = cmove (abs s) t /\ Inv s'.
  Proof.
    intros HI Ht Hle. destruct (Hseek sf s t HI Ht Hle) as (Hr & Ha & HI').
    destruct (s_seek S sf s) as [r s'] eqn:E. cbn [fst snd] in *. subst r. exists s'. auto.
  Qed.

  Lemma stream_position_is s : Inv s -> exists s', s_stream_position S s = (Ok (cpos (abs s)), s') /\ abs s' = abs s /\ Inv s'.
  Proof.
    intros HI. destruct (Hpos s HI) as (Hr & Ha & HI').
    destruct (s_stream_position S s) as [r s'] eqn:E. cbn [fst snd] in *. subst r. exists s'. auto.
  Qed.

  Lemma ssa_skip_ok : skip_ok abs Inv (ssa_skip S).
  Proof.
    intros a s HI Hw. destruct (Hwf s HI) as [[Hp Hl] Hm]. unfold ssa_skip.
    destruct (N.leb_spec a I64MAX) as [Hsmall|Hbig].
    - destruct (N.eqb_spec a 0) as [->|Hnz].
      + exists s. rewrite N.add_0_r, cmove_same. auto.
      + destruct (seek_to (SCurrent (Z.of_N a)) s (cpos (abs s) + a) HI) as (s' & E & Ha & HI'); [|exact Hw|].
        * unfold seek_target.
          assert (Hc : ((0 <=? Z.of_N (cpos (abs s)) + Z.of_N a)%Z &&
                        (Z.of_N (cpos (abs s)) + Z.of_N a <=? Z.of_N max_seek)%Z) = true) by lia.
          rewrite Hc. f_equal. lia.
        * rewrite E. cbn [sbind]. exists s'. auto.
    - destruct (stream_position_is s HI) as (s1 & E1 & Ha1 & HI1). rewrite E1. cbn [sbind].
      destruct (N.leb_spec U64 (cpos (abs s) + a)) as [Hov|_]; [lia|].
      destruct (seek_to (SStart (cpos (abs s) + a)) s1 (cpos (abs s) + a) HI1) as (s' & E & Ha & HI'); [|rewrite Ha1; exact Hw|].
      + unfold seek_target. rewrite ?Ha1.
        assert (Hc : ((0 <=? Z.of_N (cpos (abs s) + a))%Z && (Z.of_N (cpos (abs s) + a) <=? Z.of_N max_seek)%Z) = true) by lia.
        rewrite Hc. f_equal. lia.
      + rewrite E. cbn [sbind]. exists s'. rewrite Ha, Ha1. auto.
  Qed.

  Lemma ssa_pos_ok : pos_ok abs Inv (ssa_pos S).
  Proof. intros s HI. unfold ssa_pos. apply stream_position_is, HI. Qed.

  (* stream_len: seek to the end and back; the cursor ends where it was *)
  Lemma ssa_len_ok : len_ok abs Inv (ssa_len S).
  Proof.
    intros s HI. destruct (Hwf s HI) as [[Hp Hl] Hm]. unfold ssa_len.
    destruct (stream_position_is s HI) as (s1 & E1 & Ha1 & HI1). rewrite E1. cbn [sbind].
    destruct (seek_to (SEnd 0%Z) s1 (clen (abs s)) HI1) as (s2 & E2 & Ha2 & HI2); [|rewrite Ha1; lia|].
    { unfold seek_target. rewrite Ha1.
      assert (Hc : ((0 <=? Z.of_N (clen (abs s)) + 0)%Z && (Z.of_N (clen (abs s)) + 0 <=? Z.of_N max_seek)%Z) = true) by lia.
      rewrite Hc. f_equal. lia. }
    rewrite E2. cbn [sbind].
    destruct (N.eqb_spec (cpos (abs s)) (clen (abs s))) as [Heq|Hne].
    - exists s2. rewrite Ha2, Ha1, <- Heq, cmove_same. auto.
    - destruct (seek_to (SStart (cpos (abs s))) s2 (cpos (abs s)) HI2) as (s3 & E3 & Ha3 & HI3).
      + unfold seek_target.
        assert (Hc : ((0 <=? Z.of_N (cpos (abs s)))%Z && (Z.of_N (cpos (abs s)) <=? Z.of_N max_seek)%Z) = true) by lia.
        rewrite Hc. f_equal. lia.
      + rewrite Ha2, Ha1. cbn [cmove clen cdata]. exact Hp.
      + rewrite E3. cbn [sbind]. exists s3. rewrite Ha3, Ha2, Ha1, cmove_cmove, cmove_same. auto.
  Qed.

  Lemma seek_adapter_refines : refines (seek_adapter S) abs Inv.
  Proof.
    apply refines_of_ops; cbn [seek_adapter rread rread_exact rskip rpos rlen rst].
    - intros s HI. apply (Hwf s HI).
    - exact s_read_ok.
    - apply read_exact_default_ok, s_read_ok.
    - exact ssa_skip_ok.
    - exact ssa_pos_ok.
    - exact ssa_len_ok.
  Qed.

  Lemma seekable_reader_refines : refines (seekable_reader S) abs Inv.
  Proof.
    apply refines_of_ops; cbn [seekable_reader rread rread_exact rskip rpos rlen rst].
    - intros s HI. apply (Hwf s HI).
    - exact s_read_ok.
    - exact s_read_exact_ok.
    - exact ssa_skip_ok.
    - exact ssa_pos_ok.
    - exact ssa_len_ok.
  Qed.
End SeekAdapterProofs.

Lemma seek_adapter_refines_any : forall (S : seeker) (abs : sst S -> cur) (Inv : sst S -> Prop) (max_seek : N),
  seeker_refines max_seek S abs Inv -> refines (seek_adapter S) abs Inv.
Proof. intros S abs Inv max_seek. exact (seek_adapter_refines max_seek S abs Inv). Qed.

Lemma cursor_reader_refines max_seek :
  refines (cursor_reader max_seek) (fun c => c) (fun c => wf_cur c /\ clen c <= max_seek).
Proof. apply (seekable_reader_refines max_seek), std_cursor_refines. Qed.

(* hypotheses are satisfiable *)
Example cursor_inv_example : (fun c => wf_cur c /\ clen c <= U64MAXN) {| cdata := [Byte.x01; Byte.x02]; cpos := 1 |}.
Proof. unfold wf_cur, clen, blen, U64, U64MAXN; cbn. lia. Qed.
