(* The reader a sanitizer programme (Base/Prog.v) really runs on: ITS OWN BufReader (mp4san: futures BufReader of
   capacity 32, through AsyncInputAdapter for the synchronous entry points; webpsan: std BufReader of capacity 8)
   wrapped around the caller's adapter stack over an in-memory cursor or a file-like seeker, with a short-read
   oracle at the bottom.  Built from the adapter models of Base/Adapters.v.  Definitions only.

   The synchronous and the asynchronous entry points run the SAME programme (mp4san::sanitize_with_config is
   sync::sanitize(input, |a| sanitize_async_with_config(a, cfg)): the async function polled once over
   AsyncInputAdapter); in the model the difference between them is exactly the [SAin] layer. *)
From Coq Require Import List NArith ZArith Bool.
From MS Require Import Base.Bytes Base.Outcome Base.Cursor Base.Adapters Base.Prog.
Import ListNotations.
Open Scope N_scope.

(* ------------------------------------------------------------------------------------------------ *)
(* the bottom: std::io::Cursor / a file-like seeker (max_seek) whose i-th read returns at most
   sizes[i mod k] bytes (at least 1); sizes = [] : no restriction (the plain Cursor) *)
Record ccur := { cc_cur : cur; cc_sizes : list N; cc_idx : nat }.

Definition chunk_limit (sizes : list N) (i : nat) (k : N) : N :=
  match sizes with
  | [] => k
  | _ :: _ => N.min k (N.max 1 (nth (Nat.modulo i (length sizes)) sizes 1))
  end.

Definition chunk_read (k : N) (s : ccur) : res bytes * ccur :=
  let (r, c') := cursor_read (chunk_limit (cc_sizes s) (cc_idx s) k) (cc_cur s) in
  (r, {| cc_cur := c'; cc_sizes := cc_sizes s; cc_idx := S (cc_idx s) |}).

Definition chunk_lift {A : Type} (f : cur -> res A * cur) (s : ccur) : res A * ccur :=
  let (r, c') := f (cc_cur s) in (r, {| cc_cur := c'; cc_sizes := cc_sizes s; cc_idx := cc_idx s |}).

Definition chunk_seeker (max_seek : N) : seeker :=
  {| sst := ccur; s_read := chunk_read; s_read_exact := read_exact_default true chunk_read;
     s_seek := fun sf => chunk_lift (cursor_seek max_seek sf);
     s_stream_position := chunk_lift cursor_stream_position |}.

(* ------------------------------------------------------------------------------------------------ *)
(* the caller's stack *)
Inductive stk :=
  | SCursor (sizes : list N)          (* Cursor / File / chunking reader with its own Skip (skip_via_adapter!) *)
  | SSeek (sizes : list N)            (* SeekSkipAdapter over it *)
  | SBuf (cap : N) (s : stk)          (* std::io::BufReader::with_capacity(cap, s) *)
  | SFBuf (cap : N) (s : stk)         (* futures_util::io::BufReader::with_capacity(cap, s) *)
  | SFwd (s : stk)                    (* &mut s, Box<s>, Box<dyn>, Pin<Box<s>>, &mut dyn *)
  | SAin (s : stk).                   (* AsyncInputAdapter(s): the synchronous entry points *)

Fixpoint stk_reader (max_seek : N) (st : stk) : Adapters.reader :=
  match st with
  | SCursor _ => seekable_reader (chunk_seeker max_seek)
  | SSeek _ => seek_adapter (chunk_seeker max_seek)
  | SBuf cap s => std_buf cap (stk_reader max_seek s)
  | SFBuf cap s => fut_buf cap (stk_reader max_seek s)
  | SFwd s => fwd (stk_reader max_seek s)
  | SAin s => async_input (stk_reader max_seek s)
  end.

Fixpoint stk_init (max_seek : N) (st : stk) (data : bytes) : Adapters.rst (stk_reader max_seek st) :=
  match st return Adapters.rst (stk_reader max_seek st) with
  | SCursor sizes => {| cc_cur := {| cdata := data; cpos := 0 |}; cc_sizes := sizes; cc_idx := O |}
  | SSeek sizes => {| cc_cur := {| cdata := data; cpos := 0 |}; cc_sizes := sizes; cc_idx := O |}
  | SBuf cap s => buf_init (stk_reader max_seek s) (stk_init max_seek s data)
  | SFBuf cap s => buf_init (stk_reader max_seek s) (stk_init max_seek s data)
  | SFwd s => stk_init max_seek s data
  | SAin s => stk_init max_seek s data
  end.

(* the same with the bottom cursor already advanced to [pos] when the stack is handed to the sanitizer (a caller that read a
   prefix off its reader first): positions the sanitizer reports are the reader's own, i.e. absolute *)
Fixpoint stk_init_at (pos : N) (max_seek : N) (st : stk) (data : bytes) : Adapters.rst (stk_reader max_seek st) :=
  match st return Adapters.rst (stk_reader max_seek st) with
  | SCursor sizes => {| cc_cur := {| cdata := data; cpos := pos |}; cc_sizes := sizes; cc_idx := O |}
  | SSeek sizes => {| cc_cur := {| cdata := data; cpos := pos |}; cc_sizes := sizes; cc_idx := O |}
  | SBuf cap s => buf_init (stk_reader max_seek s) (stk_init_at pos max_seek s data)
  | SFBuf cap s => buf_init (stk_reader max_seek s) (stk_init_at pos max_seek s data)
  | SFwd s => stk_init_at pos max_seek s data
  | SAin s => stk_init_at pos max_seek s data
  end.

(* every BufReader of the stack has a capacity >= 1 *)
Fixpoint stk_ok (st : stk) : Prop :=
  match st with
  | SCursor _ | SSeek _ => True
  | SBuf cap s | SFBuf cap s => 1 <= cap /\ stk_ok s
  | SFwd s | SAin s => stk_ok s
  end.

(* ------------------------------------------------------------------------------------------------ *)
(* the operations of a programme on the sanitizer's own BufReader(cap) over a reader R.
   std_flavour: std::io::BufReader (read_exact has the served-from-the-buffer shortcut) instead of futures'. *)
Definition resp_of {A : Type} (f : A -> resp) (r : res A) : resp :=
  match r with
  | Ok a => f a
  | EIo e => RErr e
  | _ => RErr EOther      (* a reader that claims more bytes than it was offered: not reachable with these models *)
  end.

(* `(&mut reader).take(n).read_to_end(&mut vec)` with enough spare capacity: plain reads of what is still wanted
   until n bytes are collected or a read returns 0 (Interrupted is retried); never an EOF error *)
Fixpoint read_upto_loop {S : Type} (rd : N -> S -> res bytes * S) (fuel : nat) (n : N) (acc : bytes) (s : S)
  : res bytes * S :=
  if n =? 0 then (Ok acc, s) else
  match fuel with
  | O => (OutOfFuel, s)
  | Datatypes.S fuel' =>
    match rd n s with
    | (Ok l, s') =>
        if blen l =? 0 then (Ok acc, s')
        else if n <? blen l then (Panic 1, s')
        else read_upto_loop rd fuel' (n - blen l) (acc ++ l) s'
    | (EIo EInterrupted, s') => read_upto_loop rd fuel' n acc s'
    | (e, s') => (e, s')
    end
  end.

Definition top_step (cap : N) (std_flavour : bool) (R : Adapters.reader) (o : Prog.op) (s : bst (Adapters.rst R))
  : resp * bst (Adapters.rst R) :=
  match o with
  | OFillEmpty =>      (* fill_buf()?.is_empty() *)
      let (r, s') := buf_fill cap R s in
      (resp_of (fun _ => RBool (match bbuf s' with [] => true | _ :: _ => false end)) r, s')
  | OReadExact n =>
      let (r, s') := (if std_flavour then buf_read_exact cap R n s else fbuf_read_exact cap R n s) in
      (resp_of RBytes r, s')
  | OSkip n => let (r, s') := buf_skip R n s in (resp_of (fun _ => RUnit) r, s')
  | OPos => let (r, s') := buf_pos R s in (resp_of RNum r, s')
  | OLen => let (r, s') := buf_len R s in (resp_of RNum r, s')
  | OAlloc _ => (RUnit, s)
  | OReadUpTo n =>
      let (r, s') := read_upto_loop (buf_read cap R) (Datatypes.S (N.to_nat n)) n [] s in (resp_of RBytes r, s')
  end.

Definition stack_reader (own_cap : N) (std_flavour : bool) (max_seek : N) (st : stk) : Prog.reader :=
  {| Prog.rst := bst (Adapters.rst (stk_reader max_seek st));
     Prog.rstep := top_step own_cap std_flavour (stk_reader max_seek st) |}.
Definition stack_init (max_seek : N) (st : stk) (data : bytes) : bst (Adapters.rst (stk_reader max_seek st)) :=
  buf_init (stk_reader max_seek st) (stk_init max_seek st data).

(* mp4san: futures BufReader(BoxHeader::MAX_SIZE = 32); the sync entry points add AsyncInputAdapter *)
Definition mp4_view (sync_entry : bool) (max_seek : N) (st : stk) : Prog.reader :=
  stack_reader 32 false max_seek (if sync_entry then SAin st else st).
Definition mp4_view_init (sync_entry : bool) (max_seek : N) (st : stk) (data : bytes) :=
  stack_init max_seek (if sync_entry then SAin st else st) data.

Definition stack_init_at (pos : N) (max_seek : N) (st : stk) (data : bytes) : bst (Adapters.rst (stk_reader max_seek st)) :=
  buf_init (stk_reader max_seek st) (stk_init_at pos max_seek st data).
Definition mp4_view_init_at (pos : N) (sync_entry : bool) (max_seek : N) (st : stk) (data : bytes) :=
  stack_init_at pos max_seek (if sync_entry then SAin st else st) data.

(* webpsan: ChunkReader::new wraps the caller's input in a std BufReader(ChunkHeader::ENCODED_LEN = 8); synchronous only *)
Definition webp_view (max_seek : N) (st : stk) : Prog.reader := stack_reader 8 true max_seek st.
Definition webp_view_init (max_seek : N) (st : stk) (data : bytes) := stack_init max_seek st data.

(* ------------------------------------------------------------------------------------------------ *)
(* The ideal all these views are compared with is Prog.cursor inp true max_seek: the lenient, seek-style cursor
   (a skip past the end succeeds up to max_seek; a read_exact into an empty buffer succeeds wherever the cursor is). *)
Definition lcursor (inp : input) (max_seek : N) : Prog.reader := Prog.cursor inp true max_seek.
