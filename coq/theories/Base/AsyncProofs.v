(* C12: the poll-level models complete, under EVERY Pending schedule, with the value and state of the all-Ready
   run -- except SeekSkipAdapter::poll_stream_len (finding D7), which is refuted and proved on the complement. *)
From Coq Require Import List NArith ZArith Bool Lia ZifyBool ZifyNat ZifyN.
From MS Require Import Base.Bytes Base.Outcome Base.Cursor Base.Adapters Base.Async Base.AsyncSpec.
Import ListNotations.
Open Scope N_scope.
Arguments N.add : simpl never.
Arguments N.sub : simpl never.
Arguments N.mul : simpl never.
Arguments N.eqb : simpl never.
Arguments N.ltb : simpl never.
Arguments N.leb : simpl never.
Arguments N.min : simpl never.

(* ------------------------------------------------------------------------------------------------ *)
(* the executor: induction on the schedule (the fuel is only its length + 1) *)
Lemma drive_psafe_gen {St A B : Type} (f : pf St A) (g : St -> B) (out : A -> St -> B) : psafe_gen f g out ->
  forall n s sc, (length (bits sc) < n)%nat ->
  exists a s' sc', drive n f s sc = Some (a, s', sc') /\ out a s' = g s /\ (length (bits sc') <= length (bits sc))%nat.
Proof.
  intros H n; induction n as [|n IH]; intros s sc Hn; [lia|].
  cbn [drive]. specialize (H s sc). destruct (f s sc) as [[[|a] s'] sc'].
  - destruct H as [Hg Hl]. destruct (IH s' sc') as (a & s2 & sc2 & E & Ho & Hl2); [lia|].
    exists a, s2, sc2. rewrite E, Ho, Hg. split; [reflexivity|split; [reflexivity|lia]].
  - destruct H as [Ho Hl]. exists a, s', sc'. auto.
Qed.

Lemma drive_psafe {St A : Type} (f : pf St A) (g : St -> A * St) : psafe f g ->
  forall s sc, exists sc', drive_all f s sc = Some (fst (g s), snd (g s), sc').
Proof.
  intros H s sc. destruct (drive_psafe_gen f g _ H (S (length (bits sc))) s sc) as (a & s' & sc' & E & Ho & _); [lia|].
  exists sc'. unfold drive_all. rewrite E, <- Ho. reflexivity.
Qed.

(* restart-safe in the strict sense: Pending leaves the reader state untouched *)
Definition rsafe {St A : Type} (f : pf St A) (g : St -> A * St) : Prop :=
  forall s sc,
    match f s sc with
    | (Ready a, s', sc') => (a, s') = g s /\ (length (bits sc') <= length (bits sc))%nat
    | (Pending, s', sc') => s' = s /\ (length (bits sc') < length (bits sc))%nat
    end.

Lemma rsafe_psafe {St A : Type} (f : pf St A) g : rsafe f g -> psafe f g.
Proof.
  intros H s sc. specialize (H s sc). destruct (f s sc) as [[[|a] s'] sc']; [|exact H].
  destruct H as [-> Hl]. auto.
Qed.

Lemma rsafe_ext {St A : Type} (f : pf St A) g g' : (forall s, g s = g' s) -> rsafe f g -> rsafe f g'.
Proof. intros E H s sc. specialize (H s sc). rewrite <- E. exact H. Qed.
Lemma psafe_ext {St A : Type} (f : pf St A) g g' : (forall s, g s = g' s) -> psafe f g -> psafe f g'.
Proof.
  intros E H s sc. specialize (H s sc). destruct (f s sc) as [[[|a] s'] sc']; rewrite <- !E; exact H.
Qed.

Lemma tick_len sc : (length (bits (tick sc)) <= length (bits sc))%nat.
Proof. unfold tick; cbn [bits]. destruct (bits sc); cbn [tl length]; lia. Qed.

Lemma prim_rsafe {St A : Type} (g : St -> A * St) : rsafe (prim g) g.
Proof.
  intros s sc. unfold prim. destruct (bits sc) as [|[|] r] eqn:E.
  - destruct (g s) as [a s'] eqn:Eg. split; [reflexivity|]. rewrite <- E. apply tick_len.
  - split; [reflexivity|]. unfold tick; cbn [bits]. rewrite E. cbn [tl length]. lia.
  - destruct (g s) as [a s'] eqn:Eg. split; [reflexivity|]. rewrite <- E. apply tick_len.
Qed.
Lemma prim_psafe {St A : Type} (g : St -> A * St) : psafe (prim g) g.
Proof. apply rsafe_psafe, prim_rsafe. Qed.

Lemma pret_rsafe {St A : Type} (a : A) : rsafe (@pret St A a) (fun s => (a, s)).
Proof. intros s sc. cbn. auto. Qed.

(* let a = ready!(f)?; Ready(h a)   -- the continuation never suspends *)
Lemma ptry_rsafe_imm {St A B : Type} (f : pf St (res A)) gf (h : A -> res B) : rsafe f gf ->
  rsafe (ptry f (fun a => pret (h a))) (fun s => sbind (gf s) (fun a s1 => (h a, s1))).
Proof.
  intros H s sc. unfold ptry, pbind. specialize (H s sc). destruct (f s sc) as [[[|r] s'] sc']; [exact H|].
  destruct H as [E Hl]. rewrite <- E. destruct r; cbn; auto.
Qed.

(* let a = ready!(f)?; k a   where f is a pure query and every k a is restart-safe *)
Lemma ptry_rsafe_pure {St A B : Type} (f : pf St (res A)) gf (k : A -> pf St (res B)) gk :
  rsafe f gf -> (forall s, snd (gf s) = s) -> (forall a, rsafe (k a) (gk a)) ->
  rsafe (ptry f k) (fun s => sbind (gf s) gk).
Proof.
  intros H Hpure Hk s sc. unfold ptry, pbind. specialize (H s sc). destruct (f s sc) as [[[|r] s'] sc']; [exact H|].
  destruct H as [E Hl]. pose proof (Hpure s) as Hp. rewrite <- E in *. cbn [snd] in Hp. subst s'.
  destruct r; cbn [sbind pret]; auto.
  specialize (Hk a s sc'). destruct (k a s sc') as [[[|b] s2] sc2].
  - destruct Hk as [-> Hl2]. split; [reflexivity|lia].
  - destruct Hk as [E2 Hl2]. split; [exact E2|lia].
Qed.

(* ------------------------------------------------------------------------------------------------ *)
(* SeekSkipAdapter over a Pending-injecting AsyncSeek *)
Section ASeek.
  Context (S : seeker) (Hpure : seek_query_pure S).
  Let A := pending_seeker S.

  Lemma apoll_pos_rsafe : rsafe (apoll_pos A) (assa_pos A).
  Proof. apply prim_rsafe. Qed.

  Lemma apoll_skip_rsafe amount : rsafe (apoll_skip A amount) (assa_skip A amount).
  Proof.
    unfold apoll_skip, assa_skip. destruct (amount <=? I64MAX).
    - destruct (amount =? 0); [apply pret_rsafe|].
      apply (ptry_rsafe_imm _ _ (fun _ => Ok tt)), prim_rsafe.
    - apply (ptry_rsafe_pure (apoll_pos A) (assa_pos A) _
        (fun p s1 => if U64 <=? p + amount then (EIo EInvalidData, s1)
                     else sbind (s_seek (as_sync A) (SStart (p + amount)) s1) (fun _ s2 => (Ok tt, s2)))).
      + apply apoll_pos_rsafe.
      + exact Hpure.
      + intros p. destruct (U64 <=? p + amount); [apply pret_rsafe|].
        apply (ptry_rsafe_imm _ _ (fun _ => Ok tt)), prim_rsafe.
  Qed.

  Lemma apoll_skip_drive amount s sc :
    exists sc', drive_all (apoll_skip A amount) s sc = Some (fst (assa_skip A amount s), snd (assa_skip A amount s), sc').
  Proof. apply drive_psafe, rsafe_psafe, apoll_skip_rsafe. Qed.

  Lemma apoll_pos_drive s sc :
    exists sc', drive_all (apoll_pos A) s sc = Some (fst (assa_pos A s), snd (assa_pos A s), sc').
  Proof. apply drive_psafe, rsafe_psafe, apoll_pos_rsafe. Qed.

  Lemma prim_ready {St X : Type} (g : St -> X * St) s b np : hd false b = false ->
    prim g s {| bits := b; npolls := np |} = (Ready (fst (g s)), snd (g s), {| bits := tl b; npolls := np + 1 |}).
  Proof.
    intros H. unfold prim, tick. cbn [bits npolls].
    destruct b as [|[|] b]; cbn [hd] in H; try discriminate; destruct (g s); reflexivity.
  Qed.
  Lemma prim_pending {St X : Type} (g : St -> X * St) s b np :
    prim g s {| bits := true :: b; npolls := np |} = (Pending, s, {| bits := b; npolls := np + 1 |}).
  Proof. reflexivity. Qed.

  (* poll_stream_len: every schedule that does not suspend the restoring seek, or no restoring seek at all *)
  Lemma apoll_len_drive_n : forall n s sc, (length (bits sc) < n)%nat ->
    len_sched_ok (bits sc) = true \/ at_end S s ->
    exists sc', drive n (apoll_len A) s sc = Some (fst (assa_len A s), snd (assa_len A s), sc').
  Proof.
    induction n as [|n IH]; intros s sc Hn Hok; [lia|].
    destruct sc as [b np]. cbn [bits] in *.
    pose proof (Hpure s) as Hp. unfold at_end in Hok.
    cbn [drive]. remember (drive n (apoll_len A)) as D eqn:ED.
    assert (HG : assa_len A s =
                 sbind (s_seek S (SCurrent 0%Z) s) (fun p s1 =>
                 sbind (s_seek S (SEnd 0%Z) s1) (fun len s2 =>
                   if p =? len then (Ok len, s2)
                   else sbind (s_seek S (SStart p) s2) (fun _ s3 => (Ok len, s3))))) by reflexivity.
    remember (assa_len A s) as G eqn:EG.
    unfold apoll_len, apoll_pos, ptry, pbind. cbn [A pending_seeker as_seek as_sync].
    destruct (s_seek S (SCurrent 0%Z) s) as [r1 s1] eqn:E1. cbn [snd] in Hp. subst s1.
    destruct b as [|[|] b].
    - (* schedule exhausted: every poll Ready *)
      rewrite prim_ready by reflexivity. rewrite E1. cbn [fst snd tl].
      destruct r1; cbn [sbind pret] in *; try (eexists; rewrite HG; reflexivity).
      rewrite prim_ready by reflexivity.
      destruct (s_seek S (SEnd 0%Z) s) as [r2 s2] eqn:E2. cbn [fst snd tl].
      destruct r2; cbn [sbind pret] in *; try (eexists; rewrite HG; reflexivity).
      destruct (a =? a0); cbn [pret]; [eexists; rewrite HG; reflexivity|].
      rewrite prim_ready by reflexivity.
      destruct (s_seek S (SStart a) s2) as [r3 s3] eqn:E3. cbn [fst snd tl].
      destruct r3; cbn [sbind pret] in *; eexists; rewrite HG; reflexivity.
    - (* first seek suspended: restart from the same state *)
      rewrite prim_pending. cbn [len_sched_ok length] in *.
      destruct (IH s {| bits := b; npolls := np + 1 |}) as (sc' & E); [cbn [bits]; lia| |].
      { destruct Hok as [Hok|Hok]; [left; exact Hok|right; unfold at_end; rewrite E1; exact Hok]. }
      rewrite <- EG in E. exists sc'. exact E.
    - rewrite prim_ready by reflexivity. rewrite E1. cbn [fst snd tl].
      destruct r1; cbn [sbind pret] in *; try (eexists; rewrite HG; reflexivity).
      destruct b as [|[|] b].
      + rewrite prim_ready by reflexivity.
        destruct (s_seek S (SEnd 0%Z) s) as [r2 s2] eqn:E2. cbn [fst snd tl].
        destruct r2; cbn [sbind pret] in *; try (eexists; rewrite HG; reflexivity).
        destruct (a =? a0); cbn [pret]; [eexists; rewrite HG; reflexivity|].
        rewrite prim_ready by reflexivity.
        destruct (s_seek S (SStart a) s2) as [r3 s3] eqn:E3. cbn [fst snd tl].
        destruct r3; cbn [sbind pret] in *; eexists; rewrite HG; reflexivity.
      + (* second seek suspended: the first was a pure query, restart from the same state *)
        rewrite prim_pending. cbn [len_sched_ok length] in *.
        destruct (IH s {| bits := b; npolls := np + 1 + 1 |}) as (sc' & E); [cbn [bits]; lia| |].
        { destruct Hok as [Hok|Hok]; [left; exact Hok|right; unfold at_end; rewrite E1; exact Hok]. }
        rewrite <- EG in E. exists sc'. exact E.
      + rewrite prim_ready by reflexivity.
        destruct (s_seek S (SEnd 0%Z) s) as [r2 s2] eqn:E2. cbn [fst snd tl].
        destruct r2; cbn [sbind pret] in *; try (eexists; rewrite HG; reflexivity).
        destruct (N.eqb_spec a a0) as [Heq|Hne]; cbn [pret]; [eexists; rewrite HG; reflexivity|].
        destruct b as [|[|] b].
        * rewrite prim_ready by reflexivity.
          destruct (s_seek S (SStart a) s2) as [r3 s3] eqn:E3. cbn [fst snd tl].
          destruct r3; cbn [sbind pret] in *; eexists; rewrite HG; reflexivity.
        * (* the restoring seek would be suspended: excluded *)
          cbn [len_sched_ok] in Hok. destruct Hok as [Hok|Hok]; [discriminate|contradiction].
        * rewrite prim_ready by reflexivity.
          destruct (s_seek S (SStart a) s2) as [r3 s3] eqn:E3. cbn [fst snd tl].
          destruct r3; cbn [sbind pret] in *; eexists; rewrite HG; reflexivity.
  Qed.

  Lemma apoll_len_drive s sc : len_sched_ok (bits sc) = true \/ at_end S s ->
    exists sc', drive_all (apoll_len A) s sc = Some (fst (assa_len A s), snd (assa_len A s), sc').
  Proof. intros H. apply apoll_len_drive_n; [lia|exact H]. Qed.

  Lemma aseek_adapter_core : sched_indep_core (aseek_adapter A).
  Proof.
    split; [|split]; cbn [aseek_adapter ard a_read a_skip a_pos aseek_sync rread rskip rpos].
    - intros k. apply prim_psafe.
    - intros a. apply rsafe_psafe, apoll_skip_rsafe.
    - apply rsafe_psafe, apoll_pos_rsafe.
  Qed.
End ASeek.

(* the std Cursor satisfies the hypothesis *)
Lemma std_cursor_query_pure max_seek : seek_query_pure (std_cursor max_seek).
Proof.
  intros c. cbn [std_cursor s_seek]. unfold cursor_seek.
  destruct ((0 <=? Z.of_N (cpos c) + 0)%Z && (Z.of_N (cpos c) + 0 <? Z.of_N U64)%Z &&
            (Z.of_N (cpos c) + 0 <=? Z.of_N max_seek)%Z); cbn [snd]; [|reflexivity].
  replace (Z.to_N (Z.of_N (cpos c) + 0)) with (cpos c) by lia. destruct c; reflexivity.
Qed.

(* finding D7: schedule [ready, ready, pending]: the right length, the cursor left at the end *)
Lemma apoll_len_refuted : exists (data : bytes) (pos : N) (sc : sch),
  let A := pending_seeker (std_cursor U64MAXN) in
  let s := {| cdata := data; cpos := pos |} in
  exists v s' sc', drive_all (apoll_len A) s sc = Some (v, s', sc') /\
    v = fst (assa_len A s) /\ v = Ok (clen s) /\
    cpos (snd (assa_len A s)) = pos /\ cpos s' = clen s /\ cpos s' <> pos.
Proof.
  exists [Byte.x00; Byte.x01; Byte.x02; Byte.x03], 1, {| bits := [false; false; true]; npolls := 0 |}.
  cbn zeta. do 3 eexists. split; [vm_compute; reflexivity|]. vm_compute. repeat split; discriminate.
Qed.

(* the positive theorem is not vacuous: a schedule with suspended first and second seeks *)
Example len_sched_ok_example : len_sched_ok [true; false; true; true; false; false; false] = true.
Proof. reflexivity. Qed.
Example apoll_len_example :
  let A := pending_seeker (std_cursor U64MAXN) in
  let s := {| cdata := [Byte.x00; Byte.x01; Byte.x02; Byte.x03]; cpos := 1 |} in
  match drive_all (apoll_len A) s {| bits := [true; false; true; true; false; false; false]; npolls := 0 |} with
  | Some (v, s', sc') => v = Ok 4 /\ cpos s' = 1 /\ npolls sc' = 7
  | None => False
  end.
Proof. vm_compute. repeat split; reflexivity. Qed.

(* ------------------------------------------------------------------------------------------------ *)
(* AsyncSkip-native reader, forwarding *)
Lemma pending_reader_core (R : reader) : sched_indep_core (pending_reader R) /\ len_indep (pending_reader R).
Proof.
  unfold sched_indep_core, len_indep. cbn [pending_reader ard a_read a_skip a_pos a_len fut_view rread rskip rpos rlen].
  repeat split; intros; apply prim_psafe.
Qed.

Lemma afwd_core (A : areader) : sched_indep_core A -> sched_indep_core (afwd A).
Proof.
  intros (Hr & Hs & Hp). unfold sched_indep_core. cbn [afwd ard a_read a_skip a_pos fwd rread rskip rpos].
  split; [|split].
  - intros k s sc. apply (Hr k s sc).
  - intros a s sc. apply (Hs a s sc).
  - intros s sc. apply (Hp s sc).
Qed.
Lemma afwd_len (A : areader) : len_indep A -> len_indep (afwd A).
Proof. intros H s sc. apply (H s sc). Qed.

(* ------------------------------------------------------------------------------------------------ *)
(* futures BufReader over any schedule-independent inner reader *)
Section ABufProofs.
  Context (cap : N) (A : areader) (HA : sched_indep_core A).
  Let R := ard A.
  Let Hr := proj1 HA.
  Let Hs := proj1 (proj2 HA).
  Let Hp := proj2 (proj2 HA).

  Lemma abuf_skip_psafe amount : psafe (abuf_poll_skip A amount) (buf_skip R amount).
  Proof.
    intros [buf i] sc. unfold abuf_poll_skip. cbn [bbuf binner].
    destruct (blen buf <=? amount) eqn:E1; [destruct (amount - blen buf =? 0) eqn:E2|].
    - unfold buf_skip. cbn [bbuf binner ptry pbind pret]. rewrite E1, E2. cbn. split; [reflexivity|lia].
    - unfold ptry, pbind, lift_inner. cbn [bbuf binner].
      pose proof (Hs (amount - blen buf) i sc) as H.
      destruct (a_skip A (amount - blen buf) i sc) as [[[|r] i'] sc'].
      + destruct H as [Hg Hl]. split; [|exact Hl]. unfold buf_skip. cbn [bbuf binner]. rewrite E1, E2.
        unfold R. rewrite Hg. reflexivity.
      + destruct H as [E Hl]. unfold buf_skip. cbn [bbuf binner]. rewrite E1, E2. unfold R. rewrite <- E.
        destruct r; cbn; auto.
    - unfold buf_skip. cbn [bbuf binner ptry pbind pret]. rewrite E1. cbn. split; [reflexivity|lia].
  Qed.

  Lemma abuf_pos_psafe : psafe (abuf_poll_pos A) (buf_pos R).
  Proof.
    intros [buf i] sc. unfold abuf_poll_pos, buf_pos, ptry, pbind, lift_inner. cbn [bbuf binner].
    pose proof (Hp i sc) as H. fold R.
    destruct (a_pos A i sc) as [[[|r] i'] sc'].
    - destruct H as [Hg Hl]. split; [|exact Hl]. cbn [bbuf binner]. unfold R in *. rewrite Hg. reflexivity.
    - destruct H as [E Hl]. unfold R in *. rewrite <- E. destruct r; cbn; auto.
  Qed.

  Lemma abuf_len_psafe : len_indep A -> psafe (abuf_poll_len A) (buf_len R).
  Proof.
    intros HL [buf i] sc. unfold abuf_poll_len, buf_len, lift_inner. cbn [bbuf binner].
    pose proof (HL i sc) as H. fold R.
    destruct (a_len A i sc) as [[[|r] i'] sc'].
    - destruct H as [Hg Hl]. split; [|exact Hl]. cbn [bbuf binner]. unfold R in *. rewrite Hg. reflexivity.
    - destruct H as [E Hl]. unfold R in *. rewrite <- E. auto.
  Qed.

  (* poll_read: bypass, or poll_fill_buf then copy; one ready! on every path, the buffer is only touched after it *)
  Lemma abuf_read_psafe k : psafe (apoll_read cap A k) (buf_read cap R k).
  Proof.
    intros [buf i] sc. unfold apoll_read. cbn [bbuf binner].
    destruct buf as [|x bs].
    - destruct (cap <=? k) eqn:E1.
      + unfold pbind, lift_inner. cbn [bbuf binner].
        pose proof (Hr k i sc) as H.
        destruct (a_read A k i sc) as [[[|r] i'] sc'].
        * destruct H as [Hg Hl]. split; [|exact Hl]. unfold buf_read. cbn [bbuf binner]. rewrite E1.
          unfold R. rewrite Hg. reflexivity.
        * destruct H as [E Hl]. unfold buf_read. cbn [bbuf binner]. rewrite E1. unfold R. rewrite <- E. auto.
      + unfold ptry, pbind, apoll_fill. cbn [bbuf binner]. unfold ptry, pbind, lift_inner. cbn [bbuf binner].
        pose proof (Hr cap i sc) as H.
        destruct (a_read A cap i sc) as [[[|r] i'] sc'].
        * destruct H as [Hg Hl]. split; [|exact Hl]. unfold buf_read, buf_fill. cbn [bbuf binner]. rewrite E1.
          unfold R. rewrite Hg. reflexivity.
        * destruct H as [E Hl]. unfold buf_read, buf_fill. cbn [bbuf binner]. rewrite E1. unfold R. rewrite <- E.
          destruct r; cbn [sbind pret binner bbuf]; auto.
          unfold apoll_copy. destruct (buf_copy (ard A) k {| bbuf := a; binner := i' |}) as [r s']. auto.
    - unfold apoll_copy, buf_read. cbn [bbuf].
      destruct (buf_copy (ard A) k {| bbuf := x :: bs; binner := i |}) as [r s'] eqn:E. unfold R. rewrite E.
      split; [reflexivity|lia].
  Qed.

  Lemma afut_buf_core : sched_indep_core (afut_buf cap A).
  Proof.
    split; [|split]; cbn [afut_buf ard a_read a_skip a_pos fut_buf rread rskip rpos].
    - exact abuf_read_psafe.
    - exact abuf_skip_psafe.
    - exact abuf_pos_psafe.
  Qed.
  Lemma afut_buf_len : len_indep A -> len_indep (afut_buf cap A).
  Proof. intros H. unfold len_indep. cbn [afut_buf ard a_len fut_buf rlen]. apply abuf_len_psafe, H. Qed.
End ABufProofs.

Lemma afut_buf_polls (cap : N) (A : areader) :
  sched_indep_core A -> sched_indep_core (afut_buf cap A) /\ (len_indep A -> len_indep (afut_buf cap A)).
Proof. intros H. split; [apply afut_buf_core, H|apply afut_buf_len]. Qed.

Lemma bases_sched_indep (S : seeker) (R : reader) : seek_query_pure S ->
  sched_indep_core (aseek_adapter (pending_seeker S)) /\
  sched_indep_core (pending_reader R) /\ len_indep (pending_reader R) /\
  (forall A, sched_indep_core A -> sched_indep_core (afwd A)) /\ (forall A, len_indep A -> len_indep (afwd A)).
Proof.
  intros H. split; [apply aseek_adapter_core, H|]. split; [apply pending_reader_core|]. split; [apply pending_reader_core|].
  split; [exact afwd_core|exact afwd_len].
Qed.

(* ------------------------------------------------------------------------------------------------ *)
(* futures' ReadExact keeps its progress across Pending *)
Lemma rx_loop_fuel {St : Type} (rd : N -> St -> res bytes * St) : forall f1 f2 k acc s,
  (N.to_nat k < f1)%nat -> (N.to_nat k < f2)%nat ->
  read_exact_loop false rd f1 k acc s = read_exact_loop false rd f2 k acc s.
Proof.
  induction f1 as [|f1 IH]; intros f2 k acc s H1 H2; [lia|]. destruct f2 as [|f2]; [lia|].
  cbn [read_exact_loop]. destruct (N.eqb_spec k 0) as [|Hk]; [reflexivity|].
  destruct (rd k s) as [r s']. destruct r as [l|e|e|n|]; try reflexivity.
  - destruct (N.eqb_spec (blen l) 0) as [|Hl]; [reflexivity|].
    destruct (N.ltb_spec k (blen l)) as [|Hle]; [reflexivity|]. apply IH; lia.
Qed.

Section ReadExact.
  Context {St : Type} (rd : N -> pf St (res bytes)) (rds : N -> St -> res bytes * St).
  Context (Hrd : forall k, psafe (rd k) (rds k)).

  Definition rx_sync (k : N) (acc : bytes) (s : St) : res bytes * St :=
    read_exact_loop false rds (S (N.to_nat k)) k acc s.

  Lemma rx_sync_0 k acc s : k = 0 -> rx_sync k acc s = (Ok acc, s).
  Proof. intros ->. reflexivity. Qed.

  Lemma rx_sync_step k acc s : k <> 0 ->
    rx_sync k acc s =
    match rds k s with
    | (Ok l, s') => if blen l =? 0 then (EIo EUnexpectedEof, s')
                    else if k <? blen l then (Panic 1, s')
                    else rx_sync (k - blen l) (acc ++ l) s'
    | (e, s') => (e, s')
    end.
  Proof.
    intros Hk. unfold rx_sync. cbn [read_exact_loop]. destruct (N.eqb_spec k 0); [contradiction|].
    destruct (rds k s) as [r s']. destruct r as [l|e|e|pn|]; try reflexivity.
    - destruct (N.eqb_spec (blen l) 0); [reflexivity|]. destruct (N.ltb_spec k (blen l)); [reflexivity|].
      exact (rx_loop_fuel rds (N.to_nat k) (S (N.to_nat (k - blen l))) (k - blen l) (acc ++ l) s' ltac:(lia) ltac:(lia)).
    - destruct e; reflexivity.
  Qed.

  Lemma rx_poll_safe : forall fuel k acc s sc, (N.to_nat k < fuel)%nat ->
    match rx_poll rd fuel k acc s sc with
    | (Ready r, (s', _), sc') => (r, s') = rx_sync k acc s /\ (length (bits sc') <= length (bits sc))%nat
    | (Pending, (s', (k', acc')), sc') => rx_sync k' acc' s' = rx_sync k acc s /\ (length (bits sc') < length (bits sc))%nat
    end.
  Proof.
    induction fuel as [|fuel IH]; intros k acc s sc Hf; [lia|].
    cbn [rx_poll].
    destruct (N.eqb_spec k 0) as [Hk|Hk].
    { rewrite (rx_sync_0 k acc s Hk). split; [reflexivity|lia]. }
    pose proof (Hrd k s sc) as H. destruct (rd k s sc) as [[[|r] s'] sc'].
    - destruct H as [Hg Hl]. split; [|exact Hl].
      rewrite (rx_sync_step k acc s' Hk), (rx_sync_step k acc s Hk), Hg. reflexivity.
    - destruct H as [E Hl]. rewrite (rx_sync_step k acc s Hk), <- E.
      destruct r as [l|e|e|n|]; try (split; [reflexivity|exact Hl]).
      destruct (N.ltb_spec k (blen l)) as [Hlt|Hge].
      + destruct (N.eqb_spec (blen l) 0); [lia|]. split; [reflexivity|exact Hl].
      + destruct (N.eqb_spec (blen l) 0) as [Hz|Hnz]; [split; [reflexivity|exact Hl]|].
        specialize (IH (k - blen l) (acc ++ l) s' sc').
        destruct (rx_poll rd fuel (k - blen l) (acc ++ l) s' sc') as [[[|r2] [s2 [k2 acc2]]] sc2].
        * destruct IH as [Hg2 Hl2]; [lia|]. split; [exact Hg2|lia].
        * destruct IH as [Hg2 Hl2]; [lia|]. split; [exact Hg2|lia].
  Qed.

  Lemma read_exact_future_psafe :
    psafe_gen (read_exact_future rd) (fun st => rx_sync (fst (snd st)) (snd (snd st)) (fst st))
              (fun r st => (r, fst st)).
  Proof.
    intros [s [k acc]] sc. unfold read_exact_future. cbn [fst snd].
    pose proof (rx_poll_safe (S (N.to_nat k)) k acc s sc) as H.
    destruct (rx_poll rd (S (N.to_nat k)) k acc s sc) as [[[|r] [s' [k' acc']]] sc']; cbn [fst snd]; apply H; lia.
  Qed.
End ReadExact.

(* ------------------------------------------------------------------------------------------------ *)
(* every operation, then every adaptive client programme *)
Section Prog.
  Context (A : areader) (HA : sched_indep_core A).
  Let R := fut_view (ard A).

  Lemma astep_sync (o : op) s sc : (o <> OLen \/ len_indep A) ->
    exists sc', astep A o s sc = Some (fst (rstep R o s), snd (rstep R o s), sc').
  Proof.
    destruct HA as (Hr & Hs & Hp). intros Hl.
    destruct o as [k|k|a| |]; cbn [astep rstep R fut_view rread rread_exact rskip rpos rlen].
    - destruct (drive_psafe _ _ (Hr k) s sc) as (sc' & E). rewrite E.
      destruct (rread (ard A) k s) as [r s']. exists sc'. reflexivity.
    - destruct (drive_psafe_gen _ _ _ (read_exact_future_psafe (a_read A) (rread (ard A)) Hr)
                  (S (length (bits sc))) (s, (k, [])) sc) as (r & [s' st'] & sc' & E & Ho & _); [lia|].
      unfold drive_all. rewrite E. cbn [fst snd] in Ho. unfold rx_sync in Ho. unfold read_exact_default.
      rewrite <- Ho. exists sc'. reflexivity.
    - destruct (drive_psafe _ _ (Hs a) s sc) as (sc' & E). rewrite E.
      destruct (rskip (ard A) a s) as [r s']. exists sc'. reflexivity.
    - destruct (drive_psafe _ _ Hp s sc) as (sc' & E). rewrite E.
      destruct (rpos (ard A) s) as [r s']. exists sc'. reflexivity.
    - destruct Hl as [Hl|Hl]; [congruence|].
      destruct (drive_psafe _ _ Hl s sc) as (sc' & E). rewrite E.
      destruct (rlen (ard A) s) as [r s']. exists sc'. reflexivity.
  Qed.

  Lemma run_sched_sync {X : Type} (p : prog X) : (len_indep A \/ no_len p) ->
    forall s sc, exists sc', run_sched A p s sc = Some (fst (run_sync R p s), snd (run_sync R p s), sc').
  Proof.
    induction p as [x|o k IH]; intros Hl s sc; cbn [run_sched run_sync].
    - exists sc. reflexivity.
    - destruct (astep_sync o s sc) as (sc1 & E).
      { destruct Hl as [Hl|[Hl _]]; [right; exact Hl|left; exact Hl]. }
      rewrite E. destruct (rstep R o s) as [r s1]. cbn [fst snd].
      apply IH. destruct Hl as [Hl|[_ Hl]]; [left; exact Hl|right; apply Hl].
  Qed.
End Prog.

Lemma prog_sched_indep (A : areader) : sched_indep_core A ->
  forall (X : Type) (p : prog X), (len_indep A \/ no_len p) ->
  forall (s : rst (ard A)) (sc : sch),
    exists sc', run_sched A p s sc = Some (fst (run_sync (fut_view (ard A)) p s), snd (run_sync (fut_view (ard A)) p s), sc').
Proof. intros HA X p Hl s sc. apply run_sched_sync; assumption. Qed.

(* an adaptive programme over the mp4san-like stack futures BufReader(4) over SeekSkipAdapter over a Pending cursor,
   without length queries, under a dense schedule: same answer as the synchronous run *)
Example prog_example :
  let A := afut_buf 4 (aseek_adapter (pending_seeker (std_cursor U64MAXN))) in
  let s := buf_init (ard (aseek_adapter (pending_seeker (std_cursor U64MAXN))))
             {| cdata := [Byte.x05; Byte.x01; Byte.x02; Byte.x03; Byte.x04; Byte.x09; Byte.x06; Byte.x07]; cpos := 0 |} in
  let p := PDo (OReadExact 1) (fun r => match r with
             | Ok (VBytes [b]) => PDo (OSkip (Byte.to_N b - 1)) (fun _ => PDo OPos (fun q => PDo (ORead 2) (fun d => PRet (q, d))))
             | _ => PRet (r, r) end) in
  match run_sched A p s {| bits := [true; true; false; true; true; true; false; true; false; true]; npolls := 0 |} with
  | Some (x, _, _) => x = fst (run_sync (fut_view (ard A)) p s) /\ x = (Ok (VNum 5), Ok (VBytes [Byte.x09; Byte.x06]))
  | None => False
  end.
Proof. vm_compute. split; reflexivity. Qed.

(* the hypotheses of the BufReader / programme theorems are satisfiable: mp4san's own stack,
   futures BufReader(32) over SeekSkipAdapter over a Pending cursor, and over an AsyncSkip-native reader *)
Example mp4san_stack_core :
  sched_indep_core (afut_buf 32 (aseek_adapter (pending_seeker (std_cursor U64MAXN)))) /\
  sched_indep_core (afut_buf 32 (pending_reader (cursor_reader U64MAXN))) /\
  len_indep (afut_buf 32 (afwd (pending_reader (cursor_reader U64MAXN)))).
Proof.
  split; [|split].
  - apply afut_buf_core, aseek_adapter_core, std_cursor_query_pure.
  - apply afut_buf_core, pending_reader_core.
  - apply afut_buf_len, afwd_len, pending_reader_core.
Qed.
