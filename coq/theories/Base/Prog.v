(* Programmes over an abstract forward-only reader (free monad), inputs of any size, interpreters.
   The sanitizers are written ONCE as [prog]s; different interpreters give the plain run, the run with an
   operation trace (C10), the run with an injected fault (C13), ... *)
From Coq Require Import List NArith Bool Lia.
From Coq.Strings Require Import Byte.
From MS Require Import Base.Bytes Base.Outcome.
Import ListNotations.
Open Scope N_scope.

(* operations the sanitizer issues on its (buffered) reader; OAlloc is a pure event: a heap request of n bytes *)
(* OReadUpTo n: a plain `read` loop collecting at most n bytes; short only at the end of the stream (never an EOF error) *)
Inductive op := OFillEmpty | OReadExact (n : N) | OSkip (n : N) | OPos | OLen | OAlloc (n : N) | OReadUpTo (n : N).
Inductive resp := RBool (b : bool) | RBytes (l : bytes) | RUnit | RNum (n : N) | RErr (e : ioerr).

Inductive prog (A : Type) :=
  | Ret (r : res A)
  | Do (o : op) (k : resp -> prog A).
Arguments Ret {A} r.
Arguments Do {A} o k.

Fixpoint pbind {A B} (p : prog A) (f : A -> prog B) : prog B :=
  match p with
  | Ret (Ok a) => f a
  | Ret (EParse e) => Ret (EParse e)
  | Ret (EIo e) => Ret (EIo e)
  | Ret (Panic s) => Ret (Panic s)
  | Ret OutOfFuel => Ret OutOfFuel
  | Do o k => Do o (fun r => pbind (k r) f)
  end.

Definition lift {A} (r : res A) : prog A := Ret r.

(* typed wrappers.  [eof] says what an UnexpectedEof becomes at this call site:
   None = plain `?` (propagates as Io UnexpectedEof); Some e = `.map_eof(|_| Parse e)`. *)
Definition io_err {A} (eof : option perr) (e : ioerr) : prog A :=
  match e, eof with
  | EUnexpectedEof, Some pe => Ret (EParse pe)
  | _, _ => Ret (EIo e)
  end.
Definition bad_resp : N := 99.   (* a reader answered with the wrong kind of response: not reachable with the readers below *)

Definition do_fill_empty : prog bool :=
  Do OFillEmpty (fun r => match r with RBool b => Ret (Ok b) | RErr e => io_err None e | _ => Ret (Panic bad_resp) end).
Definition do_read_exact (n : N) (eof : option perr) : prog bytes :=
  Do (OReadExact n) (fun r => match r with RBytes l => Ret (Ok l) | RErr e => io_err eof e | _ => Ret (Panic bad_resp) end).
Definition do_skip (n : N) (eof : option perr) : prog unit :=
  Do (OSkip n) (fun r => match r with RUnit => Ret (Ok tt) | RErr e => io_err eof e | _ => Ret (Panic bad_resp) end).
Definition do_pos : prog N :=
  Do OPos (fun r => match r with RNum n => Ret (Ok n) | RErr e => io_err None e | _ => Ret (Panic bad_resp) end).
Definition do_len : prog N :=
  Do OLen (fun r => match r with RNum n => Ret (Ok n) | RErr e => io_err None e | _ => Ret (Panic bad_resp) end).
Definition do_read_upto (n : N) : prog bytes :=
  Do (OReadUpTo n) (fun r => match r with RBytes l => Ret (Ok l) | RErr e => io_err None e | _ => Ret (Panic bad_resp) end).
Definition do_alloc (n : N) : prog unit :=
  Do (OAlloc n) (fun _ => Ret (Ok tt)).

Notation "x <~ e ;; k" := (pbind e (fun x => k)) (at level 61, e at next level, right associativity).
Notation "' p <~ e ;; k" := (pbind e (fun p => k)) (at level 61, p pattern, e at next level, right associativity).

(* ------------------------------------------------------------------ readers *)
Record reader := { rst : Type; rstep : op -> rst -> resp * rst }.

Fixpoint run {A} (R : reader) (p : prog A) (s : rst R) : res A * rst R :=
  match p with
  | Ret r => (r, s)
  | Do o k => let '(a, s') := rstep R o s in run R (k a) s'
  end.

(* run with the trace of (operation, position-before) pairs *)
Fixpoint run_trace {A} (R : reader) (posof : rst R -> N) (p : prog A) (s : rst R) (acc : list (op * N))
  : res A * rst R * list (op * N) :=
  match p with
  | Ret r => (r, s, rev acc)
  | Do o k => let '(a, s') := rstep R o s in run_trace R posof (k a) s' ((o, posof s) :: acc)
  end.

(* run with a fault injected at I/O operation index k (0-based; OAlloc events are not I/O and are not counted):
   that operation answers RErr e and has no effect on the reader *)
Definition is_io (o : op) : bool := match o with OAlloc _ => false | _ => true end.

Fixpoint run_fault {A} (R : reader) (p : prog A) (s : rst R) (k : nat) (e : ioerr) : res A * rst R :=
  match p with
  | Ret r => (r, s)
  | Do o c =>
      if is_io o then
        match k with
        | O => run R (c (RErr e)) s
        | S k' => let '(a, s') := rstep R o s in run_fault R (c a) s' k' e
        end
      else let '(a, s') := rstep R o s in run_fault R (c a) s' k e
  end.

(* number of I/O operations of the fault-free run *)
Fixpoint op_count {A} (R : reader) (p : prog A) (s : rst R) : nat :=
  match p with
  | Ret _ => O
  | Do o k => let '(a, s') := rstep R o s in (if is_io o then S else (fun n => n)) (op_count R (k a) s')
  end.

(* ------------------------------------------------------------------ inputs of any size *)
Record input := { ilen : N; iget : N -> byte }.

Fixpoint iread (inp : input) (pos : N) (n : nat) : bytes :=
  match n with O => [] | S n' => iget inp pos :: iread inp (pos + 1) n' end.

(* executable inputs: extents (offset, bytes) over a zero background *)
Fixpoint ext_get (exts : list (N * N * bytes)) (off : N) : byte :=
  match exts with
  | [] => x00
  | (o, e, l) :: r =>
      if (o <=? off) && (off <? e) then nth (N.to_nat (off - o)) l x00 else ext_get r off
  end.
(* extents are (offset, bytes); the end offsets are computed once *)
Definition input_of_exts (len : N) (exts : list (N * bytes)) : input :=
  let exts' := map (fun ol : N * bytes => (fst ol, fst ol + N.of_nat (length (snd ol)), snd ol)) exts in
  {| ilen := len; iget := ext_get exts' |}.
Definition input_of_bytes (l : bytes) : input := input_of_exts (N.of_nat (length l)) [(0, l)].

(* The ideal cursor over an input.
   lenient = true : a skip past the end succeeds (seek-style: Cursor, File, SeekSkipAdapter);
   lenient = false: a skip past the end fails with UnexpectedEof (a strict Skip implementation).
   max_seek: the largest absolute position a seek-style skip can reach (2^64-1 in memory, 2^63-1 for files). *)
Definition U64MAX' : N := 18446744073709551615.
Definition I64MAX' : N := 9223372036854775807.

Definition cursor_step (inp : input) (lenient : bool) (max_seek : N) (o : op) (pos : N) : resp * N :=
  match o with
  | OFillEmpty => (RBool (ilen inp <=? pos), pos)
  | OReadExact n =>
      if (n =? 0) || (pos + n <=? ilen inp) then (RBytes (iread inp pos (N.to_nat n)), pos + n)   (* read_exact of an empty buffer never fails *)
      else (RErr EUnexpectedEof, N.max pos (ilen inp))
  | OSkip n =>
      if lenient then
        if pos + n <=? max_seek then (RUnit, pos + n)
        else if (I64MAX' <? n) && (U64MAX' <? pos + n) then (RErr EInvalidData, pos)
        else (RErr EInvalidInput, pos)
      else
        if pos + n <=? ilen inp then (RUnit, pos + n) else (RErr EUnexpectedEof, pos)
  | OPos => (RNum pos, pos)
  | OLen => (RNum (ilen inp), pos)
  | OAlloc _ => (RUnit, pos)
  | OReadUpTo n =>
      let k := N.min n (ilen inp - pos) in (RBytes (iread inp pos (N.to_nat k)), pos + k)
  end.

Definition cursor (inp : input) (lenient : bool) (max_seek : N) : reader :=
  {| rst := N; rstep := cursor_step inp lenient max_seek |}.
