(* What C15 demands of an adapter, in terms of the ideal cursor of Cursor.v (definitions only):
   [refines R abs Inv]: with the abstraction function [abs] and the invariant [Inv], every operation of the
   reader [R] that stays within the stream answers as the ideal cursor may answer, moves the abstract cursor as
   the ideal cursor moves (position and length queries do not move it), and re-establishes the invariant. *)
From Coq Require Import List NArith ZArith Bool.
From MS Require Import Base.Bytes Base.Outcome Base.Cursor Base.Adapters.
Import ListNotations.
Open Scope N_scope.

Definition refines (R : reader) (abs : rst R -> cur) (Inv : rst R -> Prop) : Prop :=
  (forall s, Inv s -> wf_cur (abs s)) /\
  (forall (o : op) (s : rst R), Inv s -> within o (abs s) ->
     accepts o (abs s) (fst (rstep R o s)) /\
     abs (snd (rstep R o s)) = advance o (abs s) (fst (rstep R o s)) /\
     Inv (snd (rstep R o s))).

(* a Read + Seek object that behaves as the lenient seek-style cursor of Cursor.v, as far as the stream reaches:
   reads are ideal reads; a seek whose target lies within the stream succeeds, returns the target and moves there;
   stream_position returns the position *)
Definition seeker_refines (max_seek : N) (S : seeker) (abs : sst S -> cur) (Inv : sst S -> Prop) : Prop :=
  (forall s, Inv s -> wf_cur (abs s) /\ clen (abs s) <= max_seek) /\
  (forall k s, Inv s ->
     accepts (ORead k) (abs s) (rmap VBytes (fst (s_read S k s))) /\
     abs (snd (s_read S k s)) = advance (ORead k) (abs s) (rmap VBytes (fst (s_read S k s))) /\
     Inv (snd (s_read S k s))) /\
  (forall k s, Inv s -> cpos (abs s) + k <= clen (abs s) ->
     fst (s_read_exact S k s) = Ok (slice (cdata (abs s)) (cpos (abs s)) k) /\
     abs (snd (s_read_exact S k s)) = cmove (abs s) (cpos (abs s) + k) /\
     Inv (snd (s_read_exact S k s))) /\
  (forall sf s t, Inv s -> seek_target max_seek sf (abs s) = Some t -> t <= clen (abs s) ->
     fst (s_seek S sf s) = Ok t /\ abs (snd (s_seek S sf s)) = cmove (abs s) t /\ Inv (snd (s_seek S sf s))) /\
  (forall s, Inv s ->
     fst (s_stream_position S s) = Ok (cpos (abs s)) /\ abs (snd (s_stream_position S s)) = abs s /\
     Inv (snd (s_stream_position S s))).

(* BufReader: the abstract cursor is the inner one moved back by what is buffered;
   invariant: buffer = data[pos .. inner.pos) *)
Definition buf_abs (R : reader) (abs : rst R -> cur) (s : bst (rst R)) : cur :=
  cmove (abs (binner s)) (cpos (abs (binner s)) - blen (bbuf s)).
Definition buf_inv (R : reader) (abs : rst R -> cur) (Inv : rst R -> Prop) (s : bst (rst R)) : Prop :=
  Inv (binner s) /\
  blen (bbuf s) <= cpos (abs (binner s)) /\
  bbuf s = slice (cdata (abs (binner s))) (cpos (abs (binner s)) - blen (bbuf s)) (blen (bbuf s)).

(* ChunkDataReader: a cursor over the PARENT's bytes cut off at the end of the chunk body; positions are the
   parent's; stream_len is the parent's length (not the end of the body) and does not move the cursor *)
Definition cd_remaining {I : Type} (s : cdst I) : N := match cstate_of s with CBody r => r | _ => 0 end.
Definition cd_abs (R : reader) (abs : rst R -> cur) (s : cdst (rst R)) : cur :=
  let c := abs (cinner s) in
  {| cdata := firstn (N.to_nat (cpos c + cd_remaining s)) (cdata c); cpos := cpos c |}.
Definition cd_inv (R : reader) (abs : rst R -> cur) (Inv : rst R -> Prop) (s : cdst (rst R)) : Prop :=
  Inv (cinner s) /\ cstate_of s <> CPeeking /\ cstate_of s <> CBody 0 /\
  cpos (abs (cinner s)) + cd_remaining s <= clen (abs (cinner s)).
Definition chunk_refines (R : reader) (abs : rst R -> cur) (Inv : rst R -> Prop) : Prop :=
  (forall s, cd_inv R abs Inv s -> wf_cur (cd_abs R abs s)) /\
  (forall (o : op) (s : cdst (rst R)), cd_inv R abs Inv s -> within o (cd_abs R abs s) ->
     (match o with
      | OLen => fst (rstep (chunk_data R) o s) = Ok (VNum (clen (abs (cinner s))))
      | _ => accepts o (cd_abs R abs s) (fst (rstep (chunk_data R) o s))
      end) /\
     cd_abs R abs (snd (rstep (chunk_data R) o s)) = advance o (cd_abs R abs s) (fst (rstep (chunk_data R) o s)) /\
     cd_inv R abs Inv (snd (rstep (chunk_data R) o s))).
