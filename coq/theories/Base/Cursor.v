(* The IDEAL forward-only cursor (specification side of C15 / C12), written from the property text:
   "a forward-only cursor over the same bytes": a byte string and a position;
     read k        returns the next n bytes, n <= k, n = 0 only if k = 0 or the cursor is at the end
                   (a reader may return fewer bytes than asked: that is the io::Read contract; what it may never
                   do is skip, repeat or misreport bytes, or report end-of-stream early);
     read_exact k  returns exactly the next k bytes;
     skip a        advances by a;
     position      returns the position;   length returns the length;  NEITHER MOVES THE CURSOR.
   An operation "stays within the stream" when the cursor does not pass the end.
   Also here: the lenient, seek-style cursor ([seek_target], parameter [max_seek]) that the seek-based
   adapter is specified against (2^64-1 for in-memory cursors, 2^63-1 for files: finding D11).
   Definitions only. *)
From Coq Require Import List NArith ZArith Bool.
From MS Require Import Base.Bytes Base.Outcome.
Import ListNotations.
Open Scope N_scope.

Definition blen (l : bytes) : N := N.of_nat (length l).
(* data[p .. p+n), clipped to the data *)
Definition slice (d : bytes) (p n : N) : bytes := firstn (N.to_nat n) (skipn (N.to_nat p) d).

Definition U64 : N := 18446744073709551616.       (* 2^64 *)
Definition I64MAX : N := 9223372036854775807.     (* 2^63 - 1 *)

Record cur := { cdata : bytes; cpos : N }.
Definition clen (c : cur) : N := blen (cdata c).
Definition cmove (c : cur) (p : N) : cur := {| cdata := cdata c; cpos := p |}.

Inductive op := ORead (k : N) | OReadExact (k : N) | OSkip (a : N) | OPos | OLen.
Inductive val := VBytes (l : bytes) | VUnit | VNum (n : N).
Definition obs := res val.

(* a well-formed ideal cursor: inside its stream; lengths are u64 *)
Definition wf_cur (c : cur) : Prop := cpos c <= clen c /\ clen c < U64.

(* the operation stays within the stream *)
Definition within (o : op) (c : cur) : Prop :=
  match o with
  | ORead _ | OPos | OLen => True
  | OReadExact k => cpos c + k <= clen c
  | OSkip a => cpos c + a <= clen c
  end.

(* what an ideal cursor may answer to [o] in state [c] *)
Definition accepts (o : op) (c : cur) (r : obs) : Prop :=
  match o with
  | ORead k => exists l, r = Ok (VBytes l) /\ l = slice (cdata c) (cpos c) (blen l) /\ blen l <= k /\
                         (blen l = 0 <-> (k = 0 \/ cpos c = clen c))
  | OReadExact k => r = Ok (VBytes (slice (cdata c) (cpos c) k))
  | OSkip a => r = Ok VUnit
  | OPos => r = Ok (VNum (cpos c))
  | OLen => r = Ok (VNum (clen c))
  end.

(* ... and where the cursor is afterwards.  [OPos] and [OLen] do not move it. *)
Definition advance (o : op) (c : cur) (r : obs) : cur :=
  match o with
  | ORead _ => match r with Ok (VBytes l) => cmove c (cpos c + blen l) | _ => c end
  | OReadExact k => cmove c (cpos c + k)
  | OSkip a => cmove c (cpos c + a)
  | OPos | OLen => c
  end.

(* the deterministic ideal cursor (every read is as long as possible): one admissible behaviour *)
Definition ideal_step (o : op) (c : cur) : obs * cur :=
  match o with
  | ORead k => let l := slice (cdata c) (cpos c) k in (Ok (VBytes l), cmove c (cpos c + blen l))
  | OReadExact k => (Ok (VBytes (slice (cdata c) (cpos c) k)), cmove c (cpos c + k))
  | OSkip a => (Ok VUnit, cmove c (cpos c + a))
  | OPos => (Ok (VNum (cpos c)), c)
  | OLen => (Ok (VNum (clen c)), c)
  end.

(* histories: as long as the operations stay within the stream every answer is an ideal answer;
   nothing is claimed after the first operation that leaves the stream *)
Fixpoint hist_ok (ops : list op) (c : cur) (rs : list obs) : Prop :=
  match ops, rs with
  | [], [] => True
  | o :: ops', r :: rs' => within o c -> accepts o c r /\ hist_ok ops' (advance o c r) rs'
  | _, _ => False
  end.

(* the ideal position after a history (used to state "abs of the final state") *)
Fixpoint hist_end (ops : list op) (c : cur) (rs : list obs) : cur :=
  match ops, rs with
  | o :: ops', r :: rs' => hist_end ops' (advance o c r) rs'
  | _, _ => c
  end.
(* every operation of the history stays within the stream (along the answers actually given) *)
Fixpoint hist_within (ops : list op) (c : cur) (rs : list obs) : Prop :=
  match ops, rs with
  | o :: ops', r :: rs' => within o c /\ hist_within ops' (advance o c r) rs'
  | _, _ => True
  end.

(* ---- lenient seek-style cursor: the mathematical target of a seek; None = refused (InvalidInput) ---- *)
Inductive seekfrom := SStart (n : N) | SCurrent (d : Z) | SEnd (d : Z).

Definition seek_target (max_seek : N) (sf : seekfrom) (c : cur) : option N :=
  let t := match sf with
           | SStart n => Z.of_N n
           | SCurrent d => (Z.of_N (cpos c) + d)%Z
           | SEnd d => (Z.of_N (clen c) + d)%Z
           end in
  if ((0 <=? t)%Z && (t <=? Z.of_N max_seek)%Z)%bool then Some (Z.to_N t) else None.
