(* C11, part 2: BufReader / forwarding / AsyncInputAdapter preserve the lenient refinement (so every stack has it);
   the sanitizer's own BufReader over such a stack simulates the lenient ideal cursor operation by operation;
   same result for every programme across all views. *)
From Coq Require Import List NArith ZArith Bool Lia ZifyBool ZifyNat ZifyN.
From MS Require Import Base.Bytes Base.Outcome Base.Cursor Base.Adapters Base.AdaptersSpec Base.AdaptersProofs
     Base.Prog Base.StackReader Base.StackSpec Base.StackProofs.
Import ListNotations.
Open Scope N_scope.
Arguments N.add : simpl never.
Arguments N.sub : simpl never.
Arguments N.mul : simpl never.
Arguments N.eqb : simpl never.
Arguments N.ltb : simpl never.
Arguments N.leb : simpl never.
Arguments N.min : simpl never.
Arguments N.max : simpl never.

Lemma skipn_all_blen' (l : bytes) : skipn (N.to_nat (blen l)) l = [].
Proof. unfold blen. rewrite Nat2N.id. apply skipn_all. Qed.

(* the error kind of a failing skip does not depend on how much of the amount was served from the buffer *)
Lemma skip_err_shift a b ipos : b <= a -> b <= ipos -> (b = 0 \/ ipos <= I64MAX) ->
  skip_err (a - b) ipos = skip_err a (ipos - b).
Proof.
  intros H1 H2 H3. unfold skip_err.
  replace (ipos - b + a) with (ipos + (a - b)) by lia.
  destruct (N.ltb_spec I64MAX (a - b)), (N.ltb_spec I64MAX a), (N.ltb_spec U64MAXN (ipos + (a - b)));
    cbn [andb]; try reflexivity; unfold I64MAX, U64MAXN in *; lia.
Qed.

Lemma empty_buf_abs (R : Adapters.reader) (abs : Adapters.rst R -> cur) i : buf_abs R abs {| bbuf := []; binner := i |} = abs i.
Proof. unfold buf_abs. cbn [bbuf binner]. rewrite blen_nil, N.sub_0_r. apply cmove_same. Qed.
Lemma empty_buf_inv (R : Adapters.reader) (abs : Adapters.rst R -> cur) (Inv : Adapters.rst R -> Prop) i :
  Inv i -> buf_inv R abs Inv {| bbuf := []; binner := i |}.
Proof.
  intros HI. unfold buf_inv. cbn [bbuf binner]. rewrite blen_nil. split; [exact HI|]. split; [apply N.le_0_l|reflexivity].
Qed.

(* ------------------------------------------------------------------------------------------------ *)
Section LBuf.
  Context (ms cap : N) (R : Adapters.reader) (abs : Adapters.rst R -> cur) (Inv : Adapters.rst R -> Prop).
  Context (Hcap : 1 <= cap) (HR : lrefines ms R abs Inv).

  Let Hwf := proj1 HR.
  Let Hread := proj1 (proj2 HR).
  Let Hskip := proj1 (proj2 (proj2 HR)).
  Let Hskipe := proj1 (proj2 (proj2 (proj2 HR))).
  Let Hpos := proj1 (proj2 (proj2 (proj2 (proj2 HR)))).
  Let Hlen := proj2 (proj2 (proj2 (proj2 (proj2 HR)))).

  Notation babs := (buf_abs R abs).
  Notation binv := (buf_inv R abs Inv).

  Lemma lb_facts s : binv s ->
    let ci := abs (binner s) in
    Inv (binner s) /\ lwf ms ci /\ blen (bbuf s) <= cpos ci /\
    cdata (babs s) = cdata ci /\ cpos (babs s) = cpos ci - blen (bbuf s) /\ clen (babs s) = clen ci /\
    bbuf s = slice (cdata ci) (cpos ci - blen (bbuf s)) (blen (bbuf s)) /\
    (0 < blen (bbuf s) -> cpos ci <= clen ci).
  Proof.
    intros (HI & Hb & He). pose proof (Hwf _ HI) as Hw. cbn zeta. unfold buf_abs.
    rewrite cdata_cmove, cpos_cmove, clen_cmove. repeat (split; [assumption || reflexivity|]).
    intros Hpos0. pose proof (slice_full_eq _ _ _ He). unfold clen. lia.
  Qed.

  Lemma lb_wf s : binv s -> lwf ms (babs s).
  Proof.
    intros HB. destruct (lb_facts s HB) as (HI & (H1 & H2 & H3 & H4) & Hb & Hd & Hc & Hn & He & Hin). cbn zeta in *.
    unfold lwf. rewrite Hc, Hn. lia.
  Qed.

  Lemma lb_empty_abs i : babs {| bbuf := []; binner := i |} = abs i.
  Proof. apply empty_buf_abs. Qed.
  Lemma lb_empty_inv i : Inv i -> binv {| bbuf := []; binner := i |}.
  Proof. apply empty_buf_inv. Qed.

  Lemma lb_copy k s : binv s ->
    let n := N.min k (blen (bbuf s)) in
    exists s', buf_copy R k s = (Ok (slice (cdata (babs s)) (cpos (babs s)) n), s') /\
               blen (slice (cdata (babs s)) (cpos (babs s)) n) = n /\
               babs s' = cmove (babs s) (cpos (babs s) + n) /\ binv s'.
  Proof.
    intros HB. destruct (lb_facts s HB) as (HI & Hw & Hb & Hd & Hc & Hn & He & Hin). cbn zeta in *.
    set (n := N.min k (blen (bbuf s))). unfold buf_copy. fold n. eexists. split; [|split; [|split]].
    - f_equal. rewrite He at 1. rewrite firstn_slice, Hd, Hc. do 2 f_equal. subst n. lia.
    - rewrite slice_len. pose proof (slice_full_eq _ _ _ He). unfold clen in *. rewrite Hd, Hc. subst n. lia.
    - unfold buf_abs, buf_consume. cbn [bbuf binner]. rewrite blen_skipn, cmove_cmove, cpos_cmove. f_equal. lia.
    - unfold buf_inv, buf_consume. cbn [bbuf binner]. rewrite blen_skipn. split; [exact HI|]. split; [lia|].
      rewrite He at 1. rewrite skipn_slice. f_equal; lia.
  Qed.

  (* after a fill of an empty buffer *)
  Lemma lb_filled i l i' : Inv i -> l = slice (cdata (abs i)) (cpos (abs i)) (blen l) ->
    abs i' = cmove (abs i) (cpos (abs i) + blen l) -> Inv i' ->
    binv {| bbuf := l; binner := i' |} /\ babs {| bbuf := l; binner := i' |} = abs i.
  Proof.
    intros HI H1 H4 H5. split.
    - unfold buf_inv. cbn [bbuf binner]. rewrite H4, cpos_cmove, cdata_cmove.
      split; [exact H5|]. split; [lia|]. rewrite H1 at 1. f_equal. lia.
    - unfold buf_abs. cbn [bbuf binner]. rewrite H4, cpos_cmove, cmove_cmove.
      replace (cpos (abs i) + blen l - blen l) with (cpos (abs i)) by lia. apply cmove_same.
  Qed.

  Lemma lb_read k s : binv s -> exists l s',
    buf_read cap R k s = (Ok l, s') /\ l = slice (cdata (babs s)) (cpos (babs s)) (blen l) /\ blen l <= k /\
    (blen l = 0 <-> (k = 0 \/ clen (babs s) <= cpos (babs s))) /\
    babs s' = cmove (babs s) (cpos (babs s) + blen l) /\ binv s'.
  Proof.
    intros HB. destruct (lb_facts s HB) as (HI & Hw & Hb & Hd & Hc & Hn & He & Hin). cbn zeta in *.
    unfold buf_read. destruct (bbuf s) as [|x bs] eqn:Ebuf.
    - assert (Es : s = {| bbuf := []; binner := binner s |}) by (destruct s; cbn in *; now subst).
      assert (Ea : babs s = abs (binner s)) by (rewrite Es; apply lb_empty_abs).
      destruct (N.leb_spec cap k) as [Hbig|Hsmall].
      + destruct (Hread k (binner s) HI) as (l & i' & E & H1 & H2 & H3 & H4 & H5). rewrite E.
        exists l, {| bbuf := []; binner := i' |}. rewrite lb_empty_abs, Ea.
        split; [reflexivity|]. split; [exact H1|]. split; [exact H2|]. split; [exact H3|]. split; [exact H4|].
        apply lb_empty_inv, H5.
      + unfold buf_fill. rewrite Ebuf.
        destruct (Hread cap (binner s) HI) as (l & i' & E & H1 & H2 & H3 & H4 & H5). rewrite E. cbn [sbind].
        destruct (lb_filled (binner s) l i' HI H1 H4 H5) as [HB1 Ea1].
        set (s1 := {| bbuf := l; binner := i' |}) in *.
        destruct (lb_copy k s1 HB1) as (s2 & E2 & Hn2 & Ha2 & HB2). cbn zeta in E2, Hn2, Ha2.
        rewrite Ea1 in E2, Hn2, Ha2. change (bbuf s1) with l in E2, Hn2, Ha2.
        exists (slice (cdata (abs (binner s))) (cpos (abs (binner s))) (N.min k (blen l))), s2.
        rewrite Ea, Hn2.
        split; [exact E2|]. split; [reflexivity|]. split; [lia|]. split; [|split; [exact Ha2|exact HB2]].
        split.
        * intros Hz. assert (blen l = 0 \/ k = 0) as [Hl0|Hk0] by lia; [right|left; exact Hk0].
          apply H3 in Hl0. destruct Hl0; [lia|assumption].
        * intros [Hk0|Hend]; [lia|]. assert (blen l = 0) by (apply H3; right; exact Hend). lia.
    - rewrite <- Ebuf in *. destruct (lb_copy k s HB) as (s2 & E2 & Hn2 & Ha2 & HB2). cbn zeta in E2, Hn2, Ha2.
      assert (Hpos' : 0 < blen (bbuf s)) by (rewrite Ebuf; apply blen_cons_pos).
      exists (slice (cdata (babs s)) (cpos (babs s)) (N.min k (blen (bbuf s)))), s2.
      rewrite Hn2.
      split; [exact E2|]. split; [reflexivity|]. split; [lia|]. split; [|split; [exact Ha2|exact HB2]].
      split.
      + intros Hz. left. lia.
      + intros [Hk0|Hend]; [lia|]. rewrite Hc, Hn in Hend. pose proof (slice_full_eq _ _ _ He). unfold clen in *. lia.
  Qed.

  Lemma lb_skip_ok a s : binv s -> cpos (babs s) + a <= ms -> exists s',
    buf_skip R a s = (Ok tt, s') /\ babs s' = cmove (babs s) (cpos (babs s) + a) /\ binv s'.
  Proof.
    intros HB Hw. destruct (lb_facts s HB) as (HI & Hlw & Hb & Hd & Hc & Hn & He & Hin). cbn zeta in *.
    unfold buf_skip. destruct (N.leb_spec (blen (bbuf s)) a) as [Hge|Hlt].
    - rewrite (N.min_l _ _ Hge).
      destruct (N.eqb_spec (a - blen (bbuf s)) 0) as [Hz|Hnz]; cbn [sbind].
      + eexists. split; [reflexivity|]. unfold buf_consume. rewrite skipn_all_blen'. split.
        * rewrite lb_empty_abs. unfold buf_abs. rewrite cpos_cmove.
          replace (cpos (abs (binner s)) - blen (bbuf s) + a) with (cpos (abs (binner s))) by lia.
          symmetry. rewrite cmove_cmove. apply cmove_same.
        * apply lb_empty_inv, HI.
      + destruct (Hskip (a - blen (bbuf s)) (binner s) HI) as (i' & E & Ha & HI'); [lia|].
        rewrite E. cbn [sbind]. eexists. split; [reflexivity|]. unfold buf_consume. cbn [bbuf binner].
        rewrite skipn_all_blen'. split.
        * rewrite lb_empty_abs, Ha. unfold buf_abs. rewrite cmove_cmove, cpos_cmove. f_equal. lia.
        * apply lb_empty_inv, HI'.
    - rewrite (N.min_r _ _ (N.lt_le_incl _ _ Hlt)). cbn [sbind].
      eexists. split; [reflexivity|]. split.
      + unfold buf_abs, buf_consume. cbn [bbuf binner]. rewrite blen_skipn, cmove_cmove, cpos_cmove. f_equal. lia.
      + unfold buf_inv, buf_consume. cbn [bbuf binner]. rewrite blen_skipn. split; [exact HI|]. split; [lia|].
        rewrite He at 1. rewrite skipn_slice. f_equal; lia.
  Qed.

  Lemma lb_same_abs s i' : binv s -> abs i' = abs (binner s) -> Inv i' ->
    babs {| bbuf := bbuf s; binner := i' |} = babs s /\ binv {| bbuf := bbuf s; binner := i' |}.
  Proof. intros (HI & Hb & He) Ha HI'. unfold buf_abs, buf_inv. cbn [bbuf binner]. rewrite Ha. auto. Qed.

  (* a skip whose target exceeds max_seek fails in the inner reader, before anything is consumed *)
  Lemma lb_skip_err a s : binv s -> ms < cpos (babs s) + a -> exists s',
    buf_skip R a s = (EIo (skip_err a (cpos (babs s))), s') /\ babs s' = babs s /\ binv s'.
  Proof.
    intros HB Hw. destruct (lb_facts s HB) as (HI & (Hl1 & Hl2 & Hl3 & Hl4) & Hb & Hd & Hc & Hn & He & Hin). cbn zeta in *.
    unfold buf_skip. destruct (N.leb_spec (blen (bbuf s)) a) as [Hge|Hlt]; [|lia].
    destruct (N.eqb_spec (a - blen (bbuf s)) 0) as [Hz|Hnz]; [lia|].
    destruct (Hskipe (a - blen (bbuf s)) (binner s) HI) as (i' & E & Ha & HI'); [lia|].
    rewrite E. cbn [sbind]. destruct (lb_same_abs s i' HB Ha HI') as [H1 H2].
    eexists. split; [|split; [exact H1|exact H2]]. do 2 f_equal. rewrite Hc. apply skip_err_shift; try lia.
  Qed.

  Lemma lb_pos s : binv s -> exists s', buf_pos R s = (Ok (cpos (babs s)), s') /\ babs s' = babs s /\ binv s'.
  Proof.
    intros HB. destruct (lb_facts s HB) as (HI & Hlw & Hb & Hd & Hc & Hn & He & Hin). cbn zeta in *.
    unfold buf_pos. destruct (Hpos (binner s) HI) as (i' & E & Ha & HI'). rewrite E. cbn [sbind bbuf].
    destruct (lb_same_abs s i' HB Ha HI') as [H1 H2]. eexists. split; [rewrite Hc; reflexivity|]. auto.
  Qed.
  Lemma lb_len s : binv s -> exists s', buf_len R s = (Ok (clen (babs s)), s') /\ babs s' = babs s /\ binv s'.
  Proof.
    intros HB. destruct (lb_facts s HB) as (HI & Hlw & Hb & Hd & Hc & Hn & He & Hin). cbn zeta in *.
    unfold buf_len. destruct (Hlen (binner s) HI) as (i' & E & Ha & HI'). rewrite E.
    destruct (lb_same_abs s i' HB Ha HI') as [H1 H2]. eexists. split; [rewrite Hn; reflexivity|]. auto.
  Qed.

  Lemma std_buf_lrefines : lrefines ms (std_buf cap R) babs binv.
  Proof.
    unfold lrefines. cbn [std_buf rread rskip rpos rlen Adapters.rst].
    split; [exact lb_wf|]. split; [exact lb_read|]. split; [exact lb_skip_ok|]. split; [exact lb_skip_err|].
    split; [exact lb_pos|exact lb_len].
  Qed.
  Lemma fut_buf_lrefines : lrefines ms (fut_buf cap R) babs binv.
  Proof.
    unfold lrefines. cbn [fut_buf rread rskip rpos rlen Adapters.rst].
    split; [exact lb_wf|]. split; [exact lb_read|]. split; [exact lb_skip_ok|]. split; [exact lb_skip_err|].
    split; [exact lb_pos|exact lb_len].
  Qed.
End LBuf.

Lemma fwd_lrefines ms R abs Inv : lrefines ms R abs Inv -> lrefines ms (fwd R) abs Inv.
Proof. intros H. exact H. Qed.
Lemma async_input_lrefines ms R abs Inv : lrefines ms R abs Inv -> lrefines ms (async_input R) abs Inv.
Proof. intros H. exact H. Qed.

(* ------------------------------------------------------------------------------------------------ *)
(* every stack (induction on the stack) *)
Lemma stk_lrefines ms (st : stk) : stk_ok st ->
  exists (abs : Adapters.rst (stk_reader ms st) -> cur) (Inv : Adapters.rst (stk_reader ms st) -> Prop),
    lrefines ms (stk_reader ms st) abs Inv /\
    forall data, blen data <= I64MAX -> ms_ok (blen data) ms ->
      Inv (stk_init ms st data) /\ abs (stk_init ms st data) = {| cdata := data; cpos := 0 |}.
Proof.
  induction st as [sizes|sizes|cap st IH|cap st IH|st IH|st IH]; intros Hok; cbn [stk_ok] in Hok.
  - exists (fun s : ccur => cc_cur s), (fun s : ccur => lwf ms (cc_cur s)). split; [apply bottom_lrefines_cursor|].
    intros data Hd [Hm Hu]. cbn [stk_init cc_cur]. split; [|reflexivity]. unfold lwf, clen. cbn [cdata cpos]. lia.
  - exists (fun s : ccur => cc_cur s), (fun s : ccur => lwf ms (cc_cur s)). split; [apply bottom_lrefines_seek|].
    intros data Hd [Hm Hu]. cbn [stk_init cc_cur]. split; [|reflexivity]. unfold lwf, clen. cbn [cdata cpos]. lia.
  - destruct Hok as [Hcap Hok]. destruct (IH Hok) as (abs & Inv & HR & Hinit).
    exists (buf_abs (stk_reader ms st) abs), (buf_inv (stk_reader ms st) abs Inv).
    split; [apply (std_buf_lrefines ms cap _ abs Inv Hcap HR)|].
    intros data Hd Hm. destruct (Hinit data Hd Hm) as [HI Ha]. cbn [stk_init stk_reader]. unfold buf_init.
    split; [apply empty_buf_inv, HI|]. rewrite empty_buf_abs. exact Ha.
  - destruct Hok as [Hcap Hok]. destruct (IH Hok) as (abs & Inv & HR & Hinit).
    exists (buf_abs (stk_reader ms st) abs), (buf_inv (stk_reader ms st) abs Inv).
    split; [apply (fut_buf_lrefines ms cap _ abs Inv Hcap HR)|].
    intros data Hd Hm. destruct (Hinit data Hd Hm) as [HI Ha]. cbn [stk_init stk_reader]. unfold buf_init.
    split; [apply empty_buf_inv, HI|]. rewrite empty_buf_abs. exact Ha.
  - destruct (IH Hok) as (abs & Inv & HR & Hinit). exists abs, Inv. split; [apply fwd_lrefines, HR|exact Hinit].
  - destruct (IH Hok) as (abs & Inv & HR & Hinit). exists abs, Inv. split; [apply async_input_lrefines, HR|exact Hinit].
Qed.
