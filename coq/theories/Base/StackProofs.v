(* C11, part 1: the generic simulation lemma for programmes; every adapter stack refines the LENIENT seek-style
   cursor (all operations, also those that leave the stream). *)
From Coq Require Import List NArith ZArith Bool Lia ZifyBool ZifyNat ZifyN.
From MS Require Import Base.Bytes Base.Outcome Base.Cursor Base.Adapters Base.AdaptersSpec Base.AdaptersProofs
     Base.Prog Base.StackReader Base.StackSpec.
Import ListNotations.
Open Scope N_scope.
Arguments N.add : simpl never.
Arguments N.sub : simpl never.
Arguments N.mul : simpl never.
Arguments N.eqb : simpl never.
Arguments N.ltb : simpl never.
Arguments N.leb : simpl never.
Arguments N.min : simpl never.
Arguments N.max : simpl never.

(* ------------------------------------------------------------------------------------------------ *)
(* Two readers related by a simulation (every operation answers the same and re-establishes the relation) give the
   same result for EVERY programme.  Induction on the programme. *)
Lemma run_sim (R1 R2 : Prog.reader) (rel : Prog.rst R1 -> Prog.rst R2 -> Prop) :
  (forall o s1 s2, rel s1 s2 ->
     fst (Prog.rstep R1 o s1) = fst (Prog.rstep R2 o s2) /\ rel (snd (Prog.rstep R1 o s1)) (snd (Prog.rstep R2 o s2))) ->
  forall (A : Type) (p : Prog.prog A) s1 s2, rel s1 s2 ->
    fst (Prog.run R1 p s1) = fst (Prog.run R2 p s2) /\ rel (snd (Prog.run R1 p s1)) (snd (Prog.run R2 p s2)).
Proof.
  intros Hstep A p. induction p as [r|o k IH]; intros s1 s2 Hrel; cbn [Prog.run].
  - cbn [fst snd]. auto.
  - destruct (Hstep o s1 s2 Hrel) as [Hr Hrel'].
    destruct (Prog.rstep R1 o s1) as [a1 s1']. destruct (Prog.rstep R2 o s2) as [a2 s2']. cbn [fst snd] in *.
    subst a2. apply IH, Hrel'.
Qed.

(* ------------------------------------------------------------------------------------------------ *)
(* the bottom: (chunking) cursor with the seek-based Skip *)
Lemma chunk_limit_spec sizes i k : chunk_limit sizes i k <= k /\ (chunk_limit sizes i k = 0 <-> k = 0).
Proof. unfold chunk_limit. destruct sizes; lia. Qed.

Lemma cur_remaining_any c : cur_remaining c = skipn (N.to_nat (cpos c)) (cdata c).
Proof.
  unfold cur_remaining. destruct (N.le_gt_cases (cpos c) (clen c)) as [H|H].
  - now rewrite N.min_l by exact H.
  - rewrite N.min_r by lia. rewrite !skipn_all2; [reflexivity| |]; unfold clen, blen in *; lia.
Qed.

Section Bottom.
  Context (ms : N).
  Notation S := (chunk_seeker ms).
  Notation babs := (fun s : ccur => cc_cur s).
  Notation binv := (fun s : ccur => lwf ms (cc_cur s)).

  Lemma chunk_read_l k s : binv s -> exists l s',
    chunk_read k s = (Ok l, s') /\ l = slice (cdata (babs s)) (cpos (babs s)) (blen l) /\ blen l <= k /\
    (blen l = 0 <-> (k = 0 \/ clen (babs s) <= cpos (babs s))) /\
    babs s' = cmove (babs s) (cpos (babs s) + blen l) /\ binv s'.
  Proof.
    intros (Hl & Hm & Hp & Hu). unfold chunk_read, cursor_read.
    destruct (chunk_limit_spec (cc_sizes s) (cc_idx s) k) as [Hle Hz].
    set (lim := chunk_limit (cc_sizes s) (cc_idx s) k) in *.
    rewrite cur_remaining_any. fold (slice (cdata (cc_cur s)) (cpos (cc_cur s)) lim).
    pose proof (slice_len (cdata (cc_cur s)) (cpos (cc_cur s)) lim) as HL. fold (clen (cc_cur s)) in HL.
    eexists _, _. split; [reflexivity|]. cbn [cc_cur]. rewrite HL.
    split; [apply slice_clip|]. split; [lia|]. split; [lia|]. split; [reflexivity|].
    unfold lwf. rewrite cpos_cmove, !clen_cmove. lia.
  Qed.

  Lemma chunk_seek_to sf s t : binv s -> seek_target ms sf (cc_cur s) = Some t -> t < U64 ->
    s_seek S sf s = (Ok t, {| cc_cur := cmove (cc_cur s) t; cc_sizes := cc_sizes s; cc_idx := cc_idx s |}).
  Proof.
    intros (Hl & Hm & Hp & Hu) Ht HtU. cbn [chunk_seeker s_seek]. unfold chunk_lift, cursor_seek, seek_target in *.
    destruct sf as [n|d|d].
    - destruct ((0 <=? Z.of_N n)%Z && (Z.of_N n <=? Z.of_N ms)%Z) eqn:E; [|discriminate].
      injection Ht as <-. rewrite N2Z.id in *. destruct (N.ltb_spec ms n); [lia|reflexivity].
    - destruct ((0 <=? Z.of_N (cpos (cc_cur s)) + d)%Z && (Z.of_N (cpos (cc_cur s)) + d <=? Z.of_N ms)%Z) eqn:E; [|discriminate].
      injection Ht as <-.
      assert (Hc : ((0 <=? Z.of_N (cpos (cc_cur s)) + d)%Z && (Z.of_N (cpos (cc_cur s)) + d <? Z.of_N U64)%Z &&
                    (Z.of_N (cpos (cc_cur s)) + d <=? Z.of_N ms)%Z) = true) by lia.
      rewrite Hc. reflexivity.
    - destruct ((0 <=? Z.of_N (clen (cc_cur s)) + d)%Z && (Z.of_N (clen (cc_cur s)) + d <=? Z.of_N ms)%Z) eqn:E; [|discriminate].
      injection Ht as <-.
      assert (Hc : ((0 <=? Z.of_N (clen (cc_cur s)) + d)%Z && (Z.of_N (clen (cc_cur s)) + d <? Z.of_N U64)%Z &&
                    (Z.of_N (clen (cc_cur s)) + d <=? Z.of_N ms)%Z) = true) by lia.
      rewrite Hc. reflexivity.
  Qed.

  Lemma lwf_move c t : lwf ms c -> t <= ms -> lwf ms (cmove c t).
  Proof. unfold lwf. rewrite cpos_cmove, clen_cmove. lia. Qed.

  Lemma ccur_eta s : {| cc_cur := cc_cur s; cc_sizes := cc_sizes s; cc_idx := cc_idx s |} = s.
  Proof. destruct s; reflexivity. Qed.

  Lemma bottom_skip_ok a s : binv s -> cpos (cc_cur s) + a <= ms -> exists s',
    ssa_skip S a s = (Ok tt, s') /\ babs s' = cmove (babs s) (cpos (babs s) + a) /\ binv s'.
  Proof.
    intros HI Hw. pose proof HI as (Hl & Hm & Hp & Hu). unfold ssa_skip.
    destruct (N.leb_spec a I64MAX) as [Hsmall|Hbig].
    - destruct (N.eqb_spec a 0) as [->|Hnz].
      + exists s. rewrite N.add_0_r, cmove_same. auto.
      + rewrite (chunk_seek_to (SCurrent (Z.of_N a)) s (cpos (cc_cur s) + a) HI).
        * cbn [sbind]. eexists. split; [reflexivity|]. cbn [cc_cur]. split; [reflexivity|]. apply lwf_move; assumption.
        * unfold seek_target.
          assert (Hc : ((0 <=? Z.of_N (cpos (cc_cur s)) + Z.of_N a)%Z &&
                        (Z.of_N (cpos (cc_cur s)) + Z.of_N a <=? Z.of_N ms)%Z) = true) by lia.
          rewrite Hc. f_equal. lia.
        * unfold U64, U64MAXN in *. lia.
    - cbn [chunk_seeker s_stream_position]. unfold chunk_lift, cursor_stream_position. rewrite ccur_eta. cbn [sbind].
      destruct (N.leb_spec U64 (cpos (cc_cur s) + a)) as [Hov|_]; [unfold U64, U64MAXN in *; lia|].
      rewrite (chunk_seek_to (SStart (cpos (cc_cur s) + a)) s (cpos (cc_cur s) + a) HI).
      + cbn [sbind]. eexists. split; [reflexivity|]. cbn [cc_cur]. split; [reflexivity|]. apply lwf_move; assumption.
      + unfold seek_target.
        assert (Hc : ((0 <=? Z.of_N (cpos (cc_cur s) + a))%Z && (Z.of_N (cpos (cc_cur s) + a) <=? Z.of_N ms)%Z) = true) by lia.
        rewrite Hc. f_equal. lia.
      + unfold U64, U64MAXN in *. lia.
  Qed.

  Lemma bottom_skip_err a s : binv s -> ms < cpos (cc_cur s) + a -> exists s',
    ssa_skip S a s = (EIo (skip_err a (cpos (babs s))), s') /\ babs s' = babs s /\ binv s'.
  Proof.
    intros HI Hw. pose proof HI as (Hl & Hm & Hp & Hu). unfold ssa_skip, skip_err.
    destruct (N.leb_spec a I64MAX) as [Hsmall|Hbig].
    - destruct (N.eqb_spec a 0) as [->|Hnz]; [lia|].
      destruct (N.ltb_spec I64MAX a) as [|_]; [lia|]. cbn [andb].
      cbn [chunk_seeker s_seek]. unfold chunk_lift, cursor_seek.
      assert (Hc : ((0 <=? Z.of_N (cpos (cc_cur s)) + Z.of_N a)%Z && (Z.of_N (cpos (cc_cur s)) + Z.of_N a <? Z.of_N U64)%Z &&
                    (Z.of_N (cpos (cc_cur s)) + Z.of_N a <=? Z.of_N ms)%Z) = false) by lia.
      rewrite Hc. cbn [sbind]. rewrite ccur_eta. exists s. auto.
    - destruct (N.ltb_spec I64MAX a) as [_|]; [|lia]. cbn [andb].
      cbn [chunk_seeker s_stream_position]. unfold chunk_lift, cursor_stream_position. rewrite ccur_eta. cbn [sbind].
      destruct (N.leb_spec U64 (cpos (cc_cur s) + a)) as [Hov|Hno].
      + destruct (N.ltb_spec U64MAXN (cpos (cc_cur s) + a)) as [_|]; [|unfold U64, U64MAXN in *; lia]. exists s. auto.
      + destruct (N.ltb_spec U64MAXN (cpos (cc_cur s) + a)) as [|_]; [unfold U64, U64MAXN in *; lia|].
        cbn [chunk_seeker s_seek]. unfold chunk_lift, cursor_seek.
        destruct (N.ltb_spec ms (cpos (cc_cur s) + a)) as [_|]; [|lia]. cbn [sbind]. rewrite ccur_eta. exists s. auto.
  Qed.

  Lemma bottom_pos s : binv s -> exists s', ssa_pos S s = (Ok (cpos (babs s)), s') /\ babs s' = babs s /\ binv s'.
  Proof.
    intros HI. unfold ssa_pos. cbn [chunk_seeker s_stream_position]. unfold chunk_lift, cursor_stream_position.
    rewrite ccur_eta. exists s. auto.
  Qed.

  Lemma bottom_len s : binv s -> exists s', ssa_len S s = (Ok (clen (babs s)), s') /\ babs s' = babs s /\ binv s'.
  Proof.
    intros HI. pose proof HI as (Hl & Hm & Hp & Hu). unfold ssa_len.
    cbn [chunk_seeker s_stream_position]. unfold chunk_lift at 1, cursor_stream_position. rewrite ccur_eta. cbn [sbind].
    rewrite (chunk_seek_to (SEnd 0%Z) s (clen (cc_cur s)) HI).
    2:{ unfold seek_target.
        assert (Hc : ((0 <=? Z.of_N (clen (cc_cur s)) + 0)%Z && (Z.of_N (clen (cc_cur s)) + 0 <=? Z.of_N ms)%Z) = true) by lia.
        rewrite Hc. f_equal. lia. }
    2:{ unfold U64, I64MAX in *. lia. }
    cbn [sbind].
    destruct (N.eqb_spec (cpos (cc_cur s)) (clen (cc_cur s))) as [Heq|Hne].
    - eexists. split; [reflexivity|]. cbn [cc_cur]. rewrite <- Heq, cmove_same. auto.
    - set (s2 := {| cc_cur := cmove (cc_cur s) (clen (cc_cur s)); cc_sizes := cc_sizes s; cc_idx := cc_idx s |}).
      assert (HI2 : binv s2) by (apply lwf_move; assumption).
      rewrite (chunk_seek_to (SStart (cpos (cc_cur s))) s2 (cpos (cc_cur s)) HI2).
      + cbn [sbind]. eexists. split; [reflexivity|]. cbn [cc_cur s2]. rewrite cmove_cmove, cmove_same. auto.
      + unfold seek_target.
        assert (Hc : ((0 <=? Z.of_N (cpos (cc_cur s)))%Z && (Z.of_N (cpos (cc_cur s)) <=? Z.of_N ms)%Z) = true) by lia.
        rewrite Hc. f_equal. lia.
      + unfold U64, U64MAXN in *. lia.
  Qed.

  Lemma bottom_lrefines_cursor : lrefines ms (seekable_reader S) babs binv.
  Proof.
    unfold lrefines. cbn [seekable_reader rread rskip rpos rlen Adapters.rst].
    split; [auto|]. split; [exact chunk_read_l|]. split; [exact bottom_skip_ok|]. split; [exact bottom_skip_err|].
    split; [exact bottom_pos|exact bottom_len].
  Qed.
  Lemma bottom_lrefines_seek : lrefines ms (seek_adapter S) babs binv.
  Proof.
    unfold lrefines. cbn [seek_adapter rread rskip rpos rlen Adapters.rst].
    split; [auto|]. split; [exact chunk_read_l|]. split; [exact bottom_skip_ok|]. split; [exact bottom_skip_err|].
    split; [exact bottom_pos|exact bottom_len].
  Qed.
End Bottom.
