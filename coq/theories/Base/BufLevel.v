(* LEVEL B: the reader the MP4 sanitizer really talks to -- futures_util::io::BufReader (capacity BoxHeader::MAX_SIZE = 32)
   with mediasan's `impl AsyncSkip for BufReader<R>` over an INNER stream -- as a [reader] of Base/Prog.v whose state
   carries the buffer, the inner stream position, a counter of inner operations, an optional fault (inner operation
   index, error kind) and the trace of inner operations.  Running a programme over this reader yields the sequence of
   INNER operations (read / skip / stream_position / stream_len on the wrapped input) that the implementation issues,
   so fault indices (C13) and metered traces (C10) of model and implementation line up exactly.

   Sources (read, not verified): futures-util 0.3.34 src/io/buf_reader.rs (poll_read: bypass when the buffer is empty
   and the request is >= capacity; poll_fill_buf reads only when pos >= cap; consume clamps), read_exact.rs (loop of
   poll_read, Ok(0) => UnexpectedEof, errors propagate, no retry), fill_buf.rs; /repo/common/src/async_skip.rs
   (poll_skip: inner skip of amount - buffered, omitted when 0, then consume; stream_position = inner - buffered,
   saturating; stream_len forwarded).  The inner stream is the ideal stream over an [input]: a read returns
   min(asked, remaining) bytes; skip is strict or lenient exactly as [cursor_step].  Definitions only. *)
From Coq Require Import List NArith Bool.
From Coq.Strings Require Import Byte.
From MS Require Import Base.Bytes Base.Outcome Base.Prog.
Import ListNotations.
Open Scope N_scope.

Inductive iop := IRead (n : N) | ISkip (n : N) | IPos | ILen.
Inductive ians := ABytes (l : bytes) | AUnit | ANum (n : N) | AErr (e : ioerr).

(* one inner operation as the metering reader records it: the operation, the stream offset before it, what it returned
   (bytes read / the number answered / 0) or the error *)
Record ievent := { ie_op : iop; ie_off : N; ie_ret : N; ie_err : option ioerr }.

Record lb := {
  lb_buf : bytes;                       (* buffer[pos..cap]: bytes read from the inner stream and not yet consumed *)
  lb_pos : N;                           (* position of the inner stream *)
  lb_cnt : N;                           (* inner operations issued so far *)
  lb_fault : option (N * ioerr);        (* fail the inner operation with this index, with this error kind *)
  lb_trace : list ievent                (* inner operations, latest first *)
}.

Definition lb_init (fault : option (N * ioerr)) : lb :=
  {| lb_buf := []; lb_pos := 0; lb_cnt := 0; lb_fault := fault; lb_trace := [] |}.

Definition blen (l : bytes) : N := N.of_nat (length l).

Section LevelB.
  Context (inp : input) (lenient : bool) (max_seek : N) (cap : N).

  (* the ideal inner stream *)
  Definition inner_ideal (o : iop) (pos : N) : ians * N :=
    match o with
    | IRead n => let k := N.min n (ilen inp - pos) in (ABytes (iread inp pos (N.to_nat k)), pos + k)
    | ISkip n =>
        match cursor_step inp lenient max_seek (OSkip n) pos with
        | (RErr e, p) => (AErr e, p)
        | (_, p) => (AUnit, p)
        end
    | IPos => (ANum pos, pos)
    | ILen => (ANum (ilen inp), pos)
    end.

  Definition ans_ret (a : ians) : N := match a with ABytes l => blen l | ANum n => n | _ => 0 end.
  Definition ans_err (a : ians) : option ioerr := match a with AErr e => Some e | _ => None end.

  (* one inner operation: counted, recorded, failed if it is the faulty one (a failed operation has no effect) *)
  Definition inner (o : iop) (s : lb) : ians * lb :=
    let faulty := match lb_fault s with Some (k, e) => if k =? lb_cnt s then Some e else None | None => None end in
    let '(a, p) := match faulty with Some e => (AErr e, lb_pos s) | None => inner_ideal o (lb_pos s) end in
    (a, {| lb_buf := lb_buf s; lb_pos := p; lb_cnt := lb_cnt s + 1; lb_fault := lb_fault s;
           lb_trace := {| ie_op := o; ie_off := lb_pos s; ie_ret := ans_ret a; ie_err := ans_err a |} :: lb_trace s |}).

  Definition set_buf (s : lb) (b : bytes) : lb :=
    {| lb_buf := b; lb_pos := lb_pos s; lb_cnt := lb_cnt s; lb_fault := lb_fault s; lb_trace := lb_trace s |}.

  (* an inner answer of the wrong kind: the inner stream above never gives one *)
  Definition bad : ioerr := EInterrupted.

  (* BufReader::poll_fill_buf *)
  Definition lb_fill (s : lb) : option ioerr * lb :=
    match lb_buf s with
    | [] => match inner (IRead cap) s with
            | (ABytes l, s') => (None, set_buf s' l)
            | (AErr e, s') => (Some e, s')
            | (_, s') => (Some bad, s')
            end
    | _ :: _ => (None, s)
    end.

  (* BufReader::poll_read with a k-byte destination (k > 0) *)
  Definition lb_read (k : N) (s : lb) : (bytes + ioerr) * lb :=
    match lb_buf s with
    | [] =>
        if cap <=? k then
          match inner (IRead k) s with           (* bypass; discard_buffer: the buffer is empty already *)
          | (ABytes l, s') => (inl l, s')
          | (AErr e, s') => (inr e, s')
          | (_, s') => (inr bad, s')
          end
        else
          match lb_fill s with
          | (Some e, s') => (inr e, s')
          | (None, s') => let n := N.to_nat (N.min k (blen (lb_buf s'))) in
                          (inl (firstn n (lb_buf s')), set_buf s' (skipn n (lb_buf s')))
          end
    | _ :: _ => let n := N.to_nat (N.min k (blen (lb_buf s))) in
                (inl (firstn n (lb_buf s)), set_buf s (skipn n (lb_buf s)))
    end.

  (* ReadExact: while !buf.is_empty() { n = poll_read(buf)?; if n == 0 { UnexpectedEof } }.
     exact = false: the plain read loop of OReadUpTo (Ok(0) ends it).  Over the ideal inner stream at most four rounds
     are needed (buffer, refill or bypass, end of stream); the fuel is never exhausted (answer [bad] if it were). *)
  Fixpoint lb_read_loop (exact : bool) (fuel : nat) (k : N) (acc : bytes) (s : lb) : resp * lb :=
    if k =? 0 then (RBytes acc, s) else
    match fuel with
    | O => (RErr bad, s)
    | S fuel' =>
        match lb_read k s with
        | (inl l, s') =>
            if blen l =? 0 then (if exact then (RErr EUnexpectedEof, s') else (RBytes acc, s'))
            else lb_read_loop exact fuel' (k - blen l) (acc ++ l) s'
        | (inr e, s') => (RErr e, s')
        end
    end.

  (* impl AsyncSkip for BufReader<R>::poll_skip *)
  Definition lb_skip (n : N) (s : lb) : resp * lb :=
    let bl := blen (lb_buf s) in
    if bl <=? n then
      if n - bl =? 0 then (RUnit, set_buf s [])
      else match inner (ISkip (n - bl)) s with
           | (AErr e, s') => (RErr e, s')
           | (_, s') => (RUnit, set_buf s' [])
           end
    else (RUnit, set_buf s (skipn (N.to_nat n) (lb_buf s))).

  Definition lb_step (o : op) (s : lb) : resp * lb :=
    match o with
    | OFillEmpty =>
        match lb_fill s with
        | (Some e, s') => (RErr e, s')
        | (None, s') => (RBool (match lb_buf s' with [] => true | _ => false end), s')
        end
    | OReadExact n => lb_read_loop true 8 n [] s
    | OReadUpTo n => lb_read_loop false 8 n [] s
    | OSkip n => lb_skip n s
    | OPos =>
        match inner IPos s with
        | (ANum p, s') => (RNum (p - blen (lb_buf s')), s')        (* saturating_sub *)
        | (AErr e, s') => (RErr e, s')
        | (_, s') => (RErr bad, s')
        end
    | OLen =>
        match inner ILen s with
        | (ANum n, s') => (RNum n, s')
        | (AErr e, s') => (RErr e, s')
        | (_, s') => (RErr bad, s')
        end
    | OAlloc _ => (RUnit, s)
    end.

  Definition level_b : reader := {| rst := lb; rstep := lb_step |}.
End LevelB.

(* a run of a programme over Level B: the result, the number of inner operations, the inner trace (oldest first) *)
Definition run_b {A} (inp : input) (lenient : bool) (max_seek cap : N) (fault : option (N * ioerr)) (p : prog A)
  : res A * N * list ievent :=
  let '(r, s) := run (level_b inp lenient max_seek cap) p (lb_init fault) in (r, lb_cnt s, rev (lb_trace s)).

(* the allocation events of a run (sizes, in order) *)
Fixpoint allocs_of (tr : list (op * N)) : list N :=
  match tr with
  | [] => []
  | (OAlloc n, _) :: r => n :: allocs_of r
  | _ :: r => allocs_of r
  end.
