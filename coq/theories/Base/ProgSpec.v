(* Vocabulary for statements about programmes over an abstract reader (Base/Prog.v): fault results, traces on the
   ideal cursor, monitors.  Definitions only; the lemmas are in Base/ProgProofs.v. *)
From Coq Require Import List NArith Bool.
From Coq.Strings Require Import Byte.
From MS Require Import Base.Bytes Base.Outcome Base.Prog.
Import ListNotations.
Open Scope N_scope.

(* ================================================================================================ *)
(* 1. fault propagation (C13) *)
(* the parse errors an UnexpectedEof may turn into *)
Definition truncation (pe : perr) : Prop := pe = TruncatedBox \/ pe = TruncatedChunk.

(* what a failed I/O operation (error kind e) must make of the whole run *)
(* T: the parse errors an UnexpectedEof may turn into in the programme at hand *)
Definition fault_result {A} (T : perr -> Prop) (e : ioerr) (r : res A) : Prop :=
  r = EIo e \/ (e = EUnexpectedEof /\ exists pe, T pe /\ r = EParse pe).

(* every I/O operation answers an error response RErr e by returning at once: Io e, or a truncation parse error
   when e = UnexpectedEof (a map_eof site); allocation events ignore their response *)
Inductive propagating {A} (T : perr -> Prop) : prog A -> Prop :=
  | P_ret r : propagating T (Ret r)
  | P_io o k :
      is_io o = true ->
      (forall e, exists r, k (RErr e) = Ret r /\ fault_result T e r) ->
      (forall a, propagating T (k a)) ->
      propagating T (Do o k)
  | P_alloc n k :
      (forall a b, k a = k b) ->
      (forall a, propagating T (k a)) ->
      propagating T (Do (OAlloc n) k).

(* the first error answer of a run over a reader that fails by itself *)
Fixpoint first_err {A} (R : reader) (p : prog A) (s : rst R) : option (op * ioerr) :=
  match p with
  | Ret _ => None
  | Do o k =>
      let '(a, s') := rstep R o s in
      match a with
      | RErr e => if is_io o then Some (o, e) else first_err R (k a) s'
      | _ => first_err R (k a) s'
      end
  end.

(* ================================================================================================ *)
(* 2. traces on the ideal cursor (C10) *)
(* the trace of a run, head first *)
Definition trace_of {A} (R : reader) posof (p : prog A) (s : rst R) : list (op * N) :=
  snd (run_trace R posof p s []).

(* the interval of the input an operation of the ideal cursor looks at, as (start, length) *)
Definition read_span (inp : input) (o : op) (pos : N) : option (N * N) :=
  match o with
  | OReadExact n => if (n =? 0) || (pos + n <=? ilen inp) then Some (pos, n) else None
  | OReadUpTo n => Some (pos, N.min n (ilen inp - pos))
  | _ => None
  end.

(* two inputs agree on everything the operations of a trace look at *)
Definition agree_on (i1 i2 : input) (tr : list (op * N)) : Prop :=
  forall o pos st n j, In (o, pos) tr -> read_span i1 o pos = Some (st, n) -> st <= j < st + n -> iget i1 j = iget i2 j.

(* the interval an operation passes over when it succeeds: reads and skips *)
Definition covered (inp : input) (lenient : bool) (ms : N) (o : op) (pos : N) : N :=
  match o with
  | OReadExact n => if (n =? 0) || (pos + n <=? ilen inp) then n else 0
  | OReadUpTo n => N.min n (ilen inp - pos)
  | OSkip n => if lenient then (if pos + n <=? ms then n else 0) else (if pos + n <=? ilen inp then n else 0)
  | _ => 0
  end.

(* ================================================================================================ *)
(* 3. monitors: state machines over (operation, answer) pairs *)
Section Monitor.
  (* V: what is assumed of the reader's answers (fun _ _ => True: nothing) *)
  Context {M : Type} (V : op -> resp -> Prop) (mstep : M -> op -> resp -> option M).

  (* [obeys Q m p]: started in monitor state m, every operation p issues is allowed by the monitor whatever (valid)
     answer the reader gives, and when p returns r in monitor state m', Q m' r holds *)
  Fixpoint obeys {A} (Q : M -> res A -> Prop) (m : M) (p : prog A) : Prop :=
    match p with
    | Ret r => Q m r
    | Do o k => forall a, V o a -> exists m', mstep m o a = Some m' /\ obeys Q m' (k a)
    end.

  (* the reader's answers are valid *)
  Definition answers_valid (R : reader) : Prop := forall o (s : rst R), V o (fst (rstep R o s)).

  (* the monitor state at the end of a run (None: the monitor refused an operation) *)
  Fixpoint mon_final {A} (R : reader) (p : prog A) (s : rst R) (m : M) : option M :=
    match p with
    | Ret _ => Some m
    | Do o k => let '(a, s') := rstep R o s in
                match mstep m o a with Some m' => mon_final R (k a) s' m' | None => None end
    end.

  (* P holds of (monitor state, reader state, operation, answer) at every step of the run, and the monitor never
     refuses *)
  Fixpoint all_steps {A} (R : reader) (P : M -> rst R -> op -> resp -> Prop) (p : prog A) (s : rst R) (m : M) : Prop :=
    match p with
    | Ret _ => True
    | Do o k => let '(a, s') := rstep R o s in
                P m s o a /\ match mstep m o a with Some m' => all_steps R P (k a) s' m' | None => False end
    end.

  (* an invariant I on (monitor state, reader state) that every allowed step preserves and that implies P *)
  Definition step_invariant (R : reader) (I : M -> rst R -> Prop) (P : M -> rst R -> op -> resp -> Prop) : Prop :=
    forall m s o m', I m s -> mstep m o (fst (rstep R o s)) = Some m' ->
                     P m s o (fst (rstep R o s)) /\ I m' (snd (rstep R o s)).
End Monitor.
