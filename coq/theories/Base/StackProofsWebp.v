(* C11, part 5: the WebP sanitizer programme through the views. *)
From Coq Require Import List NArith ZArith Bool Lia ZifyBool ZifyNat ZifyN.
From MS Require Import Base.Bytes Base.Outcome Base.Cursor Base.Adapters Base.AdaptersSpec
     Base.Prog Base.StackReader Base.StackSpec Base.StackProofsTop Webp.Container.
Import ListNotations.
Open Scope N_scope.

(* any two stacks over the same bytes: the same result of the WebP sanitizer, whatever the lossless validator is *)
Lemma webp_same_result (lossless : N -> N -> bytes -> res unit) (allow_unknown : bool) (fuel : nat) (ms : N)
      (st1 st2 : stk) (data : bytes) :
  stk_ok st1 -> stk_ok st2 -> blen data <= I64MAX -> ms_ok (blen data) ms ->
  fst (Prog.run (webp_view ms st1) (webp_prog lossless allow_unknown fuel) (webp_view_init ms st1 data)) =
  fst (Prog.run (webp_view ms st2) (webp_prog lossless allow_unknown fuel) (webp_view_init ms st2 data)).
Proof. intros H1 H2 Hd Hms. unfold webp_view, webp_view_init. apply same_result; auto; lia. Qed.

(* ... and it is Webp.Container.webp_sanitize over the lenient ideal cursor *)
Lemma webp_view_is_cursor (lossless : N -> N -> bytes -> res unit) (allow_unknown : bool) (fuel : nat) (ms : N)
      (st : stk) (data : bytes) (inp : input) :
  stk_ok st -> blen data <= I64MAX -> ms_ok (blen data) ms -> inp_is inp data ->
  fst (Prog.run (webp_view ms st) (webp_prog lossless allow_unknown fuel) (webp_view_init ms st data)) =
  webp_sanitize lossless allow_unknown true ms inp fuel.
Proof.
  intros H1 Hd Hms Hinp. unfold webp_view, webp_view_init, webp_sanitize. apply view_refines_cursor; auto; lia.
Qed.
