(* Which operations a programme can issue, on every branch and for every answer: [ops_in P p].
   Closed under pbind and the do_* wrappers; [ops_walk] walks the syntax of a programme.
   Used to show that the MP4 sanitizer never issues OReadUpTo (the plain read loop exists for webpsan's lossless
   path only), which lets its run over the poll-level BufReader (Base/AsyncSan.v) be identified with its run over the
   stack reader of Base/StackReader.v. *)
From Coq Require Import List NArith Bool.
From MS Require Import Base.Bytes Base.Outcome Base.Prog.
Import ListNotations.
Open Scope N_scope.

Inductive ops_in {A} (P : op -> Prop) : prog A -> Prop :=
  | OI_ret r : ops_in P (Ret r)
  | OI_do o k : P o -> (forall a, ops_in P (k a)) -> ops_in P (Do o k).

Section OpsIn.
  Context (P : op -> Prop).

  Lemma ops_in_pbind {A B} (p : prog A) (f : A -> prog B) :
    ops_in P p -> (forall a, ops_in P (f a)) -> ops_in P (pbind p f).
  Proof.
    intros Hp Hf. induction Hp as [r | o k Ho Hk IH].
    - destruct r; cbn [pbind]; try constructor. apply Hf.
    - cbn [pbind]. constructor; [exact Ho | exact IH].
  Qed.

  Lemma ops_in_io_err {A} eof e : ops_in P (@io_err A eof e).
  Proof. unfold io_err. destruct e, eof; constructor. Qed.
  Lemma ops_in_lift {A} (r : res A) : ops_in P (lift r).
  Proof. constructor. Qed.

  Lemma ops_in_fill_empty : P OFillEmpty -> ops_in P do_fill_empty.
  Proof. intros H. constructor; [exact H|]. intros [b|l| |n|e]; try constructor. apply ops_in_io_err. Qed.
  Lemma ops_in_read_exact n eof : P (OReadExact n) -> ops_in P (do_read_exact n eof).
  Proof. intros H. constructor; [exact H|]. intros [b|l| |m|e]; try constructor. apply ops_in_io_err. Qed.
  Lemma ops_in_read_upto n : P (OReadUpTo n) -> ops_in P (do_read_upto n).
  Proof. intros H. constructor; [exact H|]. intros [b|l| |m|e]; try constructor. apply ops_in_io_err. Qed.
  Lemma ops_in_skip n eof : P (OSkip n) -> ops_in P (do_skip n eof).
  Proof. intros H. constructor; [exact H|]. intros [b|l| |m|e]; try constructor. apply ops_in_io_err. Qed.
  Lemma ops_in_pos : P OPos -> ops_in P do_pos.
  Proof. intros H. constructor; [exact H|]. intros [b|l| |m|e]; try constructor. apply ops_in_io_err. Qed.
  Lemma ops_in_len : P OLen -> ops_in P do_len.
  Proof. intros H. constructor; [exact H|]. intros [b|l| |m|e]; try constructor. apply ops_in_io_err. Qed.
  Lemma ops_in_alloc n : P (OAlloc n) -> ops_in P (do_alloc n).
  Proof. intros H. constructor; [exact H|]. intros; constructor. Qed.
End OpsIn.

(* the operation set of the MP4 sanitizer: everything but the plain read loop *)
Definition not_upto (o : op) : Prop := match o with OReadUpTo _ => False | _ => True end.

Ltac ops_walk :=
  repeat first
    [ apply OI_ret
    | apply ops_in_lift
    | apply ops_in_fill_empty; exact I
    | apply ops_in_pos; exact I
    | apply ops_in_len; exact I
    | apply ops_in_alloc; exact I
    | apply ops_in_read_exact; exact I
    | apply ops_in_skip; exact I
    | apply ops_in_pbind; [|intros]
    | match goal with
      | |- ops_in _ (if ?b then _ else _) => destruct b
      | |- ops_in _ (match ?x with _ => _ end) => destruct x
      | |- ops_in _ (let _ := _ in _) => cbv zeta
      end ].

(* two readers over the same state type that answer every operation in P alike run such programmes alike *)
Lemma run_ops_in_eq {A S} (P : op -> Prop) (f g : op -> S -> resp * S) :
  forall (p : prog A), ops_in P p -> (forall o s, P o -> f o s = g o s) ->
  forall s, run {| rst := S; rstep := f |} p s = run {| rst := S; rstep := g |} p s.
Proof.
  intros p Hp Hstep. induction Hp as [r | o k Ho Hk IH]; intros s; cbn [run rstep].
  - reflexivity.
  - rewrite (Hstep o s Ho). destruct (g o s) as [a s']. apply IH.
Qed.
